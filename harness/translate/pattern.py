"""mir_eval/pattern.py metrics -> lean/MirGen/Pattern.lean   (AST based; mir_eval is never imported).   Part `pattern` (C04, C01).

One SHALLOW Lean definition per translated function, `Mir.Gen.pattern.<function>` (a closure `g` of `f` becomes
`Mir.Gen.pattern.f.g`), over the run-time library `lean/MirModel/PyPat.lean` (`Mir.PyPat`: its definitions ARE the
semantic assumptions of this translator) + a driver handler (`Mir.Gen.Pattern.handler`, protocol op
`gen.pattern <"function"> <args...>`, `gen.pattern "?"` = the functions translated on this run).
`MirProofs/Props/C04_GenPattern.lean` proves every generated definition equal to the hand model `MirModel/Pattern.lean`
for ALL pattern lists.  `validate` / `_n_onset_midi` are NOT emitted here: part `validators` regenerates them as
`Mir.GenV.pattern.*` and calls of them are bound to those definitions.

Reuses the shared helpers of `scalars.py` (identifiers, rationals, `Unsupported`); the statement forms below (loops with
`break`, matrix-filling loops, closures) are not in any earlier part's subset, so they are implemented here.

The translator fails closed.  THE SUBSET (anything else => `Unsupported` => the function is not emitted => problem):

  def f(p1, p2=<literal>)   no decorators / *args / **kwargs; parameter kinds by NAME (PARAM_KINDS; checked against the
                            numpydoc text where there is one).  Nested `def`s (closures) may read only their own
                            parameters and other functions; a closure with a parameter `layer` is SPECIALISED to the integer
                            literal passed at each call site (`compute_layer` -> `compute_layer_1`, `compute_layer_2`; tests
                            `layer == k` / `layer != k` are folded, `func = g` in a folded branch is a static alias).
  statements  docstring; `x = e`; `a, b, c = f(...)`; `x += e`; call statement of `validate`; `raise Exc(...)`;
              `return e` / `return e1, e2, e3`; `if/elif/else` (a branch that ends in return / raise / break / continue takes
              the rest of the block into the other branch; otherwise the names assigned in the branches are joined);
              `for x in xs:` / `for i, x in enumerate(xs):` with `break` / `continue` and loop-carried names ->
              `PyPat.forLoop` (no `return` inside, no `else`);
              `M = np.zeros((a, b))` + LATER nested loops `for i, x in enumerate(X): for j, y in enumerate(Y): ...;
              M[i, j] = e` (or `for i in range(a): for j in range(b):` reading `X[i]`, `Y[j]`), where `a` / `b` are
              `len(X)` / `len(Y)` (directly or through a once-assigned name), every path of the inner body ends in that one
              assignment or raises, and `i`, `j` are used for nothing else -> `PyPat.fill2 X Y (fun x y => ...)`
              (outer loop over the columns: `fill2T`).
  expressions literals; locals; `len(x)`; `float(n)`; `x[0]`; `np.asarray(x)`; `P - Q`, `np.diff(m, axis=0)`, `np.abs(m)`,
              `np.max(m)` / `np.min(m)` on point arrays; `np.max([a, b])` / `np.min([a, b])` on ints; `np.max(M)`,
              `np.max(M, axis=0|1)`, `np.mean(v)` on matrices / vectors; `int / float` (ZeroDivisionError) ; `k + 1`;
              `set([tuple(v) for v in occ])`, `a & b`; comparisons (chains included), `and` / `or` (short-circuit kept when
              a later operand can raise), `not`; `s == "literal"`; `xs[: e]`, `min(a, b)`; calls of translated functions
              (positional / keyword arguments, defaults filled in); `util.f_measure(p, r)` (extern: the hand model's
              `fMeasure`), `_n_onset_midi(x)`, `validate(r, e)` (externs: `Mir.GenV.pattern.*`).

`python harness/translate/pattern.py [repo]` prints the generated file.
"""
import ast
import copy
import os
import sys
from fractions import Fraction

try:
    from translate import write_if_changed
    from translate.scalars import Unsupported, lean_rat, indent
    from translate.scalars import ident as _ident
except ImportError:  # run as a script
    sys.path.insert(0, os.path.dirname(os.path.dirname(os.path.abspath(__file__))))
    from translate import write_if_changed
    from translate.scalars import Unsupported, lean_rat, indent
    from translate.scalars import ident as _ident

EXTRA_KEYWORDS = {"matches", "is", "only", "using", "generalizing", "hiding", "renaming", "extends", "deriving",
                  "infixl", "infixr", "set_option", "omit", "include", "elab", "meta", "public", "module", "id"}


def ident(name):
    if name in EXTRA_KEYWORDS:
        return "«%s»" % name
    return _ident(name)


WANTED = ["_occurrence_intersection", "_compute_score_matrix", "standard_FPR", "establishment_FPR", "occurrence_FPR",
          "three_layer_FPR", "first_n_three_layer_P", "first_n_target_proportion_R"]

# parameter kinds by name (the numpydoc text of the public functions says "list" for the pattern lists)
PARAM_KINDS = {
    "reference_patterns": "pats", "estimated_patterns": "pats",
    "occ_P": "occ", "occ_Q": "occ", "ref_occs": "occ", "est_occs": "occ",
    "P": "pat", "Q": "pat", "ref_pattern": "pat", "est_pattern": "pat",
    "similarity_metric": "str", "tol": "rat", "thres": "rat", "n": "int",
}
ELEM = {"pats": "pat", "pat": "occ", "occ": "pt"}
PP = "Mir.PyPat."


def lean_type(t):
    if isinstance(t, tuple):
        return "(" + " × ".join(lean_type(x) for x in t[1]) + ")"
    return {"nat": "Nat", "int": "Int", "rat": "Rat", "npf": "Rat", "bool": "Bool", "str": "String", "unit": "Unit",
            "pats": PP + "Pats", "pat": PP + "Pat", "occ": PP + "Occ", "pt": PP + "Pt", "arr2": "(List (List Rat))",
            "vec": "(List Rat)", "mat": PP + "Mat", "set": "(List " + PP + "Pt)", "omat": PP + "OMat",
            "rel": "(List (Nat × Nat))", "idxs": "(List Nat)"}[t]


def isnum(t):
    return t in ("nat", "int", "rat", "npf")


class Sig:
    def __init__(self, lean, params, ret):
        self.lean, self.params, self.ret = lean, params, ret    # params: [(name, type, default lean term | None)]


class Ctx:
    """translation state of one function body"""

    def __init__(self, tr, fname):
        self.tr, self.fname = tr, fname
        self.env = {}          # python name -> type
        self.zeros = {}        # matrix name -> (shape expr 0, shape expr 1) declared, not yet filled
        self.alias = {}        # name -> ast dump of the expression it was (once) assigned
        self.idx = {}          # fill index variable -> (list name, element lean name, element type)
        self.ntmp = 0
        self.loop = None       # state variable names of the enclosing forLoop (list) | None
        self.cell = None       # (matrix, i, j) of the enclosing fill | None
        self.consts = {}       # specialised parameters: name -> int
        self.funcalias = {}    # static function aliases (`func = g`)
        self.join, self.ret, self.shared = None, None, None
        self.zeros3 = {}       # (a, b, 2) array name -> [X, Y] declared, not yet filled
        self.relpend = set()   # `np.empty((0, 2), dtype=int)` index lists declared, not yet filled
        self.tail = None       # what ends the body of a sparse fill
        self.jointypes = None  # types the joined names are cast to

    def tmp(self):
        self.ntmp += 1
        return "_t%d" % self.ntmp


def dump(e):
    return ast.dump(e)


class Translator:
    def __init__(self, tree):
        self.tree = tree
        self.sigs = {}         # python (qualified) name -> Sig
        self.out = []          # emitted definitions (lists of lines)
        self.names = []

    # ---------------------------------------------------------------- expressions
    # expr(e, c, pre) -> (lean term, type); monadic steps are appended to `pre` in evaluation order

    def const_int(self, e, c):
        if isinstance(e, ast.Constant) and isinstance(e.value, int) and not isinstance(e.value, bool):
            return e.value
        if isinstance(e, ast.Name) and e.id in c.consts:
            return c.consts[e.id]
        return None

    def expr(self, e, c, pre, want=None):
        if isinstance(e, ast.Constant):
            v = e.value
            if isinstance(v, bool):
                return ("true" if v else "false"), "bool"
            if isinstance(v, int):
                if want in ("rat", "npf"):
                    return lean_rat(v), "rat"
                if want == "int" or v < 0:
                    return "(%d : Int)" % v, "int"
                return "(%d : Nat)" % v, "nat"
            if isinstance(v, float):
                return lean_rat(Fraction(repr(v))), "rat"
            if isinstance(v, str):
                if not all(32 <= ord(ch) < 127 and ch not in '"\\' for ch in v):
                    raise Unsupported("string literal", e)
                return '"%s"' % v, "str"
            raise Unsupported("literal %r" % (v,), e)
        if isinstance(e, ast.Name):
            if e.id in c.consts:
                return "(%d : Nat)" % c.consts[e.id], "nat"
            if e.id not in c.env:
                raise Unsupported("name %r is not a bound local" % e.id, e)
            return ident(e.id), c.env[e.id]
        if isinstance(e, ast.Tuple):
            parts = [self.expr(x, c, pre, want) for x in e.elts]
            return "(" + ", ".join(p[0] for p in parts) + ")", ("tuple", [p[1] for p in parts])
        if isinstance(e, ast.UnaryOp) and isinstance(e.op, ast.Not):
            t, ty = self.expr(e.operand, c, pre)
            if ty != "bool":
                raise Unsupported("not of a non-bool", e)
            return "(!%s)" % t, "bool"
        if isinstance(e, ast.BoolOp):
            return self.boolop(e, c, pre)
        if isinstance(e, ast.Compare):
            return self.compare(e, c, pre)
        if isinstance(e, ast.BinOp):
            return self.binop(e, c, pre)
        if isinstance(e, ast.Subscript):
            return self.subscript(e, c, pre)
        if isinstance(e, ast.Call):
            return self.call(e, c, pre)
        raise Unsupported("expression %s" % type(e).__name__, e)

    def cast(self, term, ty, to):
        if ty == to or (ty in ("rat", "npf") and to in ("rat", "npf")):
            return term
        if ty == "nat" and to in ("rat", "npf"):
            return "((%s : Nat) : Rat)" % term
        if ty == "nat" and to == "int":
            return "((%s : Nat) : Int)" % term
        if ty == "int" and to in ("rat", "npf"):
            return "((%s : Int) : Rat)" % term
        raise Unsupported("cannot read %s as %s" % (ty, to))

    def join_num(self, a, b):
        order = ["nat", "int", "rat"]
        a = "rat" if a == "npf" else a
        b = "rat" if b == "npf" else b
        return order[max(order.index(a), order.index(b))]

    def boolop(self, e, c, pre):
        isor = isinstance(e.op, ast.Or)
        parts = []
        for v in e.values:
            p = []
            t, ty = self.expr(v, c, p)
            if ty != "bool":
                raise Unsupported("and/or of a non-bool", e)
            parts.append((p, t))
        # fold from the right; an operand with monadic steps is evaluated only when reached
        p, acc = parts[-1]
        acc_m = p
        for p, t in reversed(parts[:-1]):
            if acc_m:
                inner = "(do " + "; ".join(acc_m + ["pure %s" % acc]) + ")"
                tmp = c.tmp()
                step = ("let %s : Bool ← (if %s then pure true else %s)" if isor
                        else "let %s : Bool ← (if %s then %s else pure false)") % (tmp, t, inner)
                acc_m = p + [step]
                acc = tmp
            else:
                acc = "(%s %s %s)" % (t, "||" if isor else "&&", acc)
                acc_m = p
        pre.extend(acc_m)
        return acc, "bool"

    CMP = {ast.Lt: "<", ast.LtE: "≤", ast.Gt: ">", ast.GtE: "≥", ast.Eq: "=", ast.NotEq: "≠"}

    def compare(self, e, c, pre):
        operands = [e.left] + list(e.comparators)
        terms = []
        for o in operands:
            if isinstance(o, ast.Constant) and not isinstance(o.value, str):
                terms.append(None)
            else:
                terms.append(self.expr(o, c, pre))
        out = []
        for k, op in enumerate(e.ops):
            if type(op) not in self.CMP:
                raise Unsupported("comparison %s" % type(op).__name__, e)
            a, b = terms[k], terms[k + 1]
            if a is None and b is None:
                raise Unsupported("comparison of two literals", e)
            if a is None:
                a = self.expr(operands[k], c, pre, want=b[1])
            if b is None:
                b = self.expr(operands[k + 1], c, pre, want=a[1])
            if a[1] == "str" and b[1] == "str" and isinstance(op, (ast.Eq, ast.NotEq)):
                out.append("(decide (%s %s %s))" % (a[0], self.CMP[type(op)], b[0]))
                continue
            if not (isnum(a[1]) and isnum(b[1])):
                raise Unsupported("comparison of %s and %s" % (a[1], b[1]), e)
            j = self.join_num(a[1], b[1])
            out.append("(decide (%s %s %s))" % (self.cast(a[0], a[1], j), self.CMP[type(op)], self.cast(b[0], b[1], j)))
        return (out[0] if len(out) == 1 else "(" + " && ".join(out) + ")"), "bool"

    def binop(self, e, c, pre):
        if isinstance(e.op, ast.BitAnd):
            a, ta = self.expr(e.left, c, pre)
            b, tb = self.expr(e.right, c, pre)
            if ta == tb == "set":
                return "(%ssetInter %s %s)" % (PP, a, b), "set"
            raise Unsupported("& of %s and %s" % (ta, tb), e)
        a, ta = self.expr(e.left, c, pre)
        b, tb = self.expr(e.right, c, pre)
        if isinstance(e.op, ast.Sub) and ta == tb == "arr2":
            t = c.tmp()
            pre.append("let %s : %s ← %smsub %s %s" % (t, lean_type("arr2"), PP, a, b))
            return t, "arr2"
        if isinstance(e.op, ast.Add) and ta == "nat" and tb == "nat":
            return "(%s + %s)" % (a, b), "nat"
        if isinstance(e.op, ast.Div) and isnum(ta) and tb == "rat":
            # int / Python float: ZeroDivisionError
            t = c.tmp()
            pre.append("let %s : Rat ← %sdivF %s %s" % (t, PP, self.cast(a, ta, "rat"), b))
            return t, "rat"
        raise Unsupported("operator %s on %s, %s" % (type(e.op).__name__, ta, tb), e)

    def subscript(self, e, c, pre):
        s = e.slice
        if isinstance(e.value, ast.Name) and isinstance(s, ast.Name) and s.id in c.idx:
            lst, elem, ty = c.idx[s.id]
            if e.value.id != lst:
                raise Unsupported("index %r used on %r" % (s.id, e.value.id), e)
            return elem, ty
        v, tv = self.expr(e.value, c, pre)
        full = lambda q: isinstance(q, ast.Slice) and q.lower is None and q.upper is None and q.step is None  # noqa: E731
        if tv == "omat" and isinstance(s, ast.Tuple) and len(s.elts) == 3 and full(s.elts[0]) and full(s.elts[1]) \
                and self.const_int(s.elts[2], c) in (0, 1):
            return "(%splane%d %s)" % (PP, self.const_int(s.elts[2], c), v), "mat"
        if tv == "rel" and isinstance(s, ast.Tuple) and len(s.elts) == 2 and full(s.elts[0]) \
                and self.const_int(s.elts[1], c) in (0, 1):
            return "(%srelCol%d %s)" % (PP, self.const_int(s.elts[1], c), v), "idxs"
        if tv == "mat" and isinstance(s, ast.Call) and self.callee_name(s.func, c) == "np.ix_" and len(s.args) == 2 \
                and not s.keywords:
            a, ta = self.expr(s.args[0], c, pre)
            b, tb = self.expr(s.args[1], c, pre)
            if ta != "idxs" or tb != "idxs":
                raise Unsupported("np.ix_ of %s, %s" % (ta, tb), e)
            t = c.tmp()
            pre.append("let %s : %sMat ← %six %s %s %s" % (t, PP, PP, v, a, b))
            return t, "mat"
        if isinstance(s, ast.Slice):
            if s.lower is not None or s.step is not None or s.upper is None or tv not in ELEM:
                raise Unsupported("slice", e)
            u, tu = self.expr(s.upper, c, pre, want="int")
            return "(Mir.Pattern.pySliceTo %s %s)" % (v, self.cast(u, tu, "int")), tv
        if isinstance(s, ast.Constant) and s.value == 0 and tv in ELEM:
            t = c.tmp()
            pre.append("let %s : %s ← %sgetItem0 %s" % (t, lean_type(ELEM[tv]), PP, v))
            return t, ELEM[tv]
        raise Unsupported("subscript", e)

    def callee_name(self, f, c):
        if isinstance(f, ast.Name):
            return c.funcalias.get(f.id, f.id)
        if isinstance(f, ast.Attribute) and isinstance(f.value, ast.Name):
            return f.value.id + "." + f.attr
        return None

    def kw(self, e, name):
        for k in e.keywords:
            if k.arg == name:
                return k.value
        return None

    def call(self, e, c, pre):
        fn = self.callee_name(e.func, c)
        if fn is None:
            raise Unsupported("call of a computed function", e)
        args = e.args
        nk = len(e.keywords)

        def one(n=1, kws=()):
            if len(args) != n or any(k.arg not in kws for k in e.keywords):
                raise Unsupported("arguments of %s" % fn, e)

        if fn == "len":
            one()
            v, tv = self.expr(args[0], c, pre)
            if tv in ("pats", "pat", "occ", "pt", "arr2", "set", "vec", "rel"):
                return "(List.length %s)" % v, "nat"
            raise Unsupported("len of %s" % tv, e)
        if fn == "float":
            one()
            v, tv = self.expr(args[0], c, pre)
            if tv in ("nat", "int"):
                return self.cast(v, tv, "rat"), "rat"
            raise Unsupported("float of %s" % tv, e)
        if fn == "min" and len(args) == 2 and not nk:
            a, ta = self.expr(args[0], c, pre, want="int")
            b, tb = self.expr(args[1], c, pre, want="int")
            if ta in ("nat", "int") and tb in ("nat", "int"):
                return "(%sminInt %s %s)" % (PP, self.cast(a, ta, "int"), self.cast(b, tb, "int")), "int"
            raise Unsupported("min of %s, %s" % (ta, tb), e)
        if fn == "tuple":
            one()
            v, tv = self.expr(args[0], c, pre)
            if tv != "pt":
                raise Unsupported("tuple of %s" % tv, e)
            return "(%stuple %s)" % (PP, v), "pt"
        if fn == "set":
            one()
            a = args[0]
            if not (isinstance(a, ast.ListComp) and len(a.generators) == 1 and not a.generators[0].ifs
                    and isinstance(a.generators[0].target, ast.Name) and not a.generators[0].is_async):
                raise Unsupported("set of something else than a simple list comprehension", e)
            g = a.generators[0]
            it, ti = self.expr(g.iter, c, pre)
            if ti != "occ":
                raise Unsupported("comprehension over %s" % ti, e)
            c2 = copy.copy(c)
            c2.env = dict(c.env)
            c2.env[g.target.id] = "pt"
            p2 = []
            body, tb = self.expr(a.elt, c2, p2)
            if p2 or tb != "pt":
                raise Unsupported("comprehension element", e)
            return "(%ssetOf (List.map (fun (%s : %sPt) => %s) %s))" % (PP, ident(g.target.id), PP, body, it), "set"
        if fn in ("np.asarray", "np.array"):
            one()
            v, tv = self.expr(args[0], c, pre)
            if tv != "occ":
                raise Unsupported("asarray of %s" % tv, e)
            return "(%sasarray %s)" % (PP, v), "arr2"
        if fn == "np.diff":
            one(1, ("axis",))
            ax = self.kw(e, "axis")
            v, tv = self.expr(args[0], c, pre)
            if tv != "arr2" or ax is None or self.const_int(ax, c) != 0:
                raise Unsupported("np.diff other than (array, axis=0)", e)
            return "(%sdiff0 %s)" % (PP, v), "arr2"
        if fn == "np.abs":
            one()
            v, tv = self.expr(args[0], c, pre)
            if tv != "arr2":
                raise Unsupported("np.abs of %s" % tv, e)
            return "(%smabs %s)" % (PP, v), "arr2"
        if fn in ("np.max", "np.min"):
            one(1, ("axis",))
            ax = self.kw(e, "axis")
            a = args[0]
            if isinstance(a, ast.List) and len(a.elts) == 2 and ax is None:
                x, tx = self.expr(a.elts[0], c, pre)
                y, ty = self.expr(a.elts[1], c, pre)
                if tx == ty == "nat":
                    return "(Nat.%s %s %s)" % (fn[3:], x, y), "nat"
                raise Unsupported("%s of a list of %s, %s" % (fn, tx, ty), e)
            v, tv = self.expr(a, c, pre)
            t = c.tmp()
            if tv == "arr2" and ax is None:
                pre.append("let %s : Rat ← %s%s %s" % (t, PP, "npMaxArr" if fn == "np.max" else "npMinArr", v))
                return t, "npf"
            if tv == "mat" and fn == "np.max":
                if ax is None:
                    pre.append("let %s : Rat ← %snpMaxMat %s" % (t, PP, v))
                    return t, "npf"
                k = self.const_int(ax, c)
                if k in (0, 1):
                    pre.append("let %s : List Rat ← %smaxAxis%d %s" % (t, PP, k, v))
                    return t, "vec"
            raise Unsupported("%s of %s" % (fn, tv), e)
        if fn == "np.mean":
            one()
            v, tv = self.expr(args[0], c, pre)
            if tv != "vec":
                raise Unsupported("np.mean of %s" % tv, e)
            t = c.tmp()
            pre.append("let %s : Rat ← %snpMean %s" % (t, PP, v))
            return t, "npf"
        if fn == "util.f_measure":
            one(2)
            a, ta = self.expr(args[0], c, pre, want="rat")
            b, tb = self.expr(args[1], c, pre, want="rat")
            if not (isnum(ta) and isnum(tb)):
                raise Unsupported("f_measure of %s, %s" % (ta, tb), e)
            return "(Mir.fMeasure %s %s)" % (self.cast(a, ta, "rat"), self.cast(b, tb, "rat")), "npf"
        if fn == "_n_onset_midi":
            one()
            v, tv = self.expr(args[0], c, pre)
            if tv != "pats":
                raise Unsupported("_n_onset_midi of %s" % tv, e)
            t = c.tmp()
            pre.append("let %s : Nat ← Mir.GenV.pattern._n_onset_midi %s" % (t, v))
            return t, "nat"
        # closures first (qualified by the enclosing function), then module functions
        sig, spec = None, None
        for q in (c.fname.split(".")[0] + "." + fn, fn):
            if q in self.sigs:
                sig = self.sigs[q]
                break
            if q in self.pending_spec:
                spec = q
                break
        if spec is not None:
            sig = self.specialise(spec, e, c)
        if sig is None:
            raise Unsupported("call of %s" % fn, e)
        vals = {}
        if len(args) > len(sig.params):
            raise Unsupported("too many arguments for %s" % fn, e)
        for (pn, pt, pd), a in zip(sig.params, args):
            vals[pn] = a
        for k in e.keywords:
            if k.arg is None or k.arg in vals or k.arg not in [p[0] for p in sig.params] + list(sig.dropped):
                raise Unsupported("keyword argument of %s" % fn, e)
            vals[k.arg] = k.value
        terms = []
        for pn, pt, pd in sig.params:
            if pn in vals:
                t, ty = self.expr(vals[pn], c, pre, want=pt)
                if isnum(ty) and isnum(pt):
                    t = self.cast(t, ty, pt)
                elif ty != pt:
                    raise Unsupported("argument %s of %s: %s for %s" % (pn, fn, ty, pt), e)
                terms.append(t)
            elif pd is not None:
                terms.append(pd)
            else:
                raise Unsupported("missing argument %s of %s" % (pn, fn), e)
        t = c.tmp()
        pre.append("let %s : %s ← %s %s" % (t, lean_type(sig.ret), sig.lean, " ".join(terms)))
        return t, sig.ret

    # ---------------------------------------------------------------- statements

    def terminates(self, stmts):
        if not stmts:
            return False
        s = stmts[-1]
        if isinstance(s, (ast.Return, ast.Raise, ast.Break, ast.Continue)):
            return True
        if isinstance(s, ast.If):
            return self.terminates(s.body) and self.terminates(s.orelse)
        return False

    def assigned(self, stmts):
        out = []
        for s in stmts:
            if isinstance(s, ast.Assign):
                for t in s.targets:
                    for n in ([t] if isinstance(t, ast.Name) else getattr(t, "elts", [])):
                        if isinstance(n, ast.Name) and n.id not in out:
                            out.append(n.id)
            elif isinstance(s, ast.AugAssign) and isinstance(s.target, ast.Name):
                if s.target.id not in out:
                    out.append(s.target.id)
            elif isinstance(s, ast.If):
                for n in self.assigned(s.body) + self.assigned(s.orelse):
                    if n not in out:
                        out.append(n)
            elif isinstance(s, ast.For):
                for n in self.assigned(s.body):
                    if n not in out:
                        out.append(n)
        return out

    def state_term(self, names):
        if not names:
            return "()"
        return names[0] if len(names) == 1 else "(" + ", ".join(names) + ")"

    def fallthrough(self, c, node=None):
        if c.tail is not None:
            return c.tail(c)
        if c.join is not None and c.jointypes is not None:
            return ["pure %s" % self.state_term([self.cast(ident(n), c.env[n], c.jointypes[n]) for n in c.join])]
        if c.loop is not None:
            return ["pure (%sStep.next %s)" % (PP, self.state_term([ident(n) for n in c.loop]))]
        if c.join is not None:
            return ["pure %s" % self.state_term([ident(n) for n in c.join])]
        raise Unsupported("a path reaches the end of the body without `return`", node)

    def block(self, stmts, c):
        """lines of a `do` block for `stmts` (and what follows them in the context)"""
        if not stmts:
            return self.fallthrough(c)
        s, rest = stmts[0], stmts[1:]
        if isinstance(s, ast.Expr) and isinstance(s.value, ast.Constant) and isinstance(s.value.value, str):
            return self.block(rest, c)
        if isinstance(s, ast.Pass):
            return self.block(rest, c)
        if isinstance(s, ast.FunctionDef):
            return self.block(rest, c)            # closures are emitted before their parent
        if isinstance(s, ast.Expr) and isinstance(s.value, ast.Call):
            fn = self.callee_name(s.value.func, c)
            if fn == "validate" and len(s.value.args) == 2 and not s.value.keywords:
                pre = []
                a = [self.expr(x, c, pre) for x in s.value.args]
                if [x[1] for x in a] != ["pats", "pats"]:
                    raise Unsupported("validate of %s" % [x[1] for x in a], s)
                return pre + ["Mir.GenV.pattern.validate %s %s" % (a[0][0], a[1][0])] + self.block(rest, c)
            raise Unsupported("call statement of %s" % fn, s)
        if isinstance(s, ast.Raise):
            if rest:
                raise Unsupported("statements after raise", s)
            return [self.raise_(s)]
        if isinstance(s, ast.Return):
            if rest:
                raise Unsupported("statements after return", s)
            if c.loop is not None or c.cell is not None or c.join is not None or s.value is None:
                raise Unsupported("return inside a loop / joined branch", s)
            pre = []
            t, ty = self.expr(s.value, c, pre, want="rat")
            t, ty = self.ret_cast(t, ty, c, s)
            return pre + ["pure %s" % t]
        if isinstance(s, ast.Break) or isinstance(s, ast.Continue):
            if rest or c.loop is None or c.join is not None:
                raise Unsupported("break / continue here", s)
            k = "brk" if isinstance(s, ast.Break) else "next"
            return ["pure (%sStep.%s %s)" % (PP, k, self.state_term([ident(n) for n in c.loop]))]
        if isinstance(s, ast.AugAssign):
            if not (isinstance(s.target, ast.Name) and isinstance(s.op, ast.Add) and s.target.id in c.env):
                raise Unsupported("augmented assignment", s)
            pre = []
            v, tv = self.expr(ast.BinOp(left=ast.Name(id=s.target.id, ctx=ast.Load()), op=ast.Add(), right=s.value),
                              c, pre)
            if tv != c.env[s.target.id]:
                raise Unsupported("augmented assignment changes the type", s)
            return pre + ["let %s : %s := %s" % (ident(s.target.id), lean_type(tv), v)] + self.block(rest, c)
        if isinstance(s, ast.Assign):
            return self.assign(s, rest, c)
        if isinstance(s, ast.If):
            return self.if_(s, rest, c)
        if isinstance(s, ast.For):
            return self.for_(s, rest, c)
        raise Unsupported("statement %s" % type(s).__name__, s)

    def ret_cast(self, t, ty, c, node):
        """all returns of one function have one type; numbers are joined to Rat"""
        def norm(x):
            if isinstance(x, tuple):
                return ("tuple", [norm(y) for y in x[1]])
            return "rat" if isnum(x) else x
        if isinstance(ty, tuple):
            if not all(isnum(x) for x in ty[1]):
                raise Unsupported("tuple result of %s" % (ty,), node)
            if any(x in ("nat", "int") for x in ty[1]):
                raise Unsupported("integer in a float tuple", node)
        elif ty in ("nat", "int"):
            raise Unsupported("integer result", node)
        n = norm(ty)
        if c.ret is None:
            c.ret = n
        elif c.ret != n:
            raise Unsupported("returns of different types: %s, %s" % (c.ret, n), node)
        return t, n

    def raise_(self, s):
        exc = s.exc
        if isinstance(exc, ast.Call):
            exc = exc.func
        if isinstance(exc, ast.Name) and exc.id == "ValueError":
            return "throw PyErr.valueError"
        raise Unsupported("raise of something else than ValueError", s)

    def assign(self, s, rest, c):
        if len(s.targets) != 1:
            raise Unsupported("chained assignment", s)
        tg = s.targets[0]
        # cell of a matrix fill
        if isinstance(tg, ast.Subscript):
            if c.cell is None or rest or c.join is not None:
                raise Unsupported("subscript assignment outside a matrix-filling loop (or not its last statement)", s)
            m, i, j = c.cell
            sl = tg.slice
            if not (isinstance(tg.value, ast.Name) and tg.value.id == m and isinstance(sl, ast.Tuple)
                    and len(sl.elts) == 2 and all(isinstance(x, ast.Name) for x in sl.elts)
                    and [x.id for x in sl.elts] == [i, j]):
                raise Unsupported("assignment to another cell than %s[%s, %s]" % (m, i, j), s)
            pre = []
            v, tv = self.expr(s.value, c, pre, want="rat")
            if not isnum(tv):
                raise Unsupported("cell value of type %s" % tv, s)
            return pre + ["pure %s" % self.cast(v, tv, "rat")]
        # M = np.zeros((a, b))
        if (isinstance(tg, ast.Name) and isinstance(s.value, ast.Call)
                and self.callee_name(s.value.func, c) == "np.zeros"):
            a = s.value.args
            if tg.id in c.env or tg.id in c.zeros or tg.id in c.zeros3:
                raise Unsupported("matrix %r re-declared" % tg.id, s)
            if (len(a) == 1 and not s.value.keywords and isinstance(a[0], ast.Tuple) and len(a[0].elts) == 3
                    and self.const_int(a[0].elts[2], c) == 2):
                c.zeros3[tg.id] = [self.resolve_len(x, c) for x in a[0].elts[:2]]
                return ["-- %s = np.zeros((., ., 2)): filled below" % tg.id] + self.block(rest, c)
            if not (len(a) == 1 and not s.value.keywords and isinstance(a[0], ast.Tuple) and len(a[0].elts) == 2):
                raise Unsupported("np.zeros of another shape than (a, b) / (a, b, 2)", s)
            c.zeros[tg.id] = [self.resolve_len(x, c) for x in a[0].elts]
            return ["-- %s = np.zeros(...): filled below" % tg.id] + self.block(rest, c)
        # rel_idx = np.empty((0, 2), dtype=int)
        if (isinstance(tg, ast.Name) and isinstance(s.value, ast.Call)
                and self.callee_name(s.value.func, c) == "np.empty"):
            a, kws = s.value.args, s.value.keywords
            ok = (len(a) == 1 and isinstance(a[0], ast.Tuple) and [self.const_int(x, c) for x in a[0].elts] == [0, 2]
                  and len(kws) == 1 and kws[0].arg == "dtype" and isinstance(kws[0].value, ast.Name)
                  and kws[0].value.id == "int")
            if not ok or tg.id in c.env or tg.id in c.relpend:
                raise Unsupported("np.empty other than ((0, 2), dtype=int)", s)
            c.relpend.add(tg.id)
            return ["-- %s = np.empty((0, 2), dtype=int): filled below" % tg.id] + self.block(rest, c)
        # func = g  (static alias, only under a folded test)
        if isinstance(tg, ast.Name) and isinstance(s.value, ast.Name) and s.value.id not in c.env \
                and s.value.id not in c.consts and self.is_function(s.value.id, c):
            c.funcalias[tg.id] = s.value.id
            return self.block(rest, c)
        pre = []
        if isinstance(tg, ast.Tuple):
            if not all(isinstance(x, ast.Name) for x in tg.elts):
                raise Unsupported("unpacking target", s)
            v, tv = self.expr(s.value, c, pre)
            if not (isinstance(tv, tuple) and len(tv[1]) == len(tg.elts)):
                raise Unsupported("unpacking of %s" % (tv,), s)
            for x, t in zip(tg.elts, tv[1]):
                c.env[x.id] = t
            return pre + ["let (%s) := %s" % (", ".join(ident(x.id) for x in tg.elts), v)] + self.block(rest, c)
        if not isinstance(tg, ast.Name):
            raise Unsupported("assignment target", s)
        if tg.id in c.zeros or tg.id in c.idx or tg.id in c.consts:
            raise Unsupported("assignment to %r" % tg.id, s)
        v, tv = self.expr(s.value, c, pre)
        if tg.id in c.env and c.env[tg.id] != tv:
            raise Unsupported("%r changes its type (%s -> %s)" % (tg.id, c.env[tg.id], tv), s)
        if tg.id in c.alias or tg.id in c.env:
            c.alias[tg.id] = None            # assigned more than once: no alias
        else:
            c.alias[tg.id] = dump(s.value)
        c.env[tg.id] = tv
        return pre + ["let %s : %s := %s" % (ident(tg.id), lean_type(tv), v)] + self.block(rest, c)

    def is_function(self, name, c):
        q = c.fname.split(".")[0] + "." + name
        return q in self.sigs or name in self.sigs or q in self.pending_spec or q in self.pending_lazy

    def resolve_len(self, e, c):
        """the list X such that `e` is `len(X)` (directly or through a once-assigned local)"""
        if isinstance(e, ast.Name) and c.alias.get(e.id):
            d = c.alias[e.id]
            for n, t in c.env.items():
                if t in ELEM and d == dump(ast.Call(func=ast.Name(id="len", ctx=ast.Load()),
                                                   args=[ast.Name(id=n, ctx=ast.Load())], keywords=[])):
                    return n
        if (isinstance(e, ast.Call) and isinstance(e.func, ast.Name) and e.func.id == "len" and len(e.args) == 1
                and not e.keywords and isinstance(e.args[0], ast.Name) and c.env.get(e.args[0].id) in ELEM):
            return e.args[0].id
        raise Unsupported("matrix dimension that is not len(<list>)", e)

    def fold_test(self, t, c):
        """True / False when the test is decided by the specialised constants, else None"""
        if isinstance(t, ast.Compare) and len(t.ops) == 1 and isinstance(t.ops[0], (ast.Eq, ast.NotEq)):
            a, b = self.const_int(t.left, c), self.const_int(t.comparators[0], c)
            if a is not None and b is not None and (isinstance(t.left, ast.Name) or isinstance(t.comparators[0], ast.Name)):
                return (a == b) if isinstance(t.ops[0], ast.Eq) else (a != b)
        if isinstance(t, ast.BoolOp):
            vs = [self.fold_test(v, c) for v in t.values]
            if all(v is not None for v in vs):
                return all(vs) if isinstance(t.op, ast.And) else any(vs)
        return None

    def if_(self, s, rest, c):
        f = self.fold_test(s.test, c)
        if f is not None:
            return ["-- `if` decided by the specialised parameter"] + self.block((s.body if f else s.orelse) + rest, c)
        pre = []
        t, ty = self.expr(s.test, c, pre)
        if ty != "bool":
            raise Unsupported("condition of type %s" % ty, s)
        tb, te = self.terminates(s.body), self.terminates(s.orelse)
        if tb or te:
            cb, ce = self.fork(c), self.fork(c)
            lb = self.block(s.body + ([] if tb else rest), cb)
            le = self.block(s.orelse + ([] if te else rest), ce)
            self.merge_ret(c, cb, ce)
            return pre + ["if %s then do" % t] + indent(lb) + ["else do"] + indent(le)
        # neither branch leaves: join the names assigned in them
        ab, ae = self.assigned(s.body), self.assigned(s.orelse)
        # a name assigned on one path only and not defined before is local to that path
        names = [n for n in self.assigned(s.body + s.orelse) if (n in ab and n in ae) or n in c.env]
        cb, ce = self.fork(c), self.fork(c)
        cb.join = ce.join = names
        cb.loop = ce.loop = None
        saved_cell = c.cell
        cb.cell = ce.cell = None
        lb = self.block(s.body, cb)
        le = self.block(s.orelse, ce)
        jt = {}
        for n in names:
            tb_, te_ = cb.env.get(n), ce.env.get(n)
            if tb_ is None or te_ is None:
                raise Unsupported("%r is not defined on both paths" % n, s)
            if tb_ != te_:
                if not (isnum(tb_) and isnum(te_)):
                    raise Unsupported("%r has two types" % n, s)
                tb_ = self.join_num(tb_, te_)        # e.g. the int 0 on one path, an np.float64 on the other
            jt[n] = tb_
        if any(cb.env[n] != jt[n] or ce.env[n] != jt[n] for n in names):
            cb, ce = self.fork(c), self.fork(c)
            cb.join = ce.join = names
            cb.loop = ce.loop = None
            cb.cell = ce.cell = None
            cb.jointypes = ce.jointypes = jt
            lb = self.block(s.body, cb)
            le = self.block(s.orelse, ce)
        for n in names:
            c.env[n] = jt[n]
            c.alias[n] = None
        c.ntmp = max(cb.ntmp, ce.ntmp)
        c.cell = saved_cell
        ty_ = lean_type(c.env[names[0]]) if len(names) == 1 else "(" + " × ".join(lean_type(c.env[n]) for n in names) + ")"
        if len(names) == 1:
            head = "let %s : %s ← (if %s then do" % (ident(names[0]), ty_, t)
        else:
            head = "let (%s) ← (show Py %s from if %s then do" % (", ".join(ident(n) for n in names), ty_, t)
        return pre + [head] + indent(lb, 4) + ["  else do"] + indent(le, 4) + ["  )"] + self.block(rest, c)

    def fork(self, c):
        c2 = copy.copy(c)
        c2.env = dict(c.env)
        c2.alias = dict(c.alias)
        c2.zeros = dict(c.zeros)
        c2.funcalias = dict(c.funcalias)
        c2.zeros3 = dict(c.zeros3)
        c2.relpend = set(c.relpend)
        c2.shared = c.shared
        return c2

    def merge_ret(self, c, *cs):
        for x in cs:
            c.ntmp = max(c.ntmp, x.ntmp)
            if x.ret is not None:
                if c.ret is not None and c.ret != x.ret:
                    raise Unsupported("returns of different types")
                c.ret = x.ret

    def loop_head(self, s, c):
        """(index name | None, element name | None, list name, 'enum' | 'plain' | 'range')"""
        if s.orelse:
            raise Unsupported("for ... else", s)
        it = s.iter
        if isinstance(it, ast.Call) and isinstance(it.func, ast.Name) and it.func.id == "enumerate" \
                and len(it.args) == 1 and not it.keywords and isinstance(it.args[0], ast.Name) \
                and isinstance(s.target, ast.Tuple) and len(s.target.elts) == 2 \
                and all(isinstance(x, ast.Name) for x in s.target.elts):
            return s.target.elts[0].id, s.target.elts[1].id, it.args[0].id, "enum"
        if isinstance(it, ast.Call) and isinstance(it.func, ast.Name) and it.func.id == "range" \
                and len(it.args) == 1 and not it.keywords and isinstance(s.target, ast.Name):
            return s.target.id, None, self.resolve_len(it.args[0], c), "range"
        if isinstance(it, ast.Name) and isinstance(s.target, ast.Name):
            return None, s.target.id, it.id, "plain"
        raise Unsupported("loop header", s)

    def find_cell(self, stmts):
        for n in ast.walk(ast.Module(body=stmts, type_ignores=[])):
            if isinstance(n, ast.Assign) and isinstance(n.targets[0], ast.Subscript) \
                    and isinstance(n.targets[0].value, ast.Name):
                return n.targets[0]
        return None

    def for_(self, s, rest, c):
        i, x, X, kind = self.loop_head(s, c)
        if c.env.get(X) not in ELEM:
            raise Unsupported("loop over %r of type %s" % (X, c.env.get(X)), s)
        cell = self.find_cell(s.body)
        if cell is not None and cell.value.id in c.zeros:
            return self.fill(s, rest, c, cell)
        if cell is not None and cell.value.id in c.zeros3:
            return self.fill_sparse(s, rest, c, cell)
        if kind != "plain" and kind != "enum":
            raise Unsupported("range loop outside a matrix fill", s)
        if c.join is not None:
            raise Unsupported("loop inside a joined branch", s)
        state = [n for n in self.assigned(s.body) if n in c.env]
        cb = self.fork(c)
        cb.loop = state
        cb.cell = None
        cb.env[x] = ELEM[c.env[X]]
        cb.alias[x] = None
        body = self.block(s.body, cb)
        c.ntmp = cb.ntmp
        for n in state:
            if cb.env[n] != c.env[n]:
                raise Unsupported("%r changes its type in the loop" % n, s)
            c.alias[n] = None
        st = self.state_term([ident(n) for n in state])
        sty = "Unit" if not state else (lean_type(c.env[state[0]]) if len(state) == 1
                                        else "(" + " × ".join(lean_type(c.env[n]) for n in state) + ")")
        bind = "fun (%s : %s) (%s : %s) => do" % (ident(x), lean_type(ELEM[c.env[X]]),
                                                   "_" if not state else ("_s" if len(state) > 1 else st), sty)
        unpack = ["let %s := _s" % st] if len(state) > 1 else []
        head = "let %s : %s ← %sforLoop %s %s (%s" % ("_" if not state else st, sty, PP, ident(X), st, bind)
        return [head] + indent(unpack + body, 4) + ["  )"] + self.block(rest, c)

    def fill(self, s, rest, c, cell):
        M = cell.value.id
        if c.join is not None or c.loop is not None or c.cell is not None:
            raise Unsupported("matrix fill inside another construct", s)
        i, x, X, kind = self.loop_head(s, c)
        if len(s.body) != 1 or not isinstance(s.body[0], ast.For) or i is None:
            raise Unsupported("matrix fill that is not two directly nested indexed loops", s)
        inner = s.body[0]
        j, y, Y, kind2 = self.loop_head(inner, c)
        if j is None or c.env.get(Y) not in ELEM:
            raise Unsupported("inner loop of the matrix fill", inner)
        sl = cell.slice
        if not (isinstance(sl, ast.Tuple) and len(sl.elts) == 2 and all(isinstance(q, ast.Name) for q in sl.elts)):
            raise Unsupported("matrix cell index", cell)
        ids = [q.id for q in sl.elts]
        shape = c.zeros[M]
        if ids == [i, j] and shape == [X, Y]:
            prim, rows, cols = "fill2", (X, x, i), (Y, y, j)
        elif ids == [j, i] and shape == [Y, X]:
            prim, rows, cols = "fill2T", (Y, y, j), (X, x, i)
        else:
            raise Unsupported("matrix %s%s is filled at [%s] by loops over %s, %s" % (M, shape, ", ".join(ids), X, Y), cell)
        cb = self.fork(c)
        cb.cell = (M, ids[0], ids[1])
        binders = []
        for (L, el, ix) in (rows, cols):
            ety = ELEM[c.env[L]]
            if el is None:
                el = "%s_%s" % (L, ix)
                cb.idx[ix] = (L, ident(el), ety)
                cb.idx = dict(cb.idx)
            else:
                cb.env[el] = ety
                cb.alias[el] = None
            binders.append("(%s : %s)" % (ident(el), lean_type(ety)))
        body = self.block(inner.body, cb)
        c.ntmp = cb.ntmp
        del c.zeros[M]
        c.env[M] = "mat"
        c.alias[M] = None
        head = "let %s : %sMat ← %s%s %s %s (fun %s => do" % (ident(M), PP, PP, prim, ident(rows[0]), ident(cols[0]),
                                                              " ".join(binders))
        return [head] + indent(body, 4) + ["  )"] + self.block(rest, c)

    def fill_sparse(self, s, rest, c, cell):
        """O = np.zeros((len X, len Y, 2)); rel = np.empty((0, 2), dtype=int); for i, x in enumerate(X): for j, y in
        enumerate(Y): ...; if cond: O[i, j, 0] = e0; O[i, j, 1] = e1; rel = np.vstack((rel, [i, j]))"""
        O = cell.value.id
        if c.join is not None or c.loop is not None or c.cell is not None or c.tail is not None:
            raise Unsupported("sparse fill inside another construct", s)
        i, x, X, kind = self.loop_head(s, c)
        if len(s.body) != 1 or not isinstance(s.body[0], ast.For) or kind != "enum":
            raise Unsupported("sparse fill that is not two directly nested enumerate loops", s)
        inner = s.body[0]
        j, y, Y, kind2 = self.loop_head(inner, c)
        if kind2 != "enum" or c.env.get(Y) not in ELEM or c.zeros3[O] != [X, Y]:
            raise Unsupported("loops of the sparse fill do not run over the array's dimensions", inner)
        last = inner.body[-1] if inner.body else None
        if not (isinstance(last, ast.If) and not last.orelse and len(last.body) == 3):
            raise Unsupported("sparse fill: the inner body must end in `if c: O[i,j,0]=..; O[i,j,1]=..; rel = np.vstack(..)`", inner)
        vals, rel = {}, None
        for st in last.body:
            if not (isinstance(st, ast.Assign) and len(st.targets) == 1):
                raise Unsupported("statement in the storing branch", st)
            tg = st.targets[0]
            if isinstance(tg, ast.Subscript) and isinstance(tg.value, ast.Name) and tg.value.id == O \
                    and isinstance(tg.slice, ast.Tuple) and len(tg.slice.elts) == 3 \
                    and [getattr(q, "id", None) for q in tg.slice.elts[:2]] == [i, j] \
                    and self.const_int(tg.slice.elts[2], c) in (0, 1) and self.const_int(tg.slice.elts[2], c) not in vals:
                vals[self.const_int(tg.slice.elts[2], c)] = st.value
            elif isinstance(tg, ast.Name) and tg.id in c.relpend and rel is None:
                v = st.value
                ok = (isinstance(v, ast.Call) and self.callee_name(v.func, c) == "np.vstack" and len(v.args) == 1
                      and not v.keywords and isinstance(v.args[0], ast.Tuple) and len(v.args[0].elts) == 2
                      and isinstance(v.args[0].elts[0], ast.Name) and v.args[0].elts[0].id == tg.id
                      and isinstance(v.args[0].elts[1], ast.List)
                      and [getattr(q, "id", None) for q in v.args[0].elts[1].elts] == [i, j])
                if not ok:
                    raise Unsupported("index list update other than np.vstack((rel, [i, j]))", st)
                rel = tg.id
            else:
                raise Unsupported("statement in the storing branch", st)
        if sorted(vals) != [0, 1] or rel is None:
            raise Unsupported("storing branch must set both planes and the index list", last)

        def tail(cc):
            cc = self.fork(cc)
            cc.tail = None
            pre = []
            t, ty = self.expr(last.test, cc, pre)
            if ty != "bool":
                raise Unsupported("condition of type %s" % ty, last)
            p2 = []
            e0, t0 = self.expr(vals[0], cc, p2, want="rat")
            e1, t1 = self.expr(vals[1], cc, p2, want="rat")
            if not (isnum(t0) and isnum(t1)):
                raise Unsupported("stored values of types %s, %s" % (t0, t1), last)
            c.ntmp = max(c.ntmp, cc.ntmp)
            self._sparse_ntmp = cc.ntmp
            return pre + ["if %s then do" % t] + indent(p2 + ["pure (some (%s, %s))" % (self.cast(e0, t0, "rat"),
                                                                                       self.cast(e1, t1, "rat"))]) \
                + ["else do", "  pure none"]
        cb = self.fork(c)
        cb.tail = tail
        cb.env[x] = ELEM[c.env[X]]
        cb.env[y] = ELEM[c.env[Y]]
        cb.alias[x] = cb.alias[y] = None
        self._sparse_ntmp = cb.ntmp
        body = self.block(inner.body[:-1], cb)
        c.ntmp = max(cb.ntmp, self._sparse_ntmp)
        del c.zeros3[O]
        c.relpend.discard(rel)
        c.env[O], c.env[rel] = "omat", "rel"
        c.alias[O] = c.alias[rel] = None
        head = "let (%s, %s) ← %sfillOpt %s %s (fun (%s : %s) (%s : %s) => do" % (
            ident(O), ident(rel), PP, ident(X), ident(Y), ident(x), lean_type(ELEM[c.env[X]]), ident(y),
            lean_type(ELEM[c.env[Y]]))
        return [head] + indent(body, 4) + ["  )"] + self.block(rest, c)

    # ---------------------------------------------------------------- functions

    def function(self, fn, qual, consts=None, suffix=""):
        if fn.decorator_list or fn.args.vararg or fn.args.kwarg or fn.args.kwonlyargs or fn.args.posonlyargs:
            raise Unsupported("signature of %s" % qual, fn)
        c = Ctx(self, qual)
        c.join, c.ret, c.shared = None, None, None
        c.consts = dict(consts or {})
        params, dropped = [], []
        nd = len(fn.args.defaults)
        pos = fn.args.args
        for k, a in enumerate(pos):
            d = fn.args.defaults[k - (len(pos) - nd)] if k >= len(pos) - nd else None
            if a.arg in c.consts:
                dropped.append(a.arg)
                continue
            kind = self.param_kind(qual, a.arg, consts)
            dl = None
            if d is not None:
                t, ty = self.expr(d, Ctx(self, qual), [], want=kind)
                dl = self.cast(t, ty, kind) if isnum(ty) else t
                if not isnum(ty) and ty != kind:
                    raise Unsupported("default of %s" % a.arg, fn)
            params.append((a.arg, kind, dl))
            c.env[a.arg] = kind
            c.alias[a.arg] = None
        # closures first
        for s in fn.body:
            if isinstance(s, ast.FunctionDef):
                self.closure(s, qual)
        lines = self.block(list(fn.body), c)
        if c.ret is None:
            raise Unsupported("no return value", fn)
        lean = "Mir.Gen.pattern.%s%s" % (qual, suffix)
        sig = Sig(lean, params, c.ret)
        sig.dropped = dropped
        head = "def %s%s %s: Py %s := do" % (qual + suffix, "",
                                             "".join("(%s : %s) " % (ident(p[0]), lean_type(p[1])) for p in params),
                                             lean_type(c.ret))
        spec = "" if not consts else " specialised to %s" % ", ".join("%s = %d" % kv for kv in sorted(consts.items()))
        doc = "/-- `pattern.%s`%s (mir_eval/pattern.py) -/" % (qual, spec)
        dfl = []
        for pn, pt, pd in params:
            if pd is not None:
                dfl += ["", "/-- default of `%s` in the signature of `pattern.%s` -/" % (pn, qual),
                        "def %s%s.default_%s : %s := %s" % (qual, suffix, pn, lean_type(pt), pd)]
        self.out.append([doc, head] + indent(lines) + dfl)
        return sig

    def param_kind(self, qual, name, consts):
        if name in ("ref_elements", "est_elements"):
            layer = (consts or {}).get("layer")
            if layer == 1:
                return "pat"
            if layer == 2:
                return "pats"
        if name not in PARAM_KINDS:
            raise Unsupported("parameter %r of %s has no declared kind" % (name, qual))
        return PARAM_KINDS[name]

    def closure(self, fn, parent):
        q = parent + "." + fn.name
        if q in self.sigs or q in self.pending_spec or q in self.failed:
            return
        if any(a.arg == "layer" for a in fn.args.args):
            self.pending_spec[q] = fn          # emitted per call site
            return
        self.closures_todo[q] = fn
        # closures may call each other in any textual order: translate lazily, on first call
        self.pending_lazy[q] = fn

    def specialise(self, q, call, c):
        fn = self.pending_spec[q]
        names = [a.arg for a in fn.args.args]
        k = names.index("layer")
        v = None
        if len(call.args) > k:
            v = self.const_int(call.args[k], c)
        else:
            kw = self.kw(call, "layer")
            if kw is not None:
                v = self.const_int(kw, c)
            else:
                d = fn.args.defaults[k - (len(names) - len(fn.args.defaults))] if k >= len(names) - len(fn.args.defaults) else None
                v = self.const_int(d, Ctx(self, q)) if d is not None else None
        if v is None:
            raise Unsupported("`layer` is not an integer literal at this call of %s" % q, call)
        key = "%s_%d" % (q, v)
        if key in self.sigs:
            return self.sigs[key]
        if key in self.in_progress:
            raise Unsupported("recursive specialisation of %s" % key, call)
        self.in_progress.add(key)
        sig = self.function(fn, q, consts={"layer": v}, suffix="_%d" % v)
        self.in_progress.discard(key)
        self.sigs[key] = sig
        return sig

    def run(self):
        self.pending_spec, self.pending_lazy, self.closures_todo, self.failed = {}, {}, {}, set()
        self.in_progress = set()
        fns = {s.name: s for s in self.tree.body if isinstance(s, ast.FunctionDef)}
        problems = []
        for name in WANTED:
            if name not in fns:
                problems.append((name, "no such function"))
                continue
            mark = len(self.out)
            try:
                sig = self.function(fns[name], name)
                sig.dropped = []
                self.sigs[name] = sig
                self.names.append(name)
            except Unsupported as e:
                del self.out[mark:]
                problems.append((name, e.detail))
        return problems


# lazy closures: resolve on first call ------------------------------------------------------------
_orig_call = Translator.call


def _call(self, e, c, pre):
    fn = self.callee_name(e.func, c)
    if fn is not None:
        q = c.fname.split(".")[0] + "." + fn
        if q in self.pending_lazy and q not in self.sigs:
            f = self.pending_lazy.pop(q)
            if q in self.in_progress:
                raise Unsupported("recursive closure %s" % q, e)
            self.in_progress.add(q)
            sig = self.function(f, q)
            sig.dropped = []
            self.in_progress.discard(q)
            self.sigs[q] = sig
    return _orig_call(self, e, c, pre)


Translator.call = _call


# ------------------------------------------------------------------------------------------------
# handler

ARG_PARSE = {"pats": PP + "asPats?", "pat": PP + "asPat?", "occ": PP + "asOcc?", "rat": "Val.asOptRat?",
             "str": PP + "asOptStr?", "int": PP + "asOptInt?"}
RET = {"set": "Except.map %sofSet" % PP, "mat": "Except.map %sofMat" % PP, "rat": "Except.map Val.rat",
       ("tuple", ("rat", "rat", "rat")): "Except.map %sofTriple" % PP}


def handler_lines(tr):
    out = ["namespace Mir.Gen.Pattern", "",
           "/-- names of the translated functions (in emission order) -/",
           "def names : List String := [%s]" % ", ".join('"%s"' % n for n in tr.names), "",
           "/-- protocol op `gen.pattern <\"function\"> <args...>` (a defaulted parameter may be sent as `none`) -/",
           "def handler : Handler := fun fn args =>", "  match fn, args with",
           "  | \"gen.pattern\", [Val.str \"?\"] => some (.ok (Val.list (names.map Val.str)))"]
    for n in tr.names:
        sig = tr.sigs[n]
        vs = ["a%d" % k for k in range(len(sig.params))]
        out.append("  | \"gen.pattern\", Val.str \"%s\" :: [%s] => do" % (n, ", ".join(vs)))
        terms = []
        for v, (pn, pt, pd) in zip(vs, sig.params):
            out.append("      let %s ← %s %s" % (v, ARG_PARSE[pt], v))
            if pt in ("rat", "str", "int"):
                if pd is None:
                    out.append("      let %s ← %s" % (v, v))
                    terms.append(v)
                else:
                    terms.append("(%s.getD %s.default_%s)" % (v, sig.lean, pn))
            else:
                terms.append(v)
        key = sig.ret if not isinstance(sig.ret, tuple) else ("tuple", tuple(sig.ret[1]))
        out.append("      some (%s (%s %s))" % (RET[key], sig.lean, " ".join(terms)))
    out += ["  | _, _ => none", "", "end Mir.Gen.Pattern"]
    return out


def translate_all(repo):
    path = os.path.join(repo, "mir_eval", "pattern.py")
    tree = ast.parse(open(path).read())
    tr = Translator(tree)
    problems = tr.run()
    lines = ["import MirModel.PyPat", "import MirGen.Validators",
             "/-! GENERATED by harness/translate/pattern.py from mir_eval/pattern.py — do not edit.",
             "    Shallow translation of the pattern-discovery metrics over the run-time library `Mir.PyPat`;",
             "    `validate` / `_n_onset_midi` are the definitions regenerated by part `validators` (`Mir.GenV.pattern`). -/",
             "set_option linter.unusedVariables false", "", "namespace Mir.Gen.pattern", ""]
    for d in tr.out:
        lines += d + [""]
    lines += ["end Mir.Gen.pattern", ""]
    lines += handler_lines(tr)
    return "\n".join(lines) + "\n", tr.names, problems


def generate(repo, outdir):
    text, done, problems = translate_all(repo)
    os.makedirs(outdir, exist_ok=True)
    write_if_changed(os.path.join(outdir, "Pattern.lean"), text)
    obligations = ["Mir.Gen.pattern.%s" % n for n in done]
    probs = [{"name": "pattern: pattern.%s" % f, "detail": "outside the translated subset: " + d} for f, d in problems]
    return obligations, probs


if __name__ == "__main__":
    repo = sys.argv[1] if len(sys.argv) > 1 else "/repo"
    text, done, problems = translate_all(repo)
    sys.stdout.write(text)
    for p in problems:
        sys.stderr.write("PROBLEM pattern.%s: %s\n" % p)
