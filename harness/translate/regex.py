"""mir_eval/chord.py `CHORD_RE` -> lean/MirGen/ChordRe.lean  (AST based; chord.py is never imported).

Emitted (namespace `Mir.Gen`):
  chordRePattern : String         the pattern text, for the record
  chordReFlags   : Nat            the flags passed to `re.compile` (only 0 is accepted)
  chordReMethod  : Mir.Rx.Method  the method `validate_chord_label` calls on it (`match` | `fullmatch`)
  chordRe        : Mir.Rx.Regex   the pattern as Python's own parser (`re._parser.parse`) reads it

What is read from the source (everything else is a translator problem -- fail closed):

  import re                                           top level, `re` bound nowhere else
  CHORD_RE = re.compile(<S> [, <0>])                  the only binding of CHORD_RE, top level
     <S> ::= "literal" | <S> + <S> | <S> % <C> | <S>.format(<C>..., k=<C>...) | f"..{<C>}.." | NAME
     NAME    a module-level name bound exactly once, at top level, to an <S>/<C>
     <C> ::= <S> | int literal | tuple of <C>
  def validate_chord_label(x):                        defined once, top level, undecorated
      [docstring]
      if not CHORD_RE.<match|fullmatch>(x):           the only other mention of CHORD_RE in the module
          raise InvalidChordException(...)
      [pass]

Supported pattern nodes: LITERAL, NOT_LITERAL, IN (LITERAL / RANGE / NEGATE), ANY, BRANCH, SUBPATTERN (capturing or not, no
group flags), MAX_REPEAT / MIN_REPEAT (finite or unbounded), AT_BEGINNING, AT_BEGINNING_STRING, AT_END, AT_END_STRING.
Back-references, look-around, conditional groups, atomic groups / possessive quantifiers, categories (\\d, \\w ...),
word boundaries, inline or compile-time flags: translator problem.

Language-preserving rewrites that Python's parser performs itself are inherited (they are part of "the regular
expression that `re` compiles"): single-character alternatives become a class (`(N|X)` -> `[NX]`), a prefix common to
ALL alternatives of a branch is factored out.
"""
import ast
import os

try:                                    # Python >= 3.11
    import re._parser as sre_parse
    import re._constants as sre_c
except ImportError:                     # pragma: no cover - older interpreters
    import sre_parse
    import sre_constants as sre_c

from translate import write_if_changed

NAME = "CHORD_RE"
FUNC = "validate_chord_label"
METHODS = {"match": "Method.matchStart", "fullmatch": "Method.fullMatch"}


class Unsupported(Exception):
    def __init__(self, name, detail):
        Exception.__init__(self, detail)
        self.name = name
        self.detail = detail


# ---------------------------------------------------------------------------------------- source side

def _bindings(tree):
    """name -> list of (node, is_simple_top_level_assign) for every construct that binds a name anywhere"""
    top = set(id(s) for s in tree.body)
    out = {}

    def add(nm, node, simple=False):
        out.setdefault(nm, []).append((node, simple))

    for node in ast.walk(tree):
        if isinstance(node, ast.Assign):
            for t in node.targets:
                simple = id(node) in top and len(node.targets) == 1 and isinstance(t, ast.Name)
                for n in ast.walk(t):
                    if isinstance(n, ast.Name):
                        add(n.id, node, simple)
        elif isinstance(node, (ast.AugAssign, ast.AnnAssign)):
            for n in ast.walk(node.target):
                if isinstance(n, ast.Name):
                    add(n.id, node)
        elif isinstance(node, ast.NamedExpr):
            add(node.target.id, node)
        elif isinstance(node, (ast.For, ast.AsyncFor, ast.comprehension)):
            for n in ast.walk(node.target):
                if isinstance(n, ast.Name):
                    add(n.id, node)
        elif isinstance(node, (ast.With, ast.AsyncWith)):
            for it in node.items:
                if it.optional_vars is not None:
                    for n in ast.walk(it.optional_vars):
                        if isinstance(n, ast.Name):
                            add(n.id, node)
        elif isinstance(node, (ast.FunctionDef, ast.AsyncFunctionDef, ast.ClassDef)):
            add(node.name, node)
            if not isinstance(node, ast.ClassDef):
                a = node.args
                for arg in a.posonlyargs + a.args + a.kwonlyargs + [x for x in (a.vararg, a.kwarg) if x]:
                    add(arg.arg, node)
        elif isinstance(node, (ast.Import, ast.ImportFrom)):
            for al in node.names:
                add((al.asname or al.name).split(".")[0], node)
        elif isinstance(node, ast.ExceptHandler) and node.name:
            add(node.name, node)
        elif isinstance(node, (ast.Global, ast.Nonlocal)):
            for nm in node.names:
                add(nm, node)
        elif isinstance(node, ast.Delete):
            for t in node.targets:
                for n in ast.walk(t):
                    if isinstance(n, ast.Name):
                        add(n.id, node)
    return out


class _ConstEval:
    """evaluates constant string expressions of the module (nothing is executed or imported)"""

    def __init__(self, binds):
        self.binds = binds
        self.busy = set()

    def name(self, nm, at):
        lst = self.binds.get(nm, [])
        if len(lst) != 1 or not lst[0][1]:
            raise Unsupported("regex.pattern", "name %r used in the pattern at line %d is not bound exactly once by a "
                              "simple top-level assignment (%d bindings)" % (nm, at, len(lst)))
        if nm in self.busy:
            raise Unsupported("regex.pattern", "cyclic definition of %r" % nm)
        self.busy.add(nm)
        try:
            return self.ev(lst[0][0].value)
        finally:
            self.busy.discard(nm)

    def ev(self, node):
        if isinstance(node, ast.Constant) and type(node.value) in (str, int):
            return node.value
        if isinstance(node, ast.Tuple):
            return tuple(self.ev(e) for e in node.elts)
        if isinstance(node, ast.Name):
            return self.name(node.id, node.lineno)
        if isinstance(node, ast.BinOp) and isinstance(node.op, ast.Add):
            a, b = self.ev(node.left), self.ev(node.right)
            if type(a) is str and type(b) is str:
                return a + b
            raise Unsupported("regex.pattern", "`+` on non-strings at line %d" % node.lineno)
        if isinstance(node, ast.BinOp) and isinstance(node.op, ast.Mod):
            a, b = self.ev(node.left), self.ev(node.right)
            if type(a) is str:
                try:
                    return a % b
                except (TypeError, ValueError) as e:
                    raise Unsupported("regex.pattern", "`%%` formatting fails at line %d: %s" % (node.lineno, e))
            raise Unsupported("regex.pattern", "`%%` on a non-string at line %d" % node.lineno)
        if isinstance(node, ast.JoinedStr):
            parts = []
            for v in node.values:
                if isinstance(v, ast.Constant) and type(v.value) is str:
                    parts.append(v.value)
                elif isinstance(v, ast.FormattedValue) and v.conversion == -1 and v.format_spec is None:
                    x = self.ev(v.value)
                    if type(x) not in (str, int):
                        raise Unsupported("regex.pattern", "f-string field is not a string/int at line %d" % node.lineno)
                    parts.append(format(x))
                else:
                    raise Unsupported("regex.pattern", "f-string with conversion / format spec at line %d" % node.lineno)
            return "".join(parts)
        if (isinstance(node, ast.Call) and isinstance(node.func, ast.Attribute) and node.func.attr == "format"
                and all(k.arg is not None for k in node.keywords)
                and not any(isinstance(a, ast.Starred) for a in node.args)):
            base = self.ev(node.func.value)
            if type(base) is not str:
                raise Unsupported("regex.pattern", "`.format` on a non-string at line %d" % node.lineno)
            args = [self.ev(a) for a in node.args]
            kw = {k.arg: self.ev(k.value) for k in node.keywords}
            if not all(type(x) in (str, int) for x in args + list(kw.values())):
                raise Unsupported("regex.pattern", "`.format` argument is not a string/int at line %d" % node.lineno)
            try:
                return base.format(*args, **kw)
            except (IndexError, KeyError, ValueError) as e:
                raise Unsupported("regex.pattern", "`.format` fails at line %d: %r" % (node.lineno, e))
        raise Unsupported("regex.pattern", "not a constant string expression at line %d: %s"
                          % (getattr(node, "lineno", 0), ast.dump(node)[:120]))


def extract(source):
    """-> (pattern text, flags int, method name).  Raises Unsupported."""
    tree = ast.parse(source)
    binds = _bindings(tree)
    top = set(id(s) for s in tree.body)

    # `re` is the standard module, bound once by a plain top-level `import re`
    rb = binds.get("re", [])
    if not (len(rb) == 1 and isinstance(rb[0][0], ast.Import) and id(rb[0][0]) in top
            and any(al.name == "re" and al.asname is None for al in rb[0][0].names)):
        raise Unsupported("regex.import", "`re` is not bound exactly once by a top-level `import re` (%d bindings)" % len(rb))

    cb = binds.get(NAME, [])
    if len(cb) != 1 or not cb[0][1]:
        raise Unsupported("regex.CHORD_RE", "%s is not bound exactly once by a simple top-level assignment (%d bindings)"
                          % (NAME, len(cb)))
    assign = cb[0][0]
    call = assign.value
    if not (isinstance(call, ast.Call) and isinstance(call.func, ast.Attribute) and call.func.attr == "compile"
            and isinstance(call.func.value, ast.Name) and call.func.value.id == "re"):
        raise Unsupported("regex.CHORD_RE", "%s is not `re.compile(...)` (line %d)" % (NAME, assign.lineno))
    if any(isinstance(a, ast.Starred) for a in call.args) or any(k.arg is None for k in call.keywords):
        raise Unsupported("regex.CHORD_RE", "re.compile called with * / ** arguments (line %d)" % assign.lineno)
    args = list(call.args)
    kw = {k.arg: k.value for k in call.keywords}
    if set(kw) - {"pattern", "flags"} or len(args) > 2 or (len(args) >= 1 and "pattern" in kw) \
            or (len(args) == 2 and "flags" in kw):
        raise Unsupported("regex.CHORD_RE", "unexpected arguments to re.compile (line %d)" % assign.lineno)
    pnode = args[0] if args else kw.get("pattern")
    fnode = args[1] if len(args) == 2 else kw.get("flags")
    if pnode is None:
        raise Unsupported("regex.CHORD_RE", "re.compile without a pattern (line %d)" % assign.lineno)
    ev = _ConstEval(binds)
    pattern = ev.ev(pnode)
    if type(pattern) is not str:
        raise Unsupported("regex.pattern", "the pattern is not a str (line %d)" % assign.lineno)
    flags = 0
    if fnode is not None:
        if not (isinstance(fnode, ast.Constant) and type(fnode.value) is int and fnode.value == 0):
            raise Unsupported("regex.flags", "re.compile is given flags (line %d): %s; only a flag-free pattern is "
                              "supported" % (assign.lineno, ast.dump(fnode)[:100]))

    # the one use: validate_chord_label
    fb = binds.get(FUNC, [])
    if not (len(fb) == 1 and isinstance(fb[0][0], ast.FunctionDef) and id(fb[0][0]) in top):
        raise Unsupported("regex.validate_chord_label", "%s is not defined exactly once at top level" % FUNC)
    fn = fb[0][0]
    a = fn.args
    if fn.decorator_list or a.vararg or a.kwarg or a.kwonlyargs or a.posonlyargs or len(a.args) != 1 or a.defaults:
        raise Unsupported("regex.validate_chord_label", "%s is decorated or does not take exactly one plain parameter" % FUNC)
    param = a.args[0].arg
    body = list(fn.body)
    if body and isinstance(body[0], ast.Expr) and isinstance(body[0].value, ast.Constant) \
            and isinstance(body[0].value.value, str):
        body = body[1:]
    if not body or not isinstance(body[0], ast.If) or not all(isinstance(s, ast.Pass) for s in body[1:]):
        raise Unsupported("regex.validate_chord_label", "body of %s is not `if not CHORD_RE.<method>(label): raise ...`" % FUNC)
    iff = body[0]
    t = iff.test
    ok = (isinstance(t, ast.UnaryOp) and isinstance(t.op, ast.Not) and isinstance(t.operand, ast.Call)
          and isinstance(t.operand.func, ast.Attribute) and isinstance(t.operand.func.value, ast.Name)
          and t.operand.func.value.id == NAME and not t.operand.keywords and len(t.operand.args) == 1
          and isinstance(t.operand.args[0], ast.Name) and t.operand.args[0].id == param
          and not iff.orelse and len(iff.body) == 1 and isinstance(iff.body[0], ast.Raise)
          and isinstance(iff.body[0].exc, ast.Call) and isinstance(iff.body[0].exc.func, ast.Name)
          and iff.body[0].exc.func.id == "InvalidChordException")
    if not ok:
        raise Unsupported("regex.validate_chord_label",
                          "test of %s is not `if not CHORD_RE.<method>(%s): raise InvalidChordException(...)` (line %d)"
                          % (FUNC, param, iff.lineno))
    method = t.operand.func.attr
    if method not in METHODS:
        raise Unsupported("regex.method", "CHORD_RE.%s is not supported (match / fullmatch only)" % method)
    # CHORD_RE is mentioned nowhere else (no other consumer with another method, no mutation / rebinding)
    uses = [n for n in ast.walk(tree) if isinstance(n, ast.Name) and n.id == NAME]
    if len(uses) != 2:
        raise Unsupported("regex.CHORD_RE", "%s is mentioned %d times in chord.py (expected: its definition and one use "
                          "in %s)" % (NAME, len(uses), FUNC))
    return pattern, flags, method


# ---------------------------------------------------------------------------------------- pattern side

def lean_char(o):
    if 0xD800 <= o <= 0xDFFF or o > 0x10FFFF:
        raise Unsupported("regex.pattern", "code point %#x is not a Unicode scalar value" % o)
    ch = chr(o)
    if ch == "'":
        return "'\\''"
    if ch == "\\":
        return "'\\\\'"
    if 32 <= o < 127:
        return "'%s'" % ch
    return "'\\u{%x}'" % o


def lean_string(s):
    out = []
    for ch in s:
        o = ord(ch)
        if ch == '"':
            out.append('\\"')
        elif ch == "\\":
            out.append("\\\\")
        elif 32 <= o < 127:
            out.append(ch)
        else:
            if 0xD800 <= o <= 0xDFFF:
                raise Unsupported("regex.pattern", "surrogate code point in the pattern")
            out.append("\\u{%x}" % o)
    return '"' + "".join(out) + '"'


def _bad(op, extra=""):
    raise Unsupported("regex.pattern", "unsupported pattern construct %s%s" % (op, extra))


def conv_seq(sub):
    """SubPattern -> tree ("cat", [items]) simplified: one item = the item, none = eps"""
    items = [conv(op, av) for op, av in sub]
    if not items:
        return ("eps",)
    if len(items) == 1:
        return items[0]
    return ("cat", items)


def conv(op, av):
    c = sre_c
    if op is c.LITERAL:
        return ("lit", av)
    if op is c.NOT_LITERAL:
        return ("cls", True, [(av, av)])
    if op is c.ANY:
        return ("any",)
    if op is c.IN:
        neg, rs = False, []
        for i, (o, a) in enumerate(av):
            if o is c.NEGATE and i == 0:
                neg = True
            elif o is c.LITERAL:
                rs.append((a, a))
            elif o is c.RANGE:
                rs.append((a[0], a[1]))
            else:
                _bad("%s inside a character class" % (o,))
        return ("cls", neg, rs)
    if op is c.BRANCH:
        if av[0] is not None:
            _bad("BRANCH", " with a header")
        alts = [conv_seq(s) for s in av[1]]
        if len(alts) < 1:
            _bad("BRANCH", " without alternatives")
        return ("alts", alts) if len(alts) > 1 else alts[0]
    if op is c.SUBPATTERN:
        group, add_flags, del_flags, p = av
        if add_flags or del_flags:
            _bad("SUBPATTERN", " with group-specific flags")
        return conv_seq(p)
    if op is c.MAX_REPEAT or op is c.MIN_REPEAT:
        lo, hi, p = av
        body = conv_seq(p)
        if hi is c.MAXREPEAT or hi == c.MAXREPEAT:
            if lo == 0:
                return ("star", body)
            return ("cat", [("rep", body, lo, lo), ("star", body)])
        if not (0 <= lo <= hi):
            _bad("repeat", " with bounds {%r,%r}" % (lo, hi))
        return ("rep", body, int(lo), int(hi))
    if op is c.AT:
        if av is c.AT_BEGINNING or av is c.AT_BEGINNING_STRING:
            return ("bos",)
        if av is c.AT_END:
            return ("eosNl",)
        if av is c.AT_END_STRING:
            return ("eos",)
        _bad("AT %s" % (av,))
    _bad(str(op))


def parse_pattern(pattern):
    try:
        p = sre_parse.parse(pattern, 0)
    except Exception as e:  # noqa: BLE001 - re.error and friends
        raise Unsupported("regex.pattern", "Python's re cannot parse the pattern: %s" % e)
    st = getattr(p, "state", None) or getattr(p, "pattern")
    extra = st.flags & ~sre_c.SRE_FLAG_UNICODE
    if extra:
        raise Unsupported("regex.flags", "the pattern sets inline flags (%#x); only a flag-free pattern is supported" % extra)
    return conv_seq(p)


def wire(t):
    """the parsed pattern as nested protocol lists, folded exactly like `Regex.cat` / `Regex.alts` in
    lean/MirModel/Regex.lean (used by the harness to run the Lean matcher on arbitrary patterns)"""
    k = t[0]
    if k in ("eps", "any", "bos", "eosNl", "eos"):
        return [k]
    if k == "lit":
        return ["lit", int(t[1])]
    if k == "cls":
        return ["cls", bool(t[1]), [[int(a), int(b)] for a, b in t[2]]]
    if k in ("cat", "alts"):
        items = [wire(x) for x in t[1]]
        if not items:
            return ["eps"] if k == "cat" else ["cls", False, []]
        out = items[-1]
        for x in reversed(items[:-1]):
            out = ["seq" if k == "cat" else "alt", x, out]
        return out
    if k == "star":
        return ["star", wire(t[1])]
    if k == "rep":
        return ["rep", wire(t[1]), int(t[2]), int(t[3])]
    raise AssertionError(k)


def render(t, ind):
    pad = "  " * ind
    k = t[0]
    if k in ("eps", "any", "bos", "eosNl", "eos"):
        return pad + k
    if k == "lit":
        return pad + "lit %s" % lean_char(t[1])
    if k == "cls":
        return pad + "cls %s [%s]" % ("true" if t[1] else "false",
                                     ", ".join("(%s, %s)" % (lean_char(a), lean_char(b)) for a, b in t[2]))
    if k in ("cat", "alts"):
        inner = [render(x, ind + 1) for x in t[1]]
        if all(x[0] == "lit" for x in t[1]) and k == "cat":      # a word on one line
            return pad + "cat [" + ", ".join(s.strip() for s in inner) + "]"
        return pad + k + " [\n" + ",\n".join(inner) + "\n" + pad + "]"
    if k in ("star", "rep"):
        tail = ")" if k == "star" else ") %d %d" % (t[2], t[3])
        inner = render(t[1], ind + 1)
        if "\n" not in inner:
            return pad + k + " (" + inner.strip() + tail
        return pad + k + " (\n" + inner + "\n" + pad + tail
    raise AssertionError(k)


def emit(pattern, flags, method, tree):
    L = []
    L.append("import MirModel.Regex")
    L.append("/-")
    L.append("  GENERATED by harness/translate/regex.py from mir_eval/chord.py — do not edit.")
    L.append("  `chordRe` is the pattern of `CHORD_RE = re.compile(...)` exactly as Python's own parser")
    L.append("  (`re._parser.parse`) reads it; `chordReMethod` is the method `validate_chord_label` calls on it.")
    L.append("  Regenerated from the working tree on every run of ./check; the theorems of")
    L.append("  MirProofs/Props/C10_Regex.lean are re-checked against what the source says now.")
    L.append("-/")
    L.append("namespace Mir.Gen")
    L.append("open Mir.Rx Mir.Rx.Regex")
    L.append("")
    L.append("/-- the pattern text -/")
    L.append("def chordRePattern : String :=")
    L.append("  " + lean_string(pattern))
    L.append("/-- flags given to `re.compile` -/")
    L.append("def chordReFlags : Nat := %d" % flags)
    L.append("/-- `CHORD_RE.%s(chord_label)` in `validate_chord_label` -/" % method)
    L.append("def chordReMethod : Method := %s" % METHODS[method])
    L.append("/-- the parsed pattern -/")
    L.append("def chordRe : Regex :=")
    L.append(render(tree, 1))
    L.append("")
    L.append("end Mir.Gen")
    return "\n".join(L) + "\n"


OBLIGATIONS = ["Mir.Gen.chordRe", "Mir.Gen.chordReMethod", "Mir.Gen.chordReFlags"]


def generate(repo, outdir):
    path = os.path.join(repo, "mir_eval", "chord.py")
    try:
        source = open(path, encoding="utf-8").read()
    except OSError as e:
        return [], [{"name": "regex", "detail": "cannot read %s: %s" % (path, e)}]
    try:
        pattern, flags, method = extract(source)
        tree = parse_pattern(pattern)
        text = emit(pattern, flags, method, tree)
    except SyntaxError as e:
        return [], [{"name": "regex", "detail": "chord.py does not parse: %s" % e}]
    except Unsupported as e:
        # the old file is left in place (the driver keeps compiling); the problem is a broken obligation
        return [], [{"name": e.name, "detail": e.detail}]
    os.makedirs(outdir, exist_ok=True)
    write_if_changed(os.path.join(outdir, "ChordRe.lean"), text)
    return list(OBLIGATIONS), []
