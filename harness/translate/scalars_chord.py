"""Part `scalars_chord`: the `chord` scalar helpers of lean/MirGen/Scalars.lean (see translate/scalars.py). The whole
file is rewritten (content-addressed); only the obligations / problems of mir_eval/chord.py are reported.
The definitions read `MirGen.Tables.pitchClasses` / `scaleDegrees`: name the `tables` part next to this one."""
from translate import scalars


def generate(repo, outdir):
    return scalars.generate(repo, outdir, groups=("chord",))
