"""Part `scalars_key`: the `key` functions of lean/MirGen/Scalars.lean (see translate/scalars.py). The whole file is
rewritten (content-addressed); only the obligations / problems of mir_eval/key.py are reported."""
from translate import scalars


def generate(repo, outdir):
    return scalars.generate(repo, outdir, groups=("key",))
