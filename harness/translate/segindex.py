"""mir_eval.segment clustering-index functions -> lean/MirGen/SegIndex.lean   (AST based; mir_eval is never imported).

One SHALLOW Lean definition per translated function, `Mir.Gen.segment.<function>`, over the run-time library
`lean/MirModel/PyMat.lean` (`Mir.PyM`), plus a driver handler (`Mir.Gen.SegIndex.handler`, protocol op
`gen.segindex <"function"> <args...>`).  `MirProofs/Props/C16_GenIndex.lean` proves every one of them equal to the
hand-written model (`MirModel/Segment.lean`) for ALL label sequences, so the C16 theorems are re-checked against what
the source says *now* on every run.

A public metric (`pairwise`, `rand_index`, `ari`, ...) is emitted as TWO definitions:

    <f>_core (y_ref y_est : List Nat) (<scalar parameters it reads>)   the statements that depend only on the two
                                                                        frame-label index vectors (every local that
                                                                        is assigned from `util.index_labels(...)[0]`)
    <f> (<parameters of f>)                                            the remaining statements (validation, the
                                                                        empty-annotation return, frame sampling), ending
                                                                        in a call of <f>_core

The split is by data dependence (a statement belongs to the core iff it reads only core inputs, values computed by
core statements and scalar parameters), so independent statements may be reordered in the source without changing the
generated core; a core statement that precedes a prologue statement must be free of effects (else: fail closed).

The translator fails closed.  THE SUBSET (anything else => `Unsupported` => the function is not emitted):

  def f(p1, p2=<float literal>)     no decorators, *args, **kwargs; parameter types from f's own numpydoc:
                                    `np.ndarray, shape=(n, 2)` intervals | `list, shape=(n,)` labels | `float` |
                                    `np.ndarray` (private functions: a 1-D array of label indices)
  statements   docstring; `x = e`; `a, b = e`; `if c: ... [else: ...]`; `return e`; a call statement
  expressions  int / float literals; locals; tuples; + - * (exact), `/` (see below), unary -; comparisons (chained too)
               and / or / not; `len(x)`; `float(x)`; `x.shape[0]`; `x.size`;
               `np.equal.outer(a, b)`; `np.logical_and(A, B)`; `np.logical_or(A, B)`; `np.logical_not(A)`; `~A`;
               `A.sum()`; `np.unique(x)`; `np.unique(x, return_inverse=True)` (also `[...][0]`, `[1]`);
               `np.ones(n)`; `scipy.sparse.coo_matrix((data, (ri, ci)), shape=(r, c), dtype=np.int64).toarray()`;
               `M.sum(axis=0|1)`; `M.sum()`; `M.flatten()`; `scipy.special.comb(n, 2, exact=1)`;
               `scipy.special.comb(n, 2)`; builtin `sum(<e> for v in <1-D array>)`;
               calls of other translated functions of segment.py (positional);
               EXTERNS (bound to the hand model, not translated): `validate_structure(...)`,
               `util.intervals_to_samples(iv, labels, sample_size=fs)[-1]`, `util.index_labels(x)[0]`,
               `util.f_measure(p, r, beta=b)` on NumPy scalars.
  numbers      every scalar has a static type nat <= int <= rat (finite float) <= num (np.float64 that may be
               nan/inf) and a flag "NumPy scalar" (results of `.sum()` of an array, `scipy.special.comb(n, 2)`, and
               anything computed from one).  `a / b`:
                 b a non-zero literal         -> exact quotient (no exception possible)
                 a or b a NumPy scalar        -> `Mir.PyM.divNp` (never raises: nan / +-inf made explicit)
                 both Python numbers          -> `Mir.PyS.divF`-style ZeroDivisionError
               arithmetic / comparison on a `num` is outside the subset (only `util.f_measure` and `return` take one).

  TRANSCENDENTAL FUNCTIONS (a function whose body calls np.log / np.log2 / np.sqrt / scipy.stats.entropy, or calls such
  a function) are emitted polymorphic over the hand model's class `Mir.Segment.Transc α` (instances: Float = what the
  driver executes; ℝ in MirProofs), so that one `Gen = model` theorem covers both instances.  In them
    * float literals are `Transc.ofNat k` (integral) / `Transc.ofRat q`; a `float` parameter p is used as `Transc.ofRat p`;
    * integer-valued float arrays (`_contingency_matrix(...).astype(float)`, `np.bincount(...).astype(np.float64)`, their
      sums along an axis or in total) stay EXACT naturals (`Nat`, flag "float"): binary64 holds integers < 2^53 exactly;
      they are cast with `Transc.ofNat` where they meet `/`, `np.log`, a product of two of them (`np.outer`) or another α;
    * every `/` must involve a NumPy scalar or array (never raises) and is α's division;
    * additionally accepted: `np.sum(x[, axis=k])`, `x.sum(axis=k)`, `np.log(x)`, `np.log2(s)`, `np.sqrt(s)`,
      `np.clip(s, 0.0, None)`, `np.outer(u, v)`, `np.bincount(i)`, `x.astype(float | np.float64)`,
      `np.array(x, dtype="float")`, `u.dot(v)`, `scipy.stats.entropy(u | M | M.T, base=2)`, builtin `max(a, b)`,
      elementwise + - * / and unary - between 1-D arrays and scalars, `M / s`, masks `x > 0`, `M != 0.0` and `x[mask]`,
      `x op= e` on a freshly computed array, `bool` parameters, `if c: <assignments> [else: <assignments>]` as a
      conditional expression, the idiom `if p is None: p = <e>` for a parameter with default None,
      `util.f_measure(p, r, beta=b)` on α (extern: the hand model's `fMeasureT`), keyword arguments in calls of
      translated functions.

`python harness/translate/segindex.py [repo]` prints the generated file.
"""
import ast
import os
import sys
from fractions import Fraction

try:
    from translate import write_if_changed
    from translate.scalars import Unsupported, lean_rat, indent, doc_param_types
    from translate.scalars import ident as _ident
except ImportError:  # run as a script
    sys.path.insert(0, os.path.dirname(os.path.dirname(os.path.abspath(__file__))))
    from translate import write_if_changed
    from translate.scalars import Unsupported, lean_rat, indent, doc_param_types
    from translate.scalars import ident as _ident

# Lean tokens that scalars.LEAN_KEYWORDS does not list (kept here: scalars.py's output must not change)
EXTRA_KEYWORDS = {"matches", "is", "only", "using", "generalizing", "hiding", "renaming", "extends", "deriving",
                  "infixl", "infixr", "set_option", "omit", "include", "elab", "meta", "public", "module"}


def ident(name):
    if name in EXTRA_KEYWORDS:
        return "«%s»" % name
    return _ident(name)

# functions of mir_eval/segment.py, in emission order; REQUIRED: one that leaves the subset is a translator problem
WANTED = ["_contingency_matrix", "_adjusted_rand_index", "pairwise", "rand_index", "ari",
          "_entropy", "_mutual_info_score", "_normalized_mutual_info_score", "nce", "vmeasure"]

NAT, INT, RAT, NUM, BOOL, NONE = ("nat",), ("int",), ("rat",), ("num",), ("bool",), ("none",)
BOOLMAT, FRAMELABELS, INTERVALS, STRLIST = ("boolmat",), ("framelabels",), ("intervals",), ("strlist",)
NUMERIC = (NAT, INT, RAT, NUM)
TR = ("tr",)                     # a number of the Transc class (α)
TRANSCENDENTAL_CALLS = {"np.log", "np.log2", "np.sqrt", "np.exp", "scipy.stats.entropy", "scipy.special.gammaln"}
TC = "Mir.Segment.Transc"


def OPT(t):
    return ("opt", t)


def MASK(shape):
    return ("mask", shape)       # shape: "vec" | "mat"


def VEC(t):
    return ("vec", t)


def MAT(t):
    return ("mat", t)


def TUP(ts):
    return ("tup", tuple(ts))


LABELS = VEC(NAT)
NUM_T = "Mir.Segment.Num"
LABEL_T = "Mir.Segment.Label"


def lean_type(t):
    k = t[0]
    if k == "nat":
        return "Nat"
    if k == "int":
        return "Int"
    if k == "rat":
        return "Rat"
    if k == "num":
        return NUM_T
    if k == "bool":
        return "Bool"
    if k == "none":
        return "Unit"
    if k == "tr":
        return "α"
    if k == "opt":
        return "(Option %s)" % lean_type(t[1])
    if k == "mask":
        return "(List Bool)" if t[1] == "vec" else "(List (List Bool))"
    if k == "vec":
        return "(List %s)" % lean_type(t[1])
    if k == "mat":
        return "(Mir.PyM.Mat %s)" % lean_type(t[1])
    if k == "boolmat":
        return "(List (List Bool))"
    if k == "framelabels":
        return "(List (Option %s))" % LABEL_T
    if k == "intervals":
        return "(List (Rat × Rat))"
    if k == "strlist":
        return "(List %s)" % LABEL_T
    if k == "tup":
        return "(%s)" % " × ".join(lean_type(x) for x in t[1])
    raise Unsupported("no Lean type for %r" % (t,))


def show_type(t):
    k = t[0]
    if k in ("vec", "mat", "opt"):
        return "%s[%s]" % (k, show_type(t[1]))
    if k == "mask":
        return "mask[%s]" % t[1]
    if k == "tup":
        return "(%s)" % ", ".join(show_type(x) for x in t[1])
    return k


def join(a, b, node=None):
    if a == b:
        return a
    if a in NUMERIC and b in NUMERIC:
        return NUMERIC[max(NUMERIC.index(a), NUMERIC.index(b))]
    if TR in (a, b) and a in (NAT, RAT, TR) and b in (NAT, RAT, TR):
        return TR
    if a[0] == "tup" and b[0] == "tup" and len(a[1]) == len(b[1]):
        return TUP([join(x, y, node) for x, y in zip(a[1], b[1])])
    raise Unsupported("values of type %s and %s meet on one variable / return" % (show_type(a), show_type(b)), node)


class E:
    """A translated PURE expression: Lean term, static type, NumPy-scalar flag, literal value, tuple parts."""
    __slots__ = ("term", "ty", "np", "lit", "elts", "flt")

    def __init__(self, term, ty, np=False, lit=None, elts=None, flt=False):
        self.term, self.ty, self.np, self.lit, self.elts = term, ty, np, lit, elts
        self.flt = flt              # a float (array) known to hold exact naturals, represented by Nat


def tr_literal(v):
    q = Fraction(repr(v)) if type(v) is float else Fraction(v)
    if q.denominator == 1 and q >= 0:
        return "(%s.ofNat %d : α)" % (TC, q.numerator)
    return "(%s.ofRat %s : α)" % (TC, lean_rat(q))


def coerce(e, to, node=None):
    if e.ty == to:
        return e.term
    if to == TR and e.ty in (NAT, RAT):
        if e.lit is not None and type(e.lit) in (int, float):
            return tr_literal(e.lit)
        return "(%s.%s %s : α)" % (TC, "ofNat" if e.ty == NAT else "ofRat", e.term)
    if e.ty in NUMERIC and to in NUMERIC and NUMERIC.index(e.ty) < NUMERIC.index(to):
        if to == NUM:
            return "(%s.val %s)" % (NUM_T, coerce(e, RAT, node))
        if e.lit is not None and type(e.lit) in (int, float):
            q = Fraction(repr(e.lit)) if type(e.lit) is float else Fraction(e.lit)
            if to == RAT:
                return lean_rat(q)
            return "(%d : %s)" % (q.numerator, lean_type(to))
        return "((%s : %s) : %s)" % (e.term, lean_type(e.ty), lean_type(to))
    if to[0] == "tup" and e.ty[0] == "tup" and e.elts is not None and len(e.elts) == len(to[1]):
        return "(%s)" % ", ".join(coerce(x, t, node) for x, t in zip(e.elts, to[1]))
    raise Unsupported("cannot convert %s to %s" % (show_type(e.ty), show_type(to)), node)


def const_expr(x):
    neg = False
    if isinstance(x, ast.UnaryOp) and isinstance(x.op, ast.USub) and isinstance(x.operand, ast.Constant):
        neg, x = True, x.operand
    if not isinstance(x, ast.Constant):
        raise Unsupported("not a literal constant", x)
    v = x.value
    if v is None and not neg:
        return E("()", NONE, lit=None)
    if type(v) is bool and not neg:
        return E("true" if v else "false", BOOL, lit=v)
    if type(v) is int:
        v = -v if neg else v
        return E("(%d : Nat)" % v, NAT, lit=v) if v >= 0 else E("(%d : Int)" % v, INT, lit=v)
    if type(v) is float:
        v = -v if neg else v
        if v != v or v in (float("inf"), float("-inf")):
            raise Unsupported("non-finite float literal", x)
        return E(lean_rat(Fraction(repr(v))), RAT, lit=v)
    raise Unsupported("literal of type %s" % type(v).__name__, x)


def param_type(text, private, node, default_none=False):
    import re
    t = text.strip().lower()
    if default_none:
        if private and t == "np.ndarray":
            return OPT(MAT(NAT))         # a pre-computed float contingency matrix (exact naturals)
        raise Unsupported("a parameter with default None that is not a documented np.ndarray", node)
    if t == "bool":
        return BOOL
    if private and t == "list-like":
        return LABELS
    if re.match(r"^np\.ndarray, shape=\(\w+, 2\)$", t):
        return INTERVALS
    if re.match(r"^list, shape=\(\w+,\)$", t):
        return STRLIST
    if re.match(r"^float\b", t) and not re.search(r"array|list|tuple|none|\bor\b", t):
        return RAT
    if private and t == "np.ndarray":
        return LABELS
    raise Unsupported("documented parameter type %r is outside the subset" % text, node)


def dotted(node):
    """`a.b.c` -> "a.b.c" for attribute chains over a plain name, else None"""
    parts = []
    while isinstance(node, ast.Attribute):
        parts.append(node.attr)
        node = node.value
    if isinstance(node, ast.Name):
        parts.append(node.id)
        return ".".join(reversed(parts))
    return None


def assigned_names(stmts):
    out = []
    for st in stmts:
        for nd in ast.walk(st):
            if isinstance(nd, ast.Name) and isinstance(nd.ctx, (ast.Store, ast.Del)) and nd.id not in out:
                out.append(nd.id)
    return out


def is_index_labels_assign(st):
    """`x = util.index_labels(<e>)[0]`"""
    if not (isinstance(st, ast.Assign) and len(st.targets) == 1 and isinstance(st.targets[0], ast.Name)):
        return False
    v = st.value
    return (isinstance(v, ast.Subscript) and isinstance(v.slice, ast.Constant) and v.slice.value == 0
            and isinstance(v.value, ast.Call) and dotted(v.value.func) == "util.index_labels")


class Sig:
    def __init__(self, name, params, ret, tr=False, ret_np=False):
        self.name, self.params, self.ret = name, params, ret      # params: [(name, type, default E | None)]
        self.tr, self.ret_np = tr, ret_np                          # Transc-polymorphic? every return a NumPy scalar?


class Module:
    def __init__(self, source):
        self.tree = ast.parse(source)
        self.funcs, self.assigned = {}, set()
        self.imports = {}
        for st in self.tree.body:
            if isinstance(st, ast.FunctionDef):
                self.funcs.setdefault(st.name, []).append(st)
            elif isinstance(st, (ast.Assign, ast.AugAssign, ast.AnnAssign)):
                self.assigned.update(assigned_names([st]))
            elif isinstance(st, ast.Import):
                for a in st.names:
                    self.imports[a.asname or a.name.split(".")[0]] = a.name if a.asname else a.name.split(".")[0]
            elif isinstance(st, ast.ImportFrom):
                for a in st.names:
                    self.imports[a.asname or a.name] = "%s.%s" % (st.module or ".", a.name)
        self.sigs, self.failed, self.emitted, self.in_progress = {}, {}, [], set()
        # transcendental functions: least fixpoint of "calls np.log & co., or calls a transcendental function"
        self.tr_funcs = set()
        changed = True
        while changed:
            changed = False
            for fname, defs in self.funcs.items():
                if fname in self.tr_funcs:
                    continue
                for nd in ast.walk(defs[0]):
                    if isinstance(nd, ast.Call) and (dotted(nd.func) in TRANSCENDENTAL_CALLS or (
                            isinstance(nd.func, ast.Name) and nd.func.id in self.tr_funcs)):
                        self.tr_funcs.add(fname)
                        changed = True
                        break

    def check_globals(self, node):
        """the module-level names the translated calls go through must be what they look like"""
        want = {"np": "numpy", "scipy": "scipy", "util": "..util"}
        for nm, src in want.items():
            got = self.imports.get(nm)
            if nm in self.assigned or nm in self.funcs:
                raise Unsupported("module-level name %s is rebound" % nm, node)
            if nm == "util":
                if got not in ("..util", ".util", "mir_eval.util"):
                    raise Unsupported("`util` is not mir_eval.util", node)
            elif got != src:
                raise Unsupported("`%s` is not the module %s" % (nm, src), node)

    def translate(self, fname, node=None):
        if fname in self.sigs:
            return self.sigs[fname]
        if fname in self.failed:
            raise Unsupported("callee %s is outside the subset (%s)" % (fname, self.failed[fname]), node)
        defs = self.funcs.get(fname)
        if not defs:
            raise Unsupported("no top-level function %s in segment.py" % fname, node)
        if len(defs) != 1 or fname in self.assigned:
            raise Unsupported("%s is defined more than once" % fname, node)
        if fname in self.in_progress:
            raise Unsupported("recursive call of %s" % fname, node)
        self.in_progress.add(fname)
        try:
            self.check_globals(defs[0])
            sigs_lines = translate_def(self, defs[0])
        except Unsupported as e:
            self.failed[fname] = e.detail
            raise
        except RecursionError:
            self.failed[fname] = "expression too deep"
            raise Unsupported(self.failed[fname], node)
        finally:
            self.in_progress.discard(fname)
        for sig, lines in sigs_lines:
            self.sigs[sig.name] = sig
            self.emitted.append((sig.name, lines))
        return self.sigs[fname]


# ----------------------------------------------------------------------------------------
# one function (or one slice of a function)

class Body:
    def __init__(self, module, fn, name, params, body, final=None, what=""):
        self.m, self.fn, self.name, self.params, self.body = module, fn, name, params, body
        self.final = final            # (callee Sig, [argument names]) for a prologue slice, else None
        self.what = what
        self.tmp = 0
        self.ret_ty, self.ret_types = None, []
        self.locals = set(assigned_names(fn.body)) | {a.arg for a in fn.args.args}
        self.effect_lines = set()
        self.tr = fn.name in module.tr_funcs
        self.ret_np = True
        self.fresh_arrays = set()     # locals whose current value is an array computed by this function (no alias)

    def fresh(self):
        self.tmp += 1
        return "_t%d" % self.tmp

    def translate(self):
        env = {p[0]: (p[1], False, p[1] == OPT(MAT(NAT))) for p in self.params}

        def run():
            self.tmp = 0
            self.effect_lines = set()
            self.ret_np = True
            self.fresh_arrays = set()
            return self.stmts(self.body, dict(env), self.fallthrough)
        self.ret_ty, self.ret_types = None, []
        run()
        if not self.ret_types:
            raise Unsupported("no path returns", self.fn)
        rt = self.ret_types[0]
        for t in self.ret_types[1:]:
            rt = join(rt, t, self.fn)
        self.ret_ty = rt
        lines = run()
        sig = Sig(self.name, self.params, rt, tr=self.tr, ret_np=self.ret_np)
        plist = " ".join(
            "(%s : %s%s)" % (ident(n), lean_type(t), "" if d is None else " := %s" % self.default_term(d, t))
            for n, t, d in self.params)
        if self.tr:
            plist = "{α : Type} [%s α] %s" % (TC, plist)
        out = ["/-- %s -/" % self.what,
               "def %s %s : Py %s := do" % (ident(self.name), plist, lean_type(rt))]
        out += indent(lines)
        return sig, out

    def default_term(self, d, t):
        if d.ty == NONE and t[0] == "opt":
            return "none"
        return coerce(d, t, self.fn)

    def callee(self, sig):
        return ident(sig.name) + (" (α := α)" if sig.tr else "")

    def fallthrough(self, env):
        if self.final is None:
            return self.emit_return(E("()", NONE, lit=None), self.fn)
        sig, names = self.final
        for n, (pn, pt, _) in zip(names, sig.params):
            if n not in env or env[n][0] != pt:
                raise Unsupported("core input %s does not have type %s at the end of the prologue" % (n, show_type(pt)),
                                  self.fn)
        tmp = self.fresh()
        line = "let %s : %s ← %s %s" % (tmp, lean_type(sig.ret), self.callee(sig), " ".join(ident(n) for n in names))
        return [line] + self.emit_return(E(tmp, sig.ret, np=sig.ret_np), self.fn)

    def emit_return(self, e, node):
        if e.ty in (TR, NAT, RAT) and not e.np:
            self.ret_np = False
        if self.ret_ty is None:
            self.ret_types.append(e.ty)
            return ["pure ?"]
        return ["pure %s" % coerce(e, self.ret_ty, node)]

    # -- statements ---------------------------------------------------------------------
    def bind_lines(self, binds):
        return ["let %s : %s ← %s" % (n, lean_type(t), term) for n, term, t in binds]

    def stmts(self, sts, env, k):
        if not sts:
            return k(env)
        s, rest = sts[0], sts[1:]

        def cont(env2):
            return self.stmts(rest, env2, k)

        if isinstance(s, ast.Expr) and isinstance(s.value, ast.Constant) and isinstance(s.value.value, str):
            return cont(env)
        if isinstance(s, ast.Pass):
            return cont(env)
        if isinstance(s, ast.Return):
            binds = []
            e = E("()", NONE, lit=None) if s.value is None else self.expr(s.value, env, binds)
            return self.bind_lines(binds) + self.emit_return(e, s)
        if isinstance(s, ast.Expr):
            binds = []
            self.expr(s.value, env, binds)
            if not binds:
                raise Unsupported("expression statement without effect", s)
            return self.bind_lines(binds) + cont(env)
        if isinstance(s, ast.Assign):
            if len(s.targets) != 1:
                raise Unsupported("chained assignment", s)
            return self.assign(s.targets[0], s.value, env, cont, s)
        if isinstance(s, ast.AugAssign):
            t = s.target
            if not (isinstance(t, ast.Name) and t.id in env):
                raise Unsupported("augmented assignment to anything but a defined local", s)
            if env[t.id][0][0] in ("vec", "mat") and t.id not in self.fresh_arrays:
                raise Unsupported("in-place update of an array that may be shared", s)
            val = ast.BinOp(left=ast.Name(id=t.id, ctx=ast.Load()), op=s.op, right=s.value)
            ast.copy_location(val, s)
            ast.copy_location(val.left, s)
            return self.assign(t, val, env, cont, s)
        if isinstance(s, ast.If):
            conv = self.if_is_none(s, env) or self.if_conversion(s, env)
            if conv is not None:
                lines, env2 = conv
                return lines + cont(env2)
            binds = []
            c = self.cond(s.test, env, binds)
            then_lines = self.stmts(s.body, dict(env), cont)
            else_lines = self.stmts(s.orelse, dict(env), cont)
            return self.bind_lines(binds) + ["if %s then do" % c] + indent(then_lines) + ["else do"] + indent(else_lines)
        raise Unsupported("statement %s" % type(s).__name__, s)

    def assign(self, target, value, env, cont, node):
        binds = []
        if isinstance(target, ast.Name):
            e = self.expr(value, env, binds)
            if e.ty[0] in ("opt", "mask") and False:
                raise Unsupported("binding a %s" % show_type(e.ty), node)
            env2 = dict(env)
            env2[target.id] = (e.ty, e.np, e.flt)
            if e.ty[0] in ("vec", "mat"):
                if isinstance(value, (ast.BinOp, ast.Subscript, ast.Call)) and not isinstance(value, ast.Name):
                    self.fresh_arrays.add(target.id)
                else:
                    self.fresh_arrays.discard(target.id)
            return self.bind_lines(binds) + ["let %s : %s := %s" % (ident(target.id), lean_type(e.ty), e.term)] + cont(env2)
        if isinstance(target, (ast.Tuple, ast.List)) and all(isinstance(t, ast.Name) for t in target.elts):
            names = [t.id for t in target.elts]
            if len(set(names)) != len(names):
                raise Unsupported("repeated unpacking target", node)
            e = self.expr(value, env, binds)
            if e.ty[0] != "tup" or len(e.ty[1]) != len(names):
                raise Unsupported("unpacking a value of type %s into %d names" % (show_type(e.ty), len(names)), node)
            env2 = dict(env)
            for i, (n, t) in enumerate(zip(names, e.ty[1])):
                sub = e.elts[i] if e.elts is not None else None
                env2[n] = (t, bool(sub and sub.np) or (e.np and t in (TR, NAT, RAT)), bool(sub and sub.flt))
                self.fresh_arrays.discard(n)
            return self.bind_lines(binds) + [
                "let (%s) : %s := %s" % (", ".join(ident(n) for n in names), lean_type(e.ty), e.term)] + cont(env2)
        raise Unsupported("assignment target %s" % type(target).__name__, node)

    def if_is_none(self, s, env):
        """`if p is None: p = <e>` for an Option-typed local p  ->  one monadic `let p ← match p with ...`"""
        t = s.test
        if not (isinstance(t, ast.Compare) and len(t.ops) == 1 and isinstance(t.ops[0], ast.Is)
                and isinstance(t.left, ast.Name) and isinstance(t.comparators[0], ast.Constant)
                and t.comparators[0].value is None):
            return None
        x = t.left.id
        if x not in env or env[x][0][0] != "opt":
            raise Unsupported("`is None` on a value that is not an optional parameter", s)
        if s.orelse or len(s.body) != 1 or not (isinstance(s.body[0], ast.Assign) and len(s.body[0].targets) == 1
                                                 and isinstance(s.body[0].targets[0], ast.Name)
                                                 and s.body[0].targets[0].id == x):
            raise Unsupported("`if p is None:` with a body other than `p = <e>`", s)
        binds = []
        env0 = dict(env)
        del env0[x]
        e = self.expr(s.body[0].value, env0, binds)
        inner = env[x][0][1]
        if e.ty != inner:
            raise Unsupported("`if p is None: p = <%s>` for a parameter of type %s" % (show_type(e.ty), show_type(inner)), s)
        blk = "; ".join(self.bind_lines(binds) + ["pure %s" % e.term])
        line = "let %s : %s ← (match %s with | none => (do %s) | some _v => pure _v)" % (
            ident(x), lean_type(inner), ident(x), blk)
        env2 = dict(env)
        env2[x] = (inner, False, env[x][2] and e.flt)
        self.effect_lines.add(s.lineno)
        return [line], env2

    def if_conversion(self, s, env):
        """`if c: <pure assignments> [else: <pure assignments>]`  ->  `let (x, y) := if c then (..) else (..)`;
        None when the statement is not of that shape (then the continuation is duplicated per branch)"""
        def simple(sts):
            return all(isinstance(a, ast.Assign) and len(a.targets) == 1 and isinstance(a.targets[0], ast.Name) for a in sts)
        if not s.body or not simple(s.body) or not simple(s.orelse):
            return None
        names = []
        for a in list(s.body) + list(s.orelse):
            if a.targets[0].id not in names:
                names.append(a.targets[0].id)
        binds = []
        c = self.cond(s.test, env, binds)
        if binds:
            return None

        def branch(sts):
            vals, seen = {}, set()
            for a in sts:
                if read_names(a.value, seen):
                    return None          # sequentially dependent assignments
                b = []
                vals[a.targets[0].id] = self.expr(a.value, env, b)
                if b:
                    return None
                seen.add(a.targets[0].id)
            for n in names:
                if n not in vals:
                    if n not in env:
                        return None
                    vals[n] = E(ident(n), env[n][0], np=env[n][1], flt=env[n][2])
            return vals
        v1, v2 = branch(s.body), branch(s.orelse)
        if v1 is None or v2 is None:
            return None
        env2 = dict(env)
        tys = []
        for n in names:
            t = join(v1[n].ty, v2[n].ty, s)
            if t[0] in ("vec", "mat", "opt", "mask", "tup"):
                return None
            tys.append(t)
            env2[n] = (t, v1[n].np and v2[n].np, v1[n].flt and v2[n].flt)
        t1 = [coerce(v1[n], t, s) for n, t in zip(names, tys)]
        t2 = [coerce(v2[n], t, s) for n, t in zip(names, tys)]
        if len(names) == 1:
            line = "let %s : %s := if %s then %s else %s" % (ident(names[0]), lean_type(tys[0]), c, t1[0], t2[0])
        else:
            line = "let (%s) : %s := if %s then (%s) else (%s)" % (
                ", ".join(ident(n) for n in names), lean_type(TUP(tys)), c, ", ".join(t1), ", ".join(t2))
        return [line], env2

    # -- conditions ---------------------------------------------------------------------
    def cond(self, node, env, binds):
        if isinstance(node, ast.BoolOp):
            parts = []
            for v in node.values:
                b = []
                parts.append(self.cond(v, env, b))
                if b:
                    raise Unsupported("`and` / `or` whose operands can raise", node)
            sym = " && " if isinstance(node.op, ast.And) else " || "
            return "(%s)" % sym.join(parts)
        if isinstance(node, ast.UnaryOp) and isinstance(node.op, ast.Not):
            return "(!%s)" % self.cond(node.operand, env, binds)
        e = self.expr(node, env, binds)
        if e.ty == BOOL:
            return e.term
        raise Unsupported("truth value of a %s" % show_type(e.ty), node)

    # -- expressions ----------------------------------------------------------------------
    def bind(self, binds, term, ty, node):
        tmp = self.fresh()
        binds.append((tmp, term, ty))
        self.effect_lines.add(getattr(node, "lineno", 0))
        return tmp

    def number(self, e, node, allow_num=False):
        if e.ty in (NAT, INT, RAT, TR) or (allow_num and e.ty == NUM):
            return e
        if e.ty == NUM:
            raise Unsupported("arithmetic / comparison on an np.float64 that may be nan or inf", node)
        raise Unsupported("arithmetic on a value of type %s" % show_type(e.ty), node)

    def expr(self, node, env, binds):
        if isinstance(node, ast.Constant):
            c = const_expr(node)
            if self.tr and c.ty == RAT:
                return E(tr_literal(c.lit), TR, lit=c.lit)
            return c
        if isinstance(node, ast.Name):
            if node.id in env:
                t, isnp, flt = env[node.id]
                return E(ident(node.id), t, np=isnp, flt=flt)
            if node.id in self.locals:
                raise Unsupported("local %s may be unbound here" % node.id, node)
            raise Unsupported("unknown name %s" % node.id, node)
        if isinstance(node, ast.Tuple):
            elts = [self.expr(x, env, binds) for x in node.elts]
            if len(elts) < 2:
                raise Unsupported("tuple of length < 2", node)
            return E("(%s)" % ", ".join(x.term for x in elts), TUP([x.ty for x in elts]), elts=elts)
        if isinstance(node, ast.UnaryOp):
            if isinstance(node.op, ast.Not):
                return E(self.cond(node, env, binds), BOOL)
            if isinstance(node.op, ast.USub):
                if isinstance(node.operand, ast.Constant) and not self.tr:
                    return const_expr(node)
                e = self.expr(node.operand, env, binds)
                if e.ty == VEC(TR):
                    return E("(List.map (fun _v => (-_v)) %s)" % e.term, VEC(TR))
                e = self.number(e, node)
                if self.tr:
                    return E("(-%s)" % coerce(e, TR, node), TR, np=e.np)
                t = INT if e.ty == NAT else e.ty
                return E("(-%s)" % coerce(e, t, node), t, np=e.np)
            if isinstance(node.op, ast.Invert):
                e = self.expr(node.operand, env, binds)
                if e.ty != BOOLMAT:
                    raise Unsupported("~ on a %s" % show_type(e.ty), node)
                return E("(Mir.PyM.logicalNot %s)" % e.term, BOOLMAT)
            raise Unsupported("unary operator %s" % type(node.op).__name__, node)
        if isinstance(node, ast.BinOp):
            return self.binop(node, env, binds)
        if isinstance(node, ast.BoolOp):
            return E(self.cond(node, env, binds), BOOL)
        if isinstance(node, ast.Compare):
            return self.compare(node, env, binds)
        if isinstance(node, ast.Attribute):
            return self.attribute(node, env, binds)
        if isinstance(node, ast.Subscript):
            return self.subscript(node, env, binds)
        if isinstance(node, ast.Call):
            return self.call(node, env, binds)
        raise Unsupported("expression %s" % type(node).__name__, node)

    def binop(self, node, env, binds):
        op = node.op
        if not isinstance(op, (ast.Add, ast.Sub, ast.Mult, ast.Div, ast.Pow)):
            raise Unsupported("operator %s" % type(op).__name__, node)
        a0 = self.expr(node.left, env, binds)
        if isinstance(op, ast.Pow):
            a = self.number(a0, node)
            r = node.right
            if a.ty == TR or not (isinstance(r, ast.Constant) and type(r.value) is int and r.value >= 0):
                raise Unsupported("** with a non-literal or negative exponent", node)
            return E("(%s ^ %d)" % (a.term, r.value), a.ty, np=a.np)
        b0 = self.expr(node.right, env, binds)
        if a0.ty[0] in ("vec", "mat") or b0.ty[0] in ("vec", "mat"):
            return self.elementwise(op, a0, b0, node)
        return self.scalar_op(op, self.number(a0, node), self.number(b0, node), binds, node)

    def scalar_op(self, op, a, b, binds, node):
        isnp = a.np or b.np
        sym = {ast.Add: "+", ast.Sub: "-", ast.Mult: "*", ast.Div: "/"}[type(op)]
        if self.tr and (TR in (a.ty, b.ty) or isinstance(op, ast.Div) or a.flt or b.flt):
            exact = (a.ty == NAT and b.ty == NAT and isinstance(op, ast.Add))     # a sum of exact naturals stays exact
            if not exact:
                if INT in (a.ty, b.ty) or NUM in (a.ty, b.ty):
                    raise Unsupported("%s on %s and %s in a transcendental function" % (sym, show_type(a.ty), show_type(b.ty)), node)
                if isinstance(op, ast.Div) and not isnp:
                    raise Unsupported("a division of two Python numbers (it can raise ZeroDivisionError) in a "
                                      "transcendental function", node)
                return E("(%s %s %s)" % (coerce(a, TR, node), sym, coerce(b, TR, node)), TR, np=isnp)
            return E("(%s + %s)" % (a.term, b.term), NAT, np=isnp, flt=a.flt or b.flt)
        if isinstance(op, ast.Div):
            at, bt = coerce(a, RAT, node), coerce(b, RAT, node)
            if b.lit is not None and b.lit != 0:
                return E("(%s / %s)" % (at, bt), RAT, np=isnp)
            if isnp:
                return E("(Mir.PyM.divNp %s %s)" % (at, bt), NUM, np=True)
            if binds is None:
                raise Unsupported("a division that can raise inside an elementwise operation", node)
            tmp = self.bind(binds, "Mir.PyS.divF %s %s" % (at, bt), RAT, node)
            return E(tmp, RAT)
        t = join(a.ty, b.ty, node)
        if isinstance(op, ast.Sub) and t == NAT:
            t = INT
        return E("(%s %s %s)" % (coerce(a, t, node), sym, coerce(b, t, node)), t, np=isnp)

    def elementwise(self, op, a, b, node):
        """NumPy broadcasting of + - * / between 1-D arrays and scalars, and `M / s` (transcendental functions only)"""
        if not self.tr:
            raise Unsupported("array arithmetic outside a transcendental function", node)

        def elem(e, var):
            if e.ty[0] in ("vec", "mat"):
                if e.ty[1] not in (NAT, TR):
                    raise Unsupported("arithmetic on an array of %s" % show_type(e.ty[1]), node)
                return E(var, e.ty[1], np=True, flt=e.flt)
            return self.number(e, node)
        if a.ty[0] == "mat" or b.ty[0] == "mat":
            if not (a.ty[0] == "mat" and b.ty[0] not in ("vec", "mat")):
                raise Unsupported("matrix arithmetic other than M <op> scalar", node)
            r = self.scalar_op(op, elem(a, "_v"), elem(b, None), None, node)
            return E("(Mir.PyM.Mat.map (fun _v => %s) %s)" % (r.term, a.term), MAT(r.ty), flt=r.flt)
        if a.ty[0] == "vec" and b.ty[0] == "vec":
            r = self.scalar_op(op, elem(a, "_v"), elem(b, "_w"), None, node)
            return E("(List.zipWith (fun _v _w => %s) %s %s)" % (r.term, a.term, b.term), VEC(r.ty), flt=r.flt)
        if a.ty[0] == "vec":
            r = self.scalar_op(op, elem(a, "_v"), elem(b, None), None, node)
            return E("(List.map (fun _v => %s) %s)" % (r.term, a.term), VEC(r.ty), flt=r.flt)
        r = self.scalar_op(op, elem(a, None), elem(b, "_v"), None, node)
        return E("(List.map (fun _v => %s) %s)" % (r.term, b.term), VEC(r.ty), flt=r.flt)

    def compare(self, node, env, binds):
        operands = [node.left] + list(node.comparators)
        es = []
        for x in operands:
            b = []
            es.append(self.expr(x, env, b))
            if b and len(operands) > 2:
                raise Unsupported("chained comparison whose operands can raise", node)
            binds += b
        terms = []
        for i, op in enumerate(node.ops):
            a, b = es[i], es[i + 1]
            sym = {ast.Eq: "=", ast.NotEq: "≠", ast.Lt: "<", ast.LtE: "≤", ast.Gt: ">", ast.GtE: "≥"}.get(type(op))
            if sym is None:
                raise Unsupported("comparison operator %s" % type(op).__name__, node)
            if a.ty in (VEC(NAT), MAT(NAT)):
                # a mask: an array of exact naturals against an integral literal
                if len(node.ops) != 1 or b.lit is None or type(b.lit) not in (int, float) or b.lit != int(b.lit) or b.lit < 0:
                    raise Unsupported("array comparison with anything but a non-negative integral literal", node)
                fn = "(fun _v => decide (_v %s (%d : Nat)))" % (sym, int(b.lit))
                if a.ty[0] == "vec":
                    return E("(List.map %s %s)" % (fn, a.term), MASK("vec"))
                return E("(List.map (List.map %s) (Mir.PyM.Mat.rows %s))" % (fn, a.term), MASK("mat"))
            a, b = self.number(a, node), self.number(b, node)
            if TR in (a.ty, b.ty):
                at, bt = coerce(a, TR, node), coerce(b, TR, node)
                if isinstance(op, ast.Gt):
                    terms.append("(%s.lt %s %s)" % (TC, bt, at))
                elif isinstance(op, ast.Lt):
                    terms.append("(%s.lt %s %s)" % (TC, at, bt))
                elif isinstance(op, ast.Eq):
                    terms.append("(%s.beq %s %s)" % (TC, at, bt))
                else:
                    raise Unsupported("comparison %s on transcendental numbers (the class has < and == only)" % sym, node)
                continue
            t = join(a.ty, b.ty, node)
            terms.append("(decide (%s %s %s))" % (coerce(a, t, node), sym, coerce(b, t, node)))
        return E(terms[0] if len(terms) == 1 else "(%s)" % " && ".join(terms), BOOL)

    def attribute(self, node, env, binds):
        if dotted(node) is not None and isinstance(node.value, ast.Name) and node.value.id not in env:
            raise Unsupported("attribute %s of a non-local" % dotted(node), node)
        v = self.expr(node.value, env, binds)
        if node.attr == "size":
            if v.ty == INTERVALS:
                return E("(Mir.PyM.size2 %s)" % v.term, NAT)
            if v.ty[0] == "vec":
                return E("(Mir.PyM.len %s)" % v.term, NAT)
        raise Unsupported("attribute .%s of a %s" % (node.attr, show_type(v.ty)), node)

    def subscript(self, node, env, binds):
        idx = node.slice
        if isinstance(idx, ast.UnaryOp) and isinstance(idx.op, ast.USub) and isinstance(idx.operand, ast.Constant):
            idx = ast.Constant(value=-idx.operand.value)
        if not (isinstance(idx, ast.Constant) and type(idx.value) is int):
            if self.tr and isinstance(idx, (ast.Name, ast.Compare)):
                m = self.expr(idx, env, binds)
                a = self.expr(node.value, env, binds)
                if m.ty == MASK("vec") and a.ty[0] == "vec":
                    return E("(Mir.PyM.selectVec %s %s)" % (a.term, m.term), a.ty, flt=a.flt)
                if m.ty == MASK("mat") and a.ty[0] == "mat":
                    return E("(Mir.PyM.selectMat %s %s)" % (a.term, m.term), VEC(a.ty[1]), flt=a.flt)
                raise Unsupported("%s indexed by a %s" % (show_type(a.ty), show_type(m.ty)), node)
            raise Unsupported("subscript with a non-literal index", node)
        i = idx.value
        v = node.value
        # x.shape[i]
        if isinstance(v, ast.Attribute) and v.attr == "shape":
            a = self.expr(v.value, env, binds)
            if a.ty[0] == "vec" and i == 0:
                return E("(Mir.PyM.shape0 %s)" % a.term, NAT)
            if a.ty[0] == "mat" and i in (0, 1):
                return E("(Mir.PyM.Mat.%s %s)" % ("nrows" if i == 0 else "ncols", a.term), NAT)
            raise Unsupported(".shape[%d] of a %s" % (i, show_type(a.ty)), node)
        # externs whose result is a tuple of which one component is used
        if isinstance(v, ast.Call):
            fn = dotted(v.func)
            if fn == "util.intervals_to_samples":
                if i != -1:
                    raise Unsupported("only the label component [-1] of util.intervals_to_samples is modelled", node)
                if len(v.args) != 2 or [k.arg for k in v.keywords] != ["sample_size"]:
                    raise Unsupported("util.intervals_to_samples(intervals, labels, sample_size=...) expected", node)
                iv, labs = self.expr(v.args[0], env, binds), self.expr(v.args[1], env, binds)
                fs = self.expr(v.keywords[0].value, env, binds)
                if iv.ty != INTERVALS or labs.ty != STRLIST or fs.ty not in (NAT, INT, RAT):
                    raise Unsupported("util.intervals_to_samples on (%s, %s, %s)" % (
                        show_type(iv.ty), show_type(labs.ty), show_type(fs.ty)), node)
                return E("(Mir.PyM.intervals_to_samples_labels %s %s %s)" % (iv.term, labs.term, coerce(fs, RAT, node)),
                         FRAMELABELS)
            if fn == "util.index_labels":
                if i != 0:
                    raise Unsupported("only the index component [0] of util.index_labels is modelled", node)
                if len(v.args) != 1 or v.keywords:
                    raise Unsupported("util.index_labels(labels) expected", node)
                a = self.expr(v.args[0], env, binds)
                if a.ty != FRAMELABELS:
                    raise Unsupported("util.index_labels on a %s" % show_type(a.ty), node)
                return E("(Mir.PyM.index_labels_indices %s)" % a.term, LABELS)
        a = self.expr(v, env, binds)
        if a.ty[0] == "tup":
            n = len(a.ty[1])
            if not -n <= i < n:
                raise Unsupported("tuple index out of range", node)
            i %= n
            if a.elts is not None:
                return a.elts[i]
            proj = a.term + "".join(".2" for _ in range(i)) + (".1" if i < n - 1 else "")
            return E("(%s)" % proj, a.ty[1][i])
        raise Unsupported("subscript of a %s" % show_type(a.ty), node)

    def kwargs(self, node, allowed):
        out = {}
        for k in node.keywords:
            if k.arg is None or k.arg not in allowed or k.arg in out:
                raise Unsupported("keyword argument %s" % k.arg, node)
            out[k.arg] = k.value
        return out

    def call(self, node, env, binds):
        f = node.func
        if any(isinstance(a, ast.Starred) for a in node.args):
            raise Unsupported("starred argument", node)
        name = dotted(f)
        args = node.args
        # ---- builtins -------------------------------------------------------------------
        if isinstance(f, ast.Name):
            if f.id in self.locals:
                raise Unsupported("call of a local", node)
            builtin = f.id not in self.m.funcs and f.id not in self.m.assigned and f.id not in self.m.imports
            if builtin and f.id == "len" and len(args) == 1 and not node.keywords:
                a = self.expr(args[0], env, binds)
                if a.ty[0] == "vec" or a.ty in (STRLIST, INTERVALS, FRAMELABELS):
                    return E("(Mir.PyM.len %s)" % a.term, NAT)
                raise Unsupported("len of a %s" % show_type(a.ty), node)
            if builtin and f.id == "float" and len(args) == 1 and not node.keywords:
                a = self.number(self.expr(args[0], env, binds), node)
                if self.tr:
                    if a.ty not in (NAT, TR):
                        raise Unsupported("float() of a %s in a transcendental function" % show_type(a.ty), node)
                    return E(a.term, a.ty, np=False, lit=a.lit, flt=(a.ty == NAT))
                return E(coerce(a, RAT, node), RAT, np=False, lit=a.lit)
            if builtin and f.id == "max" and len(args) == 2 and not node.keywords and self.tr:
                a = self.number(self.expr(args[0], env, binds), node)
                b = self.number(self.expr(args[1], env, binds), node)
                return E("(Mir.Segment.pyMax %s %s)" % (coerce(a, TR, node), coerce(b, TR, node)), TR, np=a.np and b.np)
            if builtin and f.id == "sum" and len(args) == 1 and not node.keywords:
                g = args[0]
                if not (isinstance(g, ast.GeneratorExp) and len(g.generators) == 1):
                    raise Unsupported("sum of anything but a one-clause generator expression", node)
                c = g.generators[0]
                if c.ifs or c.is_async or not isinstance(c.target, ast.Name):
                    raise Unsupported("generator with a filter / a structured target", node)
                it = self.expr(c.iter, env, binds)
                if it.ty != VEC(NAT):
                    raise Unsupported("generator over a %s" % show_type(it.ty), node)
                env2 = dict(env)
                env2[c.target.id] = (NAT, True, it.flt)
                b = []
                body = self.expr(g.elt, env2, b)
                if b:
                    raise Unsupported("generator element that can raise", node)
                if body.ty != NAT:
                    raise Unsupported("sum of a generator of %s" % show_type(body.ty), node)
                return E("(Mir.PyM.pySum (List.map (fun %s => %s) %s))" % (ident(c.target.id), body.term, it.term), NAT)
            if builtin:
                raise Unsupported("call of %s" % f.id, node)
            if f.id == "validate_structure" and len(args) == 4 and not node.keywords:
                es = [self.expr(a, env, binds) for a in args]
                if [e.ty for e in es] != [INTERVALS, STRLIST, INTERVALS, STRLIST]:
                    raise Unsupported("validate_structure on %s" % ", ".join(show_type(e.ty) for e in es), node)
                tmp = self.bind(binds, "Mir.PyM.validate_structure %s" % " ".join(e.term for e in es), NONE, node)
                return E(tmp, NONE)
            sig = self.m.translate(f.id, node)
            if sig.tr and not self.tr:
                raise Unsupported("call of the transcendental %s from an exact function" % f.id, node)
            kw = self.kwargs(node, [p[0] for p in sig.params[len(args):]])
            if len(args) > len(sig.params):
                raise Unsupported("call of %s with %d arguments" % (f.id, len(args)), node)
            terms = []
            for i, (pn, pt, pd) in enumerate(sig.params):
                if i < len(args) or pn in kw:
                    e = self.expr(args[i] if i < len(args) else kw[pn], env, binds)
                    if pt[0] == "opt" and e.ty == pt[1]:
                        terms.append("(some %s)" % e.term)
                    else:
                        terms.append(coerce(e, pt, node))
                elif pd is not None:
                    terms.append(self.default_term(pd, pt))
                else:
                    raise Unsupported("missing argument %s of %s" % (pn, f.id), node)
            tmp = self.bind(binds, "%s %s" % (self.callee(sig), " ".join(terms)), sig.ret, node)
            return E(tmp, sig.ret, np=sig.ret_np)
        # ---- methods of local values ---------------------------------------------------
        if isinstance(f, ast.Attribute) and not (name and name.split(".")[0] not in env):
            if f.attr == "toarray" and isinstance(f.value, ast.Call) and dotted(f.value.func) == "scipy.sparse.coo_matrix":
                return self.coo(f.value, node, env, binds)
            recv = self.expr(f.value, env, binds)
            if f.attr == "astype" and len(args) == 1 and not node.keywords and self.tr:
                if dotted(args[0]) in ("float", "np.float64") and "float" not in self.locals \
                        and recv.ty in (VEC(NAT), MAT(NAT), NAT):
                    return E(recv.term, recv.ty, np=recv.np, flt=True)
                raise Unsupported(".astype(%s) of a %s" % (dotted(args[0]), show_type(recv.ty)), node)
            if f.attr == "dot" and len(args) == 1 and not node.keywords and self.tr:
                o = self.expr(args[0], env, binds)
                if recv.ty == VEC(TR) and o.ty == VEC(TR):
                    return E("(Mir.PyM.dot %s %s)" % (recv.term, o.term), TR, np=True)
                raise Unsupported(".dot on (%s, %s)" % (show_type(recv.ty), show_type(o.ty)), node)
            kw = self.kwargs(node, ("axis",))
            if f.attr == "sum" and not args and self.tr:
                r = self.np_sum(recv, kw.get("axis"), node)
                if r is not None:
                    return r
            if f.attr == "sum" and not args:
                if recv.ty == BOOLMAT and not kw:
                    return E("(Mir.PyM.sumBool %s)" % recv.term, NAT, np=True)
                if recv.ty == MAT(NAT):
                    if not kw:
                        return E("(Mir.PyM.sumAll %s)" % recv.term, NAT, np=True)
                    ax = kw["axis"]
                    if isinstance(ax, ast.Constant) and ax.value in (0, 1) and type(ax.value) is int:
                        return E("(Mir.PyM.sumAxis%d %s)" % (ax.value, recv.term), VEC(NAT))
                if recv.ty == VEC(NAT) and not kw:
                    return E("(Mir.PyM.pySum %s)" % recv.term, NAT, np=True)
            if f.attr == "flatten" and not args and not kw and recv.ty == MAT(NAT):
                return E("(Mir.PyM.flatten %s)" % recv.term, VEC(NAT))
            raise Unsupported("method .%s on a %s" % (f.attr, show_type(recv.ty)), node)
        # ---- numpy / scipy / util -------------------------------------------------------
        if self.tr:
            r = self.tr_call(name, node, env, binds)
            if r is not None:
                return r
        if name == "scipy.sparse.coo_matrix":
            raise Unsupported("a coo_matrix that is not converted by .toarray()", node)
        if name == "np.equal.outer" and len(args) == 2 and not node.keywords:
            a, b = self.expr(args[0], env, binds), self.expr(args[1], env, binds)
            if a.ty != LABELS or b.ty != LABELS:
                raise Unsupported("np.equal.outer on (%s, %s)" % (show_type(a.ty), show_type(b.ty)), node)
            return E("(Mir.PyM.equalOuter %s %s)" % (a.term, b.term), BOOLMAT)
        if name in ("np.logical_and", "np.logical_or") and len(args) == 2 and not node.keywords:
            a, b = self.expr(args[0], env, binds), self.expr(args[1], env, binds)
            if a.ty != BOOLMAT or b.ty != BOOLMAT:
                raise Unsupported("%s on (%s, %s)" % (name, show_type(a.ty), show_type(b.ty)), node)
            prim = "logicalAnd" if name == "np.logical_and" else "logicalOr"
            tmp = self.bind(binds, "Mir.PyM.%s %s %s" % (prim, a.term, b.term), BOOLMAT, node)
            return E(tmp, BOOLMAT)
        if name == "np.logical_not" and len(args) == 1 and not node.keywords:
            a = self.expr(args[0], env, binds)
            if a.ty != BOOLMAT:
                raise Unsupported("np.logical_not on a %s" % show_type(a.ty), node)
            return E("(Mir.PyM.logicalNot %s)" % a.term, BOOLMAT)
        if name == "np.unique" and len(args) == 1:
            kw = self.kwargs(node, ("return_inverse",))
            a = self.expr(args[0], env, binds)
            if a.ty != LABELS:
                raise Unsupported("np.unique on a %s" % show_type(a.ty), node)
            if not kw:
                return E("(Mir.PyM.unique %s)" % a.term, LABELS)
            ri = kw["return_inverse"]
            if isinstance(ri, ast.Constant) and ri.value is True:
                return E("(Mir.PyM.uniqueInverse %s)" % a.term, TUP([LABELS, LABELS]))
            raise Unsupported("np.unique(return_inverse=<not the literal True>)", node)
        if name == "np.ones" and len(args) == 1 and not node.keywords:
            a = self.expr(args[0], env, binds)
            if a.ty != NAT:
                raise Unsupported("np.ones of a %s" % show_type(a.ty), node)
            return E("(Mir.PyM.ones %s)" % a.term, VEC(NAT))
        if name == "scipy.special.comb" and len(args) == 2:
            kw = self.kwargs(node, ("exact",))
            k = args[1]
            if not (isinstance(k, ast.Constant) and type(k.value) is int and k.value == 2):
                raise Unsupported("scipy.special.comb(n, k) with k other than the literal 2", node)
            a = self.expr(args[0], env, binds)
            if a.ty != NAT:
                raise Unsupported("scipy.special.comb of a %s" % show_type(a.ty), node)
            if not kw:
                return E("(Mir.PyM.comb2F %s)" % a.term, RAT, np=True)
            ex = kw["exact"]
            if isinstance(ex, ast.Constant) and ex.value in (1, True):
                return E("(Mir.PyM.comb2 %s)" % a.term, NAT)
            raise Unsupported("scipy.special.comb(exact=<not 1 / True>)", node)
        if name == "util.f_measure" and len(args) == 2:
            kw = self.kwargs(node, ("beta",))
            p, r = self.expr(args[0], env, binds), self.expr(args[1], env, binds)
            beta = self.expr(kw["beta"], env, binds) if kw else E(lean_rat(1), RAT, lit=1.0)
            if not ((p.ty == NUM or p.np) and (r.ty == NUM or r.np)) or p.ty not in NUMERIC or r.ty not in NUMERIC:
                raise Unsupported("util.f_measure on values that are not NumPy scalars", node)
            if beta.ty not in (NAT, INT, RAT):
                raise Unsupported("util.f_measure(beta=<%s>)" % show_type(beta.ty), node)
            return E("(Mir.PyM.f_measure_np %s %s %s)" % (coerce(p, NUM, node), coerce(r, NUM, node),
                                                          coerce(beta, RAT, node)), NUM, np=True)
        raise Unsupported("call of %s" % (name or "a computed function"), node)

    def np_sum(self, x, axis, node):
        if axis is not None and not (isinstance(axis, ast.Constant) and type(axis.value) is int and axis.value in (0, 1)):
            raise Unsupported("sum along a non-literal axis", node)
        ax = None if axis is None else axis.value
        if x.ty == VEC(NAT) and ax is None:
            return E("(Mir.PyM.pySum %s)" % x.term, NAT, np=True, flt=x.flt)
        if x.ty == VEC(TR) and ax is None:
            return E("(Mir.Segment.tsum %s)" % x.term, TR, np=True)
        if x.ty == MAT(NAT):
            if ax is None:
                return E("(Mir.PyM.sumAll %s)" % x.term, NAT, np=True, flt=x.flt)
            return E("(Mir.PyM.sumAxis%d %s)" % (ax, x.term), VEC(NAT), flt=x.flt)
        if x.ty == MAT(TR) and ax is not None:
            return E("(Mir.PyM.tsumAxis%d %s)" % (ax, x.term), VEC(TR))
        return None

    def tr_call(self, name, node, env, binds):
        """the calls accepted only in transcendental functions; None = not one of them"""
        args = node.args
        if name == "np.sum" and len(args) == 1:
            kw = self.kwargs(node, ("axis",))
            r = self.np_sum(self.expr(args[0], env, binds), kw.get("axis"), node)
            if r is None:
                raise Unsupported("np.sum of this operand", node)
            return r
        if name in ("np.log", "np.sqrt") and len(args) == 1 and not node.keywords:
            fn = "%s.%s" % (TC, name[3:])
            a = self.expr(args[0], env, binds)
            if a.ty[0] == "vec" and a.ty[1] in (NAT, TR):
                el = E("_v", a.ty[1], flt=a.flt)
                return E("(List.map (fun _v => %s %s) %s)" % (fn, coerce(el, TR, node), a.term), VEC(TR))
            a = self.number(a, node)
            if a.ty not in (NAT, TR):
                raise Unsupported("%s of a %s" % (name, show_type(a.ty)), node)
            return E("(%s %s)" % (fn, coerce(a, TR, node)), TR, np=True)
        if name == "np.log2" and len(args) == 1 and not node.keywords:
            a = self.number(self.expr(args[0], env, binds), node)
            if a.ty not in (NAT, TR):
                raise Unsupported("np.log2 of a %s" % show_type(a.ty), node)
            return E("(Mir.PyM.log2 %s)" % coerce(a, TR, node), TR, np=True)
        if name == "np.clip" and len(args) == 3 and not node.keywords:
            a = self.number(self.expr(args[0], env, binds), node)
            lo, hi = args[1], args[2]
            if a.ty == TR and isinstance(lo, ast.Constant) and lo.value == 0 and type(lo.value) in (int, float) \
                    and isinstance(hi, ast.Constant) and hi.value is None:
                return E("(Mir.Segment.clip0 %s)" % a.term, TR, np=True)
            raise Unsupported("np.clip other than np.clip(<scalar>, 0.0, None)", node)
        if name == "np.outer" and len(args) == 2 and not node.keywords:
            a, b = self.expr(args[0], env, binds), self.expr(args[1], env, binds)
            if a.ty == VEC(NAT) and b.ty == VEC(NAT) and a.flt and b.flt:
                return E("(Mir.PyM.outerT %s %s)" % (a.term, b.term), MAT(TR))
            raise Unsupported("np.outer on (%s, %s)" % (show_type(a.ty), show_type(b.ty)), node)
        if name == "np.bincount" and len(args) == 1 and not node.keywords:
            a = self.expr(args[0], env, binds)
            if a.ty == LABELS:
                return E("(Mir.PyM.bincount %s)" % a.term, VEC(NAT))
            raise Unsupported("np.bincount of a %s" % show_type(a.ty), node)
        if name == "np.array" and len(args) == 1:
            kw = self.kwargs(node, ("dtype",))
            a = self.expr(args[0], env, binds)
            dt = kw.get("dtype")
            if a.ty in (VEC(NAT), MAT(NAT)) and a.flt and dt is not None and (
                    (isinstance(dt, ast.Constant) and dt.value == "float") or dotted(dt) in ("float", "np.float64")):
                return E(a.term, a.ty, flt=True)
            raise Unsupported("np.array other than a float copy of a float array", node)
        if name == "scipy.stats.entropy" and len(args) == 1:
            kw = self.kwargs(node, ("base",))
            b = kw.get("base")
            if not (isinstance(b, ast.Constant) and type(b.value) is int and b.value == 2):
                raise Unsupported("scipy.stats.entropy without base=2", node)
            x = args[0]
            if isinstance(x, ast.Attribute) and x.attr == "T":
                m = self.expr(x.value, env, binds)
                if m.ty == MAT(TR):
                    return E("(Mir.PyM.entropyRows2 %s)" % m.term, VEC(TR))       # entropy of the columns of M.T
                raise Unsupported("scipy.stats.entropy of the transpose of a %s" % show_type(m.ty), node)
            a = self.expr(x, env, binds)
            if a.ty == VEC(TR):
                return E("(Mir.Segment.statsEntropy2 %s)" % a.term, TR, np=True)
            if a.ty == MAT(TR):
                return E("(Mir.PyM.entropyCols2 %s)" % a.term, VEC(TR))
            raise Unsupported("scipy.stats.entropy of a %s" % show_type(a.ty), node)
        if name == "util.f_measure" and len(args) == 2:
            kw = self.kwargs(node, ("beta",))
            p, r = self.number(self.expr(args[0], env, binds), node), self.number(self.expr(args[1], env, binds), node)
            beta = self.expr(kw["beta"], env, binds) if kw else E(tr_literal(1.0), TR, lit=1.0)
            # (p or r may be the Python float of a literal initialisation; util.f_measure divides only when one of them
            #  is non-zero, i.e. a NumPy scalar computed by this function: no ZeroDivisionError path, as fMeasureT says)
            if p.ty != TR or r.ty != TR or beta.ty not in (NAT, RAT, TR):
                raise Unsupported("util.f_measure on (%s, %s, %s) in a transcendental function" % (
                    show_type(p.ty), show_type(r.ty), show_type(beta.ty)), node)
            return E("(Mir.PyM.f_measure_t %s %s %s)" % (p.term, r.term, coerce(beta, TR, node)), TR, np=True)
        return None

    def coo(self, c, node, env, binds):
        """`scipy.sparse.coo_matrix((data, (ri, ci)), shape=(r, c), dtype=np.int64).toarray()`"""
        if node.args or node.keywords:
            raise Unsupported(".toarray() with arguments", node)
        kw = self.kwargs(c, ("shape", "dtype"))
        if len(c.args) != 1 or set(kw) != {"shape", "dtype"}:
            raise Unsupported("coo_matrix((data, (i, j)), shape=..., dtype=...) expected", node)
        if dotted(kw["dtype"]) != "np.int64":
            raise Unsupported("coo_matrix dtype other than np.int64", node)
        a = c.args[0]
        if not (isinstance(a, ast.Tuple) and len(a.elts) == 2 and isinstance(a.elts[1], ast.Tuple) and len(a.elts[1].elts) == 2):
            raise Unsupported("coo_matrix argument is not (data, (i, j))", node)
        sh = kw["shape"]
        if not (isinstance(sh, ast.Tuple) and len(sh.elts) == 2):
            raise Unsupported("coo_matrix shape is not a pair", node)
        data = self.expr(a.elts[0], env, binds)
        ri, ci = self.expr(a.elts[1].elts[0], env, binds), self.expr(a.elts[1].elts[1], env, binds)
        nr, nc = self.expr(sh.elts[0], env, binds), self.expr(sh.elts[1], env, binds)
        if [data.ty, ri.ty, ci.ty, nr.ty, nc.ty] != [VEC(NAT), LABELS, LABELS, NAT, NAT]:
            raise Unsupported("coo_matrix on (%s)" % ", ".join(show_type(x.ty) for x in (data, ri, ci, nr, nc)), node)
        tmp = self.bind(binds, "Mir.PyM.cooToArray %s %s %s %s %s" % (data.term, ri.term, ci.term, nr.term, nc.term),
                        MAT(NAT), node)
        return E(tmp, MAT(NAT))


# ----------------------------------------------------------------------------------------
# a whole function: signature, dependence slicing, emission

def read_names(st, local_names):
    out = set()
    for nd in ast.walk(st):
        if isinstance(nd, ast.Name) and isinstance(nd.ctx, ast.Load) and nd.id in local_names:
            out.add(nd.id)
    return out


def translate_def(module, fn):
    """-> [(Sig, lines)] in emission order (core first)"""
    if fn.decorator_list:
        raise Unsupported("decorated function", fn)
    a = fn.args
    if a.vararg or a.kwarg or a.kwonlyargs or a.posonlyargs:
        raise Unsupported("*args / **kwargs / keyword-only parameters", fn)
    doc = doc_param_types(fn)
    private = fn.name.startswith("_")
    params = []
    ndef = len(a.defaults)
    for i, p in enumerate(a.args):
        if p.arg not in doc:
            raise Unsupported("parameter %s has no documented type" % p.arg, fn)
        d = None
        k = i - (len(a.args) - ndef)
        if k >= 0:
            d = const_expr(a.defaults[k])
        ty = param_type(doc[p.arg], private, fn, default_none=(d is not None and d.ty == NONE))
        if d is not None and d.ty != NONE:
            coerce(d, ty, fn)
        params.append((p.arg, ty, d))
    body = [s for s in fn.body
            if not (isinstance(s, ast.Expr) and isinstance(s.value, ast.Constant) and isinstance(s.value.value, str))]
    where = "`segment.%s` (mir_eval/segment.py)" % fn.name
    array_params = {n for n, t, _ in params if t in (INTERVALS, STRLIST)}
    if not array_params:
        return [Body(module, fn, fn.name, params, body, what=where).translate()]
    # ---- slice: prologue (reads the annotation arrays) / core (reads only frame-label index vectors) ----
    scalar_params = [n for n, t, _ in params if t in (RAT, BOOL, NAT, INT)]
    local_names = set(assigned_names(body)) | {n for n, _, _ in params}
    core_names, inputs, kinds = set(), [], []
    for st in body:
        reads = read_names(st, local_names)
        writes = assigned_names([st])
        if is_index_labels_assign(st):
            kinds.append("pro")
            x = st.targets[0].id
            if x in inputs:
                raise Unsupported("frame-label index vector %s is assigned twice" % x, st)
            inputs.append(x)
            core_names.add(x)
            continue
        if inputs and reads <= (core_names | set(scalar_params)) and not (set(writes) & set(inputs)):
            kinds.append("core")
            core_names.update(writes)
        else:
            kinds.append("pro")
            core_names.difference_update(writes)
            if set(writes) & set(inputs):
                raise Unsupported("frame-label index vector reassigned", st)
    if not inputs:
        # no frame sampling here (e.g. `vmeasure`, which only calls `nce`): a plain definition
        return [Body(module, fn, fn.name, params, body, what=where).translate()]
    if not kinds or kinds[-1] != "core" or not isinstance(body[-1], ast.Return):
        raise Unsupported("the function does not end in a `return` that depends only on the frame-label index vectors", fn)
    core_stmts = [s for s, k in zip(body, kinds) if k == "core"]
    pro_stmts = [s for s, k in zip(body, kinds) if k == "pro"]
    used = set()
    for s in core_stmts:
        used |= read_names(s, local_names)
    cparams = [(x, LABELS, None) for x in inputs] + [(n, t, None) for n, t, _ in params if n in scalar_params and n in used]
    lines_core = "the statements of %s that depend only on the frame-label index vectors (%s)%s: source lines %s" % (
        where, ", ".join(inputs), "".join(", " + n for n, _, _ in cparams[len(inputs):]),
        ", ".join(str(s.lineno) if s.lineno == s.end_lineno else "%d-%d" % (s.lineno, s.end_lineno) for s in core_stmts))
    core = Body(module, fn, fn.name + "_core", cparams, core_stmts, what=lines_core)
    csig, clines = core.translate()
    last_pro = max(i for i, k in enumerate(kinds) if k == "pro")
    for i, (s, k) in enumerate(zip(body, kinds)):
        if k == "core" and i < last_pro:
            if any(s.lineno <= ln <= s.end_lineno for ln in core.effect_lines):
                raise Unsupported("a statement that can raise and depends only on the frame-label index vectors precedes "
                                  "the end of the prologue", s)
    pro = Body(module, fn, fn.name, params, pro_stmts, final=(csig, [p[0] for p in cparams]),
               what=where + ": validation, empty-annotation return and frame sampling, then `%s_core`" % fn.name)
    psig, plines = pro.translate()
    return [(csig, clines), (psig, plines)]


# ----------------------------------------------------------------------------------------
# driver handler

def val_decoder(ty, v):
    if ty == RAT:
        return "let %s ← Val.asRat? %s" % (v, v)
    if ty == NAT:
        return "let %s ← Val.asNat? %s" % (v, v)
    if ty == INT:
        return "let %s ← Val.asInt? %s" % (v, v)
    if ty == BOOL:
        return "let %s ← Val.asBool? %s" % (v, v)
    if ty == LABELS:
        return "let %s ← Val.asNats? %s" % (v, v)
    if ty == INTERVALS:
        return "let %s ← Val.asRatPairs? %s" % (v, v)
    if ty == STRLIST:
        return "let %s ← (Val.asStrs? %s).map (List.map String.toList)" % (v, v)
    if ty == OPT(MAT(NAT)):
        return "let %s ← Mir.PyM.matOfVal? %s" % (v, v)
    raise Unsupported("no protocol decoder for %s" % show_type(ty))


def val_encoder(ty):
    k = ty[0]
    if k == "rat":
        return "Val.rat"
    if k == "nat":
        return "Val.ofNat"
    if k == "int":
        return "Val.ofInt"
    if k == "num":
        return "%s.toVal" % NUM_T
    if k == "tr":
        return "Val.flt"
    if k == "bool":
        return "Val.bool"
    if k == "none":
        return "(fun _ => Val.none)"
    if ty == VEC(NAT):
        return "Val.ofNats"
    if ty == MAT(NAT):
        return "(fun M => Val.list (List.map Val.ofNats (Mir.PyM.Mat.rows M)))"
    if k == "tup":
        n = len(ty[1])
        vs = ["x%d" % i for i in range(n)]
        return "(fun ((%s) : %s) => Val.list [%s])" % (
            ", ".join(vs), lean_type(ty).replace("α", "Float"),
            ", ".join("%s %s" % (val_encoder(t), v) for t, v in zip(ty[1], vs)))
    raise Unsupported("no protocol encoder for %s" % show_type(ty))


HEADER = """import MirModel.PyScalar
import MirModel.PyMat
/-!
  GENERATED by harness/translate/segindex.py from mir_eval/segment.py — do not edit.
  One shallow definition per translated function (`Mir.Gen.segment.<function>`; public metrics are split into
  `<function>_core` over the two frame-label index vectors and `<function>` = validation + sampling + core), over
  `Mir.PyM`.  Regenerated from the working tree on every run of ./check C16; `MirProofs/Props/C16_GenIndex.lean` proves
  each of them equal to the hand-written model (`MirModel/Segment.lean`) for all label sequences.
-/
set_option linter.unusedVariables false
"""


def translate_all(repo, wanted=None):
    """-> (lean text, {name: Sig}, problems [(function, detail)])"""
    wanted = WANTED if wanted is None else wanted
    path = os.path.join(repo, "mir_eval", "segment.py")
    problems = []
    try:
        m = Module(open(path, encoding="utf-8").read())
    except (OSError, SyntaxError) as e:
        m = None
        problems = [(f, "cannot read/parse %s: %s" % (path, e)) for f in wanted]
    if m is not None:
        for fname in wanted:
            try:
                m.translate(fname)
            except Unsupported as e:
                problems.append((fname, e.detail))
    L = [HEADER, "namespace Mir.Gen.segment", ""]
    rows = []
    emitted = [] if m is None else m.emitted
    for name, lines in emitted:
        L += lines + [""]
    L += ["end Mir.Gen.segment", ""]
    for name, _ in emitted:
        sig = m.sigs[name]
        try:
            vs = ["a%d" % i for i in range(len(sig.params))]
            decs = [val_decoder(p[1], v) for p, v in zip(sig.params, vs)]
            enc = val_encoder(sig.ret)
        except Unsupported:
            continue
        rows.append("  | \"gen.segindex\", Val.str \"%s\" :: [%s] => do\n%s      some (Except.map %s (Mir.Gen.segment.%s%s %s))" % (
            name, ", ".join(vs), "".join("      %s\n" % d for d in decs), enc, ident(name),
            " (α := Float)" if sig.tr else "", " ".join(vs)))
    L.append("namespace Mir.Gen.SegIndex")
    L.append("")
    L.append("/-- names of the translated definitions (in emission order) -/")
    L.append("def names : List String := [%s]" % ", ".join('"%s"' % n for n, _ in emitted))
    L.append("")
    L.append("/-- protocol op `gen.segindex <\"function\"> <args...>` -/")
    L.append("def handler : Handler := fun fn args =>")
    L.append("  match fn, args with")
    L += rows
    L.append("  | _, _ => none")
    L.append("")
    L.append("end Mir.Gen.SegIndex")
    return "\n".join(L) + "\n", ({} if m is None else dict(m.sigs)), problems


def generate(repo, outdir):
    text, done, problems = translate_all(repo)
    os.makedirs(outdir, exist_ok=True)
    write_if_changed(os.path.join(outdir, "SegIndex.lean"), text)
    obligations = ["Mir.Gen.segment.%s" % n for n in done]
    probs = [{"name": "segindex: segment.%s" % f, "detail": "outside the translated subset: " + d} for f, d in problems]
    return obligations, probs


if __name__ == "__main__":
    repo = sys.argv[1] if len(sys.argv) > 1 else "/repo"
    text, done, problems = translate_all(repo)
    sys.stdout.write(text)
    for p in problems:
        sys.stderr.write("PROBLEM segment.%s: %s\n" % p)
