"""mir_eval.separation: the BSS-eval criteria and the decomposition arithmetic -> lean/MirGen/SepCrit.lean  (AST based;
mir_eval is never imported).  Translator part `sepcrit` (C19).

One SHALLOW Lean definition per translated function, `Mir.Gen.separation.<function>`, over the run-time library
`lean/MirModel/PySep.lean` (`Mir.PySep`, + `Mir.PyM.divNp`, `Mir.PyMel.vadd / vsub`), plus a driver handler
(`Mir.Gen.SepCrit.handler`, protocol op `gen.sepcrit <"function"> <args...>`; `gen.sepcrit "?"` lists the translated
functions, so that suite `gen_sepcrit` asks only for those).  `MirProofs/Props/C19_Gen.lean` proves every one of them equal
to the hand-written model (`MirModel/Separation.lean`) for ALL inputs.

An extension of the `segindex` translator (`harness/translate/segindex.py`; its output is untouched): statements,
conditions, tuples, scalar arithmetic, comparisons, calls of other translated functions and the typing of `/` (`divNp`
when a NumPy scalar is involved: nan / +-inf, never raises) are inherited.  Fails closed: anything not listed is
`Unsupported` => the function is not emitted => translator problem => broken obligation.

ADDED SUBSET
  parameters   declared per function in PARAMS below (the private functions of separation.py have no numpydoc):
               `nd`    a float ndarray of the ONE shape shared by the four components of a decomposition (Lean: a type `V`
                       of class `Mir.PySep.Nd`; the definition is polymorphic in it),
               `npf`   an np.float64 that is finite (a sum of squares),
               `vec`   a 1-D float array (`List Rat`), `mat` a 2-D float array (`List (List Rat)`), `nat` an int >= 0,
               `proj`  (EXTERN) the function `_project` itself, a parameter of the generated definition.
  expressions  nd:  `a + b`, `a - b`, `-a`; `np.sum(a ** 2)` / `np.sum(a * a)` (same operand twice) -> `Nd.sumsq a`;
               `np.inf`; `10 * np.log10(x)` / `np.log10(x) * 10` for an np.float64 `x` -> `PySep.tenLog10 x` (a level in dB,
               `Separation.Db`, as the hand model writes it);
               vec: `a + b`, `a - b` (NumPy broadcasting, `PyMel.vadd / vsub`: ValueError unless equal lengths or one
               operand of length 1), `-a`, `a.size`, `M[j]` (IndexError), `M[j, np.newaxis, :]` (the 1-row matrix),
               `np.zeros(n)` (ValueError for n < 0), `np.hstack((a, b))`, `_project(M, v, n)` (the extern parameter);
  statements   `x[:n] += v` on a 1-D array the function has just computed (`PySep.addPrefix`: the broadcast of `v` must
               fit the slice).

`python harness/translate/sepcrit.py [repo]` prints the generated file.
"""
import ast
import os
import sys

try:
    from translate import write_if_changed
    from translate import segindex as SI
except ImportError:  # run as a script
    sys.path.insert(0, os.path.dirname(os.path.dirname(os.path.abspath(__file__))))
    from translate import write_if_changed
    from translate import segindex as SI

from translate.segindex import (Unsupported, E, NAT, INT, RAT, NUM, BOOL, NONE, VEC, TUP, ident, indent,  # noqa: E402
                                coerce, dotted, show_type, Sig, join)

ND = ("nd",)          # a float ndarray of the decomposition's shape (class Mir.PySep.Nd)
DB = ("db",)          # a level in dB (Mir.Separation.Db)
FVEC = VEC(RAT)       # a 1-D float array
FMAT = ("fmat",)      # a 2-D float array, rows
PROJ = ("proj",)      # the extern `_project`

NDC = "Mir.PySep.Nd"

# functions of mir_eval/separation.py, in emission order; REQUIRED: one that leaves the subset is a translator problem
WANTED = ["_safe_db", "_bss_source_crit", "_bss_image_crit", "_bss_decomp_mtifilt"]

# parameter kinds, by position, with the names the source must use (the generated definitions take them in this order);
# (type, is a NumPy scalar)
PARAMS = {
    "_safe_db": [("num", RAT, True), ("den", RAT, True)],
    "_bss_source_crit": [("s_true", ND, False), ("e_spat", ND, False), ("e_interf", ND, False), ("e_artif", ND, False)],
    "_bss_image_crit": [("s_true", ND, False), ("e_spat", ND, False), ("e_interf", ND, False), ("e_artif", ND, False)],
    "_bss_decomp_mtifilt": [("reference_sources", FMAT, False), ("estimated_source", FVEC, False), ("j", NAT, False),
                            ("flen", NAT, False)],
}
# module-level functions that are NOT translated but passed to the generated definition as a parameter
EXTERNS = {"_bss_decomp_mtifilt": ["_project"]}

_si_lean_type = SI.lean_type


def lean_type(t):
    if t == ND:
        return "V"
    if t == DB:
        return "Mir.Separation.Db"
    if t == FMAT:
        return "(List (List Rat))"
    if t == PROJ:
        return "(List (List Rat) → List Rat → Nat → Py (List Rat))"
    return _si_lean_type(t)


_si_show_type = SI.show_type


def _show_type(t):
    return {ND: "ndarray", DB: "dB level", FMAT: "2-D float array", PROJ: "_project"}.get(t) or _si_show_type(t)


class Module(SI.Module):
    def __init__(self, source):
        super().__init__(source)
        self.tr_funcs = set()

    def check_globals(self, node):
        if self.imports.get("np") != "numpy" or "np" in self.assigned or "np" in self.funcs:
            raise Unsupported("`np` is not the module numpy", node)

    def translate(self, fname, node=None):
        if fname in self.sigs:
            return self.sigs[fname]
        if fname in self.failed:
            raise Unsupported("callee %s is outside the subset (%s)" % (fname, self.failed[fname]), node)
        defs = self.funcs.get(fname)
        if not defs:
            raise Unsupported("no top-level function %s in separation.py" % fname, node)
        if len(defs) != 1 or fname in self.assigned:
            raise Unsupported("%s is defined more than once" % fname, node)
        if fname in self.in_progress:
            raise Unsupported("recursive call of %s" % fname, node)
        if fname not in PARAMS:
            raise Unsupported("%s is not a function this part translates" % fname, node)
        self.in_progress.add(fname)
        try:
            self.check_globals(defs[0])
            sig, lines = translate_def(self, defs[0])
        except Unsupported as e:
            self.failed[fname] = e.detail
            raise
        except RecursionError:
            self.failed[fname] = "expression too deep"
            raise Unsupported(self.failed[fname], node)
        finally:
            self.in_progress.discard(fname)
        self.sigs[sig.name] = sig
        self.emitted.append((sig.name, lines))
        return sig


def same_ast(a, b):
    return ast.dump(a) == ast.dump(b)


class Body(SI.Body):
    def __init__(self, module, fn, name, params, body, what="", np_params=()):
        super().__init__(module, fn, name, params, body, what=what)
        self.tr = False
        self.np_params = set(np_params)
        self.poly = any(p[1] == ND for p in params)

    def translate(self):
        env = {p[0]: (p[1], p[0] in self.np_params, False) for p in self.params}

        def run():
            self.tmp = 0
            self.effect_lines = set()
            self.ret_np = True
            self.fresh_arrays = set()
            return self.stmts(self.body, dict(env), self.fallthrough)
        self.ret_ty, self.ret_types = None, []
        run()
        if not self.ret_types:
            raise Unsupported("no path returns", self.fn)
        rt = self.ret_types[0]
        for t in self.ret_types[1:]:
            rt = join(rt, t, self.fn)
        self.ret_ty = rt
        lines = run()
        sig = Sig(self.name, self.params, rt, tr=False, ret_np=self.ret_np)
        plist = " ".join("(%s : %s)" % (ident(n), lean_type(t)) for n, t, d in self.params)
        if self.poly:
            plist = "{V : Type} [%s V] %s" % (NDC, plist)
        out = ["/-- %s -/" % self.what,
               "def %s %s : Py %s := do" % (ident(self.name), plist, lean_type(rt))]
        out += indent(lines)
        return sig, out

    def callee(self, sig):
        return ident(sig.name)

    def emit_return(self, e, node):
        if self.ret_ty is None:
            self.ret_types.append(e.ty)
            return ["pure ?"]
        return ["pure %s" % coerce(e, self.ret_ty, node)]

    # -- statements -----------------------------------------------------------------------------
    def stmts(self, sts, env, k):
        if sts and isinstance(sts[0], ast.AugAssign) and isinstance(sts[0].target, ast.Subscript):
            return self.prefix_add(sts[0], sts[1:], env, k)
        return super().stmts(sts, env, k)

    def prefix_add(self, s, rest, env, k):
        """`x[:n] += v` for a 1-D array `x` computed by this function"""
        t = s.target
        if not (isinstance(s.op, ast.Add) and isinstance(t.value, ast.Name) and t.value.id in env
                and isinstance(t.slice, ast.Slice) and t.slice.lower is None and t.slice.step is None
                and t.slice.upper is not None):
            raise Unsupported("augmented assignment to anything but `x[:n] += v`", s)
        x = t.value.id
        if env[x][0] != FVEC:
            raise Unsupported("`x[:n] += v` on a %s" % _show_type(env[x][0]), s)
        if x not in self.fresh_arrays:
            raise Unsupported("in-place update of an array that may be shared", s)
        binds = []
        n = self.expr(t.slice.upper, env, binds)
        v = self.expr(s.value, env, binds)
        if n.ty != NAT or v.ty != FVEC:
            raise Unsupported("`x[:n] += v` with n : %s, v : %s" % (_show_type(n.ty), _show_type(v.ty)), s)
        tmp = self.bind(binds, "Mir.PySep.addPrefix %s %s %s" % (ident(x), n.term, v.term), FVEC, s)
        env2 = dict(env)
        return self.bind_lines(binds) + ["let %s : %s := %s" % (ident(x), lean_type(FVEC), tmp)] + self.stmts(rest, env2, k)

    def assign(self, target, value, env, cont, node):
        lines = super().assign(target, value, env, cont, node)
        return lines

    # -- expressions ----------------------------------------------------------------------------
    def expr(self, node, env, binds):
        if isinstance(node, ast.UnaryOp) and isinstance(node.op, ast.USub) and not isinstance(node.operand, ast.Constant):
            e = self.expr(node.operand, env, binds)
            if e.ty == ND:
                return E("(-%s)" % e.term, ND)
            if e.ty == FVEC:
                return E("(Mir.PySep.vneg %s)" % e.term, FVEC)
            if e.ty in (NAT, INT, RAT):
                t = INT if e.ty == NAT else e.ty
                return E("(-%s)" % coerce(e, t, node), t, np=e.np)
            raise Unsupported("unary - on a %s" % _show_type(e.ty), node)
        return super().expr(node, env, binds)

    def is_log10(self, node):
        return isinstance(node, ast.Call) and dotted(node.func) == "np.log10" and len(node.args) == 1 and not node.keywords

    def binop(self, node, env, binds):
        op = node.op
        if isinstance(op, ast.Mult):
            for a, b in ((node.left, node.right), (node.right, node.left)):
                if isinstance(a, ast.Constant) and type(a.value) in (int, float) and a.value == 10 and self.is_log10(b):
                    x = self.expr(b.args[0], env, binds)
                    if not (x.ty == NUM or (x.ty in (NAT, RAT) and x.np)):
                        raise Unsupported("np.log10 of anything but an np.float64", node)
                    return E("(Mir.PySep.tenLog10 %s)" % coerce(x, NUM, node), DB)
        if isinstance(op, (ast.Add, ast.Sub)):
            a = self.expr(node.left, env, binds)
            b = self.expr(node.right, env, binds)
            sym = "+" if isinstance(op, ast.Add) else "-"
            if a.ty == ND and b.ty == ND:
                return E("(%s %s %s)" % (a.term, sym, b.term), ND)
            if a.ty == FVEC and b.ty == FVEC:
                tmp = self.bind(binds, "Mir.PyMel.%s %s %s" % ("vadd" if sym == "+" else "vsub", a.term, b.term), FVEC, node)
                return E(tmp, FVEC)
            if ND in (a.ty, b.ty) or FVEC in (a.ty, b.ty) or FMAT in (a.ty, b.ty):
                raise Unsupported("%s on a %s and a %s" % (sym, _show_type(a.ty), _show_type(b.ty)), node)
            return self.scalar_op(op, self.number(a, node), self.number(b, node), binds, node)
        return super().binop(node, env, binds)

    def attribute(self, node, env, binds):
        if dotted(node) == "np.inf" and "np" not in env:
            return E("Mir.PySep.npInf", DB)
        if isinstance(node.value, ast.Name) and node.value.id in env and env[node.value.id][0] == FVEC and node.attr == "size":
            return E("(Mir.PyM.len %s)" % ident(node.value.id), NAT)
        return super().attribute(node, env, binds)

    def subscript(self, node, env, binds):
        v = node.value
        if isinstance(v, ast.Name) and v.id in env and env[v.id][0] == FMAT:
            idx = node.slice
            if isinstance(idx, ast.Tuple) and len(idx.elts) == 3 and dotted(idx.elts[1]) == "np.newaxis" \
                    and isinstance(idx.elts[2], ast.Slice) and idx.elts[2].lower is None and idx.elts[2].upper is None \
                    and idx.elts[2].step is None:
                j = self.expr(idx.elts[0], env, binds)
                if j.ty != NAT:
                    raise Unsupported("row index of type %s" % _show_type(j.ty), node)
                row = self.bind(binds, "Mir.PySep.row %s %s" % (ident(v.id), j.term), FVEC, node)
                return E("[%s]" % row, FMAT)
            j = self.expr(idx, env, binds)
            if j.ty != NAT:
                raise Unsupported("row index of type %s" % _show_type(j.ty), node)
            row = self.bind(binds, "Mir.PySep.row %s %s" % (ident(v.id), j.term), FVEC, node)
            return E(row, FVEC)
        return super().subscript(node, env, binds)

    def call(self, node, env, binds):
        name = dotted(node.func)
        args = node.args
        if isinstance(node.func, ast.Name) and node.func.id in env and env[node.func.id][0] == PROJ:
            if node.keywords or len(args) != 3:
                raise Unsupported("_project with other than three positional arguments", node)
            es = [self.expr(a, env, binds) for a in args]
            if [e.ty for e in es] != [FMAT, FVEC, NAT]:
                raise Unsupported("_project on %s" % ", ".join(_show_type(e.ty) for e in es), node)
            tmp = self.bind(binds, "%s %s" % (ident(node.func.id), " ".join(e.term for e in es)), FVEC, node)
            return E(tmp, FVEC)
        if name is not None and name.split(".")[0] == "np" and "np" not in env:
            if name == "np.sum" and len(args) == 1 and not node.keywords:
                x = args[0]
                base = None
                if isinstance(x, ast.BinOp) and isinstance(x.op, ast.Pow) and isinstance(x.right, ast.Constant) \
                        and type(x.right.value) is int and x.right.value == 2:
                    base = x.left
                elif isinstance(x, ast.BinOp) and isinstance(x.op, ast.Mult) and same_ast(x.left, x.right):
                    base = x.left
                if base is not None:
                    b = []
                    a = self.expr(base, env, b)
                    if a.ty == ND:
                        binds += b
                        return E("(%s.sumsq %s)" % (NDC, a.term), RAT, np=True)
                raise Unsupported("np.sum of anything but the square of an ndarray", node)
            if name == "np.zeros" and len(args) == 1 and not node.keywords:
                n = self.expr(args[0], env, binds)
                if n.ty not in (NAT, INT):
                    raise Unsupported("np.zeros of a %s" % _show_type(n.ty), node)
                tmp = self.bind(binds, "Mir.PySep.zeros %s" % coerce(n, INT, node), FVEC, node)
                return E(tmp, FVEC)
            if name == "np.hstack" and len(args) == 1 and not node.keywords and isinstance(args[0], ast.Tuple) \
                    and len(args[0].elts) == 2:
                a, b = [self.expr(x, env, binds) for x in args[0].elts]
                if a.ty != FVEC or b.ty != FVEC:
                    raise Unsupported("np.hstack of a %s and a %s" % (_show_type(a.ty), _show_type(b.ty)), node)
                return E("(%s ++ %s)" % (a.term, b.term), FVEC)
            raise Unsupported("call of %s" % name, node)
        return super().call(node, env, binds)


def translate_def(module, fn):
    if fn.decorator_list:
        raise Unsupported("decorated function", fn)
    a = fn.args
    if a.vararg or a.kwarg or a.kwonlyargs or a.posonlyargs or a.defaults:
        raise Unsupported("*args / **kwargs / keyword-only / defaulted parameters", fn)
    want = PARAMS[fn.name]
    got = [p.arg for p in a.args]
    if got != [w[0] for w in want]:
        raise Unsupported("parameters (%s) instead of (%s)" % (", ".join(got), ", ".join(w[0] for w in want)), fn)
    params = [(n, t, None) for n, t, _ in want]
    for x in EXTERNS.get(fn.name, []):
        if x not in module.funcs or len(module.funcs[x]) != 1 or x in module.assigned:
            raise Unsupported("extern %s is not a (single) top-level function" % x, fn)
        if x in {p.arg for p in a.args} or x in SI.assigned_names(fn.body):
            raise Unsupported("extern %s is rebound" % x, fn)
        params.append((x, PROJ, None))
    body = [s for s in fn.body
            if not (isinstance(s, ast.Expr) and isinstance(s.value, ast.Constant) and isinstance(s.value.value, str))]
    where = "`separation.%s` (mir_eval/separation.py)" % fn.name
    if EXTERNS.get(fn.name):
        where += "; extern parameter%s: %s" % ("s" if len(EXTERNS[fn.name]) > 1 else "", ", ".join(EXTERNS[fn.name]))
    return Body(module, fn, fn.name, params, body, what=where, np_params=[n for n, _, isnp in want if isnp]).translate()


# ------------------------------------------------------------------------------------------------
# driver handler

def handler_row(name, sig):
    vs = ["a%d" % i for i in range(len(sig.params))]
    tys = [p[1] for p in sig.params]
    head = "  | \"gen.sepcrit\", Val.str \"%s\" :: [%s] => do\n" % (name, ", ".join(vs))
    if all(t == RAT for t in tys) and sig.ret == DB:
        decs = "".join("      let %s ← Val.asRat? %s\n" % (v, v) for v in vs)
        return head + decs + "      some (Except.map Mir.Separation.Db.toVal (Mir.Gen.separation.%s %s))" % (ident(name), " ".join(vs))
    if all(t == ND for t in tys) and sig.ret[0] == "tup" and all(t == DB for t in sig.ret[1]):
        n = len(sig.ret[1])
        xs = ["x%d" % i for i in range(n)]
        decs = "".join("      let %s ← Mir.PySep.rowsOfVal? %s\n" % (v, v) for v in vs)
        return head + decs + (
            "      if ¬ Mir.PySep.allSameShape [%s] then none else\n"
            "      some (Except.map (fun ((%s) : %s) => Mir.PySep.dbsVal [%s]) (Mir.Gen.separation.%s %s))" % (
                ", ".join(vs), ", ".join(xs), lean_type(sig.ret), ", ".join(xs), ident(name), " ".join(vs)))
    if tys == [FMAT, FVEC, NAT, NAT, PROJ] and sig.ret == TUP([FVEC] * 4):
        # the two `_project` results are sent by the harness (captured from the real run): a0..a3, then projT, projAll
        return ("  | \"gen.sepcrit\", Val.str \"%s\" :: [a0, a1, a2, a3, pT, pA] => do\n"
                "      let a0 ← Mir.Separation.asRows? a0\n      let a1 ← Val.asRats? a1\n      let a2 ← Val.asNat? a2\n"
                "      let a3 ← Val.asNat? a3\n      let pT ← Val.asRats? pT\n      let pA ← Val.asRats? pA\n"
                "      some (Except.map (fun ((x0, x1, x2, x3) : %s) => Val.list [Val.ofRats x0, Val.ofRats x1, Val.ofRats x2, Val.ofRats x3])\n"
                "        (Mir.Gen.separation.%s a0 a1 a2 a3 (Mir.PySep.projStub pT pA)))" % (name, lean_type(sig.ret), ident(name)))
    raise Unsupported("no protocol row for %s" % name)


HEADER = """import MirModel.PySep
/-!
  GENERATED by harness/translate/sepcrit.py (an extension of segindex.py) from mir_eval/separation.py — do not edit.
  One shallow definition per translated function (`Mir.Gen.separation.<function>`) over `Mir.PySep` (MirModel/PySep.lean);
  the criteria functions are polymorphic in the ndarray type (`Mir.PySep.Nd`), `_project` is an extern PARAMETER of the
  decomposition.  Regenerated from the working tree on every run of ./check C19; `MirProofs/Props/C19_Gen.lean` proves each
  of them equal to the hand-written model (`MirModel/Separation.lean`) for all inputs.
-/
set_option linter.unusedVariables false
"""


def translate_all(repo, wanted=None):
    """-> (lean text, {name: Sig}, problems [(function, detail)])"""
    wanted = WANTED if wanted is None else wanted
    path = os.path.join(repo, "mir_eval", "separation.py")
    problems = []
    old = SI.lean_type, SI.show_type
    SI.lean_type, SI.show_type = lean_type, _show_type
    try:
        try:
            m = Module(open(path, encoding="utf-8").read())
        except (OSError, SyntaxError) as e:
            m = None
            problems = [(f, "cannot read/parse %s: %s" % (path, e)) for f in wanted]
        if m is not None:
            for fname in wanted:
                try:
                    m.translate(fname)
                except Unsupported as e:
                    problems.append((fname, e.detail))
        L = [HEADER, "namespace Mir.Gen.separation", ""]
        rows = []
        emitted = [] if m is None else m.emitted
        for name, lines in emitted:
            L += lines + [""]
        L += ["end Mir.Gen.separation", ""]
        names = []
        for name, _ in emitted:
            try:
                rows.append(handler_row(name, m.sigs[name]))
                names.append(name)
            except Unsupported:
                continue
    finally:
        SI.lean_type, SI.show_type = old
    L.append("namespace Mir.Gen.SepCrit")
    L.append("")
    L.append("/-- names of the translated definitions the handler serves (in emission order) -/")
    L.append("def names : List String := [%s]" % ", ".join('"%s"' % n for n in names))
    L.append("")
    L.append("/-- protocol op `gen.sepcrit <\"function\"> <args...>`; `gen.sepcrit \"?\"` lists `names` -/")
    L.append("def handler : Handler := fun fn args =>")
    L.append("  match fn, args with")
    L.append("  | \"gen.sepcrit\", [Val.str \"?\"] => some (.ok (Val.list (names.map Val.str)))")
    L += rows
    L.append("  | _, _ => none")
    L.append("")
    L.append("end Mir.Gen.SepCrit")
    return "\n".join(L) + "\n", ({} if m is None else dict(m.sigs)), problems


def generate(repo, outdir):
    text, done, problems = translate_all(repo)
    os.makedirs(outdir, exist_ok=True)
    write_if_changed(os.path.join(outdir, "SepCrit.lean"), text)
    obligations = ["Mir.Gen.separation.%s" % n for n in done]
    probs = [{"name": "sepcrit: separation.%s" % f, "detail": "outside the translated subset: " + d} for f, d in problems]
    return obligations, probs


if __name__ == "__main__":
    repo = sys.argv[1] if len(sys.argv) > 1 else "/repo"
    text, done, problems = translate_all(repo)
    sys.stdout.write(text)
    for p in problems:
        sys.stderr.write("PROBLEM separation.%s: %s\n" % p)
