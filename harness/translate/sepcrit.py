"""mir_eval.separation: the BSS-eval criteria and the decomposition arithmetic -> lean/MirGen/SepCrit.lean  (AST based;
mir_eval is never imported).  Translator part `sepcrit` (C19).

One SHALLOW Lean definition per translated function, `Mir.Gen.separation.<function>`, over the run-time library
`lean/MirModel/PySep.lean` (`Mir.PySep`, + `Mir.PyM.divNp`, `Mir.PyMel.vadd / vsub`), plus a driver handler
(`Mir.Gen.SepCrit.handler`, protocol op `gen.sepcrit <"function"> <args...>`; `gen.sepcrit "?"` lists the translated
functions, so that suite `gen_sepcrit` asks only for those).  `MirProofs/Props/C19_Gen.lean` proves every one of them equal
to the hand-written model (`MirModel/Separation.lean`) for ALL inputs.

An extension of the `segindex` translator (`harness/translate/segindex.py`; its output is untouched): statements,
conditions, tuples, scalar arithmetic, comparisons, calls of other translated functions and the typing of `/` (`divNp`
when a NumPy scalar is involved: nan / +-inf, never raises) are inherited.  Fails closed: anything not listed is
`Unsupported` => the function is not emitted => translator problem => broken obligation.

ADDED SUBSET
  parameters   declared per function in PARAMS below (the private functions of separation.py have no numpydoc):
               `nd`    a float ndarray of the ONE shape shared by the four components of a decomposition (Lean: a type `V`
                       of class `Mir.PySep.Nd`; the definition is polymorphic in it),
               `npf`   an np.float64 that is finite (a sum of squares),
               `vec`   a 1-D float array (`List Rat`), `mat` a 2-D float array (`List (List Rat)`), `nat` an int >= 0,
               `proj`  (EXTERN) the function `_project` itself, a parameter of the generated definition.
  expressions  nd:  `a + b`, `a - b`, `-a`; `np.sum(a ** 2)` / `np.sum(a * a)` (same operand twice) -> `Nd.sumsq a`;
               `np.inf`; `10 * np.log10(x)` / `np.log10(x) * 10` for an np.float64 `x` -> `PySep.tenLog10 x` (a level in dB,
               `Separation.Db`, as the hand model writes it);
               vec: `a + b`, `a - b` (NumPy broadcasting, `PyMel.vadd / vsub`: ValueError unless equal lengths or one
               operand of length 1), `-a`, `a.size`, `M[j]` (IndexError), `M[j, np.newaxis, :]` (the 1-row matrix),
               `np.zeros(n)` (ValueError for n < 0), `np.hstack((a, b))`, `_project(M, v, n)` (the extern parameter);
  statements   `x[:n] += v` on a 1-D array the function has just computed (`PySep.addPrefix`: the broadcast of `v` must
               fit the slice).

`python harness/translate/sepcrit.py [repo]` prints the generated file.
"""
import ast
import os
import sys

try:
    from translate import write_if_changed
    from translate import segindex as SI
except ImportError:  # run as a script
    sys.path.insert(0, os.path.dirname(os.path.dirname(os.path.abspath(__file__))))
    from translate import write_if_changed
    from translate import segindex as SI

from translate.segindex import (Unsupported, E, NAT, INT, RAT, NUM, BOOL, NONE, VEC, TUP, ident, indent,  # noqa: E402
                                coerce, dotted, show_type, Sig, join)

ND = ("nd",)          # a float ndarray of the decomposition's shape (class Mir.PySep.Nd)
DB = ("db",)          # a level in dB (Mir.Separation.Db)
FVEC = VEC(RAT)       # a 1-D float array
FMAT = ("fmat",)      # a 2-D float array, rows
PROJ = ("proj",)      # the extern `_project`

ARR = ("arr",)        # a whole ndarray: shape + data[source][sample][channel] (Mir.Separation.Arr)
SRC2 = ("src2",)      # one source of it, [sample][channel]
EMPTYV = ("emptyv",)  # `np.array([])`
VNAT = VEC(NAT)       # a 1-D int array / a tuple of ints
PERMS = ("perms",)    # a list of tuples of ints
SLICE = ("slice",)    # slice(a, b)
ZTAB = ("ztab",)      # `np.sum(a, axis=trailing) == 0`
MASKV = ("maskv",)    # a 1-D boolean array
CELLMAT = ("cellmat",)  # a 2-D float result whose cells may be nan / never written (Mir.Separation.Cell)
SIGMA = ("sigma",)    # whatever the extern `_bss_decomp_mtifilt*` returns as a component (opaque)

NDC = "Mir.PySep.Nd"

# functions of mir_eval/separation.py, in emission order; REQUIRED: one that leaves the subset is a translator problem
WANTED = ["_safe_db", "_bss_source_crit", "_bss_image_crit", "_bss_decomp_mtifilt", "_any_source_silent",
          "bss_eval_sources", "bss_eval_sources_framewise", "bss_eval_images_framewise"]

# parameter kinds, by position, with the names the source must use (the generated definitions take them in this order);
# (type, is a NumPy scalar)
PARAMS = {
    "_safe_db": [("num", RAT, True), ("den", RAT, True)],
    "_bss_source_crit": [("s_true", ND, False), ("e_spat", ND, False), ("e_interf", ND, False), ("e_artif", ND, False)],
    "_bss_image_crit": [("s_true", ND, False), ("e_spat", ND, False), ("e_interf", ND, False), ("e_artif", ND, False)],
    "_bss_decomp_mtifilt": [("reference_sources", FMAT, False), ("estimated_source", FVEC, False), ("j", NAT, False),
                            ("flen", NAT, False)],
}
PARAMS.update({
    "_any_source_silent": [("sources", ARR, False)],
    "bss_eval_sources": [("reference_sources", ARR, False), ("estimated_sources", ARR, False),
                         ("compute_permutation", BOOL, False)],
    "bss_eval_sources_framewise": [("reference_sources", ARR, False), ("estimated_sources", ARR, False),
                                   ("window", INT, False), ("hop", INT, False), ("compute_permutation", BOOL, False)],
    "bss_eval_images_framewise": [("reference_sources", ARR, False), ("estimated_sources", ARR, False),
                                  ("window", INT, False), ("hop", INT, False), ("compute_permutation", BOOL, False)],
})
# defaults the source must declare (checked; the generated definitions take every parameter explicitly)
DEFAULTS = {
    "bss_eval_sources": ["True"],
    "bss_eval_sources_framewise": ["30 * 44100", "15 * 44100", "False"],
    "bss_eval_images_framewise": ["30 * 44100", "15 * 44100", "False"],
}
# module-level functions that are NOT translated inside the function named but passed to the generated definition as a
# parameter (the numerical kernel; for the framewise functions: the non-framewise function, as the hand model and the
# stub suites do)
EXTERNS = {"_bss_decomp_mtifilt": ["_project"],
           "bss_eval_sources": ["_bss_decomp_mtifilt", "_bss_source_crit"],
           "bss_eval_sources_framewise": ["bss_eval_sources"],
           "bss_eval_images_framewise": ["bss_eval_images"]}
# extern signatures: argument types, result type, Lean type of the parameter
EXT_SIGS = {
    "_project": ([("fmat",), VEC(RAT), NAT], VEC(RAT), "(List (List Rat) → List Rat → Nat → Py (List Rat))"),
    "_bss_decomp_mtifilt": ([ARR, SRC2, NAT, NAT], TUP([SIGMA] * 4),
                            "(Mir.Separation.Arr → List (List Rat) → Nat → Nat → Py (σ × σ × σ × σ))"),
    "_bss_source_crit": ([SIGMA] * 4, TUP([RAT] * 3), "(σ → σ → σ → σ → Py (Rat × Rat × Rat))"),
    "bss_eval_sources": ([ARR, ARR, BOOL], TUP([VEC(RAT)] * 3 + [VNAT]),
                         "(Mir.Separation.Arr → Mir.Separation.Arr → Bool → Py (List Rat × List Rat × List Rat × List Nat))"),
    "bss_eval_images": ([ARR, ARR, BOOL], TUP([VEC(RAT)] * 4 + [VNAT]),
                        "(Mir.Separation.Arr → Mir.Separation.Arr → Bool → Py (List Rat × List Rat × List Rat × List Rat × List Nat))"),
}


def EXT(name):
    return ("ext", name)

_si_lean_type = SI.lean_type


def lean_type(t):
    if t == ("cellvec",):
        return "(List Mir.Separation.Cell)"
    if t == ND:
        return "V"
    if t == DB:
        return "Mir.Separation.Db"
    if t == FMAT:
        return "(List (List Rat))"
    if t == PROJ:
        return "(List (List Rat) → List Rat → Nat → Py (List Rat))"
    if t[0] == "ext":
        return EXT_SIGS[t[1]][2]
    if t == ARR:
        return "Mir.Separation.Arr"
    if t == SRC2:
        return "(List (List Rat))"
    if t == PERMS:
        return "(List (List Nat))"
    if t == SLICE:
        return "(Int × Int)"
    if t == ZTAB:
        return "Mir.PySep.ZeroTab"
    if t == MASKV:
        return "(List Bool)"
    if t == CELLMAT:
        return "(List (List Mir.Separation.Cell))"
    if t == SIGMA:
        return "σ"
    if t[0] in ("empty1", "empty2", "emptyv"):
        raise Unsupported("an np.empty / np.array([]) array is used before it is written")
    return _si_lean_type(t)


_si_show_type = SI.show_type


def _show_type(t):
    if t[0] in ("ext", "empty1", "empty2", "emptyv", "arr", "src2", "perms", "slice", "ztab", "maskv", "cellmat", "sigma"):
        return t[0]
    return {ND: "ndarray", DB: "dB level", FMAT: "2-D float array", PROJ: "_project"}.get(t) or _si_show_type(t)


def join2(a, b, node=None):
    if a == b:
        return a
    for x, y in ((a, b), (b, a)):
        if x == EMPTYV and y in (VEC(RAT), VNAT, CELLMAT):
            return y
    if a[0] == "tup" and b[0] == "tup" and len(a[1]) == len(b[1]):
        return TUP([join2(x, y, node) for x, y in zip(a[1], b[1])])
    return join(a, b, node)


def coerce2(e, to, node=None):
    if e.ty == to:
        return e.term
    if e.ty == EMPTYV and to in (VEC(RAT), VNAT, CELLMAT):
        return "[]"
    if to[0] == "tup" and e.ty[0] == "tup" and e.elts is not None and len(e.elts) == len(to[1]):
        return "(%s)" % ", ".join(coerce2(x, t, node) for x, t in zip(e.elts, to[1]))
    return coerce(e, to, node)


def proj(term, i, n):
    """component i of an n-tuple term"""
    return "%s%s%s" % (term, ".2" * i, "" if i == n - 1 else ".1")


def full_slice(x):
    return isinstance(x, ast.Slice) and x.lower is None and x.upper is None and x.step is None


class Module(SI.Module):
    def __init__(self, source, validate_ok=False):
        super().__init__(source)
        self.tr_funcs = set()
        self.validate_ok = validate_ok     # does MirGen/Validators.lean define Mir.GenV.separation.validate on this run

    def check_globals(self, node):
        if self.imports.get("np") != "numpy" or "np" in self.assigned or "np" in self.funcs:
            raise Unsupported("`np` is not the module numpy", node)

    def translate(self, fname, node=None):
        if fname in self.sigs:
            return self.sigs[fname]
        if fname in self.failed:
            raise Unsupported("callee %s is outside the subset (%s)" % (fname, self.failed[fname]), node)
        defs = self.funcs.get(fname)
        if not defs:
            raise Unsupported("no top-level function %s in separation.py" % fname, node)
        if len(defs) != 1 or fname in self.assigned:
            raise Unsupported("%s is defined more than once" % fname, node)
        if fname in self.in_progress:
            raise Unsupported("recursive call of %s" % fname, node)
        if fname not in PARAMS:
            raise Unsupported("%s is not a function this part translates" % fname, node)
        self.in_progress.add(fname)
        try:
            self.check_globals(defs[0])
            sig, lines = translate_def(self, defs[0])
        except Unsupported as e:
            self.failed[fname] = e.detail
            raise
        except RecursionError:
            self.failed[fname] = "expression too deep"
            raise Unsupported(self.failed[fname], node)
        finally:
            self.in_progress.discard(fname)
        self.sigs[sig.name] = sig
        self.emitted.append((sig.name, lines))
        return sig


def same_ast(a, b):
    return ast.dump(a) == ast.dump(b)


class Body(SI.Body):
    def __init__(self, module, fn, name, params, body, what="", np_params=()):
        super().__init__(module, fn, name, params, body, what=what)
        self.tr = False
        self.np_params = set(np_params)
        self.poly = any(p[1] == ND for p in params)

    def translate(self):
        env = {p[0]: (p[1], p[0] in self.np_params, False) for p in self.params}

        def run():
            self.tmp = 0
            self.effect_lines = set()
            self.ret_np = True
            self.fresh_arrays = set()
            return self.stmts(self.body, dict(env), self.fallthrough)
        self.ret_ty, self.ret_types = None, []
        run()
        if not self.ret_types:
            raise Unsupported("no path returns", self.fn)
        rt = self.ret_types[0]
        for t in self.ret_types[1:]:
            rt = join2(rt, t, self.fn)
        self.ret_ty = rt
        lines = run()
        sig = Sig(self.name, self.params, rt, tr=False, ret_np=self.ret_np)
        plist = " ".join("(%s : %s)" % (ident(n), lean_type(t)) for n, t, d in self.params)
        if self.poly:
            plist = "{V : Type} [%s V] %s" % (NDC, plist)
        if any(t[0] == "ext" and "σ" in EXT_SIGS[t[1]][2] for _, t, _ in self.params):
            plist = "{σ : Type} " + plist
        out = ["/-- %s -/" % self.what,
               "def %s %s : Py %s := do" % (ident(self.name), plist, lean_type(rt))]
        out += indent(lines)
        return sig, out

    def callee(self, sig):
        return ident(sig.name)

    def emit_return(self, e, node):
        if self.ret_ty is None:
            self.ret_types.append(e.ty)
            return ["pure ?"]
        return ["pure %s" % coerce2(e, self.ret_ty, node)]

    # -- statements -----------------------------------------------------------------------------
    def stmts(self, sts, env, k):
        if sts and isinstance(sts[0], ast.AugAssign) and isinstance(sts[0].target, ast.Subscript):
            return self.prefix_add(sts[0], sts[1:], env, k)
        if sts and isinstance(sts[0], ast.For):
            return self.for_loop(sts[0], sts[1:], env, k)
        if sts and isinstance(sts[0], ast.Assign) and len(sts[0].targets) == 1 and isinstance(sts[0].targets[0], ast.Name) \
                and isinstance(sts[0].value, ast.Call) and dotted(sts[0].value.func) == "np.empty" and "np" not in env:
            return self.np_empty(sts[0], sts[1:], env, k)
        if sts and isinstance(sts[0], ast.If) and sts[0].orelse and self.cond_raises(sts[0].test, env):
            s = sts[0]
            rest = sts[1:]

            def cont(env2):
                return self.stmts(rest, env2, k)
            binds = []
            c = self.cond_m(s.test, env, binds)
            then_lines = self.stmts(s.body, dict(env), cont)
            else_lines = self.stmts(s.orelse, dict(env), cont)
            return self.bind_lines(binds) + ["if %s then do" % c] + indent(then_lines) + ["else do"] + indent(else_lines)
        return super().stmts(sts, env, k)

    def np_empty(self, s, rest, env, k):
        """`M = np.empty(n)` / `np.empty((n, m))`: no value yet; the loop that follows must write every cell"""
        c = s.value
        if c.keywords or len(c.args) != 1:
            raise Unsupported("np.empty with other than one argument", s)
        binds = []
        a = c.args[0]
        if isinstance(a, ast.Tuple) and len(a.elts) == 2:
            ds = [self.expr(x, env, binds) for x in a.elts]
            if any(d.ty not in (NAT, INT) for d in ds):
                raise Unsupported("np.empty of a non-integer shape", s)
            ty = ("empty2", ds[0].term, ds[1].term)
        else:
            d = self.expr(a, env, binds)
            if d.ty not in (NAT, INT):
                raise Unsupported("np.empty of a non-integer shape", s)
            ty = ("empty1", d.term)
        if binds:
            raise Unsupported("np.empty whose shape can raise", s)
        env2 = dict(env)
        env2.pop(s.targets[0].id, None)
        env2[s.targets[0].id] = (ty, False, False)
        return ["-- %s = np.empty(...): written by the loop below" % s.targets[0].id] + self.stmts(rest, env2, k)

    # -- conditions whose operands can raise: Python's short-circuit evaluation, in the monad
    def cond_raises(self, node, env):
        b = []
        try:
            self.cond(node, env, b)
        except Unsupported:
            return True
        return bool(b)

    def cond_m_term(self, node, env):
        """a term of type `Py Bool`"""
        if isinstance(node, ast.BoolOp):
            parts = [self.cond_m_term(v, env) for v in node.values]
            t = parts[-1]
            for ptm in reversed(parts[:-1]):
                v = self.fresh()
                if isinstance(node.op, ast.And):
                    t = "(do let %s : Bool ← %s; if %s then %s else pure false)" % (v, ptm, v, t)
                else:
                    t = "(do let %s : Bool ← %s; if %s then pure true else %s)" % (v, ptm, v, t)
            return t
        if isinstance(node, ast.UnaryOp) and isinstance(node.op, ast.Not):
            v = self.fresh()
            return "(do let %s : Bool ← %s; pure (!%s))" % (v, self.cond_m_term(node.operand, env), v)
        b = []
        e = self.expr(node, env, b)
        if e.ty != BOOL:
            raise Unsupported("truth value of a %s" % _show_type(e.ty), node)
        if not b:
            return "(pure %s)" % e.term
        return "(do %s; pure %s)" % ("; ".join(self.bind_lines(b)), e.term)

    def cond_m(self, node, env, binds):
        return self.bind(binds, self.cond_m_term(node, env), BOOL, node)

    # -- loops that fill np.empty arrays ----------------------------------------------------------
    def for_loop(self, s, rest, env, k):
        heads, cur = [], s
        while True:
            if cur.orelse:
                raise Unsupported("for ... else", cur)
            heads.append(cur)
            if len(cur.body) == 1 and isinstance(cur.body[0], ast.For) and len(heads) < 2:
                cur = cur.body[0]
            else:
                break
        body = heads[-1].body
        for nd in ast.walk(ast.Module(body=body, type_ignores=[])):
            if isinstance(nd, (ast.Break, ast.Continue, ast.Return, ast.For, ast.While)):
                raise Unsupported("%s inside a loop body" % type(nd).__name__, nd)
        env2 = dict(env)
        dims, lam, idxvars = [], [], []
        binds = []
        enum = None
        for h in heads:
            it = h.iter
            if isinstance(it, ast.Call) and isinstance(it.func, ast.Name) and it.func.id == "range" and len(it.args) == 1 \
                    and not it.keywords and isinstance(h.target, ast.Name) and "range" not in self.locals:
                n = self.expr(it.args[0], env, binds)
                if n.ty == INT:
                    n = E("(Int.toNat %s)" % n.term, NAT)
                if n.ty != NAT:
                    raise Unsupported("range of a %s" % _show_type(n.ty), h)
                dims.append((n.term, self.expr(it.args[0], env, []).term))
                lam.append(ident(h.target.id))
                idxvars.append(h.target.id)
                env2[h.target.id] = (NAT, False, False)
            elif isinstance(it, ast.Call) and isinstance(it.func, ast.Name) and it.func.id == "enumerate" and len(it.args) == 1 \
                    and not it.keywords and len(heads) == 1 and isinstance(h.target, ast.Tuple) and len(h.target.elts) == 2 \
                    and all(isinstance(x, ast.Name) for x in h.target.elts) and "enumerate" not in self.locals:
                xs = self.expr(it.args[0], env, binds)
                if xs.ty != PERMS:
                    raise Unsupported("enumerate over a %s" % _show_type(xs.ty), h)
                enum = xs
                i, x = h.target.elts[0].id, h.target.elts[1].id
                lam += [ident(i), ident(x)]
                idxvars.append(i)
                env2[i] = (NAT, False, False)
                env2[x] = (VNAT, False, False)
                dims.append(("(List.length %s)" % xs.term, "(List.length %s)" % xs.term))
            else:
                raise Unsupported("loop over anything but range(n) / enumerate(<list of permutations>)", h)
        if binds:
            raise Unsupported("a loop bound that can raise", s)
        written = set(SI.assigned_names(body)) | set(idxvars) | {x.id for h in heads if isinstance(h.target, ast.Tuple)
                                                                   for x in h.target.elts}
        for n in written:
            if n in env:
                raise Unsupported("the loop assigns %s, which is live outside it" % n, s)
        pre, store = body[:-1], body[-1]
        mats = [n for n, (t, _, _) in env.items() if t[0] in ("empty1", "empty2")]
        column = False

        def targets_of(st):
            """-> ([array name per target], value node, is column store)"""
            if not isinstance(st, ast.Assign):
                raise Unsupported("the last statement of the loop body is not a store into the np.empty arrays", st)
            if len(st.targets) == 1:
                t = st.targets[0]
                ts = list(t.elts) if isinstance(t, ast.Tuple) else [t]
                chained = False
            else:
                ts, chained = list(st.targets), True
            names, col = [], None
            for t in ts:
                if not (isinstance(t, ast.Subscript) and isinstance(t.value, ast.Name) and t.value.id in env
                        and env[t.value.id][0][0] in ("empty1", "empty2")):
                    raise Unsupported("store into anything but an np.empty array of this function", st)
                ety = env[t.value.id][0]
                ix = t.slice
                if isinstance(ix, ast.Name) and len(idxvars) == 1 and ix.id == idxvars[0] and ety[0] == "empty1":
                    c, ok = False, ety[1] == dims[0][1]
                elif isinstance(ix, ast.Tuple) and len(ix.elts) == 2 and len(idxvars) == 2 and ety[0] == "empty2" and all(
                        isinstance(x, ast.Name) and x.id == v for x, v in zip(ix.elts, idxvars)):
                    c, ok = False, (ety[1], ety[2]) == (dims[0][1], dims[1][1])
                elif isinstance(ix, ast.Tuple) and len(ix.elts) == 2 and len(idxvars) == 1 and ety[0] == "empty2" \
                        and full_slice(ix.elts[0]) and isinstance(ix.elts[1], ast.Name) and ix.elts[1].id == idxvars[0]:
                    c, ok = True, ety[2] == dims[0][1]
                else:
                    raise Unsupported("store index is not the loop variable(s)", st)
                if not ok:
                    raise Unsupported("the loop range is not the extent of the array it fills", st)
                if col is not None and col != c:
                    raise Unsupported("mixed stores", st)
                col = c
                if t.value.id in names:
                    raise Unsupported("an array is stored twice", st)
                names.append(t.value.id)
            return names, st.value, col, chained

        tab = "_tab%d" % (self.tmp + 1)
        self.tmp += 1
        if isinstance(store, ast.If):
            column = True
        else:
            column = targets_of(store)[2]
        if not column:
            names, value, _, chained = targets_of(store)
            if chained:
                raise Unsupported("chained scalar store", store)

            def k_inner(envb):
                b = []
                v = self.expr(value, envb, b)
                if len(names) == 1:
                    if v.ty not in (RAT, NAT, INT):
                        raise Unsupported("storing a %s" % _show_type(v.ty), store)
                    return self.bind_lines(b) + ["pure [%s]" % coerce(v, RAT, store)]
                if v.ty != TUP([RAT] * len(names)):
                    raise Unsupported("storing a %s into %d arrays" % (_show_type(v.ty), len(names)), store)
                t = v.term
                if v.elts is not None or not t.startswith("_t"):
                    t = self.bind(b, "pure %s" % t, v.ty, store)
                return self.bind_lines(b) + ["pure [%s]" % ", ".join(proj(t, i, len(names)) for i in range(len(names)))]
            body_lines = self.stmts(pre, env2, k_inner)
            if enum is not None:
                head = "let %s : (List (List Rat)) ← Mir.PySep.forEnum %s (fun %s => do" % (tab, enum.term, " ".join(lam))
                getter, rty = "tab1", VEC(RAT)
            elif len(idxvars) == 1:
                head = "let %s : (List (List Rat)) ← Mir.PySep.forRange %s (fun %s => do" % (tab, dims[0][0], lam[0])
                getter, rty = "tab1", VEC(RAT)
            else:
                head = "let %s : (List (List (List Rat))) ← Mir.PySep.forRange2 %s %s (fun %s => do" % (
                    tab, dims[0][0], dims[1][0], " ".join(lam))
                getter, rty = "tab2", FMAT
            lines = [head] + indent(indent(body_lines))
            lines[-1] += ")"
            env3 = dict(env)
            for i, n in enumerate(names):
                lines.append("let %s : %s := Mir.PySep.%s %s %d" % (ident(n), lean_type(rty), getter, tab, i))
                env3[n] = (rty, False, False)
                self.fresh_arrays.add(n)
            return lines + self.stmts(rest, env3, k)
        # ---- column stores (the window loop of the framewise functions) -----------------------------------------
        cmats = [n for n in mats if env[n][0][0] == "empty2" and env[n][0][2] == dims[0][1]]
        if not cmats or len({env[n][0][1] for n in cmats}) != 1:
            raise Unsupported("the matrices of the window loop do not share their number of rows", s)
        nrows = env[cmats[0]][0][1]

        def branch(sts, envb):
            if len(sts) != 1:
                raise Unsupported("a branch of the window loop is not a single store", store)
            names, value, col, chained = targets_of(sts[0])
            if not col:
                raise Unsupported("scalar store in the window loop", sts[0])
            b = []
            cols = {}
            if chained or len(names) == 1 and dotted(value) == "np.nan":
                if dotted(value) != "np.nan" or "np" in envb:
                    raise Unsupported("chained store of anything but np.nan", sts[0])
                for n in names:
                    cols[n] = "Mir.PySep.nanCol %s" % nrows
            else:
                v = self.expr(value, envb, b)
                if v.ty[0] != "tup" or len(v.ty[1]) != len(names) or any(t not in (VEC(RAT), VNAT) for t in v.ty[1]):
                    raise Unsupported("storing a %s into %d columns" % (_show_type(v.ty), len(names)), sts[0])
                for i, (n, t) in enumerate(zip(names, v.ty[1])):
                    c = self.bind(b, "Mir.PySep.%s %s %s" % ("colOf" if t == VEC(RAT) else "colOfN", nrows,
                                                             proj(v.term, i, len(names))), ("cellvec",), sts[0])
                    cols[n] = c
            return self.bind_lines(b) + ["pure [%s]" % ", ".join(cols.get(n, "Mir.PySep.uninitCol %s" % nrows) for n in cmats)]

        def k_inner(envb):
            if isinstance(store, ast.If):
                b = []
                c = self.cond_m(store.test, envb, b) if self.cond_raises(store.test, envb) else self.cond(store.test, envb, b)
                return self.bind_lines(b) + ["if %s then do" % c] + indent(branch(store.body, envb)) + ["else do"] + \
                    indent(branch(store.orelse, envb))
            return branch([store], envb)
        body_lines = self.stmts(pre, env2, k_inner)
        lines = ["let %s : (List (List (List Mir.Separation.Cell))) ← Mir.PySep.forRange %s (fun %s => do" % (
            tab, dims[0][0], lam[0])] + indent(indent(body_lines))
        lines[-1] += ")"
        env3 = dict(env)
        for i, n in enumerate(cmats):
            lines.append("let %s : %s := Mir.PySep.matOfCols %s %s %d" % (ident(n), lean_type(CELLMAT), nrows, tab, i))
            env3[n] = (CELLMAT, False, False)
        return lines + self.stmts(rest, env3, k)

    def prefix_add(self, s, rest, env, k):
        """`x[:n] += v` for a 1-D array `x` computed by this function"""
        t = s.target
        if not (isinstance(s.op, ast.Add) and isinstance(t.value, ast.Name) and t.value.id in env
                and isinstance(t.slice, ast.Slice) and t.slice.lower is None and t.slice.step is None
                and t.slice.upper is not None):
            raise Unsupported("augmented assignment to anything but `x[:n] += v`", s)
        x = t.value.id
        if env[x][0] != FVEC:
            raise Unsupported("`x[:n] += v` on a %s" % _show_type(env[x][0]), s)
        if x not in self.fresh_arrays:
            raise Unsupported("in-place update of an array that may be shared", s)
        binds = []
        n = self.expr(t.slice.upper, env, binds)
        v = self.expr(s.value, env, binds)
        if n.ty != NAT or v.ty != FVEC:
            raise Unsupported("`x[:n] += v` with n : %s, v : %s" % (_show_type(n.ty), _show_type(v.ty)), s)
        tmp = self.bind(binds, "Mir.PySep.addPrefix %s %s %s" % (ident(x), n.term, v.term), FVEC, s)
        env2 = dict(env)
        return self.bind_lines(binds) + ["let %s : %s := %s" % (ident(x), lean_type(FVEC), tmp)] + self.stmts(rest, env2, k)

    def assign(self, target, value, env, cont, node):
        lines = super().assign(target, value, env, cont, node)
        return lines

    # -- expressions ----------------------------------------------------------------------------
    def expr(self, node, env, binds):
        if isinstance(node, ast.UnaryOp) and isinstance(node.op, ast.USub) and not isinstance(node.operand, ast.Constant):
            e = self.expr(node.operand, env, binds)
            if e.ty == ND:
                return E("(-%s)" % e.term, ND)
            if e.ty == FVEC:
                return E("(Mir.PySep.vneg %s)" % e.term, FVEC)
            if e.ty in (NAT, INT, RAT):
                t = INT if e.ty == NAT else e.ty
                return E("(-%s)" % coerce(e, t, node), t, np=e.np)
            raise Unsupported("unary - on a %s" % _show_type(e.ty), node)
        if isinstance(node, ast.ListComp):
            # `[np.expand_dims(score, -1) for score in result]` over a tuple-valued local: unrolled
            if len(node.generators) != 1 or node.generators[0].ifs or node.generators[0].is_async \
                    or not isinstance(node.generators[0].target, ast.Name) or not isinstance(node.generators[0].iter, ast.Name):
                raise Unsupported("this list comprehension", node)
            g = node.generators[0]
            src = self.expr(g.iter, env, binds)
            el = node.elt
            if src.ty[0] != "tup" or not (isinstance(el, ast.Call) and dotted(el.func) == "np.expand_dims" and "np" not in env
                                         and len(el.args) == 2 and not el.keywords and isinstance(el.args[0], ast.Name)
                                         and el.args[0].id == g.target.id and isinstance(el.args[1], ast.UnaryOp)
                                         and isinstance(el.args[1].op, ast.USub) and isinstance(el.args[1].operand, ast.Constant)
                                         and el.args[1].operand.value == 1):
                raise Unsupported("a list comprehension other than [np.expand_dims(x, -1) for x in <tuple>]", node)
            n = len(src.ty[1])
            elts = []
            for i, t in enumerate(src.ty[1]):
                if t == VEC(RAT):
                    elts.append(E("(Mir.PySep.expandLast %s)" % proj(src.term, i, n), CELLMAT))
                elif t == VNAT:
                    elts.append(E("(Mir.PySep.expandLastN %s)" % proj(src.term, i, n), CELLMAT))
                else:
                    raise Unsupported("np.expand_dims of a %s" % _show_type(t), node)
            return E("(%s)" % ", ".join(x.term for x in elts), TUP([CELLMAT] * n), elts=elts)
        return super().expr(node, env, binds)

    def compare(self, node, env, binds):
        # `np.sum(a, axis=tuple(range(2, a.ndim))) == 0`
        l = node.left
        if len(node.ops) == 1 and isinstance(node.ops[0], ast.Eq) and isinstance(l, ast.Call) and dotted(l.func) == "np.sum" \
                and "np" not in env and len(l.args) == 1 and isinstance(l.args[0], ast.Name) and l.args[0].id in env \
                and env[l.args[0].id][0] == ARR:
            a = l.args[0].id
            want = "tuple(range(2, %s.ndim))" % a
            kw = {k.arg: k.value for k in l.keywords}
            c = node.comparators[0]
            if set(kw) == {"axis"} and ast.unparse(kw["axis"]) == want and isinstance(c, ast.Constant) \
                    and type(c.value) in (int, float) and c.value == 0 and not ({"tuple", "range"} & self.locals):
                return E("(Mir.PySep.sumTrailingEqZero %s)" % ident(a), ZTAB)
            raise Unsupported("np.sum of an ndarray other than `np.sum(a, axis=tuple(range(2, a.ndim))) == 0`", node)
        return super().compare(node, env, binds)

    def is_log10(self, node):
        return isinstance(node, ast.Call) and dotted(node.func) == "np.log10" and len(node.args) == 1 and not node.keywords

    def binop(self, node, env, binds):
        op = node.op
        if isinstance(op, ast.Mult):
            for a, b in ((node.left, node.right), (node.right, node.left)):
                if isinstance(a, ast.Constant) and type(a.value) in (int, float) and a.value == 10 and self.is_log10(b):
                    x = self.expr(b.args[0], env, binds)
                    if not (x.ty == NUM or (x.ty in (NAT, RAT) and x.np)):
                        raise Unsupported("np.log10 of anything but an np.float64", node)
                    return E("(Mir.PySep.tenLog10 %s)" % coerce(x, NUM, node), DB)
        if isinstance(op, (ast.Add, ast.Sub)):
            a = self.expr(node.left, env, binds)
            b = self.expr(node.right, env, binds)
            sym = "+" if isinstance(op, ast.Add) else "-"
            if a.ty == ND and b.ty == ND:
                return E("(%s %s %s)" % (a.term, sym, b.term), ND)
            if a.ty == FVEC and b.ty == FVEC:
                tmp = self.bind(binds, "Mir.PyMel.%s %s %s" % ("vadd" if sym == "+" else "vsub", a.term, b.term), FVEC, node)
                return E(tmp, FVEC)
            if ND in (a.ty, b.ty) or FVEC in (a.ty, b.ty) or FMAT in (a.ty, b.ty):
                raise Unsupported("%s on a %s and a %s" % (sym, _show_type(a.ty), _show_type(b.ty)), node)
            return self.scalar_op(op, self.number(a, node), self.number(b, node), binds, node)
        return super().binop(node, env, binds)

    def attribute(self, node, env, binds):
        if dotted(node) == "np.inf" and "np" not in env:
            return E("Mir.PySep.npInf", DB)
        if isinstance(node.value, ast.Name) and node.value.id in env and env[node.value.id][0] == ARR:
            if node.attr == "ndim":
                return E("(Mir.PySep.ndim %s)" % ident(node.value.id), NAT)
            if node.attr == "size":
                return E("(Mir.Separation.Arr.size %s)" % ident(node.value.id), NAT)
        if isinstance(node.value, ast.Name) and node.value.id in env and env[node.value.id][0] == FVEC and node.attr == "size":
            return E("(Mir.PyM.len %s)" % ident(node.value.id), NAT)
        return super().attribute(node, env, binds)

    def subscript(self, node, env, binds):
        v = node.value
        idx0 = node.slice
        if isinstance(v, ast.Attribute) and v.attr == "shape" and isinstance(v.value, ast.Name) and v.value.id in env \
                and env[v.value.id][0] == ARR and isinstance(idx0, ast.Constant) and type(idx0.value) is int and idx0.value >= 0:
            t = self.bind(binds, "Mir.PySep.shapeAt %s %d" % (ident(v.value.id), idx0.value), NAT, node)
            return E(t, NAT)
        if isinstance(v, ast.Name) and v.id in env and env[v.id][0] == ARR:
            a = ident(v.id)
            if isinstance(idx0, ast.Tuple) and len(idx0.elts) == 2 and dotted(idx0.elts[0]) == "np.newaxis" \
                    and full_slice(idx0.elts[1]) and "np" not in env:
                return E("(Mir.PySep.newaxis0 %s)" % a, ARR)
            if isinstance(idx0, ast.Tuple) and len(idx0.elts) in (2, 3) and full_slice(idx0.elts[0]) \
                    and all(full_slice(x) for x in idx0.elts[2:]) and isinstance(idx0.elts[1], ast.Name):
                sl = self.expr(idx0.elts[1], env, binds)
                if sl.ty != SLICE:
                    raise Unsupported("a[:, x] with x a %s" % _show_type(sl.ty), node)
                t = self.bind(binds, "Mir.PySep.slice1 %s %d %s.1 %s.2" % (a, len(idx0.elts), sl.term, sl.term), ARR, node)
                return E(t, ARR)
            if not isinstance(idx0, (ast.Tuple, ast.Slice)):
                j = self.expr(idx0, env, binds)
                if j.ty != NAT:
                    raise Unsupported("source index of type %s" % _show_type(j.ty), node)
                t = self.bind(binds, "Mir.PySep.arrRow %s %s" % (a, j.term), SRC2, node)
                return E(t, SRC2)
            raise Unsupported("this index of an ndarray", node)
        if isinstance(v, ast.Name) and v.id in env and env[v.id][0] == PERMS and not isinstance(idx0, (ast.Tuple, ast.Slice)):
            j = self.expr(idx0, env, binds)
            if j.ty != NAT:
                raise Unsupported("list index of type %s" % _show_type(j.ty), node)
            t = self.bind(binds, "Mir.PySep.getItem %s %s" % (ident(v.id), j.term), VNAT, node)
            return E(t, VNAT)
        if isinstance(v, ast.Name) and v.id in env and env[v.id][0] == FMAT and isinstance(idx0, (ast.Tuple, ast.Name)):
            parts = None
            if isinstance(idx0, ast.Tuple) and len(idx0.elts) == 2:
                b = []
                es = [self.expr(x, env, b) for x in idx0.elts]
                if all(e.ty == VNAT for e in es) and not b:
                    parts = [e.term for e in es]
            elif isinstance(idx0, ast.Name) and idx0.id in env and env[idx0.id][0] == TUP([VNAT, VNAT]):
                parts = ["%s.1" % ident(idx0.id), "%s.2" % ident(idx0.id)]
            if parts is not None:
                t = self.bind(binds, "Mir.PySep.fancy2 %s %s %s" % (ident(v.id), parts[0], parts[1]), VEC(RAT), node)
                return E(t, VEC(RAT))
        if isinstance(v, ast.Name) and v.id in env and env[v.id][0] == FMAT:
            idx = node.slice
            if isinstance(idx, ast.Tuple) and len(idx.elts) == 3 and dotted(idx.elts[1]) == "np.newaxis" \
                    and isinstance(idx.elts[2], ast.Slice) and idx.elts[2].lower is None and idx.elts[2].upper is None \
                    and idx.elts[2].step is None:
                j = self.expr(idx.elts[0], env, binds)
                if j.ty != NAT:
                    raise Unsupported("row index of type %s" % _show_type(j.ty), node)
                row = self.bind(binds, "Mir.PySep.row %s %s" % (ident(v.id), j.term), FVEC, node)
                return E("[%s]" % row, FMAT)
            j = self.expr(idx, env, binds)
            if j.ty != NAT:
                raise Unsupported("row index of type %s" % _show_type(j.ty), node)
            row = self.bind(binds, "Mir.PySep.row %s %s" % (ident(v.id), j.term), FVEC, node)
            return E(row, FVEC)
        return super().subscript(node, env, binds)

    def call(self, node, env, binds):
        name = dotted(node.func)
        args = node.args
        if isinstance(node.func, ast.Name) and node.func.id in env and env[node.func.id][0][0] == "ext":
            x = node.func.id
            atys, rty, _ = EXT_SIGS[x]
            if node.keywords or len(args) != len(atys):
                raise Unsupported("%s with other than %d positional arguments" % (x, len(atys)), node)
            es = [self.expr(a, env, binds) for a in args]
            if [e.ty for e in es] != atys:
                raise Unsupported("%s on %s" % (x, ", ".join(_show_type(e.ty) for e in es)), node)
            tmp = self.bind(binds, "%s %s" % (ident(x), " ".join(e.term for e in es)), rty, node)
            return E(tmp, rty, np=True)
        if isinstance(node.func, ast.Name) and node.func.id == "validate" and "validate" not in self.locals:
            if node.keywords or len(args) != 2 or not self.m.validate_ok:
                raise Unsupported("validate(...) is not the generated validator on two arrays", node)
            es = [self.expr(a, env, binds) for a in args]
            if [e.ty for e in es] != [ARR, ARR]:
                raise Unsupported("validate on %s" % ", ".join(_show_type(e.ty) for e in es), node)
            tmp = self.bind(binds, "Mir.GenV.separation.validate (Mir.PySep.srcOf %s) (Mir.PySep.srcOf %s)" % (
                es[0].term, es[1].term), NONE, node)
            return E(tmp, NONE)
        builtin = isinstance(node.func, ast.Name) and node.func.id not in self.locals and node.func.id not in self.m.funcs \
            and node.func.id not in self.m.assigned and node.func.id not in self.m.imports
        if builtin and node.func.id == "len" and len(args) == 1 and not node.keywords:
            b = []
            a = self.expr(args[0], env, b)
            if a.ty == PERMS and not b:
                return E("(List.length %s)" % a.term, NAT)
        if builtin and node.func.id == "slice" and len(args) == 2 and not node.keywords:
            a, b2 = [self.expr(x, env, binds) for x in args]
            if a.ty not in (NAT, INT) or b2.ty not in (NAT, INT):
                raise Unsupported("slice of non-integers", node)
            return E("(%s, %s)" % (coerce(a, INT, node), coerce(b2, INT, node)), SLICE)
        if builtin and node.func.id == "int" and len(args) == 1 and not node.keywords and isinstance(args[0], ast.Call) \
                and dotted(args[0].func) == "np.floor" and "np" not in env and len(args[0].args) == 1 and not args[0].keywords:
            x = self.expr(args[0].args[0], env, binds)
            if x.ty not in (NAT, INT, RAT) or x.np:
                raise Unsupported("int(np.floor(.)) of anything but a finite Python float", node)
            return E("(Mir.PySep.floorInt %s)" % coerce(x, RAT, node), INT)
        if builtin and node.func.id == "list" and len(args) == 1 and not node.keywords:
            a = args[0]
            if isinstance(a, ast.Call) and dotted(a.func) == "itertools.permutations" and len(a.args) == 1 and not a.keywords \
                    and self.m.imports.get("itertools") == "itertools" and "itertools" not in env \
                    and "itertools" not in self.m.assigned and "itertools" not in self.m.funcs:
                x = self.expr(a.args[0], env, binds)
                if x.ty != VNAT:
                    raise Unsupported("itertools.permutations of a %s" % _show_type(x.ty), node)
                return E("(Mir.PySep.permutations %s)" % x.term, PERMS)
            if isinstance(a, ast.Call) and isinstance(a.func, ast.Name) and a.func.id == "range" and len(a.args) == 1 \
                    and not a.keywords and "range" not in self.locals:
                n = self.expr(a.args[0], env, binds)
                if n.ty != NAT:
                    raise Unsupported("range of a %s" % _show_type(n.ty), node)
                return E("(List.range %s)" % n.term, VNAT)
            raise Unsupported("list(...) of this argument", node)
        if name is not None and name.split(".")[0] == "np" and "np" not in env and name in (
                "np.array", "np.arange", "np.mean", "np.argmax", "np.asarray", "np.atleast_3d", "np.any", "np.all"):
            kw = {k.arg: k.value for k in node.keywords}
            if name == "np.all" and len(args) == 1 and set(kw) == {"axis"} and isinstance(kw["axis"], ast.Constant) \
                    and type(kw["axis"].value) is int and kw["axis"].value == 1:
                t = self.expr(args[0], env, binds)
                if t.ty != ZTAB:
                    raise Unsupported("np.all(., axis=1) of a %s" % _show_type(t.ty), node)
                tmp = self.bind(binds, "Mir.PySep.allAxis1 %s" % t.term, MASKV, node)
                return E(tmp, MASKV)
            if kw or len(args) != 1:
                raise Unsupported("call of %s with these arguments" % name, node)
            if name == "np.array":
                if isinstance(args[0], ast.List) and not args[0].elts:
                    return E("[]", EMPTYV)
                raise Unsupported("np.array of anything but []", node)
            x = self.expr(args[0], env, binds)
            if name == "np.arange" and x.ty == NAT:
                return E("(List.range %s)" % x.term, VNAT)
            if name == "np.mean" and x.ty == VEC(RAT):
                return E("(Mir.PySep.mean %s)" % x.term, RAT, np=True)
            if name == "np.argmax" and x.ty == VEC(RAT):
                tmp = self.bind(binds, "Mir.PySep.argmax %s" % x.term, NAT, node)
                return E(tmp, NAT)
            if name == "np.asarray" and x.ty == VNAT:
                return E(x.term, VNAT)
            if name == "np.atleast_3d" and x.ty == ARR:
                return E("(Mir.Separation.atleast3d %s)" % x.term, ARR)
            if name == "np.any" and x.ty == MASKV:
                return E("(Mir.PySep.anyB %s)" % x.term, BOOL)
            raise Unsupported("%s of a %s" % (name, _show_type(x.ty)), node)
        if isinstance(node.func, ast.Name) and node.func.id in env and env[node.func.id][0] == PROJ:
            if node.keywords or len(args) != 3:
                raise Unsupported("_project with other than three positional arguments", node)
            es = [self.expr(a, env, binds) for a in args]
            if [e.ty for e in es] != [FMAT, FVEC, NAT]:
                raise Unsupported("_project on %s" % ", ".join(_show_type(e.ty) for e in es), node)
            tmp = self.bind(binds, "%s %s" % (ident(node.func.id), " ".join(e.term for e in es)), FVEC, node)
            return E(tmp, FVEC)
        if name is not None and name.split(".")[0] == "np" and "np" not in env:
            if name == "np.sum" and len(args) == 1 and not node.keywords:
                x = args[0]
                base = None
                if isinstance(x, ast.BinOp) and isinstance(x.op, ast.Pow) and isinstance(x.right, ast.Constant) \
                        and type(x.right.value) is int and x.right.value == 2:
                    base = x.left
                elif isinstance(x, ast.BinOp) and isinstance(x.op, ast.Mult) and same_ast(x.left, x.right):
                    base = x.left
                if base is not None:
                    b = []
                    a = self.expr(base, env, b)
                    if a.ty == ND:
                        binds += b
                        return E("(%s.sumsq %s)" % (NDC, a.term), RAT, np=True)
                raise Unsupported("np.sum of anything but the square of an ndarray", node)
            if name == "np.zeros" and len(args) == 1 and not node.keywords:
                n = self.expr(args[0], env, binds)
                if n.ty not in (NAT, INT):
                    raise Unsupported("np.zeros of a %s" % _show_type(n.ty), node)
                tmp = self.bind(binds, "Mir.PySep.zeros %s" % coerce(n, INT, node), FVEC, node)
                return E(tmp, FVEC)
            if name == "np.hstack" and len(args) == 1 and not node.keywords and isinstance(args[0], ast.Tuple) \
                    and len(args[0].elts) == 2:
                a, b = [self.expr(x, env, binds) for x in args[0].elts]
                if a.ty != FVEC or b.ty != FVEC:
                    raise Unsupported("np.hstack of a %s and a %s" % (_show_type(a.ty), _show_type(b.ty)), node)
                return E("(%s ++ %s)" % (a.term, b.term), FVEC)
            raise Unsupported("call of %s" % name, node)
        return super().call(node, env, binds)


def translate_def(module, fn):
    for d in fn.decorator_list:
        # `@util.deprecated(version=.., version_removed=..)`: a wrapper that warns and calls the function
        if not (isinstance(d, ast.Call) and dotted(d.func) == "util.deprecated" and not d.args
                and module.imports.get("util") in ("..util", ".util", "mir_eval.util")
                and all(isinstance(k.value, ast.Constant) for k in d.keywords)):
            raise Unsupported("decorator other than @util.deprecated(<literals>)", fn)
    a = fn.args
    if a.vararg or a.kwarg or a.kwonlyargs or a.posonlyargs:
        raise Unsupported("*args / **kwargs / keyword-only parameters", fn)
    if [ast.unparse(d) for d in a.defaults] != DEFAULTS.get(fn.name, []):
        raise Unsupported("parameter defaults (%s) instead of (%s)" % (", ".join(ast.unparse(d) for d in a.defaults),
                                                                       ", ".join(DEFAULTS.get(fn.name, []))), fn)
    want = PARAMS[fn.name]
    got = [p.arg for p in a.args]
    if got != [w[0] for w in want]:
        raise Unsupported("parameters (%s) instead of (%s)" % (", ".join(got), ", ".join(w[0] for w in want)), fn)
    params = [(n, t, None) for n, t, _ in want]
    for x in EXTERNS.get(fn.name, []):
        if x not in module.funcs or len(module.funcs[x]) != 1 or x in module.assigned:
            raise Unsupported("extern %s is not a (single) top-level function" % x, fn)
        if x in {p.arg for p in a.args} or x in SI.assigned_names(fn.body):
            raise Unsupported("extern %s is rebound" % x, fn)
        params.append((x, PROJ if x == "_project" else EXT(x), None))
    body = [s for s in fn.body
            if not (isinstance(s, ast.Expr) and isinstance(s.value, ast.Constant) and isinstance(s.value.value, str))]
    where = "`separation.%s` (mir_eval/separation.py)" % fn.name
    if EXTERNS.get(fn.name):
        where += "; extern parameter%s: %s" % ("s" if len(EXTERNS[fn.name]) > 1 else "", ", ".join(EXTERNS[fn.name]))
    return Body(module, fn, fn.name, params, body, what=where, np_params=[n for n, _, isnp in want if isnp]).translate()


# ------------------------------------------------------------------------------------------------
# driver handler

def handler_row(name, sig):
    vs = ["a%d" % i for i in range(len(sig.params))]
    tys = [p[1] for p in sig.params]
    head = "  | \"gen.sepcrit\", Val.str \"%s\" :: [%s] => do\n" % (name, ", ".join(vs))
    if all(t == RAT for t in tys) and sig.ret == DB:
        decs = "".join("      let %s ← Val.asRat? %s\n" % (v, v) for v in vs)
        return head + decs + "      some (Except.map Mir.Separation.Db.toVal (Mir.Gen.separation.%s %s))" % (ident(name), " ".join(vs))
    if all(t == ND for t in tys) and sig.ret[0] == "tup" and all(t == DB for t in sig.ret[1]):
        n = len(sig.ret[1])
        xs = ["x%d" % i for i in range(n)]
        decs = "".join("      let %s ← Mir.PySep.rowsOfVal? %s\n" % (v, v) for v in vs)
        return head + decs + (
            "      if ¬ Mir.PySep.allSameShape [%s] then none else\n"
            "      some (Except.map (fun ((%s) : %s) => Mir.PySep.dbsVal [%s]) (Mir.Gen.separation.%s %s))" % (
                ", ".join(vs), ", ".join(xs), lean_type(sig.ret), ", ".join(xs), ident(name), " ".join(vs)))
    if tys == [FMAT, FVEC, NAT, NAT, PROJ] and sig.ret == TUP([FVEC] * 4):
        # the two `_project` results are sent by the harness (captured from the real run): a0..a3, then projT, projAll
        return ("  | \"gen.sepcrit\", Val.str \"%s\" :: [a0, a1, a2, a3, pT, pA] => do\n"
                "      let a0 ← Mir.Separation.asRows? a0\n      let a1 ← Val.asRats? a1\n      let a2 ← Val.asNat? a2\n"
                "      let a3 ← Val.asNat? a3\n      let pT ← Val.asRats? pT\n      let pA ← Val.asRats? pA\n"
                "      some (Except.map (fun ((x0, x1, x2, x3) : %s) => Val.list [Val.ofRats x0, Val.ofRats x1, Val.ofRats x2, Val.ofRats x3])\n"
                "        (Mir.Gen.separation.%s a0 a1 a2 a3 (Mir.PySep.projStub pT pA)))" % (name, lean_type(sig.ret), ident(name)))
    if name == "_any_source_silent":
        return ("  | \"gen.sepcrit\", Val.str \"_any_source_silent\" :: [sh, d] => do\n"
                "      let a ← Mir.Separation.asArr? sh d\n"
                "      some (Except.map Val.bool (Mir.Gen.separation._any_source_silent a))")
    if name == "bss_eval_sources" and tys == [ARR, ARR, BOOL, EXT("_bss_decomp_mtifilt"), EXT("_bss_source_crit")] \
            and sig.ret == TUP([VEC(RAT)] * 3 + [VNAT]):
        # the kernel is a criterion table sent by the harness (as for the hand model's op `separation.bss_eval_sources`)
        return ("  | \"gen.sepcrit\", Val.str \"bss_eval_sources\" :: [rs, rd, es, ed, cp, table] => do\n"
                "      let r ← Mir.Separation.asArr? rs rd\n      let e ← Mir.Separation.asArr? es ed\n      let cp ← Val.asBool? cp\n"
                "      let t ← (← Val.asList? table).mapM Mir.Separation.asRows?\n"
                "      some (Except.map (fun ((x0, x1, x2, x3) : (List Rat × List Rat × List Rat × List Nat)) =>\n"
                "          Val.list [Val.ofRats x0, Val.ofRats x1, Val.ofRats x2, Val.ofNats x3])\n"
                "        (Mir.Gen.separation.bss_eval_sources r e cp (Mir.PySep.decompStub) (Mir.PySep.critStub3 t)))")
    if name in ("bss_eval_sources_framewise", "bss_eval_images_framewise") and tys[:5] == [ARR, ARR, INT, INT, BOOL]:
        n = 4 if name == "bss_eval_sources_framewise" else 5
        xs = ["x%d" % i for i in range(n)]
        return ("  | \"gen.sepcrit\", Val.str \"%s\" :: [rs, rd, es, ed, w, h, cp] => do\n"
                "      let r ← Mir.Separation.asArr? rs rd\n      let e ← Mir.Separation.asArr? es ed\n      let cp ← Val.asBool? cp\n"
                "      let w ← Val.asInt? w\n      let h ← Val.asInt? h\n"
                "      if w < 1 ∨ h < 0 then none else\n"
                "      some (Except.map (fun ((%s) : %s) => Mir.PySep.cellsVal [%s])\n"
                "        (Mir.Gen.separation.%s r e w h cp Mir.PySep.stubEval%d))" % (
                    name, ", ".join(xs), lean_type(sig.ret), ", ".join(xs), name, n))
    raise Unsupported("no protocol row for %s" % name)


HEADER = """import MirModel.PySep
import MirModel.PyScalar
import MirGen.Validators
/-!
  GENERATED by harness/translate/sepcrit.py (an extension of segindex.py) from mir_eval/separation.py — do not edit.
  One shallow definition per translated function (`Mir.Gen.separation.<function>`) over `Mir.PySep` (MirModel/PySep.lean);
  the criteria functions are polymorphic in the ndarray type (`Mir.PySep.Nd`), `_project` is an extern PARAMETER of the
  decomposition.  Regenerated from the working tree on every run of ./check C19; `MirProofs/Props/C19_Gen.lean` proves each
  of them equal to the hand-written model (`MirModel/Separation.lean`) for all inputs.
-/
set_option linter.unusedVariables false
"""


def translate_all(repo, wanted=None):
    """-> (lean text, {name: Sig}, problems [(function, detail)])"""
    wanted = WANTED if wanted is None else wanted
    path = os.path.join(repo, "mir_eval", "separation.py")
    problems = []
    old = SI.lean_type, SI.show_type
    SI.lean_type, SI.show_type = lean_type, _show_type
    try:
        try:
            from translate import validators as VT
            try:
                vsigs = VT.translate_all(repo)[1]
            except Exception:  # noqa: BLE001
                vsigs = {}
            m = Module(open(path, encoding="utf-8").read(), validate_ok=("separation", "validate") in vsigs)
        except (OSError, SyntaxError) as e:
            m = None
            problems = [(f, "cannot read/parse %s: %s" % (path, e)) for f in wanted]
        if m is not None:
            for fname in wanted:
                try:
                    m.translate(fname)
                except Unsupported as e:
                    problems.append((fname, e.detail))
        L = [HEADER, "namespace Mir.Gen.separation", ""]
        rows = []
        emitted = [] if m is None else m.emitted
        for name, lines in emitted:
            L += lines + [""]
        L += ["end Mir.Gen.separation", ""]
        names = []
        for name, _ in emitted:
            try:
                rows.append(handler_row(name, m.sigs[name]))
                names.append(name)
            except Unsupported:
                continue
    finally:
        SI.lean_type, SI.show_type = old
    L.append("namespace Mir.Gen.SepCrit")
    L.append("")
    L.append("/-- names of the translated definitions the handler serves (in emission order) -/")
    L.append("def names : List String := [%s]" % ", ".join('"%s"' % n for n in names))
    L.append("")
    L.append("/-- protocol op `gen.sepcrit <\"function\"> <args...>`; `gen.sepcrit \"?\"` lists `names` -/")
    L.append("def handler : Handler := fun fn args =>")
    L.append("  match fn, args with")
    L.append("  | \"gen.sepcrit\", [Val.str \"?\"] => some (.ok (Val.list (names.map Val.str)))")
    L += rows
    L.append("  | _, _ => none")
    L.append("")
    L.append("end Mir.Gen.SepCrit")
    return "\n".join(L) + "\n", ({} if m is None else dict(m.sigs)), problems


def generate(repo, outdir):
    # the generated file calls Mir.GenV.separation.validate: keep MirGen/Validators.lean in step with the same tree
    # (reporting nothing of it: its obligations belong to C14)
    os.makedirs(outdir, exist_ok=True)
    try:
        from translate import validators as VT
        write_if_changed(os.path.join(outdir, "Validators.lean"), VT.translate_all(repo)[0])
    except Exception:  # noqa: BLE001
        pass
    text, done, problems = translate_all(repo)
    write_if_changed(os.path.join(outdir, "SepCrit.lean"), text)
    obligations = ["Mir.Gen.separation.%s" % n for n in done]
    probs = [{"name": "sepcrit: separation.%s" % f, "detail": "outside the translated subset: " + d} for f, d in problems]
    return obligations, probs


if __name__ == "__main__":
    repo = sys.argv[1] if len(sys.argv) > 1 else "/repo"
    text, done, problems = translate_all(repo)
    sys.stdout.write(text)
    for p in problems:
        sys.stderr.write("PROBLEM separation.%s: %s\n" % p)
