"""mir_eval source -> lean/MirGen/Signatures.lean.

For every top-level function of the task modules (and `util`) emit what `util.filter_kwargs` /
`util.has_kwargs` look at — `co_varnames[:co_argcount]` (= positional-only + positional-or-keyword parameter
names, in order), keyword-only names, `*args` / `**kwargs` flags, number of defaults — plus the syntactic shape
of every `return` statement (tuple display of n elements, or something else).  Everything comes from the AST of
the CURRENT source; nothing is imported or executed.

Fails closed: a decorated function (the decorator could replace `__code__` / the signature), a name defined
twice, a `def` hidden under `if`/`try` at module level, or a syntax error is reported as a problem.
"""
import ast
import os

from translate import write_if_changed

TASK_MODULES = ["beat", "onset", "segment", "chord", "melody", "multipitch", "transcription",
                "transcription_velocity", "tempo", "key", "pattern", "hierarchy", "alignment"]
MODULES = TASK_MODULES + ["util"]


def lean_str(s):
    out = ['"']
    for ch in s:
        if ch == '"':
            out.append('\\"')
        elif ch == "\\":
            out.append("\\\\")
        elif ch == "\n":
            out.append("\\n")
        elif ch == "\t":
            out.append("\\t")
        elif ord(ch) < 32 or ord(ch) > 126:
            out.append("\\u{%x}" % ord(ch))
        else:
            out.append(ch)
    out.append('"')
    return "".join(out)


def lean_strs(xs):
    return "[" + ", ".join(lean_str(x) for x in xs) + "]"


def lean_bool(b):
    return "true" if b else "false"


def parse_module(repo, mod):
    path = os.path.join(repo, "mir_eval", mod + ".py")
    with open(path, encoding="utf-8") as fh:
        src = fh.read()
    return ast.parse(src, filename=path)


def return_shapes(fn):
    """One entry per `return` statement of `fn` itself (not of nested defs/lambdas): int n = tuple display of n
    elements (no starred element), None = any other expression (or a bare `return`)."""
    shapes = []

    def walk(node):
        for child in ast.iter_child_nodes(node):
            if isinstance(child, (ast.FunctionDef, ast.AsyncFunctionDef, ast.Lambda, ast.ClassDef)):
                continue
            if isinstance(child, ast.Return):
                v = child.value
                if isinstance(v, ast.Tuple) and not any(isinstance(e, ast.Starred) for e in v.elts):
                    shapes.append(len(v.elts))
                else:
                    shapes.append(None)
            walk(child)

    walk(fn)
    return shapes


def has_yield(fn):
    for node in ast.walk(fn):
        if isinstance(node, (ast.Yield, ast.YieldFrom)):
            return True
    return False


def module_signatures(tree, mod, problems):
    """{name: dict} for the top-level `def`s of one module, in source order."""
    sigs = {}
    for node in tree.body:
        if isinstance(node, (ast.If, ast.Try, ast.With, ast.For, ast.While)):
            for sub in ast.walk(node):
                if isinstance(sub, (ast.FunctionDef, ast.AsyncFunctionDef)):
                    problems.append({"name": "signatures:%s.%s" % (mod, sub.name),
                                     "detail": "function defined under a module-level %s statement (line %d)"
                                               % (type(node).__name__, sub.lineno)})
            continue
        if isinstance(node, ast.AsyncFunctionDef):
            problems.append({"name": "signatures:%s.%s" % (mod, node.name), "detail": "async def"})
            continue
        if not isinstance(node, ast.FunctionDef):
            continue
        qn = "%s.%s" % (mod, node.name)
        if node.name in sigs:
            problems.append({"name": "signatures:" + qn, "detail": "defined twice (line %d)" % node.lineno})
            continue
        if node.decorator_list and mod in TASK_MODULES:
            problems.append({"name": "signatures:" + qn,
                             "detail": "decorated with %s (line %d): __code__/signature may not be the def's"
                                       % (", ".join(ast.unparse(d) for d in node.decorator_list), node.lineno)})
        if has_yield(node) and mod in TASK_MODULES:
            problems.append({"name": "signatures:" + qn, "detail": "generator function"})
        a = node.args
        params = [x.arg for x in a.posonlyargs] + [x.arg for x in a.args]
        sigs[node.name] = {
            "params": params,
            "kwonly": [x.arg for x in a.kwonlyargs],
            "varargs": a.vararg is not None,
            "varkw": a.kwarg is not None,
            "ndefaults": len(a.defaults),
            "rets": return_shapes(node),
            "lineno": node.lineno,
        }
    return sigs


def collect(repo):
    """-> ({module: {function: sig}}, {module: ast}, problems)"""
    problems, allsigs, trees = [], {}, {}
    for mod in MODULES:
        try:
            tree = parse_module(repo, mod)
        except (OSError, SyntaxError) as e:
            problems.append({"name": "signatures:" + mod, "detail": "cannot parse: %s" % e})
            continue
        trees[mod] = tree
        allsigs[mod] = module_signatures(tree, mod, problems)
    return allsigs, trees, problems


def lean_sig(s):
    fields = ["params := %s" % lean_strs(s["params"])]
    if s["kwonly"]:
        fields.append("kwonly := %s" % lean_strs(s["kwonly"]))
    if s["varargs"]:
        fields.append("varArgs := true")
    if s["varkw"]:
        fields.append("varKw := true")
    if s["ndefaults"]:
        fields.append("nDefaults := %d" % s["ndefaults"])
    if s["rets"]:
        fields.append("rets := [%s]" % ", ".join("none" if r is None else "some %d" % r for r in s["rets"]))
    return "{ " + ", ".join(fields) + " }"


def render(allsigs):
    lines = ["import MirModel.EvalProg",
             "/-! GENERATED by harness/translate/signatures.py from mir_eval's source — do not edit. -/",
             "namespace Mir.Gen",
             "open Mir.EvalProg",
             ""]
    lines.append("/-- signature of every top-level function of the task modules and `util` -/")
    lines.append("def sigs : Sigs := [")
    items = [("%s.%s" % (mod, fn), s) for mod in MODULES if mod in allsigs for fn, s in allsigs[mod].items()]
    for i, (qn, s) in enumerate(items):
        lines.append("  (%s, %s)%s" % (lean_str(qn), lean_sig(s), "," if i + 1 < len(items) else ""))
    lines.append("]")
    lines.append("")
    lines.append("end Mir.Gen")
    return "\n".join(lines) + "\n"


def generate(repo, outdir):
    allsigs, _, problems = collect(repo)
    os.makedirs(outdir, exist_ok=True)
    write_if_changed(os.path.join(outdir, "Signatures.lean"), render(allsigs))
    n = sum(len(v) for v in allsigs.values())
    return ["MirGen.Signatures (%d functions of %d modules)" % (n, len(allsigs))], problems
