"""mir_eval/chord.py tables -> lean/MirGen/Tables.lean  (AST based; chord.py is never imported).

Emitted (namespace `MirGen.Tables`): `bitmapLength`, `noChord`, `xChord`, `noChordEncoded`, `xChordEncoded`,
`pitchClasses`, `scaleDegrees`, `qualities`, `extendedQualityRedux`.

The translator accepts only the literal shapes below and fails closed on anything else:

  BITMAP_LENGTH = <int>             NO_CHORD = <str>            X_CHORD = <str>
  *_ENCODED = <int>, np.array(<list>), <int>    with <list> ::= [ints] | [ints] * <int | BITMAP_LENGTH>
  QUALITIES = { <str>: [ints], ... }
  EXTENDED_QUALITY_REDUX = { <str>: (<str>, set([<str>...]) | {<str>...} | set()), ... }
  PITCH_CLASSES = _pitch_classes()   /  SCALE_DEGREES = _scale_degrees()   where the builder is
      def f():  <docstring>;  <keys> = [<str>...];  semitones = [<int>...];
                return dict([(a, b) for a, b in zip(<keys>, semitones)])
  (or a plain dict literal { <str>: <int>, ... }).
"""
import ast
import os

from translate import write_if_changed

NAMES = ["BITMAP_LENGTH", "NO_CHORD", "NO_CHORD_ENCODED", "X_CHORD", "X_CHORD_ENCODED",
         "PITCH_CLASSES", "SCALE_DEGREES", "QUALITIES", "EXTENDED_QUALITY_REDUX"]


class Unsupported(Exception):
    def __init__(self, name, detail):
        Exception.__init__(self, detail)
        self.name = name
        self.detail = detail


def _int(node, name, env=None):
    if isinstance(node, ast.Constant) and type(node.value) is int:
        return node.value
    if isinstance(node, ast.UnaryOp) and isinstance(node.op, ast.USub):
        return -_int(node.operand, name, env)
    if env is not None and isinstance(node, ast.Name) and node.id in env and type(env[node.id]) is int:
        return env[node.id]
    raise Unsupported(name, "expected an integer literal at line %d: %s" % (node.lineno, ast.dump(node)[:120]))


def _str(node, name):
    if isinstance(node, ast.Constant) and type(node.value) is str:
        return node.value
    raise Unsupported(name, "expected a string literal at line %d: %s" % (node.lineno, ast.dump(node)[:120]))


def _int_list(node, name, env=None):
    if isinstance(node, ast.List):
        return [_int(e, name, env) for e in node.elts]
    if isinstance(node, ast.BinOp) and isinstance(node.op, ast.Mult) and isinstance(node.left, ast.List):
        k = _int(node.right, name, env)
        if k < 0:
            raise Unsupported(name, "negative repetition")
        return [_int(e, name, env) for e in node.left.elts] * k
    raise Unsupported(name, "expected a list literal of integers at line %d: %s" % (node.lineno, ast.dump(node)[:120]))


def _str_list(node, name):
    if isinstance(node, (ast.List, ast.Tuple)):
        return [_str(e, name) for e in node.elts]
    raise Unsupported(name, "expected a list literal of strings at line %d: %s" % (node.lineno, ast.dump(node)[:120]))


def _str_set(node, name):
    """set([..]) | set() | {..}  -> list of strings in source order (duplicates rejected)."""
    if isinstance(node, ast.Set):
        out = [_str(e, name) for e in node.elts]
    elif isinstance(node, ast.Call) and isinstance(node.func, ast.Name) and node.func.id == "set" and not node.keywords:
        if len(node.args) == 0:
            out = []
        elif len(node.args) == 1:
            out = _str_list(node.args[0], name)
        else:
            raise Unsupported(name, "set(...) with several arguments at line %d" % node.lineno)
    else:
        raise Unsupported(name, "expected a set literal of strings at line %d: %s" % (node.lineno, ast.dump(node)[:120]))
    if len(set(out)) != len(out):
        raise Unsupported(name, "duplicate element in set literal at line %d" % node.lineno)
    return out


def _np_array(node, name, env):
    if (isinstance(node, ast.Call) and isinstance(node.func, ast.Attribute) and node.func.attr == "array"
            and isinstance(node.func.value, ast.Name) and node.func.value.id == "np"
            and len(node.args) == 1 and not node.keywords):
        return _int_list(node.args[0], name, env)
    raise Unsupported(name, "expected np.array(<list literal>) at line %d: %s" % (node.lineno, ast.dump(node)[:120]))


def _encoded(node, name, env):
    if isinstance(node, ast.Tuple) and len(node.elts) == 3:
        return _int(node.elts[0], name, env), _np_array(node.elts[1], name, env), _int(node.elts[2], name, env)
    raise Unsupported(name, "expected `<int>, np.array(<list>), <int>` at line %d" % node.lineno)


def _dict_keys_unique(keys, name):
    if len(set(keys)) != len(keys):
        raise Unsupported(name, "duplicate key in dict literal (later entry would silently win)")


def _qualities(node, name):
    if not isinstance(node, ast.Dict):
        raise Unsupported(name, "expected a dict literal at line %d" % node.lineno)
    out = []
    for k, v in zip(node.keys, node.values):
        if k is None:
            raise Unsupported(name, "dict unpacking in table")
        out.append((_str(k, name), _int_list(v, name)))
    _dict_keys_unique([k for k, _ in out], name)
    return out


def _redux(node, name):
    if not isinstance(node, ast.Dict):
        raise Unsupported(name, "expected a dict literal at line %d" % node.lineno)
    out = []
    for k, v in zip(node.keys, node.values):
        if k is None:
            raise Unsupported(name, "dict unpacking in table")
        if not (isinstance(v, ast.Tuple) and len(v.elts) == 2):
            raise Unsupported(name, "expected (quality, set) at line %d" % v.lineno)
        out.append((_str(k, name), _str(v.elts[0], name), _str_set(v.elts[1], name)))
    _dict_keys_unique([k for k, _, _ in out], name)
    return out


def _zip_builder(fn, name):
    """def f(): [doc]; a = [str..]; b = [int..]; return dict([(x, y) for x, y in zip(a, b)])"""
    if fn.args.args or fn.args.vararg or fn.args.kwarg or fn.args.kwonlyargs or fn.decorator_list:
        raise Unsupported(name, "table builder %s takes arguments / is decorated" % fn.name)
    body = list(fn.body)
    if body and isinstance(body[0], ast.Expr) and isinstance(body[0].value, ast.Constant) \
            and isinstance(body[0].value.value, str):
        body = body[1:]
    if len(body) != 3 or not all(isinstance(s, ast.Assign) for s in body[:2]) or not isinstance(body[2], ast.Return):
        raise Unsupported(name, "table builder %s is not `keys=[..]; values=[..]; return dict(zip)`" % fn.name)
    binds = {}
    for s in body[:2]:
        if len(s.targets) != 1 or not isinstance(s.targets[0], ast.Name):
            raise Unsupported(name, "table builder %s: unsupported assignment at line %d" % (fn.name, s.lineno))
        binds[s.targets[0].id] = s.value
    ret = body[2].value
    # accepted: dict([(a, b) for a, b in zip(K, V)])  |  dict(zip(K, V))
    zipcall = None
    if isinstance(ret, ast.Call) and isinstance(ret.func, ast.Name) and ret.func.id == "dict" \
            and len(ret.args) == 1 and not ret.keywords:
        a = ret.args[0]
        if isinstance(a, ast.ListComp) and len(a.generators) == 1:
            g = a.generators[0]
            if (not g.ifs and not g.is_async and isinstance(g.target, ast.Tuple) and len(g.target.elts) == 2
                    and all(isinstance(t, ast.Name) for t in g.target.elts)
                    and isinstance(a.elt, ast.Tuple) and len(a.elt.elts) == 2
                    and all(isinstance(t, ast.Name) for t in a.elt.elts)
                    and [t.id for t in a.elt.elts] == [t.id for t in g.target.elts]):
                zipcall = g.iter
        elif isinstance(a, ast.Call):
            zipcall = a
    if not (isinstance(zipcall, ast.Call) and isinstance(zipcall.func, ast.Name) and zipcall.func.id == "zip"
            and len(zipcall.args) == 2 and not zipcall.keywords
            and all(isinstance(x, ast.Name) and x.id in binds for x in zipcall.args)):
        raise Unsupported(name, "table builder %s: return is not dict(zip(keys, values)) at line %d"
                          % (fn.name, body[2].lineno))
    keys = _str_list(binds[zipcall.args[0].id], name)
    vals = _int_list(binds[zipcall.args[1].id], name)
    n = min(len(keys), len(vals))          # zip truncates
    keys, vals = keys[:n], vals[:n]
    _dict_keys_unique(keys, name)
    return list(zip(keys, vals))


def _str_int_table(node, name, funcs):
    if isinstance(node, ast.Dict):
        out = []
        for k, v in zip(node.keys, node.values):
            if k is None:
                raise Unsupported(name, "dict unpacking in table")
            out.append((_str(k, name), _int(v, name)))
        _dict_keys_unique([k for k, _ in out], name)
        return out
    if isinstance(node, ast.Call) and isinstance(node.func, ast.Name) and not node.args and not node.keywords:
        fns = funcs.get(node.func.id, [])
        if len(fns) != 1:
            raise Unsupported(name, "table builder %s defined %d times" % (node.func.id, len(fns)))
        return _zip_builder(fns[0], name)
    raise Unsupported(name, "expected a dict literal or a zip-builder call at line %d" % node.lineno)


def extract(source):
    """-> (tables dict, problems list)."""
    tree = ast.parse(source)
    assigns, funcs = {}, {}
    for node in ast.walk(tree):
        # any binding of a table name anywhere (augmented, annotated, nested, global ...) is counted
        if isinstance(node, ast.Assign):
            for t in node.targets:
                for n in ast.walk(t):
                    if isinstance(n, ast.Name) and n.id in NAMES:
                        assigns.setdefault(n.id, []).append((node, t))
        elif isinstance(node, (ast.AugAssign, ast.AnnAssign)):
            for n in ast.walk(node.target):
                if isinstance(n, ast.Name) and n.id in NAMES:
                    assigns.setdefault(n.id, []).append((node, node.target))
        elif isinstance(node, (ast.FunctionDef, ast.AsyncFunctionDef)):
            funcs.setdefault(node.name, []).append(node)
    top = set(id(s) for s in tree.body)
    tables, problems = {}, []

    def single(name):
        lst = assigns.get(name, [])
        if len(lst) != 1:
            raise Unsupported(name, "%s is bound %d times in chord.py (expected exactly one top-level assignment)"
                              % (name, len(lst)))
        node, target = lst[0]
        if not (isinstance(node, ast.Assign) and id(node) in top and len(node.targets) == 1
                and isinstance(target, ast.Name)):
            raise Unsupported(name, "%s is not a simple top-level assignment (line %d)" % (name, node.lineno))
        return node.value

    env = {}
    steps = [
        ("BITMAP_LENGTH", lambda v: _int(v, "BITMAP_LENGTH")),
        ("NO_CHORD", lambda v: _str(v, "NO_CHORD")),
        ("X_CHORD", lambda v: _str(v, "X_CHORD")),
        ("NO_CHORD_ENCODED", lambda v: _encoded(v, "NO_CHORD_ENCODED", env)),
        ("X_CHORD_ENCODED", lambda v: _encoded(v, "X_CHORD_ENCODED", env)),
        ("PITCH_CLASSES", lambda v: _str_int_table(v, "PITCH_CLASSES", funcs)),
        ("SCALE_DEGREES", lambda v: _str_int_table(v, "SCALE_DEGREES", funcs)),
        ("QUALITIES", lambda v: _qualities(v, "QUALITIES")),
        ("EXTENDED_QUALITY_REDUX", lambda v: _redux(v, "EXTENDED_QUALITY_REDUX")),
    ]
    for name, fn in steps:
        try:
            tables[name] = fn(single(name))
            if name == "BITMAP_LENGTH":
                env["BITMAP_LENGTH"] = tables[name]
        except Unsupported as e:
            problems.append({"name": "tables." + e.name, "detail": e.detail})
    # the tables must not be mutated elsewhere in the module (subscript stores, .update/.pop/... calls, del)
    mutators = {"update", "pop", "popitem", "clear", "setdefault", "__setitem__", "__delitem__"}
    for node in ast.walk(tree):
        tgt = None
        if isinstance(node, (ast.Assign, ast.AugAssign, ast.AnnAssign, ast.Delete)):
            targets = node.targets if isinstance(node, (ast.Assign, ast.Delete)) else [node.target]
            for t in targets:
                for n in ast.walk(t):
                    if isinstance(n, ast.Subscript) and isinstance(n.value, ast.Name) and n.value.id in NAMES:
                        tgt = n.value.id
        elif isinstance(node, ast.Call) and isinstance(node.func, ast.Attribute) and node.func.attr in mutators \
                and isinstance(node.func.value, ast.Name) and node.func.value.id in NAMES:
            tgt = node.func.value.id
        if tgt:
            problems.append({"name": "tables." + tgt,
                             "detail": "%s is mutated at line %d; the literal is not the table" % (tgt, node.lineno)})
    return tables, problems


# ---------------------------------------------------------------------------------------- Lean emission

def lean_chars(s):
    """A Python string as a Lean `List Char` literal (the model works on code-point lists)."""
    out = []
    for ch in s:
        o = ord(ch)
        if ch == "'":
            out.append("'\\''")
        elif ch == "\\":
            out.append("'\\\\'")
        elif 32 <= o < 127:
            out.append("'%s'" % ch)
        else:
            out.append("'\\u{%x}'" % o)
    return "[" + ", ".join(out) + "]"


def lean_int(i):
    return "(%d)" % i if i < 0 else "%d" % i


def lean_int_list(xs):
    return "[" + ", ".join(lean_int(x) for x in xs) + "]"


def lean_chars_list(xs):
    return "[" + ", ".join(lean_chars(x) for x in xs) + "]"


def emit(t):
    L = []
    L.append("/-")
    L.append("  GENERATED by harness/translate/tables.py from mir_eval/chord.py — do not edit.")
    L.append("  Regenerated from the working tree on every run of ./check; theorems in MirProofs that mention")
    L.append("  these tables are re-checked against what the source says now.")
    L.append("-/")
    L.append("namespace MirGen.Tables")
    L.append("")
    L.append("/-- `BITMAP_LENGTH` -/")
    L.append("def bitmapLength : Nat := %d" % t["BITMAP_LENGTH"])
    L.append("/-- `NO_CHORD` -/")
    L.append("def noChord : List Char := %s" % lean_chars(t["NO_CHORD"]))
    L.append("/-- `X_CHORD` -/")
    L.append("def xChord : List Char := %s" % lean_chars(t["X_CHORD"]))
    for nm, key in (("noChordEncoded", "NO_CHORD_ENCODED"), ("xChordEncoded", "X_CHORD_ENCODED")):
        r, bm, b = t[key]
        L.append("/-- `%s` (root, bitmap, bass) -/" % key)
        L.append("def %s : Int × List Int × Int := (%s, %s, %s)" % (nm, lean_int(r), lean_int_list(bm), lean_int(b)))
    L.append("/-- `PITCH_CLASSES` in source order -/")
    L.append("def pitchClasses : List (List Char × Int) := [")
    L.append(",\n".join("  (%s, %s)" % (lean_chars(k), lean_int(v)) for k, v in t["PITCH_CLASSES"]))
    L.append("]")
    L.append("/-- `SCALE_DEGREES` in source order -/")
    L.append("def scaleDegrees : List (List Char × Int) := [")
    L.append(",\n".join("  (%s, %s)" % (lean_chars(k), lean_int(v)) for k, v in t["SCALE_DEGREES"]))
    L.append("]")
    L.append("/-- `QUALITIES` in source order -/")
    L.append("def qualities : List (List Char × List Int) := [")
    L.append(",\n".join("  (%s, %s)" % (lean_chars(k), lean_int_list(v)) for k, v in t["QUALITIES"]))
    L.append("]")
    L.append("/-- `EXTENDED_QUALITY_REDUX`: key ↦ (base quality, added scale degrees in source order) -/")
    L.append("def extendedQualityRedux : List (List Char × List Char × List (List Char)) := [")
    L.append(",\n".join("  (%s, %s, %s)" % (lean_chars(k), lean_chars(q), lean_chars_list(s))
                        for k, q, s in t["EXTENDED_QUALITY_REDUX"]))
    L.append("]")
    L.append("")
    L.append("end MirGen.Tables")
    return "\n".join(L) + "\n"


# a placeholder that keeps `MirGen` and the driver compiling but makes every theorem about the tables fail
# is NOT emitted: when extraction fails the old file is left in place and the problem is reported
# (core.py turns a translator problem into a broken obligation).

OBLIGATIONS = ["MirGen.Tables.bitmapLength", "MirGen.Tables.noChord", "MirGen.Tables.xChord",
               "MirGen.Tables.noChordEncoded", "MirGen.Tables.xChordEncoded", "MirGen.Tables.pitchClasses",
               "MirGen.Tables.scaleDegrees", "MirGen.Tables.qualities", "MirGen.Tables.extendedQualityRedux"]


def generate(repo, outdir):
    path = os.path.join(repo, "mir_eval", "chord.py")
    try:
        source = open(path, encoding="utf-8").read()
    except OSError as e:
        return [], [{"name": "tables", "detail": "cannot read %s: %s" % (path, e)}]
    try:
        tables, problems = extract(source)
    except SyntaxError as e:
        return [], [{"name": "tables", "detail": "chord.py does not parse: %s" % e}]
    if problems:
        return [], problems
    os.makedirs(outdir, exist_ok=True)
    write_if_changed(os.path.join(outdir, "Tables.lean"), emit(tables))
    return list(OBLIGATIONS), []
