"""The note-matching functions of mir_eval/transcription.py -> lean/MirGen/TrMatch.lean   (AST based; never imported).
Translator part `trmatch` (C05, C04).

  match_note_offsets, match_note_onsets, match_notes, onset_precision_recall_f1, offset_precision_recall_f1,
  precision_recall_f1_overlap                                   -> Mir.Gen.transcription.<f>

One SHALLOW Lean definition per function (`for` loops: `<f>_loop<k>`), over `lean/MirModel/PyTrMatch.lean` (`Mir.PyTR`) and
`Mir.PyEG` (owned dicts, `_bipartite_match` = the proved Hopcroft-Karp transliteration), plus the driver handler
`Mir.Gen.TrMatch.handler` (op `gen.trmatch <"function"> <args...>`).  `MirProofs/Props/C05_GenTr.lean` proves each equal to the
hand model (`MirModel/Transcription.lean`).  An extension of `translate/evglue.py`; fails closed.

ADDED SUBSET
  parameters   `np.ndarray, shape=(n,2)` intervals; `np.ndarray, shape=(n,)` a pitch array (MIDI numbers: pitch lives in the log
               domain); `float ...`; `float ... or None` (an `Option`, the default may be a number); `bool`.
  statements   `if p is not None: <statements ending in Y = <boolean matrix>> else: Y = True`  ->  `Y : Option (Mat Bool)`
               (`none` = the scalar True), `p` narrowed inside the branch;
               `if c: f = np.less else: f = np.less_equal` (a comparison function as a value, `PyTR.Cmp`).
  expressions  `iv[:, 0]`, `iv[:, 1]`; `np.subtract.outer(a, b)`; `np.abs(M)`; `np.around(M, decimals=<module constant>)` (the
               integer literal assigned at module level is read from the source); `c * M`; `c * v`; `np.maximum(v, t)`;
               `f(M, t)` and `f(M, v.reshape(-1, 1))` for a comparison function `f`; `A * B` of boolean matrices (ValueError
               unless equal shapes: no broadcasting) and `A * Y` for an optional one; `np.where(M)`;
               `sorted(util._bipartite_match(G).items())`.
  externs      `np.subtract.outer(np.log2(p), np.log2(q))` of two pitch arrays (= `(m_p - m_q) / 12` in the log domain),
               `util.intervals_to_durations` (validates, then the durations), `validate_intervals`, `validate`,
               `average_overlap_ratio`, `util._bipartite_match`, `util.f_measure` = the REGENERATED `Mir.Gen.util.f_measure`.

`python harness/translate/trmatch.py [repo]` prints the generated file.
"""
import ast
import os
import re
import sys

try:
    from translate import write_if_changed
    from translate import segindex as SI
    from translate import multipitch as MP
    from translate import evglue as EG
except ImportError:  # run as a script
    sys.path.insert(0, os.path.dirname(os.path.dirname(os.path.abspath(__file__))))
    from translate import write_if_changed
    from translate import segindex as SI
    from translate import multipitch as MP
    from translate import evglue as EG

from translate.segindex import (Unsupported, E, NAT, INT, RAT, NUM, BOOL, NONE, VEC, TUP, OPT, MAT, ident, indent, coerce,  # noqa: E402
                                const_expr, dotted, assigned_names, show_type, doc_param_types, Sig, INTERVALS)
from translate.multipitch import TIMES  # noqa: E402
from translate.evglue import NATS, PAIRS, DICT  # noqa: E402

WANTED = ["match_note_onsets", "onset_precision_recall_f1", "match_note_offsets", "offset_precision_recall_f1",
          "match_notes", "precision_recall_f1_overlap"]

MATR, MATB = MAT(RAT), MAT(BOOL)
OMATB = OPT(MATB)
ORATP = OPT(RAT)
CMP = ("cmp",)

_eg_lean_type = SI.lean_type


def lean_type(t):
    if t == CMP:
        return "Mir.PyTR.Cmp"
    return _eg_lean_type(t)


SI.lean_type = lean_type
MP.lean_type = lean_type
EG.lean_type = lean_type


def param_type(text, node):
    t = text.strip().lower()
    if t in ("bool", "boolean"):
        return BOOL
    if re.match(r"^np\.ndarray, shape=\(\w+,\s*2\)$", t):
        return INTERVALS
    if re.match(r"^np\.ndarray, shape=\(\w+,\)$", t):
        return TIMES
    if re.match(r"^float\b[^a-z]*or none:?$", t):
        return ORATP
    if re.match(r"^float\b", t) and not re.search(r"array|list|tuple|none|\bor\b", t):
        return RAT
    raise Unsupported("documented parameter type %r is outside the subset" % text, node)


class Module(EG.Module):
    def __init__(self, source, modname, program):
        EG.Module.__init__(self, source, modname, program)
        self.constants = {}
        for st in self.tree.body:
            if isinstance(st, ast.Assign) and len(st.targets) == 1 and isinstance(st.targets[0], ast.Name) \
                    and isinstance(st.value, ast.Constant) and type(st.value.value) is int:
                n = st.targets[0].id
                self.constants[n] = None if n in self.constants else st.value.value     # assigned twice: unusable

    def translate_def(self, fn):
        return translate_def(self, fn)


class Body(EG.Body):
    def default_term(self, d, t):
        if t[0] == "opt" and d.ty != NONE:
            return "(some %s)" % coerce(d, t[1], self.fn)
        return EG.Body.default_term(self, d, t)

    # -- statements -------------------------------------------------------------------------------------------------
    def stmts(self, sts, env, k):
        if sts and isinstance(sts[0], ast.If):
            r = self.if_not_none_matrix(sts[0], sts[1:], env, k)
            if r is not None:
                return r
        return EG.Body.stmts(self, sts, env, k)

    def if_not_none_matrix(self, s, rest, env, k):
        t = s.test
        if not (isinstance(t, ast.Compare) and len(t.ops) == 1 and isinstance(t.ops[0], ast.IsNot)
                and isinstance(t.left, ast.Name) and isinstance(t.comparators[0], ast.Constant)
                and t.comparators[0].value is None):
            return None
        x = t.left.id
        if x not in env or env[x][0][0] != "opt":
            return None
        if not (len(s.orelse) == 1 and isinstance(s.orelse[0], ast.Assign) and len(s.orelse[0].targets) == 1
                and isinstance(s.orelse[0].targets[0], ast.Name) and isinstance(s.orelse[0].value, ast.Constant)
                and s.orelse[0].value.value is True):
            raise Unsupported("`if p is not None:` whose else branch is not `Y = True`", s)
        y = s.orelse[0].targets[0].id
        envb = dict(env)
        envb[x] = (env[x][0][1], False, False)

        def kend(e2):
            if y not in e2 or e2[y][0] != MATB:
                raise Unsupported("%s is not a boolean matrix at the end of the `is not None` branch" % y, s)
            return ["pure (some %s)" % ident(y)]
        body = self.stmts(list(s.body), envb, kend)
        lines = ["let %s : %s ← (match %s with" % (ident(y), lean_type(OMATB), ident(x)),
                 "  | some %s => (do" % ident(x)] + indent(body, 6) + ["    )", "  | none => pure none)"]
        env2 = dict(env)
        env2[y] = (OMATB, False, False)
        self.effect_lines.add(s.lineno)
        return lines + self.stmts(list(rest), env2, k)

    # -- expressions --------------------------------------------------------------------------------------------------
    def expr(self, node, env, binds):
        if isinstance(node, ast.Attribute) and "np" not in env:
            d = dotted(node)
            if d == "np.less":
                return E("Mir.PyTR.Cmp.less", CMP)
            if d == "np.less_equal":
                return E("Mir.PyTR.Cmp.lessEqual", CMP)
        if isinstance(node, ast.Name) and node.id not in env and node.id not in self.locals \
                and self.m.constants.get(node.id) is not None and self.m.constants[node.id] >= 0:
            v = self.m.constants[node.id]
            return E("(%d : Nat)" % v, NAT, lit=v)
        return EG.Body.expr(self, node, env, binds)

    def subscript(self, node, env, binds):
        idx = node.slice
        if isinstance(idx, ast.Tuple) and len(idx.elts) == 2 and isinstance(idx.elts[0], ast.Slice) \
                and idx.elts[0].lower is None and idx.elts[0].upper is None and idx.elts[0].step is None \
                and isinstance(idx.elts[1], ast.Constant) and idx.elts[1].value in (0, 1) and type(idx.elts[1].value) is int:
            a = self.expr(node.value, env, binds)
            if a.ty != INTERVALS:
                raise Unsupported("[:, k] of a %s" % show_type(a.ty), node)
            return E("(Mir.PyTR.col%d %s)" % (idx.elts[1].value, a.term), TIMES)
        return EG.Body.subscript(self, node, env, binds)

    def binop(self, node, env, binds):
        if isinstance(node.op, ast.Mult) and not isinstance(node.left, ast.List) and not isinstance(node.right, ast.List):
            b0 = []
            a, b = self.expr(node.left, env, b0), self.expr(node.right, env, b0)
            if a.ty == MATB and b.ty in (MATB, OMATB):
                binds += b0
                tmp = self.bind(binds, "Mir.PyTR.%s %s %s" % ("mulB" if b.ty == MATB else "mulOpt", a.term, b.term), MATB, node)
                return E(tmp, MATB)
            if a.ty in (NAT, INT, RAT) and b.ty == MATR and not b0:
                return E("(Mir.PyTR.scaleM %s %s)" % (coerce(a, RAT, node), b.term), MATR)
            if a.ty in (NAT, INT, RAT) and b.ty == TIMES and not b0:
                return E("(Mir.PyTR.scaleV %s %s)" % (coerce(a, RAT, node), b.term), TIMES)
            if MATB in (a.ty, b.ty) or MATR in (a.ty, b.ty) or OMATB in (a.ty, b.ty):
                raise Unsupported("matrix product %s * %s" % (show_type(a.ty), show_type(b.ty)), node)
        return EG.Body.binop(self, node, env, binds)

    def call(self, node, env, binds):
        f = node.func
        name = dotted(f)
        args = node.args
        kwnames = [k.arg for k in node.keywords]
        # cmp_func(M, t) / cmp_func(M, v.reshape(-1, 1))
        if isinstance(f, ast.Name) and f.id in env and env[f.id][0] == CMP and len(args) == 2 and not node.keywords:
            m = self.expr(args[0], env, binds)
            if m.ty != MATR:
                raise Unsupported("comparison function applied to a %s" % show_type(m.ty), node)
            t = args[1]
            if isinstance(t, ast.Call) and isinstance(t.func, ast.Attribute) and t.func.attr == "reshape" and not t.keywords \
                    and len(t.args) == 2 and [self.intlit(x) for x in t.args] == [-1, 1]:
                v = self.expr(t.func.value, env, binds)
                if v.ty != TIMES:
                    raise Unsupported(".reshape(-1, 1) of a %s" % show_type(v.ty), node)
                tmp = self.bind(binds, "Mir.PyTR.cmpCol %s %s %s" % (ident(f.id), m.term, v.term), MATB, node)
                return E(tmp, MATB)
            tv = self.expr(t, env, binds)
            if tv.ty not in (NAT, INT, RAT):
                raise Unsupported("comparison of a matrix with a %s" % show_type(tv.ty), node)
            return E("(Mir.PyTR.cmpScalar %s %s %s)" % (ident(f.id), m.term, coerce(tv, RAT, node)), MATB)
        if isinstance(f, ast.Name) and f.id == "len" and f.id not in self.locals and f.id not in self.m.funcs \
                and f.id not in self.m.assigned and len(args) == 1 and not node.keywords:
            b0 = []
            a = self.expr(args[0], env, b0)
            if a.ty == INTERVALS and not b0:
                return E("(Mir.PyM.len %s)" % a.term, NAT)
        if name == "np.subtract.outer" and len(args) == 2 and not node.keywords:
            def is_log2(x):
                return isinstance(x, ast.Call) and dotted(x.func) == "np.log2" and len(x.args) == 1 and not x.keywords
            if is_log2(args[0]) and is_log2(args[1]):
                a, b = self.expr(args[0].args[0], env, binds), self.expr(args[1].args[0], env, binds)
                if a.ty != TIMES or b.ty != TIMES:
                    raise Unsupported("np.log2 of a %s / %s" % (show_type(a.ty), show_type(b.ty)), node)
                return E("(Mir.PyTR.log2DiffOuter %s %s)" % (a.term, b.term), MATR)
            a, b = self.expr(args[0], env, binds), self.expr(args[1], env, binds)
            if a.ty != TIMES or b.ty != TIMES:
                raise Unsupported("np.subtract.outer on (%s, %s)" % (show_type(a.ty), show_type(b.ty)), node)
            return E("(Mir.PyTR.subtractOuter %s %s)" % (a.term, b.term), MATR)
        if name == "np.log2":
            raise Unsupported("np.log2 outside np.subtract.outer(np.log2(p), np.log2(q))", node)
        if name == "np.abs" and len(args) == 1 and not node.keywords:
            a = self.expr(args[0], env, binds)
            if a.ty == MATR:
                return E("(Mir.PyTR.absM %s)" % a.term, MATR)
            raise Unsupported("np.abs of a %s" % show_type(a.ty), node)
        if name == "np.around" and len(args) == 1 and kwnames == ["decimals"]:
            a = self.expr(args[0], env, binds)
            d = self.expr(node.keywords[0].value, env, binds)
            if a.ty != MATR or d.ty != NAT or d.lit is None:
                raise Unsupported("np.around(<%s>, decimals=<%s>)" % (show_type(a.ty), show_type(d.ty)), node)
            return E("(Mir.PyTR.around %s %s)" % (a.term, d.term), MATR)
        if name == "np.maximum" and len(args) == 2 and not node.keywords:
            v, t = self.expr(args[0], env, binds), self.expr(args[1], env, binds)
            if v.ty != TIMES or t.ty not in (NAT, INT, RAT):
                raise Unsupported("np.maximum on (%s, %s)" % (show_type(v.ty), show_type(t.ty)), node)
            return E("(Mir.PyTR.maximumV %s %s)" % (v.term, coerce(t, RAT, node)), TIMES)
        if name == "np.where" and len(args) == 1 and not node.keywords:
            a = self.expr(args[0], env, binds)
            if a.ty != MATB:
                raise Unsupported("np.where of a %s" % show_type(a.ty), node)
            return E("(Mir.PyTR.whereM %s)" % a.term, TUP([NATS, NATS]))
        if name == "util.intervals_to_durations" and len(args) == 1 and not node.keywords:
            a = self.expr(args[0], env, binds)
            if a.ty != INTERVALS:
                raise Unsupported("util.intervals_to_durations of a %s" % show_type(a.ty), node)
            tmp = self.bind(binds, "Mir.PyTR.intervals_to_durations %s" % a.term, TIMES, node)
            return E(tmp, TIMES)
        if isinstance(f, ast.Attribute) and f.attr == "items" and not args and not node.keywords \
                and isinstance(f.value, ast.Call) and dotted(f.value.func) == "util._bipartite_match":
            c = f.value
            um = self.m.program.module("util")
            defs = um.funcs.get("_bipartite_match") if um is not None else None
            if len(c.args) != 1 or c.keywords or not defs or len(defs) != 1 or len(defs[0].args.args) != 1:
                raise Unsupported("util._bipartite_match(G) expected", node)
            g = self.expr(c.args[0], env, binds)
            if g.ty != DICT:
                raise Unsupported("util._bipartite_match of a %s" % show_type(g.ty), node)
            return E("(Mir.PyEG.bipartite_match_items %s)" % g.term, PAIRS)
        if isinstance(f, ast.Name) and f.id not in self.locals and f.id in self.m.funcs and not node.keywords:
            ext = {"validate_intervals": ("Mir.PyTR.validate_intervals", [INTERVALS, INTERVALS], NONE),
                   "validate": ("Mir.PyTR.validate", [INTERVALS, TIMES, INTERVALS, TIMES], NONE),
                   "average_overlap_ratio": ("Mir.PyTR.average_overlap_ratio", [INTERVALS, INTERVALS, PAIRS], RAT)}.get(f.id)
            if ext is not None:
                es = [self.expr(a, env, binds) for a in args]
                if [e.ty for e in es] != ext[1]:
                    raise Unsupported("%s on %s" % (f.id, ", ".join(show_type(e.ty) for e in es)), node)
                defs = self.m.funcs[f.id]
                if len(defs) != 1 or f.id in self.m.assigned or len(defs[0].args.args) != len(ext[1]) or defs[0].args.defaults:
                    raise Unsupported("the signature of %s changed" % f.id, node)
                tmp = self.bind(binds, "%s %s" % (ext[0], " ".join(e.term for e in es)), ext[2], node)
                return E(tmp, ext[2])
        return EG.Body.call(self, node, env, binds)

    @staticmethod
    def intlit(x):
        if isinstance(x, ast.UnaryOp) and isinstance(x.op, ast.USub) and isinstance(x.operand, ast.Constant) \
                and type(x.operand.value) is int:
            return -x.operand.value
        if isinstance(x, ast.Constant) and type(x.value) is int:
            return x.value
        return None


def opt_needed(module, fn, pname, seen=()):
    """is the None alternative of a `... or None` parameter usable?  Yes iff the function tests it against None or hands it to
    a function of this module whose parameter is (recursively) such a parameter; otherwise passing None raises TypeError at
    the first arithmetic use and the parameter is typed by its non-None alternative"""
    if (fn.name, pname) in seen:
        return False
    for nd in ast.walk(fn):
        if isinstance(nd, ast.Compare) and len(nd.ops) == 1 and isinstance(nd.ops[0], (ast.Is, ast.IsNot)) \
                and isinstance(nd.left, ast.Name) and nd.left.id == pname \
                and isinstance(nd.comparators[0], ast.Constant) and nd.comparators[0].value is None:
            return True
        if isinstance(nd, ast.Call) and isinstance(nd.func, ast.Name) and nd.func.id in module.funcs \
                and len(module.funcs[nd.func.id]) == 1:
            g = module.funcs[nd.func.id][0]
            gnames = [p.arg for p in g.args.args]
            pairs = [(gnames[i], a) for i, a in enumerate(nd.args) if i < len(gnames)] + [(k.arg, k.value) for k in nd.keywords]
            for gp, val in pairs:
                if isinstance(val, ast.Name) and val.id == pname and gp in gnames:
                    gdoc = doc_param_types(g).get(gp, "")
                    if "none" in gdoc.lower() and opt_needed(module, g, gp, tuple(seen) + ((fn.name, pname),)):
                        return True
    return False


def translate_def(module, fn):
    if fn.decorator_list:
        raise Unsupported("decorated function", fn)
    a = fn.args
    if a.vararg or a.kwarg or a.kwonlyargs or a.posonlyargs:
        raise Unsupported("*args / **kwargs / keyword-only parameters", fn)
    doc = doc_param_types(fn)
    params = []
    ndef = len(a.defaults)
    for i, p in enumerate(a.args):
        if p.arg not in doc:
            raise Unsupported("parameter %s has no documented type" % p.arg, fn)
        d = None
        k = i - (len(a.args) - ndef)
        if k >= 0:
            d = const_expr(a.defaults[k])
        ty = param_type(doc[p.arg], fn)
        if ty == ORATP and not (d is not None and d.ty == NONE) and not opt_needed(module, fn, p.arg):
            ty = RAT
        if d is not None:
            if d.ty == NONE and ty[0] != "opt":
                raise Unsupported("default None of a parameter that is not documented `... or None`", fn)
            if d.ty != NONE:
                coerce(d, ty[1] if ty[0] == "opt" else ty, fn)
        params.append((p.arg, ty, d))
    body = MP.strip_warnings([s for s in fn.body
                              if not (isinstance(s, ast.Expr) and isinstance(s.value, ast.Constant) and isinstance(s.value.value, str))])
    body, lists, dicts = EG.desugar(body, [n for n, _, _ in params])
    where = "`%s.%s` (mir_eval/%s.py)" % (module.modname, fn.name, module.modname)
    b = Body(module, fn, fn.name, params, body, what=where, lists=lists, dicts=dicts)
    return b.translate()


def val_decoder(ty, v, default=None):
    if ty == ORATP:
        return "let %s ← Val.asOptRat? %s" % (v, v)
    return EG.val_decoder(ty, v, default)


HEADER = """import MirModel.PyScalar
import MirModel.PyMat
import MirModel.PyMultipitch
import MirModel.PyEvGlue
import MirModel.PyTrMatch
import MirGen.Scalars
/-!
  GENERATED by harness/translate/trmatch.py from mir_eval/transcription.py — do not edit.
  One shallow definition per translated function (`Mir.Gen.transcription.<function>`; a `for` loop is the auxiliary
  `<function>_loop<k>`), over `Mir.PyTR` / `Mir.PyEG`.  Regenerated from the working tree on every run of ./check C05;
  `MirProofs/Props/C05_GenTr.lean` proves each of them equal to the hand-written model (`MirModel/Transcription.lean`).
-/
set_option linter.unusedVariables false
"""


def translate_all(repo, wanted=None):
    wanted = WANTED if wanted is None else wanted
    prog = EG.Program(repo)
    problems = []
    path = os.path.join(repo, "mir_eval", "transcription.py")
    try:
        m = Module(open(path, encoding="utf-8").read(), "transcription", prog)
        prog.modules["transcription"] = m
    except (OSError, SyntaxError) as e:
        m = None
        problems = [(f, "cannot read/parse %s: %s" % (path, e)) for f in wanted]
    if m is not None:
        for fname in wanted:
            try:
                m.translate(fname)
            except Unsupported as e:
                problems.append((fname, e.detail))
    L = [HEADER, "namespace Mir.Gen.transcription", ""]
    emitted = [] if m is None else m.emitted
    for name, lines in emitted:
        L += lines + [""]
    L += ["end Mir.Gen.transcription", ""]
    public = [n for n, _ in emitted if n not in m.internal] if m is not None else []
    rows = []
    for name in public:
        sig = m.sigs[name]
        try:
            vs = ["a%d" % i for i in range(len(sig.params))]
            decs = [val_decoder(pt, v, None if (pd is None or pt[0] == "opt") else coerce(pd, pt))
                    for (pn, pt, pd), v in zip(sig.params, vs)]
            enc = EG.val_encoder(sig.ret)
        except Unsupported:
            continue
        rows.append("  | \"gen.trmatch\", Val.str \"%s\" :: [%s] => do\n%s      some (Except.map %s (Mir.Gen.transcription.%s %s))" % (
            name, ", ".join(vs), "".join("      %s\n" % d for d in decs), enc, ident(name), " ".join(vs)))
    L.append("namespace Mir.Gen.TrMatch")
    L.append("")
    L.append("/-- names of the translated functions (in emission order) -/")
    L.append("def names : List String := [%s]" % ", ".join('"%s"' % n for n in public))
    L.append("")
    L.append("/-- protocol op `gen.trmatch <\"function\"> <args...>` -/")
    L.append("def handler : Handler := fun fn args =>")
    L.append("  match fn, args with")
    L += rows
    L.append("  | _, _ => none")
    L.append("")
    L.append("end Mir.Gen.TrMatch")
    sigs = {} if m is None else {n: m.sigs[n] for n in public}
    return "\n".join(L) + "\n", sigs, problems


def generate(repo, outdir):
    try:
        from translate import scalars
        scalars.generate(repo, outdir, groups=())
    except Exception:  # noqa: BLE001
        pass
    text, done, problems = translate_all(repo)
    os.makedirs(outdir, exist_ok=True)
    write_if_changed(os.path.join(outdir, "TrMatch.lean"), text)
    obligations = ["Mir.Gen.transcription.%s" % n for n in done]
    probs = [{"name": "trmatch: transcription.%s" % f, "detail": "outside the translated subset: " + d} for f, d in problems]
    return obligations, probs


if __name__ == "__main__":
    repo = sys.argv[1] if len(sys.argv) > 1 else "/repo"
    text, done, problems = translate_all(repo)
    sys.stdout.write(text)
    for p in problems:
        sys.stderr.write("PROBLEM transcription.%s: %s\n" % p)
