"""`transcription.average_overlap_ratio` and mir_eval/transcription_velocity.py -> lean/MirGen/TrVel.lean   (AST based; never
imported).  Translator part `trvel` (C04, C05, C02).

  transcription.average_overlap_ratio                                       -> Mir.Gen.transcription.average_overlap_ratio
  transcription_velocity.match_notes, .precision_recall_f1_overlap           -> Mir.Gen.transcription_velocity.<f>

One SHALLOW Lean definition per function (`for` loops: `<f>_loop<k>`), over `lean/MirModel/PyTrVel.lean` (`Mir.PyTV`) and the
libraries of part `trmatch`, plus the driver handler `Mir.Gen.TrVel.handler` (op `gen.trvel <"module.function"> <args...>`;
`gen.trvel "?"` lists the translated functions).  `MirProofs/Props/C04_GenTrVel.lean` proves each equal to the hand model
(`MirModel/Transcription.lean`).  An extension of `translate/trmatch.py` (whose output is untouched); fails closed.

ADDED SUBSET
  parameters   `list of tuples` (a matching: `List (Nat × Nat)`).
  statements   `x = []` + `x.append(<float>)` for an owned list of floats (decided by the appended expression: it contains a `/`);
               `for m in <matching>` (the item is a pair); `a, b = <e1>, <e2>`;
               `slope, intercept = np.linalg.lstsq(np.vstack([x, np.ones(len(x))]).T, y, rcond=None)[0]` (EXTERN, see below).
  expressions  `iv[i]` (a row of an (n, 2) array, IndexError), `row[0]`, `row[1]`; builtin `min(a, b)` / `max(a, b)` of two numbers;
               `/` between NumPy floats (`Mir.PyTV.npDiv`: never raises); `np.mean(<owned list>)` behind `len(<list>) == 0`;
               `np.min(v)`, `np.max(v)` (ValueError on an empty array); `v - c`, `v + c`, `c * v`, `v / float(c)`, `a - b` of two
               arrays (ValueError unless equal lengths), `np.abs(v)`, `v < t`, `v <= t`; `np.array(<matching>)` (the (k, 2) integer
               array; `.size`), `M[:, 0]`, `M[:, 1]`, `v[<index array>]` (IndexError), `M[<boolean array>]` (IndexError),
               `[tuple(_) for _ in M]`; `float(x)`; `return []`.
  externs      `transcription.match_notes` (9 positional arguments) = the REGENERATED `Mir.Gen.transcription.match_notes` of part
               `trmatch` (it must be inside that part's subset); `transcription.average_overlap_ratio` = the definition generated
               here; `validate` of transcription_velocity = `Mir.PyTV.validate` (the hand model's reading on MIDI pitches; the
               function itself is regenerated over arbitrary arrays by part `validators`); `util.f_measure` = `Mir.Gen.util.f_measure`;
               `np.linalg.lstsq(...)[0]` on the two-column design matrix `[x, 1]` = `Mir.PyTV.lstsqLine x y`, whose reading is the
               hand model's exact 2×2 normal-equation solution including the rank-deficient (constant x / single pair) minimum-norm case.

`python harness/translate/trvel.py [repo]` prints the generated file.
"""
import ast
import os
import re
import sys

try:
    from translate import write_if_changed
    from translate import segindex as SI
    from translate import multipitch as MP
    from translate import evglue as EG
    from translate import trmatch as TM
except ImportError:  # run as a script
    sys.path.insert(0, os.path.dirname(os.path.dirname(os.path.abspath(__file__))))
    from translate import write_if_changed
    from translate import segindex as SI
    from translate import multipitch as MP
    from translate import evglue as EG
    from translate import trmatch as TM

from translate.segindex import (Unsupported, E, NAT, INT, RAT, NUM, BOOL, NONE, VEC, TUP, OPT, MAT, ident, indent, coerce,  # noqa: E402
                                const_expr, dotted, show_type, doc_param_types, INTERVALS)
from translate.multipitch import TIMES, EMPTY  # noqa: E402
from translate.evglue import NATS, PAIRS, BOOLS  # noqa: E402
from translate.trmatch import ORATP  # noqa: E402

WANTED = [("transcription", ["average_overlap_ratio"]),
          ("transcription_velocity", ["match_notes", "precision_recall_f1_overlap"])]

PARR = ("pairarr",)          # np.array(<matching>): the (k, 2) integer array
ROW = TUP([RAT, RAT])
SCAL = (NAT, INT, RAT)

_tm_lean_type = SI.lean_type


def lean_type(t):
    if t == PARR:
        return "(List (Nat × Nat))"
    return _tm_lean_type(t)


def install_types():
    SI.lean_type = lean_type
    MP.lean_type = lean_type
    EG.lean_type = lean_type
    TM.lean_type = lean_type


def param_type(text, node):
    t = text.strip().lower()
    if t == "list of tuples":
        return PAIRS
    return TM.param_type(text, node)


class Module(TM.Module):
    WANT = dict(TM.Module.WANT, transcription=".transcription", collections="collections")

    def check_globals(self, node):
        got = self.imports.get("transcription")
        if self.modname == "transcription_velocity":
            if got not in (".transcription", "..transcription", "mir_eval.transcription") \
                    or "transcription" in self.assigned or "transcription" in self.funcs:
                raise Unsupported("`transcription` is not mir_eval.transcription", node)
        saved = self.WANT
        self.WANT = {k: v for k, v in saved.items() if k not in ("transcription", "collections")}
        try:
            TM.Module.check_globals(self, node)
        finally:
            self.WANT = saved

    def translate_def(self, fn):
        return translate_def(self, fn)


def float_list(body, x):
    """is the owned list `x` a list of floats?  (some appended expression contains a true division)"""
    for nd in ast.walk(ast.Module(body=body, type_ignores=[])):
        if isinstance(nd, ast.Call) and isinstance(nd.func, ast.Name) and nd.func.id == "__append__" \
                and isinstance(nd.args[0], ast.Name) and nd.args[0].id == x:
            v = nd.args[1]
            vs = [v]
            if isinstance(v, ast.Name):
                vs = [s.value for s in ast.walk(ast.Module(body=body, type_ignores=[]))
                      if isinstance(s, ast.Assign) and len(s.targets) == 1 and isinstance(s.targets[0], ast.Name)
                      and s.targets[0].id == v.id]
            for w in vs:
                if any(isinstance(y, ast.BinOp) and isinstance(y.op, ast.Div) for y in ast.walk(w)):
                    return True
    return False


class Body(TM.Body):
    # -- statements -------------------------------------------------------------------------------------------------
    def assign(self, target, value, env, cont, node):
        if isinstance(target, ast.Name) and isinstance(value, ast.List) and not value.elts and target.id in self.lists \
                and float_list(self.body, target.id):
            env2 = dict(env)
            env2[target.id] = (TIMES, False, False)
            return ["let %s : %s := []" % (ident(target.id), lean_type(TIMES))] + cont(env2)
        # a, b = e1, e2  ->  a = e1; b = e2 (no target is read on the right)
        if isinstance(target, ast.Tuple) and isinstance(value, ast.Tuple) and len(target.elts) == len(value.elts) \
                and all(isinstance(t, ast.Name) for t in target.elts):
            names = [t.id for t in target.elts]
            reads = {n.id for n in ast.walk(value) if isinstance(n, ast.Name)}
            if len(set(names)) == len(names) and not (set(names) & reads):
                def chain(i, env_i):
                    if i == len(names):
                        return cont(env_i)
                    return self.assign(target.elts[i], value.elts[i], env_i, lambda e2: chain(i + 1, e2), node)
                return chain(0, env)
        # slope, intercept = np.linalg.lstsq(np.vstack([x, np.ones(len(x))]).T, y, rcond=None)[0]
        if isinstance(target, ast.Tuple) and len(target.elts) == 2 and all(isinstance(t, ast.Name) for t in target.elts):
            xy = self.lstsq_pattern(value)
            if xy is not None:
                binds = []
                x, y = self.expr(xy[0], env, binds), self.expr(xy[1], env, binds)
                if x.ty != TIMES or y.ty != TIMES:
                    raise Unsupported("np.linalg.lstsq on (%s, %s)" % (show_type(x.ty), show_type(y.ty)), node)
                a, b = target.elts[0].id, target.elts[1].id
                if a == b:
                    raise Unsupported("repeated unpacking target", node)
                env2 = dict(env)
                env2[a] = (RAT, True, False)
                env2[b] = (RAT, True, False)
                return self.bind_lines(binds) + ["let (%s, %s) : %s := Mir.PyTV.lstsqLine %s %s" % (
                    ident(a), ident(b), lean_type(ROW), x.term, y.term)] + cont(env2)
        return TM.Body.assign(self, target, value, env, cont, node)

    def lstsq_pattern(self, v):
        """np.linalg.lstsq(np.vstack([x, np.ones(len(x))]).T, y, rcond=None)[0]  ->  (x, y)"""
        if not (isinstance(v, ast.Subscript) and isinstance(v.slice, ast.Constant) and v.slice.value == 0
                and type(v.slice.value) is int and isinstance(v.value, ast.Call)):
            return None
        c = v.value
        if dotted(c.func) != "np.linalg.lstsq":
            return None
        if "np" in self.locals:
            raise Unsupported("np is rebound", v)
        if len(c.args) != 2 or [k.arg for k in c.keywords] != ["rcond"] \
                or not (isinstance(c.keywords[0].value, ast.Constant) and c.keywords[0].value.value is None):
            raise Unsupported("np.linalg.lstsq(A, y, rcond=None) expected", v)
        A, y = c.args
        ok = isinstance(A, ast.Attribute) and A.attr == "T" and isinstance(A.value, ast.Call) \
            and dotted(A.value.func) == "np.vstack" and len(A.value.args) == 1 and not A.value.keywords \
            and isinstance(A.value.args[0], ast.List) and len(A.value.args[0].elts) == 2
        if ok:
            x, ones = A.value.args[0].elts
            ok = isinstance(x, ast.Name) and isinstance(ones, ast.Call) and dotted(ones.func) == "np.ones" \
                and len(ones.args) == 1 and not ones.keywords and isinstance(ones.args[0], ast.Call) \
                and isinstance(ones.args[0].func, ast.Name) and ones.args[0].func.id == "len" and "len" not in self.locals \
                and "len" not in self.m.funcs and "len" not in self.m.assigned and len(ones.args[0].args) == 1 \
                and isinstance(ones.args[0].args[0], ast.Name) and ones.args[0].args[0].id == x.id
        if not ok:
            raise Unsupported("np.linalg.lstsq whose design matrix is not np.vstack([x, np.ones(len(x))]).T", v)
        return x, y

    # -- expressions --------------------------------------------------------------------------------------------------
    def builtin(self, f, name):
        return isinstance(f, ast.Name) and f.id == name and name not in self.locals and name not in self.m.funcs \
            and name not in self.m.assigned and name not in self.m.imports

    def expr(self, node, env, binds):
        if isinstance(node, ast.List) and not node.elts:
            return E("[]", EMPTY)
        # [tuple(_) for _ in M]
        if isinstance(node, ast.ListComp) and len(node.generators) == 1:
            g = node.generators[0]
            if not g.ifs and not g.is_async and isinstance(g.target, ast.Name) and isinstance(node.elt, ast.Call) \
                    and self.builtin(node.elt.func, "tuple") and len(node.elt.args) == 1 and not node.elt.keywords \
                    and isinstance(node.elt.args[0], ast.Name) and node.elt.args[0].id == g.target.id:
                b0 = []
                a = self.expr(g.iter, env, b0)
                if a.ty == PARR and not b0:
                    return E(a.term, PAIRS)
        # M.size
        if isinstance(node, ast.Attribute) and node.attr == "size":
            b0 = []
            a = self.expr(node.value, env, b0)
            if a.ty == PARR and not b0:
                return E("(Mir.PyTV.pairsSize %s)" % a.term, NAT)
        return TM.Body.expr(self, node, env, binds)

    def compare(self, node, env, binds):
        if len(node.ops) == 1 and isinstance(node.ops[0], (ast.Lt, ast.LtE)):
            b0 = []
            a, t = self.expr(node.left, env, b0), self.expr(node.comparators[0], env, b0)
            if a.ty == TIMES and t.ty in SCAL:
                binds += b0
                prim = "ltVS" if isinstance(node.ops[0], ast.Lt) else "leVS"
                return E("(Mir.PyTV.%s %s %s)" % (prim, a.term, coerce(t, RAT, node)), BOOLS)
        return TM.Body.compare(self, node, env, binds)

    def subscript(self, node, env, binds):
        idx = node.slice
        # M[:, 0] / M[:, 1]
        if isinstance(idx, ast.Tuple) and len(idx.elts) == 2 and isinstance(idx.elts[0], ast.Slice) \
                and idx.elts[0].lower is None and idx.elts[0].upper is None and idx.elts[0].step is None \
                and isinstance(idx.elts[1], ast.Constant) and type(idx.elts[1].value) is int and idx.elts[1].value in (0, 1):
            b0 = []
            a = self.expr(node.value, env, b0)
            if a.ty == PARR and not b0:
                return E("(Mir.PyTV.pcol%d %s)" % (idx.elts[1].value, a.term), NATS)
        if not isinstance(idx, (ast.Constant, ast.Tuple, ast.Slice)) and not (
                isinstance(idx, ast.UnaryOp) and isinstance(idx.operand, ast.Constant)):
            b0 = []
            a = self.expr(node.value, env, b0)
            i = self.expr(idx, env, b0)
            if a.ty == INTERVALS and i.ty == NAT:
                binds += b0
                tmp = self.bind(binds, "Mir.PyTV.row %s %s" % (a.term, i.term), ROW, node)
                return E(tmp, ROW, np=True)
            if a.ty == TIMES and i.ty == NATS:
                binds += b0
                tmp = self.bind(binds, "Mir.PyTV.take %s %s" % (a.term, i.term), TIMES, node)
                return E(tmp, TIMES)
            if a.ty == PARR and i.ty == BOOLS:
                binds += b0
                tmp = self.bind(binds, "Mir.PyTV.maskPairs %s %s" % (a.term, i.term), PARR, node)
                return E(tmp, PARR)
        if isinstance(idx, ast.Constant) and type(idx.value) is int and idx.value in (0, 1) and isinstance(node.value, ast.Name) \
                and node.value.id in env and env[node.value.id][0] == ROW and env[node.value.id][1]:
            return E("%s.%d" % (ident(node.value.id), idx.value + 1), RAT, np=True)
        return TM.Body.subscript(self, node, env, binds)

    def binop(self, node, env, binds):
        op = node.op
        if isinstance(op, (ast.Add, ast.Sub, ast.Div, ast.Mult)) and not isinstance(node.left, ast.List) \
                and not isinstance(node.right, ast.List):
            b0 = []
            a, b = self.expr(node.left, env, b0), self.expr(node.right, env, b0)
            if isinstance(op, ast.Div) and a.ty == TIMES and b.ty in SCAL:
                binds += b0
                return E("(Mir.PyTV.divVS %s %s)" % (a.term, coerce(b, RAT, node)), TIMES)
            if isinstance(op, ast.Div) and a.ty in SCAL and b.ty in SCAL and (a.np or b.np):
                binds += b0
                return E("(Mir.PyTV.npDiv %s %s)" % (coerce(a, RAT, node), coerce(b, RAT, node)), RAT, np=True)
            if isinstance(op, ast.Sub) and a.ty == TIMES and b.ty == TIMES:
                binds += b0
                tmp = self.bind(binds, "Mir.PyTV.subVV %s %s" % (a.term, b.term), TIMES, node)
                return E(tmp, TIMES)
            if isinstance(op, ast.Sub) and a.ty == TIMES and b.ty in SCAL:
                binds += b0
                return E("(Mir.PyTV.subVS %s %s)" % (a.term, coerce(b, RAT, node)), TIMES)
            if isinstance(op, ast.Add) and a.ty == TIMES and b.ty in SCAL:
                binds += b0
                return E("(Mir.PyTV.addVS %s %s)" % (a.term, coerce(b, RAT, node)), TIMES)
            if isinstance(op, ast.Add) and b.ty == TIMES and a.ty in SCAL:
                binds += b0
                return E("(Mir.PyTV.addVS %s %s)" % (b.term, coerce(a, RAT, node)), TIMES)
            if isinstance(op, ast.Mult) and b.ty in SCAL and a.ty == TIMES:
                binds += b0
                return E("(Mir.PyTR.scaleV %s %s)" % (coerce(b, RAT, node), a.term), TIMES)
            if isinstance(op, (ast.Add, ast.Sub, ast.Mult)) and a.ty in SCAL and b.ty in SCAL and (a.np or b.np) and not b0:
                e = TM.Body.binop(self, node, env, binds)
                e.np = True
                return e
        return TM.Body.binop(self, node, env, binds)

    def pseudo(self, fn, node, env, binds):
        if fn == "__append__" and node.args[0].id in env and env[node.args[0].id][0] == TIMES:
            v = self.expr(node.args[1], env, binds)
            if v.ty not in SCAL:
                raise Unsupported("append of a %s to a list of floats" % show_type(v.ty), node)
            return E("(%s ++ [%s])" % (ident(node.args[0].id), coerce(v, RAT, node)), TIMES)
        return TM.Body.pseudo(self, fn, node, env, binds)

    def call(self, node, env, binds):
        f = node.func
        name = dotted(f)
        args = node.args
        mod = self.m.modname
        if (self.builtin(f, "min") or self.builtin(f, "max")) and len(args) == 2 and not node.keywords:
            a, b = self.expr(args[0], env, binds), self.expr(args[1], env, binds)
            if a.ty in SCAL and b.ty in SCAL:
                return E("(Mir.PyTV.%s2 %s %s)" % (f.id, coerce(a, RAT, node), coerce(b, RAT, node)), RAT, np=a.np or b.np)
            raise Unsupported("%s on (%s, %s)" % (f.id, show_type(a.ty), show_type(b.ty)), node)
        if self.builtin(f, "float") and len(args) == 1 and not node.keywords:
            b0 = []
            a = self.expr(args[0], env, b0)
            if a.ty in SCAL:
                binds += b0
                return E(coerce(a, RAT, node), RAT, np=False)
        if self.builtin(f, "len") and len(args) == 1 and not node.keywords:
            b0 = []
            a = self.expr(args[0], env, b0)
            if a.ty in (TIMES, PAIRS) and not b0:
                return E("(Mir.PyM.len %s)" % a.term, NAT)
        if "np" not in self.locals and not node.keywords and len(args) == 1:
            if name in ("np.min", "np.max"):
                b0 = []
                a = self.expr(args[0], env, b0)
                if a.ty == TIMES:
                    binds += b0
                    tmp = self.bind(binds, "Mir.PyTV.%s %s" % ("amin" if name == "np.min" else "amax", a.term), RAT, node)
                    return E(tmp, RAT, np=True)
            if name == "np.abs":
                b0 = []
                a = self.expr(args[0], env, b0)
                if a.ty == TIMES:
                    binds += b0
                    return E("(Mir.PyTV.absV %s)" % a.term, TIMES)
            if name == "np.array":
                b0 = []
                a = self.expr(args[0], env, b0)
                if a.ty == PAIRS:
                    binds += b0
                    return E(a.term, PARR)
            if name == "np.mean" and isinstance(args[0], ast.Name) and args[0].id in self.lists \
                    and args[0].id in env and env[args[0].id][0] == TIMES:
                if args[0].id not in getattr(self, "nonempty", set()):
                    raise Unsupported("np.mean of a list that may be empty (nan)", node)
                return E("(Mir.PyTV.mean %s)" % ident(args[0].id), RAT, np=True)
        # cross-module externs of transcription_velocity
        if mod == "transcription_velocity" and name == "transcription.match_notes" and "transcription" not in self.locals:
            if node.keywords or len(args) != 9:
                raise Unsupported("transcription.match_notes with anything but 9 positional arguments", node)
            tm = self.m.program.module("transcription")
            if tm is None:
                raise Unsupported("mir_eval/transcription.py cannot be read", node)
            sig = tm.translate("match_notes", node)
            want = [INTERVALS, TIMES, INTERVALS, TIMES, RAT, RAT, ORATP, RAT, BOOL]
            if [p[1] for p in sig.params] != want or sig.ret != PAIRS:
                raise Unsupported("the translated transcription.match_notes has another signature", node)
            es = [self.expr(a, env, binds) for a in args]
            terms = []
            for e, t in zip(es, want):
                if t == RAT and e.ty in SCAL:
                    terms.append(coerce(e, RAT, node))
                elif e.ty == t:
                    terms.append(e.term)
                elif t == ORATP and e.ty in SCAL:
                    terms.append("(some %s)" % coerce(e, RAT, node))
                else:
                    raise Unsupported("transcription.match_notes: argument of type %s where %s is expected" % (
                        show_type(e.ty), show_type(t)), node)
            tmp = self.bind(binds, "Mir.Gen.transcription.match_notes %s" % " ".join(terms), PAIRS, node)
            return E(tmp, PAIRS)
        if mod == "transcription_velocity" and name == "transcription.average_overlap_ratio" and "transcription" not in self.locals:
            if node.keywords or len(args) != 3:
                raise Unsupported("transcription.average_overlap_ratio with anything but 3 positional arguments", node)
            tm = self.m.program.module("transcription")
            if tm is None:
                raise Unsupported("mir_eval/transcription.py cannot be read", node)
            sig = tm.translate("average_overlap_ratio", node)
            if [p[1] for p in sig.params] != [INTERVALS, INTERVALS, PAIRS] or sig.ret != RAT:
                raise Unsupported("the translated transcription.average_overlap_ratio has another signature", node)
            es = [self.expr(a, env, binds) for a in args]
            if [e.ty for e in es] != [INTERVALS, INTERVALS, PAIRS]:
                raise Unsupported("transcription.average_overlap_ratio on %s" % ", ".join(show_type(e.ty) for e in es), node)
            tmp = self.bind(binds, "Mir.Gen.transcription.average_overlap_ratio %s" % " ".join(e.term for e in es), RAT, node)
            return E(tmp, RAT)
        if mod == "transcription_velocity" and isinstance(f, ast.Name) and f.id == "validate" and f.id not in self.locals \
                and f.id in self.m.funcs and not node.keywords:
            want = [INTERVALS, TIMES, TIMES, INTERVALS, TIMES, TIMES]
            es = [self.expr(a, env, binds) for a in args]
            if [e.ty for e in es] != want:
                raise Unsupported("validate on %s" % ", ".join(show_type(e.ty) for e in es), node)
            defs = self.m.funcs[f.id]
            if len(defs) != 1 or f.id in self.m.assigned or [p.arg for p in defs[0].args.args] != [
                    "ref_intervals", "ref_pitches", "ref_velocities", "est_intervals", "est_pitches", "est_velocities"] \
                    or defs[0].args.defaults:
                raise Unsupported("the signature of validate changed", node)
            tmp = self.bind(binds, "Mir.PyTV.validate %s" % " ".join(e.term for e in es), NONE, node)
            return E(tmp, NONE)
        return TM.Body.call(self, node, env, binds)

    # `if len(xs) == 0: ... else: <xs is non-empty>`
    def stmts(self, sts, env, k):
        if sts and isinstance(sts[0], ast.If):
            s = sts[0]
            t = s.test
            if isinstance(t, ast.Compare) and len(t.ops) == 1 and isinstance(t.ops[0], ast.Eq) and isinstance(t.left, ast.Call) \
                    and self.builtin(t.left.func, "len") and len(t.left.args) == 1 and isinstance(t.left.args[0], ast.Name) \
                    and t.left.args[0].id in self.lists and isinstance(t.comparators[0], ast.Constant) \
                    and t.comparators[0].value == 0 and type(t.comparators[0].value) is int and s.orelse:
                x = t.left.args[0].id
                if x in env and env[x][0] == TIMES:
                    rest = sts[1:]
                    binds = []
                    c = self.cond(t, env, binds)
                    if binds:
                        raise Unsupported("len() that can raise", s)

                    def cont(env2):
                        return self.stmts(list(rest), env2, k)
                    then_lines = self.stmts(list(s.body), dict(env), cont)
                    saved = set(getattr(self, "nonempty", set()))
                    self.nonempty = saved | {x}
                    try:
                        else_lines = self.stmts(list(s.orelse), dict(env), cont)
                    finally:
                        self.nonempty = saved
                    return ["if %s then do" % c] + indent(then_lines) + ["else do"] + indent(else_lines)
        return TM.Body.stmts(self, sts, env, k)


def translate_def(module, fn):
    if fn.decorator_list:
        raise Unsupported("decorated function", fn)
    a = fn.args
    if a.vararg or a.kwarg or a.kwonlyargs or a.posonlyargs:
        raise Unsupported("*args / **kwargs / keyword-only parameters", fn)
    doc = doc_param_types(fn)
    params = []
    ndef = len(a.defaults)
    for i, p in enumerate(a.args):
        if p.arg not in doc:
            raise Unsupported("parameter %s has no documented type" % p.arg, fn)
        d = None
        k = i - (len(a.args) - ndef)
        if k >= 0:
            d = const_expr(a.defaults[k])
        ty = param_type(doc[p.arg], fn)
        if ty == ORATP and not (d is not None and d.ty == NONE) and not opt_needed(module, fn, p.arg):
            ty = RAT
        if d is not None:
            if d.ty == NONE and ty[0] != "opt":
                raise Unsupported("default None of a parameter that is not documented `... or None`", fn)
            if d.ty != NONE:
                coerce(d, ty[1] if ty[0] == "opt" else ty, fn)
        params.append((p.arg, ty, d))
    body = MP.strip_warnings([s for s in fn.body
                              if not (isinstance(s, ast.Expr) and isinstance(s.value, ast.Constant) and isinstance(s.value.value, str))])
    body, lists, dicts = EG.desugar(body, [n for n, _, _ in params])
    where = "`%s.%s` (mir_eval/%s.py)" % (module.modname, fn.name, module.modname)
    b = Body(module, fn, fn.name, params, body, what=where, lists=lists, dicts=dicts)
    return b.translate()


def opt_needed(module, fn, pname, seen=()):
    """a `float ... or None` parameter keeps its None alternative iff it is tested against None, handed on to
    transcription.match_notes, or handed to a function of this module whose parameter is (recursively) such a parameter"""
    if (fn.name, pname) in seen:
        return False
    for nd in ast.walk(fn):
        if isinstance(nd, ast.Compare) and len(nd.ops) == 1 and isinstance(nd.ops[0], (ast.Is, ast.IsNot)) \
                and isinstance(nd.left, ast.Name) and nd.left.id == pname \
                and isinstance(nd.comparators[0], ast.Constant) and nd.comparators[0].value is None:
            return True
        if isinstance(nd, ast.Call) and dotted(nd.func) == "transcription.match_notes":
            if any(isinstance(x, ast.Name) and x.id == pname for x in nd.args):
                return True
        if isinstance(nd, ast.Call) and isinstance(nd.func, ast.Name) and nd.func.id in module.funcs \
                and len(module.funcs[nd.func.id]) == 1:
            g = module.funcs[nd.func.id][0]
            gnames = [p.arg for p in g.args.args]
            pairs = [(gnames[i], a) for i, a in enumerate(nd.args) if i < len(gnames)] + [(k.arg, k.value) for k in nd.keywords]
            for gp, val in pairs:
                if isinstance(val, ast.Name) and val.id == pname and gp in gnames:
                    gdoc = doc_param_types(g).get(gp, "")
                    if "none" in gdoc.lower() and opt_needed(module, g, gp, tuple(seen) + ((fn.name, pname),)):
                        return True
    return False


HEADER = """import MirModel.PyScalar
import MirModel.PyMat
import MirModel.PyMultipitch
import MirModel.PyEvGlue
import MirModel.PyTrMatch
import MirModel.PyTrVel
import MirGen.Scalars
import MirGen.TrMatch
/-!
  GENERATED by harness/translate/trvel.py from mir_eval/transcription.py and mir_eval/transcription_velocity.py — do not edit.
  One shallow definition per translated function (`Mir.Gen.<module>.<function>`; a `for` loop is the auxiliary
  `<function>_loop<k>`), over `Mir.PyTV` / `Mir.PyTR` / `Mir.PyEG` and the definitions of `MirGen/TrMatch.lean`.  Regenerated
  from the working tree on every run of ./check C04; `MirProofs/Props/C04_GenTrVel.lean` proves each of them equal to the
  hand-written model (`MirModel/Transcription.lean`).
-/
set_option linter.unusedVariables false
"""


def val_decoder(ty, v, default=None):
    if ty == PAIRS:
        return "let %s ← Val.asNatPairs? %s" % (v, v)
    return TM.val_decoder(ty, v, default)


def val_encoder(ty):
    if ty == RAT:
        return "Val.rat"
    return EG.val_encoder(ty)


def translate_all(repo, wanted=None):
    install_types()
    wanted = WANTED if wanted is None else wanted
    prog = EG.Program(repo)
    problems = []
    mods = {}
    # the transcription module is read with trmatch's translator for the functions of part `trmatch` (match_notes is only
    # CHECKED to be inside that part's subset, never emitted here) and with this one for average_overlap_ratio
    for modname, fns in wanted:
        path = os.path.join(repo, "mir_eval", modname + ".py")
        try:
            m = Module(open(path, encoding="utf-8").read(), modname, prog)
            prog.modules[modname] = m
            mods[modname] = m
        except (OSError, SyntaxError) as e:
            mods[modname] = None
            prog.modules[modname] = None
            problems += [("%s.%s" % (modname, f), "cannot read/parse %s: %s" % (path, e)) for f in fns]
    for modname, fns in wanted:
        m = mods.get(modname)
        if m is None:
            continue
        for fname in fns:
            try:
                m.translate(fname)
            except Unsupported as e:
                problems.append(("%s.%s" % (modname, fname), e.detail))
    L = [HEADER]
    public, sigs = [], {}
    for modname, fns in wanted:
        m = mods.get(modname)
        L += ["namespace Mir.Gen.%s" % modname, ""]
        if m is not None:
            own = tuple(fns)
            for name, lines in m.emitted:
                if name in own or any(name.startswith(f + "_loop") for f in own):
                    L += lines + [""]
                    if name in own:
                        public.append((modname, name))
                        sigs["%s.%s" % (modname, name)] = m.sigs[name]
        L += ["end Mir.Gen.%s" % modname, ""]
    rows = []
    names = []
    for modname, name in public:
        sig = sigs["%s.%s" % (modname, name)]
        try:
            vs = ["a%d" % i for i in range(len(sig.params))]
            decs = [val_decoder(pt, v, None if (pd is None or pt[0] == "opt") else coerce(pd, pt))
                    for (pn, pt, pd), v in zip(sig.params, vs)]
            enc = val_encoder(sig.ret)
        except Unsupported:
            continue
        names.append("%s.%s" % (modname, name))
        rows.append("  | \"gen.trvel\", Val.str \"%s.%s\" :: [%s] => do\n%s      some (Except.map %s (Mir.Gen.%s.%s %s))" % (
            modname, name, ", ".join(vs), "".join("      %s\n" % d for d in decs), enc, modname, ident(name), " ".join(vs)))
    L.append("namespace Mir.Gen.TrVel")
    L.append("")
    L.append("/-- names of the translated functions (in emission order) -/")
    L.append("def names : List String := [%s]" % ", ".join('"%s"' % n for n in names))
    L.append("")
    L.append("/-- protocol op `gen.trvel <\"module.function\"> <args...>`; `gen.trvel \"?\"` lists the translated functions -/")
    L.append("def handler : Handler := fun fn args =>")
    L.append("  match fn, args with")
    L.append("  | \"gen.trvel\", [Val.str \"?\"] => some (.ok (Val.list (names.map Val.str)))")
    L += rows
    L.append("  | _, _ => none")
    L.append("")
    L.append("end Mir.Gen.TrVel")
    return "\n".join(L) + "\n", {n: sigs[n] for n in names}, problems


def generate(repo, outdir):
    try:
        from translate import scalars
        scalars.generate(repo, outdir, groups=())
    except Exception:  # noqa: BLE001
        pass
    text, done, problems = translate_all(repo)
    os.makedirs(outdir, exist_ok=True)
    write_if_changed(os.path.join(outdir, "TrVel.lean"), text)
    obligations = ["Mir.Gen.%s" % n for n in done]
    probs = [{"name": "trvel: %s" % f, "detail": "outside the translated subset: " + d} for f, d in problems]
    return obligations, probs


if __name__ == "__main__":
    repo = sys.argv[1] if len(sys.argv) > 1 else "/repo"
    text, done, problems = translate_all(repo)
    sys.stdout.write(text)
    for p in problems:
        sys.stderr.write("PROBLEM %s: %s\n" % p)
