"""mir_eval.util interval pre-processing functions -> lean/MirGen/UtilInt.lean   (AST based; mir_eval is never imported).

One SHALLOW Lean definition per translated function, `Mir.Gen.util.<function>`, over the run-time library
`lean/MirModel/PyInt.lean` (`Mir.PyI`), plus a driver handler (`Mir.Gen.UtilInt.handler`, protocol op
`gen.utilint <"function"> <args...>`).  `MirProofs/Props/C13_Gen.lean` proves every one of them equal to the hand-written
model (`MirModel/Intervals.lean`) for ALL interval lists / label lists / crop points, so the C13 theorems are re-checked
against what the source says *now* on every run.

The translator fails closed.  THE SUBSET (anything else => `Unsupported` => the function is not emitted):

  def f(p1, p2=<literal>)   no decorators, *args, **kwargs.  Parameter types are DECLARED below (`PARAMS`: numpydoc cannot
                            say "an (n, 2) array" vs "a 1-D array" reliably) and each declaration is checked against the
                            documented type text of the current source; a changed text is a translator problem.
  statements   docstring; `x = e`; `return e`; `return`; `raise <Builtin>Error(<message>)` (the message is not evaluated: it
               must be built from literals, `.format` and `%` of pure values); a call statement of a translated function;
               `x.insert(0, e)` / `x.append(e)` on a list THIS function owns (see OWNERSHIP);
               `if c: ... [elif/else: ...]`:
                 * a branch that always ends in return / raise takes no continuation, the other one continues;
                 * otherwise no branch may contain a `return`, and the `if` is emitted as ONE monadic binding of the locals
                   it (re)assigns:  `let (a, b) <- if c then do ...; pure (a, b) else do ...; pure (a, b)`
                   (no duplication of the rest of the function);
                 * `x is None` / `x is not None` on an Option-typed local is a `match` that narrows `x` in the branch
                   (also as leading conjuncts of an `and`; the other branch is then shared through a local thunk);
               `for a, b in zip(xs, ys)` / `for a, _ in rows` / `for i, s in enumerate(xs)` whose body only updates
               accumulators this function owns: a `List.foldlM` over the iterated list carrying the accumulators.
  expressions  literals; locals; tuples; list displays; comparisons; `and` / `or` / `not`; `len(x)`; `list(x)`; `x[:]`;
               `x[k:]`, `x[:k]` (k a natural-number value or an int literal, Python's clipping); `x[i]` (IndexError);
               `iv[:, 0]`, `iv[:, 1]`; `iv.size`, `iv.ndim`, `iv.shape[1]`; `x.min()`, `x.max()` (ValueError when empty);
               `(mask).any()`; elementwise comparisons of arrays with scalars / arrays;
               `np.argwhere(mask)` with `idx[i, 0]`; `np.argsort(v)`; `x[idx]`; `np.maximum/minimum(t, iv)`;
               `np.vstack((row | iv, ...))`; `np.concatenate(([t] | v, ...))`; `np.concatenate([iv, iv], axis=0)`;
               `np.array([[a, b]])`; `np.array([u, v]).T`; `np.unique`, `np.ravel`, `np.round(iv, decimals=q)`,
               `np.abs`, `np.diff(iv, axis=-1 | 1)`, `.flatten()`, `np.allclose(a, b)`, `np.asarray(list(zip(a, b)))`,
               `np.asarray(x)`, `np.any(mask)`, `np.arange(n)`, `x[mask]`; `"..%s.." % s`; `"{}{}".format(s, n)`;
               `[e for v in xs]`; `sorted(set(xs))` of strings; `str(s).lower()`; `{}` with `d[k] = v` / `d[k]`;
               calls of other translated functions (positional).
  OWNERSHIP    `.insert` / `.append` / `d[k] = v` are accepted only on a local whose current value was created by this
               function (`list(x)`, a slice of a LIST, a display, a comprehension) on every path reaching the statement; a
               parameter or an alias of one is not owned, so a dropped defensive copy leaves the subset instead of being
               modelled away.  `None` (the narrowed `none` branch) is vacuously owned.
  numbers      float -> Rat (exact), `len` / indices read from `argwhere` -> Nat, other ints -> Int.
  Python vs NumPy scalars (used by the `chordseg` configuration, harness/translate/chordseg.py): every scalar carries a
               static flag — NumPy scalar (an item of an array, `.max()`, `.sum()`, `np.sum`, anything computed from one),
               Python number (literals, `len`, `float(x)`, float parameters), or unknown (a loop accumulator that is one
               before and the other after the first iteration).  `a / b`: both Python -> `divPy` (ZeroDivisionError);
               one NumPy -> `Segment.npDiv` (never raises; `Mir.Segment.Num` = finite | nan | +-inf); unknown -> outside
               the subset.  `array / scalar` is NumPy division entry-wise (`divVecNp`), `array * array` / `np.sum` /
               `a - x` / builtin `min(x, y)` on such values are `mulVecNum` / `numSum` / `numRSub` / `pyMinNum`.
  also         `x op= e` on a numeric local; `warnings.warn(<literal>)` (skipped: no effect on the result); `m1 & m2` on
               masks; `np.hstack([a, v, b])`; `np.diff(v)`; `iv.flatten()`; `iv[:-1, 1]`, `iv[1:, 0]`; `mask.sum()`;
               calls of `util.validate_intervals` from another module (bound to the definition generated from util.py);
               configured externs (`encode_many` -> the hand model); `a, b, c = <call>`; locals initialised to `None` that
               hold the previous row of a loop (`rt != prev_rt`, `(st != prev_st).any()`); a list of `[start, end]` rows
               built by `.append([s, e])` / `rows[-1][-1] = e` and turned into an array by `np.array(rows)`.

`python harness/translate/utilint.py [repo]` prints the generated file.
"""
import ast
import json
import os
import re
import sys
from fractions import Fraction

try:
    from translate import write_if_changed
    from translate.scalars import Unsupported, lean_rat, indent, doc_param_types
    from translate.scalars import ident as _ident
except ImportError:  # run as a script
    sys.path.insert(0, os.path.dirname(os.path.dirname(os.path.abspath(__file__))))
    from translate import write_if_changed
    from translate.scalars import Unsupported, lean_rat, indent, doc_param_types
    from translate.scalars import ident as _ident

EXTRA_KEYWORDS = {"matches", "is", "only", "using", "generalizing", "hiding", "renaming", "extends", "deriving",
                  "infixl", "infixr", "set_option", "omit", "include", "elab", "meta", "public", "module", "end"}


def ident(name):
    if name == "_":
        return "_u"
    if name in EXTRA_KEYWORDS:
        return "«%s»" % name
    return _ident(name)


RAT, NAT, INT, BOOL, STR, NONE = ("rat",), ("nat",), ("int",), ("bool",), ("str",), ("none",)
IV, VEC, COL, MASK, IDX2, IDX, STRLIST = ("iv",), ("vec",), ("col",), ("mask",), ("idx2",), ("idx",), ("strlist",)
NATLIST = ("natlist",)
OPTSTRLIST = ("optstrlist",)      # a list whose items are labels or None (the fill value)
FIDX = ("fidx",)                  # a float array holding exact natural numbers (`np.arange(n, dtype=np.float32)`)
NUM = ("num",)                    # an np.float64 that may be nan / +-inf (`Mir.Segment.Num`)
NUMVEC = ("numvec",)              # a 1-D float array whose entries may be nan / +-inf
INTLIST = ("intlist",)            # a 1-D integer array (roots, basses of `encode_many`)
BITMAPS = ("bitmaps",)            # an (n, 12) integer array: one bitmap per row
BITMAP = ("bitmap",)
IVROWS = ("ivrows",)              # a Python list of 2-element lists `[s, e]` this function builds
BOT = ("bot",)                    # the empty display `[]` / `{}` before its first use


def OPT(t):
    return ("opt", t)


def TUP(ts):
    return ("tup", tuple(ts))


def EITHER(t, u):
    return ("either", t, u)       # a function returning `a` on one path and `(a, b)` on another: `a × Option b`


def DICT(k, v):
    return ("dict", k, v)


PI = "Mir.PyI"

# declared parameter types: function -> {parameter: (type, regex the documented type text must match)}
PARAMS = {
    "validate_intervals": {"intervals": (IV, r"^np\.ndarray, shape=\(n, 2\)$")},
    "intervals_to_durations": {"intervals": (IV, r"^np\.ndarray, shape=\(n, 2\)$")},
    "intervals_to_boundaries": {"intervals": (IV, r"^np\.ndarray, shape=\(n_events, 2\)$"), "q": (INT, r"^int$")},
    "boundaries_to_intervals": {"boundaries": (VEC, r"^list-like$")},
    "sort_labeled_intervals": {"intervals": (IV, r"^np\.ndarray, shape=\(n, 2\)$"),
                               "labels": (OPT(STRLIST), r"^list, optional$")},
    "adjust_events": {"events": (VEC, r"^np\.ndarray$"), "labels": (OPT(STRLIST), r"^list or none$"),
                      "t_min": (OPT(RAT), r"^float or none$"), "t_max": (OPT(RAT), r"^float or none$"),
                      "label_prefix": (STR, r"^str$")},
    "adjust_intervals": {"intervals": (IV, r"^np\.ndarray, shape=\(n_events, 2\)$"),
                         "labels": (OPT(STRLIST), r"^list, len=n_events or none$"),
                         "t_min": (OPT(RAT), r"^float or none$"), "t_max": (OPT(RAT), r"^float or none$"),
                         "start_label": (STR, r"^str or float or int$"), "end_label": (STR, r"^str or float or int$")},
    "merge_labeled_intervals": {"x_intervals": (IV, r"^np\.ndarray$"), "x_labels": (STRLIST, r"^list or none$"),
                                "y_intervals": (IV, r"^np\.ndarray$"), "y_labels": (STRLIST, r"^list or none$")},
    "interpolate_intervals": {"intervals": (IV, r"^np\.ndarray, shape=\(n, 2\)$"), "labels": (STRLIST, r"^list, shape=\(n,\)$"),
                              "time_points": (VEC, r"^array_like, shape=\(m,\)$"),
                              "fill_value": (OPT(STR), r"^type\(labels\[0\]\)$")},
    "intervals_to_samples": {"intervals": (IV, r"^np\.ndarray, shape=\(n, d\)$"), "labels": (STRLIST, r"^list, shape=\(n,\)$"),
                             "offset": (RAT, r"^float > 0$"), "sample_size": (RAT, r"^float > 0$"),
                             "fill_value": (OPT(STR), r"^type\(labels\[0\]\)$")},
    "index_labels": {"labels": (STRLIST, r"^list of strings, shape=\(n,\)$"), "case_sensitive": (BOOL, r"^bool$")},
    "generate_labels": {"items": (VEC, r"^list-like$"), "prefix": (STR, r"^str$")},
}

# functions of mir_eval/util.py, in emission order; REQUIRED: one that leaves the subset is a translator problem
WANTED = ["validate_intervals", "intervals_to_durations", "intervals_to_boundaries", "boundaries_to_intervals",
          "sort_labeled_intervals", "adjust_events", "adjust_intervals", "interpolate_intervals", "intervals_to_samples",
          "merge_labeled_intervals", "index_labels", "generate_labels"]

# the source module being translated (set by translate_all; `chordseg.py` swaps in its own configuration)
CFG = {"modname": "util", "file": "util.py", "params": PARAMS, "ns": "Mir.Gen.util"}

EXC = {"ValueError": "valueError", "IndexError": "indexError", "TypeError": "typeError", "KeyError": "keyError",
       "ZeroDivisionError": "zeroDivision"}


def lean_type(t):
    k = t[0]
    simple = {"rat": "Rat", "nat": "Nat", "int": "Int", "bool": "Bool", "str": "String", "none": "Unit",
              "iv": "(List (Rat × Rat))", "vec": "(List Rat)", "col": "(List Rat)", "mask": "(List Bool)",
              "idx2": "(List Nat)", "idx": "(List Nat)", "natlist": "(List Nat)", "strlist": "(List String)",
              "optstrlist": "(List (Option String))", "fidx": "(List Nat)", "num": "Mir.Segment.Num",
              "numvec": "(List Mir.Segment.Num)", "intlist": "(List Int)", "bitmaps": "(List (List Int))",
              "bitmap": "(List Int)", "ivrows": "(List (Rat × Rat))"}
    if k in simple:
        return simple[k]
    if k == "opt":
        return "(Option %s)" % lean_type(t[1])
    if k == "tup":
        return "(%s)" % " × ".join(lean_type(x) for x in t[1])
    if k == "either":
        return "(%s × Option %s)" % (lean_type(t[1]), lean_type(t[2]))
    if k == "dict":
        return "(List (%s × %s))" % (lean_type(t[1]), lean_type(t[2]))
    raise Unsupported("no Lean type for %r" % (t,))


def show_type(t):
    k = t[0]
    if k == "opt":
        return "opt[%s]" % show_type(t[1])
    if k == "tup":
        return "(%s)" % ", ".join(show_type(x) for x in t[1])
    if k == "either":
        return "%s | (%s, %s)" % (show_type(t[1]), show_type(t[1]), show_type(t[2]))
    if k == "dict":
        return "dict[%s, %s]" % (show_type(t[1]), show_type(t[2]))
    return k


NUMERIC = (NAT, INT, RAT)


def join(a, b, node=None):
    if a == b:
        return a
    if a in NUMERIC and b in NUMERIC:
        return NUMERIC[max(NUMERIC.index(a), NUMERIC.index(b))]
    if (a == NUM and b in NUMERIC) or (b == NUM and a in NUMERIC):
        return NUM
    if BOT in (a, b):
        return b if a == BOT else a
    if {a, b} == {STRLIST, OPTSTRLIST}:
        return OPTSTRLIST
    if a == NONE and b[0] == "opt":
        return b
    if b == NONE and a[0] == "opt":
        return a
    if a == NONE and b != NONE:
        return OPT(b)
    if b == NONE and a != NONE:
        return OPT(a)
    if a[0] == "opt" and b[0] != "opt":
        return OPT(join(a[1], b, node))
    if b[0] == "opt" and a[0] != "opt":
        return OPT(join(a, b[1], node))
    if a[0] == "opt" and b[0] == "opt":
        return OPT(join(a[1], b[1], node))
    if a[0] == "tup" and b[0] == "tup" and len(a[1]) == len(b[1]):
        return TUP([join(x, y, node) for x, y in zip(a[1], b[1])])
    for x, y in ((a, b), (b, a)):
        if y[0] == "tup" and len(y[1]) == 2 and y[1][0] == x and x[0] not in ("tup", "opt"):
            u = y[1][1]
            return EITHER(x, u[1] if u[0] == "opt" else u)
        if y[0] == "either" and (x == y[1] or x == TUP([y[1], y[2]])):
            return y
    raise Unsupported("values of type %s and %s meet on one variable / return" % (show_type(a), show_type(b)), node)


def np_or(a, b):
    """the NumPy-scalar flag of `a op b`"""
    if a is True or b is True:
        return True
    if a is None or b is None:
        return None
    return False


# functions of other modules a translated function may call: bound to the definition generated from THAT module
XMOD = {"util.validate_intervals": ("Mir.Gen.util.validate_intervals", [IV], NONE)}


class E:
    """a translated PURE expression: Lean term, static type, literal value, tuple parts, freshly created list?"""
    __slots__ = ("term", "ty", "lit", "elts", "fresh", "np")

    def __init__(self, term, ty, lit=None, elts=None, fresh=False, np=False):
        self.term, self.ty, self.lit, self.elts, self.fresh = term, ty, lit, elts, fresh
        self.np = np          # a scalar: True = NumPy scalar, False = Python number, None = not known statically


class Var:
    _n = 0

    def __init__(self, ty, term, owned=False, vid=None, np=False):
        self.ty, self.term, self.owned, self.np = ty, term, owned, np
        if vid is None:
            Var._n += 1
            vid = Var._n
        self.vid = vid


def lean_string(s):
    return json.dumps(s, ensure_ascii=True).replace("\\u", "\\u") if all(ord(c) < 128 for c in s) else None


def coerce(e, to, node=None):
    if e.ty == to:
        return e.term
    if e.ty in NUMERIC and to in NUMERIC and NUMERIC.index(e.ty) < NUMERIC.index(to):
        if e.lit is not None and type(e.lit) in (int, float):
            q = Fraction(repr(e.lit)) if type(e.lit) is float else Fraction(e.lit)
            return lean_rat(q) if to == RAT else "(%d : %s)" % (q.numerator, lean_type(to))
        return "((%s : %s) : %s)" % (e.term, lean_type(e.ty), lean_type(to))
    if to == NUM and e.ty in NUMERIC:
        return "(Mir.Segment.Num.val %s)" % coerce(e, RAT, node)
    if e.ty == BOT and to == IVROWS:
        return "([] : %s)" % lean_type(to)
    if to[0] == "opt":
        if e.ty == NONE:
            return "(none : %s)" % lean_type(to)
        if e.ty[0] != "opt":
            return "(some %s)" % coerce(e, to[1], node)
    if to[0] == "tup" and e.ty[0] == "tup" and len(e.ty[1]) == len(to[1]):
        if e.elts is not None:
            return "(%s)" % ", ".join(coerce(x, t, node) for x, t in zip(e.elts, to[1]))
    if to[0] == "either":
        if e.ty == to[1]:
            return "(%s, (none : Option %s))" % (e.term, lean_type(to[2]))
        if e.ty[0] == "tup" and len(e.ty[1]) == 2 and e.elts is not None:
            return "(%s, %s)" % (coerce(e.elts[0], to[1], node), coerce(e.elts[1], OPT(to[2]), node))
    if e.ty == STRLIST and to == OPTSTRLIST:
        return "(List.map some %s)" % e.term
    if e.ty == BOT and to[0] in ("strlist", "natlist", "vec", "dict", "iv", "optstrlist"):
        return "([] : %s)" % lean_type(to)
    raise Unsupported("cannot convert %s to %s" % (show_type(e.ty), show_type(to)), node)


def dotted(node):
    parts = []
    while isinstance(node, ast.Attribute):
        parts.append(node.attr)
        node = node.value
    if isinstance(node, ast.Name):
        parts.append(node.id)
        return ".".join(reversed(parts))
    return None


def assigned_names(stmts):
    out = []
    for st in stmts:
        for nd in ast.walk(st):
            if isinstance(nd, ast.Name) and isinstance(nd.ctx, (ast.Store, ast.Del)) and nd.id not in out:
                out.append(nd.id)
    return out


def terminates(sts):
    if not sts:
        return False
    s = sts[-1]
    if isinstance(s, (ast.Return, ast.Raise)):
        return True
    if isinstance(s, ast.If):
        return terminates(s.body) and terminates(s.orelse)
    return False


def has_return(sts):
    return any(isinstance(nd, ast.Return) for s in sts for nd in ast.walk(s))


def is_none_test(t):
    """`x is None` -> (x, True); `x is not None` -> (x, False); else None"""
    if isinstance(t, ast.Compare) and len(t.ops) == 1 and isinstance(t.ops[0], (ast.Is, ast.IsNot)) \
            and isinstance(t.left, ast.Name) and isinstance(t.comparators[0], ast.Constant) \
            and t.comparators[0].value is None:
        return t.left.id, isinstance(t.ops[0], ast.Is)
    return None


class Sig:
    def __init__(self, name, params, ret):
        self.name, self.params, self.ret = name, params, ret      # params: [(name, type, default term | None)]


class Module:
    def __init__(self, source):
        self.tree = ast.parse(source)
        self.funcs, self.assigned, self.imports = {}, set(), {}
        for st in self.tree.body:
            if isinstance(st, ast.FunctionDef):
                self.funcs.setdefault(st.name, []).append(st)
            elif isinstance(st, (ast.Assign, ast.AugAssign, ast.AnnAssign)):
                self.assigned.update(assigned_names([st]))
            elif isinstance(st, ast.Import):
                for a in st.names:
                    self.imports[a.asname or a.name.split(".")[0]] = a.name if a.asname else a.name.split(".")[0]
            elif isinstance(st, ast.ImportFrom):
                for a in st.names:
                    self.imports[a.asname or a.name] = "%s.%s" % (st.module or ".", a.name)
        self.sigs, self.failed, self.emitted, self.in_progress = {}, {}, [], set()

    def check_globals(self, node):
        if self.imports.get("np") != "numpy" or "np" in self.assigned or "np" in self.funcs:
            raise Unsupported("`np` is not the module numpy", node)
        for nm in ("len", "list", "zip", "sorted", "set", "str", "enumerate", "range") + tuple(EXC):
            if nm in self.assigned or nm in self.funcs or nm in self.imports:
                raise Unsupported("builtin %s is rebound at module level" % nm, node)

    def translate(self, fname, node=None):
        if fname in self.sigs:
            return self.sigs[fname]
        if fname in self.failed:
            raise Unsupported("callee %s is outside the subset (%s)" % (fname, self.failed[fname]), node)
        defs = self.funcs.get(fname)
        if not defs:
            raise Unsupported("no top-level function %s in %s" % (fname, CFG["file"]), node)
        if len(defs) != 1 or fname in self.assigned:
            raise Unsupported("%s is defined more than once" % fname, node)
        if fname in self.in_progress:
            raise Unsupported("recursive call of %s" % fname, node)
        self.in_progress.add(fname)
        try:
            self.check_globals(defs[0])
            sig, lines = FnTr(self, defs[0]).translate()
        except Unsupported as e:
            self.failed[fname] = e.detail
            raise
        except RecursionError:
            self.failed[fname] = "expression too deep"
            raise Unsupported(self.failed[fname], node)
        finally:
            self.in_progress.discard(fname)
        self.sigs[fname] = sig
        self.emitted.append((fname, lines))
        return sig


class FnTr:
    def __init__(self, module, fn):
        self.m, self.fn = module, fn
        self.tmp = 0
        self.ret_ty, self.ret_types = None, []
        self.locals = set(assigned_names(fn.body)) | {a.arg for a in fn.args.args}
        self.aux = {}                 # name -> lines of an auxiliary definition (one per top-level joining `if` / `for`)

    def fresh(self):
        self.tmp += 1
        return "_t%d" % self.tmp

    # -- signature ------------------------------------------------------------------------
    def params(self):
        fn = self.fn
        a = fn.args
        if fn.decorator_list:
            raise Unsupported("decorated function", fn)
        if a.vararg or a.kwarg or a.kwonlyargs or a.posonlyargs:
            raise Unsupported("*args / **kwargs / keyword-only parameters", fn)
        decl = CFG["params"].get(fn.name)
        if decl is None:
            raise Unsupported("no declared parameter types for %s" % fn.name, fn)
        doc = doc_param_types(fn)
        defaults = [None] * (len(a.args) - len(a.defaults)) + list(a.defaults)
        out = []
        for arg, d in zip(a.args, defaults):
            if arg.arg not in decl:
                raise Unsupported("parameter %s has no declared type" % arg.arg, fn)
            ty, pat = decl[arg.arg]
            text = " ".join(doc.get(arg.arg, "").lower().split())
            if not re.match(pat, text):
                raise Unsupported("documented type %r of parameter %s is not what the declared type %s was written for"
                                  % (doc.get(arg.arg), arg.arg, show_type(ty)), fn)
            dt = None
            if d is not None:
                dt = coerce(self.const_expr(d), ty, d)
            out.append((arg.arg, ty, dt))
        return out

    def const_expr(self, x):
        neg = False
        if isinstance(x, ast.UnaryOp) and isinstance(x.op, ast.USub) and isinstance(x.operand, ast.Constant):
            neg, x = True, x.operand
        if not isinstance(x, ast.Constant):
            raise Unsupported("not a literal constant", x)
        v = x.value
        if v is None and not neg:
            return E("()", NONE, lit=None)
        if type(v) is bool and not neg:
            return E("true" if v else "false", BOOL, lit=v)
        if type(v) is int:
            v = -v if neg else v
            return E("(%d : Nat)" % v, NAT, lit=v) if v >= 0 else E("(%d : Int)" % v, INT, lit=v)
        if type(v) is float:
            v = -v if neg else v
            if v != v or v in (float("inf"), float("-inf")):
                raise Unsupported("non-finite float literal", x)
            return E(lean_rat(Fraction(repr(v))), RAT, lit=v)
        if type(v) is str and not neg:
            s = lean_string(v)
            if s is None:
                raise Unsupported("non-ASCII string literal", x)
            return E(s, STR, lit=v)
        raise Unsupported("literal of type %s" % type(v).__name__, x)

    def translate(self):
        params = self.params()
        env0 = {n: Var(t, ident(n), owned=False) for n, t, _ in params}

        def run():
            self.tmp = 0
            self.aux = {}
            return self.stmts(list(self.fn.body), dict(env0), self.fallthrough)
        self.ret_ty, self.ret_types = None, []
        run()
        if not self.ret_types:
            raise Unsupported("no path returns", self.fn)
        rt = self.ret_types[0]
        for t in self.ret_types[1:]:
            rt = join(rt, t, self.fn)
        self.ret_ty = rt
        lines = run()
        plist = " ".join("(%s : %s%s)" % (ident(n), lean_type(t), "" if d is None else " := %s" % d)
                         for n, t, d in params)
        out = []
        for a in self.aux.values():
            out += a + [""]
        out += ["/-- `%s.%s` (mir_eval/%s) -/" % (CFG["modname"], self.fn.name, CFG["file"]),
                "def %s %s : Py %s := do" % (ident(self.fn.name), plist, lean_type(rt))]
        out += indent(lines)
        return Sig(self.fn.name, params, rt), out

    def fallthrough(self, env):
        return self.emit_return(E("()", NONE, lit=None), self.fn)

    def emit_return(self, e, node):
        if self.ret_ty is None:
            self.ret_types.append(e.ty)
            return ["pure ?"]
        return ["pure %s" % coerce(e, self.ret_ty, node)]

    # -- statements ---------------------------------------------------------------------
    def bind_lines(self, binds):
        return ["let %s : %s ← %s" % (n, lean_type(t), term) for n, term, t in binds]

    def stmts(self, sts, env, k):
        if not sts:
            return k(env)
        s, rest = sts[0], sts[1:]

        def cont(env2):
            return self.stmts(rest, env2, k)

        if isinstance(s, ast.Expr) and isinstance(s.value, ast.Constant) and isinstance(s.value.value, str):
            return cont(env)
        if isinstance(s, ast.Pass):
            return cont(env)
        if isinstance(s, ast.Return):
            binds = []
            e = E("()", NONE, lit=None) if s.value is None else self.expr(s.value, env, binds)
            return self.bind_lines(binds) + self.emit_return(e, s)
        if isinstance(s, ast.Raise):
            return self.raise_stmt(s, env)
        if isinstance(s, ast.AugAssign):
            if not (isinstance(s.target, ast.Name) and s.target.id in env and env[s.target.id].ty in NUMERIC + (NUM,)):
                raise Unsupported("augmented assignment to anything but a numeric local", s)
            val = ast.BinOp(left=ast.Name(id=s.target.id, ctx=ast.Load()), op=s.op, right=s.value)
            ast.copy_location(val, s)
            ast.fix_missing_locations(val)
            return self.assign(s.target, val, env, cont, s)
        if isinstance(s, ast.Expr):
            c = s.value
            if isinstance(c, ast.Call) and dotted(c.func) == "warnings.warn" and self.m.imports.get("warnings") == "warnings" \
                    and all(isinstance(a, ast.Constant) for a in c.args) and not c.keywords:
                return cont(env)                         # a warning with a literal message: no effect on the result
            if isinstance(c, ast.Call) and isinstance(c.func, ast.Attribute) and isinstance(c.func.value, ast.Name) \
                    and c.func.attr in ("insert", "append") and c.func.value.id in env:
                return self.mutating_call(s, env, cont)
            binds = []
            self.expr(c, env, binds)
            if not binds:
                raise Unsupported("expression statement without effect", s)
            return self.bind_lines(binds) + cont(env)
        if isinstance(s, ast.Assign):
            if len(s.targets) != 1:
                raise Unsupported("chained assignment", s)
            return self.assign(s.targets[0], s.value, env, cont, s)
        if isinstance(s, ast.If):
            return self.if_stmt(s, rest, env, k)
        if isinstance(s, ast.For):
            return self.for_stmt(s, env, cont)
        raise Unsupported("statement %s" % type(s).__name__, s)

    def raise_stmt(self, s, env):
        x = s.exc
        if s.cause is not None or not (isinstance(x, ast.Call) and isinstance(x.func, ast.Name) and x.func.id in EXC):
            raise Unsupported("raise of anything but a builtin exception class called on a message", s)
        for a in list(x.args) + [kw.value for kw in x.keywords]:
            for nd in ast.walk(a):
                ok = isinstance(nd, (ast.Constant, ast.Name, ast.Load, ast.Attribute, ast.BinOp, ast.Mod, ast.Add,
                                     ast.Tuple, ast.JoinedStr, ast.FormattedValue))
                if isinstance(nd, ast.Call):
                    ok = isinstance(nd.func, ast.Attribute) and nd.func.attr == "format" and \
                        isinstance(nd.func.value, ast.Constant)
                if isinstance(nd, ast.Subscript):            # `x.shape[0]` of a parameter cannot raise
                    ok = isinstance(nd.value, ast.Attribute) and nd.value.attr == "shape" and \
                        isinstance(nd.value.value, ast.Name) and isinstance(nd.slice, ast.Constant) and nd.slice.value == 0
                if not ok:
                    raise Unsupported("exception message that is not built from literals and pure values", s)
        return ["throw PyErr.%s" % EXC[x.func.id]]

    def mutating_call(self, s, env, cont):
        c = s.value
        name, attr = c.func.value.id, c.func.attr
        v = env[name]
        if c.keywords or any(isinstance(a, ast.Starred) for a in c.args):
            raise Unsupported(".%s with keywords / starred arguments" % attr, s)
        if v.ty not in (STRLIST, NATLIST, BOT, IVROWS):
            raise Unsupported(".%s on a %s" % (attr, show_type(v.ty)), s)
        if not v.owned:
            raise Unsupported("in-place .%s on %s, which may be the caller's list (no copy was made on some path)"
                              % (attr, name), s)
        binds = []
        if attr == "insert":
            if len(c.args) != 2 or not (isinstance(c.args[0], ast.Constant) and c.args[0].value == 0
                                        and type(c.args[0].value) is int):
                raise Unsupported(".insert at a position other than the literal 0", s)
            a = self.expr(c.args[1], env, binds)
            prim = "insertFront"
        else:
            if len(c.args) != 1:
                raise Unsupported(".append with other than one argument", s)
            a = self.expr(c.args[0], env, binds)
            prim = "append"
        ty = v.ty
        row2 = a.ty == VEC and a.elts is not None and len(a.elts) == 2 and a.fresh    # a fresh display `[s, e]`
        if ty == BOT:
            ty = IVROWS if row2 else {STR: STRLIST, NAT: NATLIST}.get(a.ty)
            if ty is None:
                raise Unsupported(".%s of a %s to an empty list" % (attr, show_type(a.ty)), s)
        if ty == IVROWS:
            if not row2:
                raise Unsupported(".%s of a %s to a list of [start, end] rows" % (attr, show_type(a.ty)), s)
            item = "(%s, %s)" % (coerce(a.elts[0], RAT, s), coerce(a.elts[1], RAT, s))
        else:
            item = coerce(a, STR if ty == STRLIST else NAT, s)
        cur = coerce(E(v.term, v.ty), ty, s)
        env2 = dict(env)
        env2[name] = Var(ty, ident(name), owned=True)
        return self.bind_lines(binds) + ["let %s : %s := %s.%s %s %s" % (
            ident(name), lean_type(ty), PI, prim, cur, item)] + cont(env2)

    def assign(self, target, value, env, cont, node):
        binds = []
        if isinstance(target, ast.Name):
            e = self.expr(value, env, binds)
            env2 = dict(env)
            if isinstance(value, ast.Name) and value.id in env2 and e.ty in (STRLIST, NATLIST):
                old = env2[value.id]
                env2[value.id] = Var(old.ty, old.term, owned=False, vid=old.vid)      # aliased from now on
            env2[target.id] = Var(e.ty, ident(target.id), owned=e.fresh or e.ty in (BOT,), np=e.np)
            if e.ty == BOT:
                return self.bind_lines(binds) + cont(env2)
            return self.bind_lines(binds) + ["let %s : %s := %s" % (ident(target.id), lean_type(e.ty), e.term)] + cont(env2)
        if isinstance(target, (ast.Tuple, ast.List)) and all(isinstance(t, ast.Name) for t in target.elts):
            names = [t.id for t in target.elts]
            if len(set(names)) != len(names):
                raise Unsupported("repeated unpacking target", node)
            e = self.expr(value, env, binds)
            if e.ty[0] == "tup" and len(e.ty[1]) == len(names) and e.elts is None:
                env2 = dict(env)
                for n, t in zip(names, e.ty[1]):
                    env2[n] = Var(t, ident(n), owned=e.fresh)
                return self.bind_lines(binds) + ["let (%s) : %s := %s" % (
                    ", ".join(ident(n) for n in names), lean_type(e.ty), e.term)] + cont(env2)
            if e.ty[0] != "tup" or len(e.ty[1]) != len(names) or e.elts is None:
                raise Unsupported("unpacking a value of type %s into %d names" % (show_type(e.ty), len(names)), node)
            env2 = dict(env)
            lines = []
            for n, x in zip(names, e.elts):
                env2[n] = Var(x.ty, ident(n), owned=x.fresh or x.ty == BOT, np=x.np)
                if x.ty != BOT:
                    lines.append("let %s : %s := %s" % (ident(n), lean_type(x.ty), x.term))
            return self.bind_lines(binds) + lines + cont(env2)
        if isinstance(target, ast.Subscript) and isinstance(target.value, ast.Subscript) \
                and isinstance(target.value.value, ast.Name) and target.value.value.id in env:
            # `rows[-1][-1] = e`: the end of the last `[start, end]` row of a list of rows this function built
            name = target.value.value.id
            v = env[name]
            if self.int_lit(target.value.slice) != -1 or self.int_lit(target.slice) not in (-1, 1):
                raise Unsupported("nested item assignment other than rows[-1][-1] = e", node)
            if v.ty not in (BOT, IVROWS) or not v.owned:
                raise Unsupported("nested item assignment on %s (a %s this function may not own)" % (name, show_type(v.ty)),
                                  node)
            e = self.expr(value, env, binds)
            if e.ty not in NUMERIC:
                raise Unsupported("rows[-1][-1] = <%s>" % show_type(e.ty), node)
            env2 = dict(env)
            env2[name] = Var(IVROWS, ident(name), owned=True)
            return self.bind_lines(binds) + ["let %s : %s ← %s.setLastEnd %s %s" % (
                ident(name), lean_type(IVROWS), PI, coerce(E(v.term, v.ty), IVROWS, node), coerce(e, RAT, node))] + cont(env2)
        if isinstance(target, ast.Subscript) and isinstance(target.value, ast.Name) and target.value.id in env:
            if isinstance(target.slice, ast.Slice):
                return self.slice_store(target, value, env, cont, node)
            return self.dict_store(target, value, env, cont, node)
        raise Unsupported("assignment target %s" % type(target).__name__, node)

    def slice_store(self, target, value, env, cont, node):
        """`x[a:b] = <list>` on a list this function owns (Python's clipping; the length may change)"""
        name = target.value.id
        v = env[name]
        sl = target.slice
        if v.ty not in (STRLIST, OPTSTRLIST, NATLIST):
            raise Unsupported("slice assignment on a %s" % show_type(v.ty), node)
        if not v.owned:
            raise Unsupported("slice assignment on %s, which may be the caller's list" % name, node)
        if sl.step is not None or sl.lower is None or sl.upper is None:
            raise Unsupported("slice assignment without both bounds / with a step", node)
        binds = []
        a = self.expr(sl.lower, env, binds)
        b = self.expr(sl.upper, env, binds)
        if a.ty != NAT or b.ty != NAT:
            raise Unsupported("slice assignment bounds of type %s, %s" % (show_type(a.ty), show_type(b.ty)), node)
        r = self.expr(value, env, binds)
        env2 = dict(env)
        env2[name] = Var(v.ty, ident(name), owned=True)
        return self.bind_lines(binds) + ["let %s : %s := %s.sliceAssign %s %s %s %s" % (
            ident(name), lean_type(v.ty), PI, v.term, a.term, b.term, coerce(r, v.ty, node))] + cont(env2)

    def dict_store(self, target, value, env, cont, node):
        name = target.value.id
        v = env[name]
        if v.ty != BOT and v.ty[0] != "dict":
            raise Unsupported("item assignment on a %s" % show_type(v.ty), node)
        if not v.owned:
            raise Unsupported("item assignment on %s, which this function does not own" % name, node)
        binds = []
        kx = self.expr(target.slice, env, binds)
        vx = self.expr(value, env, binds)
        ty = DICT(kx.ty, vx.ty) if v.ty == BOT else v.ty
        if (kx.ty, vx.ty) != (ty[1], ty[2]) or kx.ty not in (STR, NAT) or vx.ty not in (STR, NAT):
            raise Unsupported("dict[%s] = %s on a %s" % (show_type(kx.ty), show_type(vx.ty), show_type(ty)), node)
        cur = coerce(E(v.term, v.ty), ty, node)
        env2 = dict(env)
        env2[name] = Var(ty, ident(name), owned=True)
        return self.bind_lines(binds) + ["let %s : %s := %s.dictSet %s %s %s" % (
            ident(name), lean_type(ty), PI, cur, kx.term, vx.term)] + cont(env2)

    # -- if -------------------------------------------------------------------------------
    def split_test(self, test, env):
        """-> (narrow: [(name, is_none)], residual test node | None)"""
        nt = is_none_test(test)
        if nt and nt[0] in env and env[nt[0]].ty[0] == "opt":
            return [nt], None
        if isinstance(test, ast.BoolOp) and isinstance(test.op, ast.And):
            narrow, rest = [], []
            for v in test.values:
                nt = is_none_test(v)
                if nt and not nt[1] and nt[0] in env and env[nt[0]].ty[0] == "opt" and nt[0] not in [n for n, _ in narrow]:
                    narrow.append(nt)
                else:
                    rest.append(v)
            if narrow:
                if not rest:
                    return narrow, None
                r = rest[0] if len(rest) == 1 else ast.BoolOp(op=ast.And(), values=rest)
                ast.copy_location(r, test)
                return narrow, r
        return [], test

    def narrowed_env(self, env, name, to_none):
        env2 = dict(env)
        v = env[name]
        if to_none:
            env2[name] = Var(v.ty, "(none : %s)" % lean_type(v.ty), owned=True, vid=v.vid)
        else:
            env2[name] = Var(v.ty[1], ident(name), owned=v.owned, vid=v.vid)
        return env2

    def if_stmt(self, s, rest, env, k):
        body_t, else_t = terminates(s.body), terminates(s.orelse)
        if body_t or else_t:
            def k_then(e):
                return self.stmts(rest, e, k)
            then_lines = lambda e: self.stmts(s.body, e, k_then)          # noqa: E731
            else_lines = lambda e: self.stmts(s.orelse, e, k_then)        # noqa: E731
            return self.branch(s, env, then_lines, else_lines)
        if has_return(s.body) or has_return(s.orelse):
            raise Unsupported("an `if` with a `return` on some but not all paths of a branch", s)
        # join: the locals (re)bound in a branch and visible afterwards
        finals = []

        def record(e):
            finals.append(e)
            return ["pure ?"]
        save = self.tmp
        self.branch(s, env, lambda e: self.stmts(s.body, e, record), lambda e: self.stmts(s.orelse, e, record))
        self.tmp = save
        names = []
        for fe in finals:
            for n, v in fe.items():
                if n not in names and (n not in env or env[n].vid != v.vid):
                    names.append(n)
        joined = []
        for n in names:
            if all(n in fe for fe in finals):
                t = finals[0][n].ty
                for fe in finals[1:]:
                    t = join(t, fe[n].ty, s)
                if t == BOT:
                    raise Unsupported("an empty display is all that reaches %s after the `if`" % n, s)
                flags = {fe[n].np for fe in finals}
                joined.append((n, t, all(fe[n].owned for fe in finals), flags.pop() if len(flags) == 1 else None))
            elif n in env:
                raise Unsupported("local %s is not bound on every path" % n, s)
        order = [n for n in assigned_names([s]) + names if n in [j[0] for j in joined]]
        joined = sorted(joined, key=lambda j: order.index(j[0]))

        def k_join(e):
            vals = [coerce(E(e[n].term, e[n].ty), t, s) for n, t, _, _ in joined]
            if not vals:
                return ["pure ()"]
            return ["pure (%s)" % ", ".join(vals)] if len(vals) > 1 else ["pure %s" % vals[0]]
        jt = TUP([t for _, t, _, _ in joined]) if len(joined) > 1 else (joined[0][1] if joined else NONE)
        lines = self.branch(s, env, lambda e: self.stmts(s.body, e, k_join), lambda e: self.stmts(s.orelse, e, k_join),
                            ret=jt)
        env2 = dict(env)
        for n in names:
            env2.pop(n, None)
        for n, t, owned, npf in joined:
            env2[n] = Var(t, ident(n), owned=owned, np=npf)
        if not joined:
            head = "let _ : Unit ← "
        elif len(joined) == 1:
            head = "let %s : %s ← " % (ident(joined[0][0]), lean_type(joined[0][1]))
        else:
            head = "let (%s) : %s ← " % (", ".join(ident(n) for n, _, _, _ in joined),
                                        lean_type(TUP([t for _, t, _, _ in joined])))
        blk = self.block(s, env, lines, jt)
        if blk is not None:
            lines = [head + blk]
        else:
            lines = [head + "(do"] + indent(lines)
            lines[-1] += ")"
        return lines + self.stmts(rest, env2, k)

    def block(self, s, env, lines, ty):
        """a top-level compound statement of the function body is emitted as an auxiliary definition
        `<f>_block<k>` (k = its 1-based position among the top-level `if` / `for` statements) over the locals it reads,
        in the order of their first occurrence; returns the call, or None when the statement is nested"""
        tops = [x for x in self.fn.body if isinstance(x, (ast.If, ast.For))]
        if not any(s is x for x in tops):
            return None
        reads = sorted((nd for nd in ast.walk(s) if isinstance(nd, ast.Name) and nd.id in env),
                       key=lambda nd: (nd.lineno, nd.col_offset))
        names = []
        for nd in reads:
            if nd.id not in names:
                names.append(nd.id)
        if any(env[n].term != ident(n) for n in names):
            return None
        name = "%s_block%d" % (self.fn.name, 1 + [i for i, x in enumerate(tops) if x is s][0])
        plist = " ".join("(%s : %s)" % (ident(n), lean_type(env[n].ty)) for n in names)
        self.aux[name] = ["/-- lines %d-%d of `%s.%s`: the statement `%s ...` as a function of the locals it reads -/" % (
            s.lineno, s.end_lineno, CFG["modname"], self.fn.name, ast.unparse(s).split("\n")[0][:80]),
            "def %s %s : Py %s := do" % (ident(name), plist, lean_type(ty))] + indent(lines)
        return "%s %s" % (ident(name), " ".join(ident(n) for n in names))

    def branch(self, s, env, then_lines, else_lines, ret=None):
        """the lines of `if <test> then <then> else <else>` with None-narrowing; `then_lines(env)` / `else_lines(env)`
        produce the two bodies (each is called exactly once)"""
        narrow, residual = self.split_test(s.test, env)
        if not narrow:
            binds = []
            c = self.cond(residual, env, binds)
            return self.bind_lines(binds) + ["if %s then do" % c] + indent(then_lines(dict(env))) + ["else do"] + \
                indent(else_lines(dict(env)))
        if len(narrow) == 1 and residual is None:
            name, is_none = narrow[0]
            some_env, none_env = self.narrowed_env(env, name, False), self.narrowed_env(env, name, True)
            some_l = (else_lines if is_none else then_lines)(some_env)
            none_l = (then_lines if is_none else else_lines)(none_env)
            return ["match %s with" % env[name].term, "| some %s => do" % ident(name)] + indent(some_l) + \
                ["| none => do"] + indent(none_l)
        # `x is not None and y is not None and <residual>`: nested matches, the else branch shared through a thunk
        rt = ret if ret is not None else self.ret_ty
        rt_s = "_" if rt is None else lean_type(rt)
        out = ["let _else : Unit → Py %s := fun _ => do" % rt_s] + indent(else_lines(dict(env)))
        env_in = dict(env)
        for name, _ in narrow:
            env_in = self.narrowed_env(env_in, name, False)
        if residual is not None:
            binds = []
            c = self.cond(residual, env_in, binds)
            if binds:
                raise Unsupported("a condition that can raise after `is not None` tests", s)
            inner = ["if %s then do" % c] + indent(then_lines(env_in)) + ["else _else ()"]
        else:
            inner = then_lines(env_in)
        for name, _ in reversed(narrow):
            inner = ["match %s with" % env[name].term, "| some %s => do" % ident(name)] + indent(inner) + \
                ["| none => _else ()"]
        return out + inner

    # -- for ------------------------------------------------------------------------------
    def iterable(self, it, env, binds, node):
        """-> (Lean term of the iterated list, [element types])"""
        if isinstance(it, ast.Call) and isinstance(it.func, ast.Name) and it.func.id not in env and not it.keywords:
            elt = {STRLIST: STR, IDX: NAT, NATLIST: NAT, VEC: RAT, OPTSTRLIST: OPT(STR), FIDX: NAT, INTLIST: INT,
                   BITMAPS: BITMAP}
            if it.func.id == "zip" and len(it.args) in (2, 3, 4, 5):
                es = [self.expr(a, env, binds) for a in it.args]
                if all(e.ty in elt for e in es):
                    term = es[-1].term
                    for e in reversed(es[:-1]):
                        term = "(List.zip %s %s)" % (e.term, term)
                    return term, [elt[e.ty] for e in es]
                raise Unsupported("zip of %s" % ", ".join(show_type(e.ty) for e in es), node)
            if it.func.id == "enumerate" and len(it.args) == 1:
                e = self.expr(it.args[0], env, binds)
                if e.ty in elt:
                    return "(%s.enumerate %s)" % (PI, e.term), [NAT, elt[e.ty]]
                raise Unsupported("enumerate of a %s" % show_type(e.ty), node)
            if it.func.id == "range" and len(it.args) == 1:
                e = self.expr(it.args[0], env, binds)
                if e.ty == NAT:
                    return "(List.range %s)" % e.term, [NAT]
                raise Unsupported("range of a %s" % show_type(e.ty), node)
        e = self.expr(it, env, binds)
        if e.ty == IV:
            return e.term, [RAT, RAT]
        one = {STRLIST: STR, IDX: NAT, NATLIST: NAT, VEC: RAT}
        if e.ty in one:
            return e.term, [one[e.ty]]
        raise Unsupported("iteration over a %s" % show_type(e.ty), node)

    def for_stmt(self, s, env, cont):
        """a `for` over a list is a structurally recursive auxiliary definition `<f>_loop<k>` over the iterated list
        that carries the locals the body (re)assigns (the loop state); no `return` / `break` / `continue` / `else`"""
        if s.orelse:
            raise Unsupported("for ... else", s)
        if has_return(s.body):
            raise Unsupported("`return` inside a for loop", s)
        binds = []
        src, elts = self.iterable(s.iter, env, binds, s)
        tg = s.target
        if isinstance(tg, ast.Name) and len(elts) == 1:
            tnames = [tg.id]
        elif isinstance(tg, (ast.Tuple, ast.List)) and all(isinstance(x, ast.Name) for x in tg.elts) \
                and len(tg.elts) == len(elts):
            tnames = [x.id for x in tg.elts]
        else:
            raise Unsupported("loop target that does not match the %d-tuples iterated over" % len(elts), s)
        real = [n for n in tnames if n != "_"]
        if len(set(real)) != len(real):
            raise Unsupported("repeated loop target", s)

        def body_env(base):
            e = dict(base)
            for n, t in zip(tnames, elts):
                if n != "_":
                    e[n] = Var(t, ident(n))
            return e
        # pass 1: which locals of the enclosing scope does the body rebind, and with which types
        finals = []
        save = (self.tmp, dict(self.aux))
        self.stmts(s.body, body_env(env), lambda e: (finals.append(e), ["pure ?"])[1])
        self.tmp, self.aux = save
        if len(finals) != 1:
            raise Unsupported("a loop body that does not fall through exactly once", s)
        state, npstate = [], {}
        for n, v in finals[0].items():
            if n in env and n not in real and env[n].vid != v.vid:
                t = join(env[n].ty, v.ty, s)
                if t == BOT:
                    raise Unsupported("loop state %s of unknown type" % n, s)
                state.append((n, t))
                if env[n].np != v.np:
                    npstate[n] = None
        order = assigned_names(s.body) + [n for n, _ in state]
        state.sort(key=lambda x: order.index(x[0]))
        if not state:
            raise Unsupported("a loop without state", s)
        for n, t in state:
            if n in real:
                raise Unsupported("loop target %s is also loop state" % n, s)
        # pass 2: the body with the state at its loop type
        env_in = dict(env)
        for n, t in state:
            env_in[n] = Var(t, ident(n), owned=env[n].owned, np=npstate.get(n, env[n].np))
        loops = sorted((nd for nd in ast.walk(self.fn) if isinstance(nd, ast.For)), key=lambda nd: (nd.lineno, nd.col_offset))
        lname = "%s_loop%d" % (self.fn.name, 1 + [i for i, x in enumerate(loops) if x is s][0])
        reads = sorted((nd for nd in ast.walk(ast.Module(body=s.body, type_ignores=[]))
                        if isinstance(nd, ast.Name) and nd.id in env and nd.id not in real
                        and nd.id not in [n for n, _ in state]), key=lambda nd: (nd.lineno, nd.col_offset))
        frees = []
        for nd in reads:
            if nd.id not in frees:
                frees.append(nd.id)
        if any(env[n].term != ident(n) for n in frees):
            raise Unsupported("a loop body reading a narrowed local", s)
        sty = TUP([t for _, t in state]) if len(state) > 1 else state[0][1]

        def k_loop(e):
            vals = []
            for n, t in state:
                if n not in e:
                    raise Unsupported("loop state %s is unbound at the end of the body" % n, s)
                vals.append(coerce(E(e[n].term, e[n].ty), t, s))
            return ["%s %s" % (ident(lname), " ".join([ident(n) for n in frees] + ["rest__"] + vals))]
        body_lines = self.stmts(s.body, body_env(env_in), k_loop)
        pat = "(%s)" % ", ".join("_" if n == "_" else ident(n) for n in tnames) if len(tnames) > 1 else \
            ("_" if tnames[0] == "_" else ident(tnames[0]))
        elt_ty = " × ".join(lean_type(t) for t in elts)
        plist = " ".join("(%s : %s)" % (ident(n), lean_type(env[n].ty)) for n in frees)
        snames = [ident(n) for n, _ in state]
        aux = ["/-- lines %d-%d of `%s.%s`: the loop `%s` as a recursion over the iterated list carrying (%s) -/" % (
            s.lineno, s.end_lineno, CFG["modname"], self.fn.name, ast.unparse(s).split("\n")[0][:80], ", ".join(n for n, _ in state)),
            "def %s %s : List (%s) → %s → Py %s" % (ident(lname), plist, elt_ty,
                                                   " → ".join(lean_type(t) for _, t in state), lean_type(sty)),
            "  | [], %s => pure %s" % (", ".join(snames), "(%s)" % ", ".join(snames) if len(snames) > 1 else snames[0]),
            "  | %s :: rest__, %s => do" % (pat, ", ".join(snames))] + indent(body_lines, 4)
        self.aux[lname] = aux
        init = [coerce(E(env[n].term, env[n].ty), t, s) for n, t in state]
        env2 = dict(env)
        for n in list(env2):
            if n in finals[0] and finals[0][n].vid != env[n].vid and n not in [x for x, _ in state]:
                env2.pop(n)
        for n, t in state:
            env2[n] = Var(t, ident(n), owned=env[n].owned, np=npstate.get(n, env[n].np))
        head = "let %s : %s ← " % ("(%s)" % ", ".join(snames) if len(snames) > 1 else snames[0], lean_type(sty))
        call = "%s %s" % (ident(lname), " ".join([ident(n) for n in frees] + [src] + init))
        return self.bind_lines(binds) + [head + call] + cont(env2)

    # -- conditions -----------------------------------------------------------------------
    def cond(self, node, env, binds):
        if isinstance(node, ast.BoolOp):
            parts = []
            for i, v in enumerate(node.values):
                b = [] if i else binds
                parts.append(self.cond(v, env, b))
                if i and b:
                    raise Unsupported("`and` / `or` whose later operands can raise", node)
            sym = " && " if isinstance(node.op, ast.And) else " || "
            return "(%s)" % sym.join(parts)
        if isinstance(node, ast.UnaryOp) and isinstance(node.op, ast.Not):
            return "(!%s)" % self.cond(node.operand, env, binds)
        nt = is_none_test(node)
        if nt and nt[0] in env and env[nt[0]].ty[0] == "opt":
            return "(Option.%s %s)" % ("isNone" if nt[1] else "isSome", env[nt[0]].term)
        e = self.expr(node, env, binds)
        if e.ty == BOOL:
            return e.term
        raise Unsupported("truth value of a %s" % show_type(e.ty), node)

    # -- expressions ----------------------------------------------------------------------
    def bind(self, binds, term, ty, node):
        if binds is None:
            raise Unsupported("an operation that can raise inside an elementwise / comprehension context", node)
        tmp = self.fresh()
        binds.append((tmp, term, ty))
        return tmp

    def expr(self, node, env, binds):
        if isinstance(node, ast.Constant):
            return self.const_expr(node)
        if isinstance(node, ast.Name):
            if node.id in env:
                v = env[node.id]
                return E(v.term, v.ty, np=v.np)
            if node.id in self.locals:
                raise Unsupported("local %s may be unbound here" % node.id, node)
            raise Unsupported("unknown name %s" % node.id, node)
        if isinstance(node, ast.Tuple):
            elts = [self.expr(x, env, binds) for x in node.elts]
            if len(elts) < 2:
                raise Unsupported("tuple of length < 2", node)
            return E("(%s)" % ", ".join(x.term for x in elts), TUP([x.ty for x in elts]), elts=elts)
        if isinstance(node, ast.List):
            return self.list_display(node, env, binds)
        if isinstance(node, ast.Dict):
            if node.keys:
                raise Unsupported("non-empty dict display", node)
            return E("[]", BOT, fresh=True)
        if isinstance(node, ast.UnaryOp):
            if isinstance(node.op, ast.Not):
                return E(self.cond(node, env, binds), BOOL)
            if isinstance(node.op, ast.USub) and isinstance(node.operand, ast.Constant):
                return self.const_expr(node)
            raise Unsupported("unary operator %s" % type(node.op).__name__, node)
        if isinstance(node, ast.BoolOp):
            return E(self.cond(node, env, binds), BOOL)
        if isinstance(node, ast.Compare):
            return self.compare(node, env, binds)
        if isinstance(node, ast.BinOp):
            return self.binop(node, env, binds)
        if isinstance(node, ast.Attribute):
            return self.attribute(node, env, binds)
        if isinstance(node, ast.Subscript):
            return self.subscript(node, env, binds)
        if isinstance(node, ast.Call):
            return self.call(node, env, binds)
        if isinstance(node, ast.ListComp):
            return self.listcomp(node, env, binds)
        raise Unsupported("expression %s" % type(node).__name__, node)

    def list_display(self, node, env, binds):
        if not node.elts:
            return E("[]", BOT, fresh=True)
        elts = [self.expr(x, env, binds) for x in node.elts]
        t = elts[0].ty
        for x in elts[1:]:
            t = join(t, x.ty, node)
        if t in (RAT, NAT, INT):
            return E("[%s]" % ", ".join(coerce(x, RAT, node) for x in elts), VEC, elts=elts, fresh=True)
        if t == STR:
            return E("[%s]" % ", ".join(x.term for x in elts), STRLIST, elts=elts, fresh=True)
        if t == OPT(STR):
            return E("[%s]" % ", ".join(coerce(x, t, node) for x in elts), OPTSTRLIST, elts=elts, fresh=True)
        if t == BOOL:
            return E("[%s]" % ", ".join(x.term for x in elts), MASK, elts=elts, fresh=True)
        if t == VEC:
            return E("?", ("veclist",), elts=elts, fresh=True)       # rows / columns: consumed by np.array / np.vstack
        if t == IV:
            return E("?", ("ivlist",), elts=elts, fresh=True)
        raise Unsupported("list display of %s" % show_type(t), node)

    def compare(self, node, env, binds):
        if len(node.ops) != 1:
            raise Unsupported("chained comparison", node)
        op = node.ops[0]
        a = self.expr(node.left, env, binds)
        b = self.expr(node.comparators[0], env, binds)
        syms = {ast.Lt: "<", ast.LtE: "≤", ast.Gt: ">", ast.GtE: "≥", ast.Eq: "=", ast.NotEq: "≠"}
        if isinstance(op, ast.In) and isinstance(node.left, ast.Constant) and type(node.left.value) is bool \
                and b.ty == MASK:
            return E("(List.elem %s %s)" % (a.term, b.term), BOOL)
        if type(op) not in syms:
            raise Unsupported("comparison %s" % type(op).__name__, node)
        sym = syms[type(op)]
        if sym in ("=", "≠") and a.ty in (INT, NAT, STR) and (b.ty == NONE or b.ty == OPT(a.ty)):
            return E("(decide ((some %s) %s %s))" % (a.term, sym, coerce(b, OPT(a.ty), node)), BOOL)
        if sym == "≠" and a.ty == BITMAP and (b.ty == NONE or b.ty == OPT(BITMAP)):
            return E("(%s.rowNeMask %s %s)" % (PI, a.term, coerce(b, OPT(BITMAP), node)), MASK)
        arr = {IV: lambda x: "(%s.ravel %s)" % (PI, x), VEC: lambda x: x, COL: lambda x: x}
        if a.ty in arr and b.ty in NUMERIC:
            return E("(List.map (fun _v => decide (_v %s %s)) %s)" % (sym, coerce(b, RAT, node), arr[a.ty](a.term)), MASK)
        if a.ty in NUMERIC and b.ty in arr:
            return E("(List.map (fun _v => decide (%s %s _v)) %s)" % (coerce(a, RAT, node), sym, arr[b.ty](b.term)), MASK)
        if a.ty == VEC and b.ty == VEC:
            return E("(List.zipWith (fun _a _b => decide (_a %s _b)) %s %s)" % (sym, a.term, b.term), MASK)
        if a.ty in NUMERIC and b.ty in NUMERIC:
            t = join(a.ty, b.ty, node)
            return E("(decide (%s %s %s))" % (coerce(a, t, node), sym, coerce(b, t, node)), BOOL)
        if a.ty == STR and b.ty == STR and sym in ("=", "≠"):
            return E("(decide (%s %s %s))" % (a.term, sym, b.term), BOOL)
        raise Unsupported("comparison of %s and %s" % (show_type(a.ty), show_type(b.ty)), node)

    def binop(self, node, env, binds):
        if isinstance(node.op, ast.Mod) and isinstance(node.left, ast.Constant) and type(node.left.value) is str:
            fmt = node.left.value
            parts = fmt.split("%s")
            if len(parts) != 2 or "%" in parts[0] or "%" in parts[1]:
                raise Unsupported("a % format other than one %s", node)
            a = self.expr(node.right, env, binds)
            if a.ty != STR:
                raise Unsupported("%%s of a %s" % show_type(a.ty), node)
            ps = [lean_string(parts[0])] if parts[0] else []
            ps.append(a.term)
            if parts[1]:
                ps.append(lean_string(parts[1]))
            if None in ps:
                raise Unsupported("non-ASCII format", node)
            return E("(%s)" % " ++ ".join(ps), STR)
        a = self.expr(node.left, env, binds)
        b = self.expr(node.right, env, binds)
        if isinstance(node.op, ast.Mult) and isinstance(node.left, ast.List) and len(node.left.elts) == 1 \
                and a.elts is not None and b.ty in (NAT, INT):
            x = a.elts[0]
            lt = {STR: STRLIST, NAT: NATLIST, OPT(STR): OPTSTRLIST}.get(x.ty)
            if lt is None:
                raise Unsupported("[%s] * n" % show_type(x.ty), node)
            cnt = b.term if b.ty == NAT else "(Int.toNat %s)" % b.term          # a negative count gives the empty list
            return E("(List.replicate %s %s)" % (cnt, x.term), lt, fresh=True)
        if isinstance(node.op, ast.BitAnd) and a.ty == MASK and b.ty == MASK:
            return E("(List.zipWith (fun _a _b => _a && _b) %s %s)" % (a.term, b.term), MASK, fresh=True)
        if isinstance(node.op, ast.Div) and a.ty in NUMERIC and b.ty in NUMERIC:
            f = np_or(a.np, b.np)
            if f is True:
                return E("(Mir.Segment.npDiv %s %s)" % (coerce(a, RAT, node), coerce(b, RAT, node)), NUM, np=True)
            if f is None:
                raise Unsupported("a division whose operands are not known to be Python numbers or NumPy scalars "
                                  "(ZeroDivisionError vs nan / inf)", node)
            t = self.bind(binds, "%s.divPy %s %s" % (PI, coerce(a, RAT, node), coerce(b, RAT, node)), RAT, node)
            return E(t, RAT, np=False)
        if isinstance(node.op, ast.Div) and a.ty == VEC and b.ty in NUMERIC:
            return E("(%s.divVecNp %s %s)" % (PI, a.term, coerce(b, RAT, node)), NUMVEC, fresh=True)
        if isinstance(node.op, ast.Mult) and a.ty == VEC and b.ty == NUMVEC:
            t = self.bind(binds, "%s.mulVecNum %s %s" % (PI, a.term, b.term), NUMVEC, node)
            return E(t, NUMVEC, fresh=True)
        if isinstance(node.op, ast.Sub) and a.ty in NUMERIC and b.ty == NUM:
            return E("(%s.numRSub %s %s)" % (PI, coerce(a, RAT, node), b.term), NUM, np=True)
        if a.ty == FIDX and b.ty in NUMERIC and isinstance(node.op, ast.Mult):
            return E("(List.map (fun _i => ((_i : Nat) : Rat) * %s) %s)" % (coerce(b, RAT, node), a.term), VEC, fresh=True)
        if a.ty == VEC and b.ty in NUMERIC and isinstance(node.op, (ast.Add, ast.Sub, ast.Mult)):
            sym = {ast.Add: "+", ast.Sub: "-", ast.Mult: "*"}[type(node.op)]
            return E("(List.map (fun _v => _v %s %s) %s)" % (sym, coerce(b, RAT, node), a.term), VEC, fresh=True)
        if a.ty in NUMERIC and b.ty in NUMERIC and isinstance(node.op, (ast.Add, ast.Sub, ast.Mult)):
            t = join(a.ty, b.ty, node)
            if isinstance(node.op, ast.Sub) and t == NAT:
                t = INT
            sym = {ast.Add: "+", ast.Sub: "-", ast.Mult: "*"}[type(node.op)]
            return E("(%s %s %s)" % (coerce(a, t, node), sym, coerce(b, t, node)), t, np=np_or(a.np, b.np))
        raise Unsupported("operator %s on %s and %s" % (type(node.op).__name__, show_type(a.ty), show_type(b.ty)), node)

    def attribute(self, node, env, binds):
        v = self.expr(node.value, env, binds)
        if v.ty == IV and node.attr == "size":
            return E("(%s.size2 %s)" % (PI, v.term), NAT)
        if v.ty == IV and node.attr == "ndim":
            return E("(%s.ndim2 %s)" % (PI, v.term), NAT)
        if v.ty in (VEC, MASK, IDX) and node.attr == "size":
            return E("(%s.len %s)" % (PI, v.term), NAT)
        if v.ty == ("veclist2",) and node.attr == "T":
            a, b = v.elts
            return E("(List.zip %s %s)" % (a.term, b.term), IV, fresh=True)
        raise Unsupported("attribute .%s of a %s" % (node.attr, show_type(v.ty)), node)

    def int_lit(self, node):
        if isinstance(node, ast.Constant) and type(node.value) is int:
            return node.value
        if isinstance(node, ast.UnaryOp) and isinstance(node.op, ast.USub) and isinstance(node.operand, ast.Constant) \
                and type(node.operand.value) is int:
            return -node.operand.value
        return None

    def subscript(self, node, env, binds):
        sl = node.slice
        # x.shape[k]
        if isinstance(node.value, ast.Attribute) and node.value.attr == "shape":
            v = self.expr(node.value.value, env, binds)
            k = self.int_lit(sl)
            if v.ty == IV and k == 1:
                return E("(%s.shape1 %s)" % (PI, v.term), NAT)
            if v.ty in (IV, VEC, IDX2, IDX, MASK) and k == 0:
                return E("(%s.len %s)" % (PI, v.term), NAT)
            raise Unsupported(".shape[%r] of a %s" % (k, show_type(v.ty)), node)
        v = self.expr(node.value, env, binds)
        if isinstance(sl, ast.Tuple):
            if len(sl.elts) != 2:
                raise Unsupported("subscript with %d indices" % len(sl.elts), node)
            r, c = sl.elts
            if v.ty == IV and isinstance(r, ast.Slice) and r.step is None:
                term = v.term
                for bound, prim in ((r.lower, "sliceFrom"), (r.upper, "sliceTo")):
                    if bound is not None:
                        kb = self.int_lit(bound)
                        if kb is None:
                            raise Unsupported("a computed row bound in a 2-D slice", node)
                        term = "(%s.%s %s (%d : Int))" % (PI, prim, term, kb)
                if r.lower is not None and r.upper is not None:
                    raise Unsupported("a 2-D slice with both row bounds", node)
                k = self.int_lit(c)
                if k == 0:
                    return E("(%s.col0 %s)" % (PI, term), VEC)
                if k in (1, -1):
                    return E("(%s.col1 %s)" % (PI, term), VEC)
                raise Unsupported("column %r of an (n, 2) array" % k, node)
            if v.ty == IDX2:
                i, j = self.int_lit(r), self.int_lit(c)
                if i is None or j is None:
                    raise Unsupported("non-literal position in an argwhere result", node)
                t = self.bind(binds, "%s.item2 %s (%d : Int) (%d : Int)" % (PI, v.term, i, j), NAT, node)
                return E(t, NAT)
            if v.ty == IV and not isinstance(r, ast.Slice) and not isinstance(c, ast.Slice):
                i, j = self.int_lit(r), self.int_lit(c)
                if i is None or j not in (0, 1, -1, -2):
                    raise Unsupported("non-literal position in an (n, 2) array", node)
                t = self.bind(binds, "%s.getItem (%s.%s %s) (%d : Int)" % (
                    PI, PI, "col0" if j in (0, -2) else "col1", v.term, i), RAT, node)
                return E(t, RAT, np=True)
            raise Unsupported("2-D subscript of a %s" % show_type(v.ty), node)
        if isinstance(sl, ast.Slice):
            if sl.step is not None:
                raise Unsupported("slice with a step", node)
            if v.ty not in (IV, VEC, STRLIST, NATLIST, IDX):
                raise Unsupported("slice of a %s" % show_type(v.ty), node)
            fresh = v.ty in (STRLIST, NATLIST)           # slicing a LIST copies; slicing an array is a view
            term = v.term
            for bound, nat_prim, int_prim in ((sl.lower, "List.drop", "sliceFrom"), (sl.upper, "List.take", "sliceTo")):
                if bound is None:
                    continue
                k = self.int_lit(bound)
                if k is not None:
                    term = "(%s.%s %s (%d : Int))" % (PI, int_prim, term, k)
                else:
                    b = self.expr(bound, env, binds)
                    if b.ty == NAT:
                        term = "(%s %s %s)" % (nat_prim, b.term, term)
                    elif b.ty == INT:
                        term = "(%s.%s %s %s)" % (PI, int_prim, term, b.term)
                    else:
                        raise Unsupported("slice bound of type %s" % show_type(b.ty), node)
                if bound is sl.lower and sl.upper is not None:
                    raise Unsupported("slice with both bounds", node)
            if sl.lower is None and sl.upper is None:
                term = "(%s.listCopy %s)" % (PI, term) if fresh else term
            return E(term, v.ty, fresh=fresh)
        # x[i], x[idx], x[mask]
        k = self.int_lit(sl)
        if k is not None and v.ty in (VEC, STRLIST, NATLIST, IDX):
            elt = {VEC: RAT, STRLIST: STR, NATLIST: NAT, IDX: NAT}[v.ty]
            t = self.bind(binds, "%s.getItem %s (%d : Int)" % (PI, v.term, k), elt, node)
            return E(t, elt, np=(v.ty == VEC))
        i = self.expr(sl, env, binds)
        if v.ty[0] == "dict" and i.ty == v.ty[1]:
            t = self.bind(binds, "%s.dictGet %s %s" % (PI, v.term, i.term), v.ty[2], node)
            return E(t, v.ty[2])
        if i.ty == NAT and v.ty in (VEC, STRLIST, NATLIST, IDX):
            elt = {VEC: RAT, STRLIST: STR, NATLIST: NAT, IDX: NAT}[v.ty]
            t = self.bind(binds, "%s.getNat %s %s" % (PI, v.term, i.term), elt, node)
            return E(t, elt)
        if i.ty == IDX and v.ty in (IV, VEC, STRLIST, IDX):
            t = self.bind(binds, "%s.takeIdx %s %s" % (PI, v.term, i.term), v.ty, node)
            return E(t, v.ty, fresh=True)
        if i.ty == MASK and v.ty in (VEC, IDX, IV):
            t = self.bind(binds, "%s.maskSelect %s %s" % (PI, v.term, i.term), v.ty, node)
            return E(t, v.ty, fresh=True)
        raise Unsupported("subscript of a %s by a %s" % (show_type(v.ty), show_type(i.ty)), node)

    def kwargs(self, node, allowed):
        out = {}
        for kw in node.keywords:
            if kw.arg is None or kw.arg not in allowed:
                raise Unsupported("keyword %s of %s" % (kw.arg, dotted(node.func) or "a call"), node)
            out[kw.arg] = kw.value
        return out

    def stack_rows(self, arg, env, binds, node, row_len):
        """the operands of np.vstack / np.concatenate: a tuple / list display of arrays and literal rows"""
        if not isinstance(arg, (ast.Tuple, ast.List)) or not arg.elts:
            raise Unsupported("stacking something that is not a display of arrays", node)
        parts = []
        for x in arg.elts:
            e = self.expr(x, env, binds)
            if row_len == 2:
                if e.ty == IV:
                    parts.append(e.term)
                elif e.ty == VEC and isinstance(x, (ast.List, ast.Tuple)) and e.elts is not None and len(e.elts) == 2:
                    parts.append("[(%s, %s)]" % (coerce(e.elts[0], RAT, node), coerce(e.elts[1], RAT, node)))
                else:
                    raise Unsupported("np.vstack operand of type %s" % show_type(e.ty), node)
            else:
                if e.ty != VEC:
                    raise Unsupported("np.concatenate operand of type %s" % show_type(e.ty), node)
                parts.append(e.term)
        return "(%s)" % " ++ ".join(parts)

    def call(self, node, env, binds):
        f = node.func
        name = dotted(f)
        if any(isinstance(a, ast.Starred) for a in node.args):
            raise Unsupported("starred argument", node)
        nargs = len(node.args)
        # methods
        if isinstance(f, ast.Attribute) and name is None or (isinstance(f, ast.Attribute) and name is not None
                                                            and name.split(".")[0] in env):
            v = self.expr(f.value, env, binds)
            m = f.attr
            if node.keywords:
                raise Unsupported("keywords in a method call", node)
            if m in ("min", "max") and nargs == 0 and v.ty in (IV, VEC):
                src = "(%s.ravel %s)" % (PI, v.term) if v.ty == IV else v.term
                t = self.bind(binds, "%s.%sOf %s" % (PI, m, src), RAT, node)
                return E(t, RAT, np=True)
            if m == "any" and nargs == 0 and v.ty == MASK:
                return E("(%s.anyB %s)" % (PI, v.term), BOOL)
            if m == "flatten" and nargs == 0 and v.ty == IV:
                return E("(%s.ravel %s)" % (PI, v.term), VEC, fresh=True)
            if m == "sum" and nargs == 0 and v.ty == MASK:
                return E("(%s.countTrue %s)" % (PI, v.term), NAT, np=True)
            if m == "tolist" and nargs == 0 and v.ty == VEC:
                return E(v.term, VEC, fresh=True)
            if m == "flatten" and nargs == 0 and v.ty in (COL, VEC):
                return E(v.term, VEC, fresh=True)
            if m == "lower" and nargs == 0 and v.ty == STR:
                return E("(%s.lowerStr %s)" % (PI, v.term), STR)
            if m == "format" and v.ty == STR and isinstance(f.value, ast.Constant):
                return self.str_format(f.value.value, node, env, binds)
            raise Unsupported("method .%s of a %s" % (m, show_type(v.ty)), node)
        if name in ("len",) and nargs == 1 and not node.keywords:
            v = self.expr(node.args[0], env, binds)
            if v.ty in (IV, VEC, STRLIST, NATLIST, IDX2, IDX, MASK):
                return E("(%s.len %s)" % (PI, v.term), NAT)
            raise Unsupported("len of a %s" % show_type(v.ty), node)
        if name == "float" and nargs == 1 and not node.keywords:
            v = self.expr(node.args[0], env, binds)
            if v.ty in NUMERIC:
                return E(coerce(v, RAT, node), RAT, np=False)
            raise Unsupported("float() of a %s" % show_type(v.ty), node)
        if name == "min" and nargs == 2 and not node.keywords:
            a, b = (self.expr(x, env, binds) for x in node.args)
            if a.ty == NUM and b.ty == NUM:
                return E("(%s.pyMinNum %s %s)" % (PI, a.term, b.term), NUM, np=True)
            raise Unsupported("min of %s and %s" % (show_type(a.ty), show_type(b.ty)), node)
        if name in CFG.get("externs", {}) and name in self.m.funcs and name not in env:
            return CFG["externs"][name](self, node, env, binds)
        if name in XMOD and CFG["modname"] != "util":
            if self.m.imports.get("util") not in ("..util", ".util", "mir_eval.util") or "util" in self.m.assigned:
                raise Unsupported("`util` is not mir_eval.util", node)
            lean, ptys, rty = XMOD[name]
            if node.keywords or nargs != len(ptys):
                raise Unsupported("call of %s with other than its positional arguments" % name, node)
            args = [coerce(self.expr(a, env, binds), t, node) for a, t in zip(node.args, ptys)]
            t = self.bind(binds, "%s %s" % (lean, " ".join(args)), rty, node)
            return E(t, rty)
        if name == "int" and nargs == 1 and not node.keywords:
            fl = node.args[0]
            if isinstance(fl, ast.Call) and dotted(fl.func) == "np.floor" and len(fl.args) == 1 and not fl.keywords \
                    and isinstance(fl.args[0], ast.BinOp) and isinstance(fl.args[0].op, ast.Div):
                num, den = fl.args[0].left, fl.args[0].right
                if not (isinstance(num, ast.Call) and isinstance(num.func, ast.Attribute) and num.func.attr in ("max", "min")):
                    raise Unsupported("int(np.floor(a / b)) where a is not a NumPy scalar (`x.max()` / `x.min()`): a Python "
                                      "float division raises ZeroDivisionError instead", node)
                a, b = self.expr(num, env, binds), self.expr(den, env, binds)
                if a.ty == RAT and b.ty in NUMERIC:
                    t = self.bind(binds, "%s.intFloorDivNp %s %s" % (PI, a.term, coerce(b, RAT, node)), INT, node)
                    return E(t, INT)
            raise Unsupported("int() of anything but np.floor(<NumPy scalar> / <number>)", node)
        if name == "list" and nargs == 1 and not node.keywords:
            v = self.expr(node.args[0], env, binds)
            if v.ty in (STRLIST, NATLIST):
                return E("(%s.listCopy %s)" % (PI, v.term), v.ty, fresh=True)
            if v.ty == ("zipvec",):
                return E(v.term, ("pairlist",), fresh=True)
            raise Unsupported("list() of a %s" % show_type(v.ty), node)
        if name == "zip" and nargs == 2 and not node.keywords:
            a, b = (self.expr(x, env, binds) for x in node.args)
            if a.ty == VEC and b.ty == VEC:
                return E("(List.zip %s %s)" % (a.term, b.term), ("zipvec",))
            raise Unsupported("zip of %s and %s" % (show_type(a.ty), show_type(b.ty)), node)
        if name == "str" and nargs == 1 and not node.keywords:
            v = self.expr(node.args[0], env, binds)
            if v.ty == STR:
                return v
            raise Unsupported("str() of a %s" % show_type(v.ty), node)
        if name == "sorted" and nargs == 1 and not node.keywords and isinstance(node.args[0], ast.Call) \
                and dotted(node.args[0].func) == "set" and len(node.args[0].args) == 1 and not node.args[0].keywords:
            v = self.expr(node.args[0].args[0], env, binds)
            if v.ty == STRLIST:
                return E("(%s.sortedSet %s)" % (PI, v.term), STRLIST, fresh=True)
            raise Unsupported("sorted(set(.)) of a %s" % show_type(v.ty), node)
        if name is not None and name.startswith("np."):
            return self.np_call(name[3:], node, env, binds)
        if isinstance(f, ast.Name) and f.id in self.m.funcs and f.id not in env:
            sig = self.m.translate(f.id, node)
            if node.keywords or nargs > len(sig.params):
                raise Unsupported("keywords / too many arguments in a call of %s" % f.id, node)
            args = []
            for i, (pn, pt, pd) in enumerate(sig.params):
                if i < nargs:
                    args.append(coerce(self.expr(node.args[i], env, binds), pt, node))
                elif pd is not None:
                    args.append(pd)
                else:
                    raise Unsupported("missing argument %s of %s" % (pn, f.id), node)
            t = self.bind(binds, "%s %s" % (ident(f.id), " ".join(args)), sig.ret, node)
            return E(t, sig.ret)
        raise Unsupported("call of %s" % (name or type(f).__name__), node)

    def str_format(self, fmt, node, env, binds):
        parts = fmt.split("{}")
        if "{" in "".join(parts) or "}" in "".join(parts) or len(parts) - 1 != len(node.args) or node.keywords:
            raise Unsupported("a .format other than positional `{}` fields", node)
        ps = []
        for i, p in enumerate(parts):
            if p:
                s = lean_string(p)
                if s is None:
                    raise Unsupported("non-ASCII format", node)
                ps.append(s)
            if i < len(node.args):
                a = self.expr(node.args[i], env, binds)
                if a.ty == STR:
                    ps.append(a.term)
                elif a.ty == NAT:
                    ps.append("(%s.strOfNat %s)" % (PI, a.term))
                else:
                    raise Unsupported("format field of type %s" % show_type(a.ty), node)
        return E("(%s)" % " ++ ".join(ps) if ps else '""', STR)

    def np_call(self, fn, node, env, binds):
        nargs = len(node.args)
        A = lambda i: self.expr(node.args[i], env, binds)          # noqa: E731
        if fn == "argwhere" and nargs == 1 and not node.keywords:
            v = A(0)
            if v.ty == MASK:
                return E("(%s.argwhere %s)" % (PI, v.term), IDX2, fresh=True)
        if fn == "argsort" and nargs == 1 and not node.keywords:
            v = A(0)
            if v.ty == VEC:
                return E("(%s.argsort %s)" % (PI, v.term), IDX, fresh=True)
        if fn in ("maximum", "minimum") and nargs == 2 and not node.keywords:
            a, b = A(0), A(1)
            if a.ty == IV and b.ty in NUMERIC:
                a, b = b, a
            if a.ty in NUMERIC and b.ty == IV:
                return E("(%s.%sIv %s %s)" % (PI, fn, coerce(a, RAT, node), b.term), IV, fresh=True)
        if fn == "vstack" and nargs == 1 and not node.keywords:
            return E(self.stack_rows(node.args[0], env, binds, node, 2), IV, fresh=True)
        if fn == "concatenate" and nargs == 1:
            kw = self.kwargs(node, ("axis",))
            if "axis" in kw:
                if self.int_lit(kw["axis"]) != 0:
                    raise Unsupported("np.concatenate along an axis other than 0", node)
                arg = node.args[0]
                if isinstance(arg, (ast.List, ast.Tuple)) and arg.elts:
                    es = [self.expr(x, env, binds) for x in arg.elts]
                    if all(e.ty == IV for e in es):
                        return E("(%s)" % " ++ ".join(e.term for e in es), IV, fresh=True)
                raise Unsupported("np.concatenate(axis=0) of anything but (n, 2) arrays", node)
            return E(self.stack_rows(node.args[0], env, binds, node, 1), VEC, fresh=True)
        if fn == "array" and nargs == 1 and not node.keywords and isinstance(node.args[0], ast.Name):
            v = A(0)
            if v.ty == IVROWS:
                return E(v.term, IV, fresh=True)
        if fn == "array" and nargs == 1 and not node.keywords:
            arg = node.args[0]
            if isinstance(arg, ast.List) and len(arg.elts) == 1 and isinstance(arg.elts[0], (ast.List, ast.Tuple)) \
                    and len(arg.elts[0].elts) == 2:
                a, b = (self.expr(x, env, binds) for x in arg.elts[0].elts)
                if a.ty in NUMERIC and b.ty in NUMERIC:
                    return E("[(%s, %s)]" % (coerce(a, RAT, node), coerce(b, RAT, node)), IV, fresh=True)
            if isinstance(arg, ast.List) and len(arg.elts) == 2:
                a, b = (self.expr(x, env, binds) for x in arg.elts)
                if a.ty == VEC and b.ty == VEC:
                    return E("?", ("veclist2",), elts=[a, b], fresh=True)     # a (2, n) array: only `.T` consumes it
        if fn == "sum" and nargs == 1 and not node.keywords:
            v = A(0)
            if v.ty == VEC:
                return E("(Mir.Iv.qsum %s)" % v.term, RAT, np=True)
            if v.ty == NUMVEC:
                return E("(%s.numSum %s)" % (PI, v.term), NUM, np=True)
        if fn == "hstack" and nargs == 1 and not node.keywords and isinstance(node.args[0], (ast.List, ast.Tuple)) \
                and node.args[0].elts:
            parts = []
            for x in node.args[0].elts:
                e = self.expr(x, env, binds)
                if e.ty in NUMERIC:
                    parts.append("[%s]" % coerce(e, RAT, node))
                elif e.ty == VEC:
                    parts.append(e.term)
                else:
                    raise Unsupported("np.hstack operand of type %s" % show_type(e.ty), node)
            return E("(%s)" % " ++ ".join(parts), VEC, fresh=True)
        if fn == "diff" and nargs == 1 and not node.keywords:
            v = A(0)
            if v.ty == VEC:
                return E("(%s.diff1 %s)" % (PI, v.term), VEC, fresh=True)
        if fn == "unique" and nargs == 1 and not node.keywords:
            v = A(0)
            if v.ty == VEC:
                return E("(%s.unique %s)" % (PI, v.term), VEC, fresh=True)
            if v.ty == IV:
                return E("(%s.unique (%s.ravel %s))" % (PI, PI, v.term), VEC, fresh=True)
        if fn == "ravel" and nargs == 1 and not node.keywords:
            v = A(0)
            if v.ty == IV:
                return E("(%s.ravel %s)" % (PI, v.term), VEC, fresh=True)
            if v.ty == VEC:
                return v
        if fn in ("round", "around") and nargs == 1:
            kw = self.kwargs(node, ("decimals",))
            v = A(0)
            q = self.expr(kw["decimals"], env, binds) if "decimals" in kw else E("(0 : Int)", INT, lit=0)
            if v.ty == IV and q.ty in (NAT, INT):
                return E("(%s.roundIv %s %s)" % (PI, v.term, coerce(q, INT, node)), IV, fresh=True)
        if fn in ("abs", "absolute") and nargs == 1 and not node.keywords:
            v = A(0)
            if v.ty in (VEC, COL):
                return E("(%s.absV %s)" % (PI, v.term), v.ty, fresh=True)
        if fn == "diff" and nargs == 1:
            kw = self.kwargs(node, ("axis",))
            v = A(0)
            if v.ty == IV and "axis" in kw and self.int_lit(kw["axis"]) in (-1, 1):
                return E("(%s.diffAxis1 %s)" % (PI, v.term), COL, fresh=True)
        if fn == "allclose" and nargs == 2 and not node.keywords:
            a, b = A(0), A(1)
            if a.ty == VEC and b.ty == VEC:
                t = self.bind(binds, "%s.allclose %s %s" % (PI, a.term, b.term), BOOL, node)
                return E(t, BOOL)
        if fn == "asarray" and nargs == 1 and all(
                kw.arg == "dtype" and isinstance(kw.value, ast.Name) and kw.value.id == "float" for kw in node.keywords):
            v = A(0)
            if v.ty == ("pairlist",):
                return E(v.term, IV, fresh=True)
            if v.ty in (VEC, IV):
                return v
        if fn == "any" and nargs == 1 and not node.keywords:
            v = A(0)
            if v.ty == MASK:
                return E("(%s.anyB %s)" % (PI, v.term), BOOL)
        if fn == "arange" and nargs == 1:
            kw = self.kwargs(node, ("dtype",))
            v = A(0)
            if "dtype" in kw:
                if dotted(kw["dtype"]) not in ("np.float32", "np.float64") or v.ty not in (NAT, INT):
                    raise Unsupported("np.arange with this dtype / bound", node)
                return E("(%s.arangeInt %s)" % (PI, coerce(v, INT, node)), FIDX, fresh=True)
            if v.ty == NAT:
                return E("(%s.arange %s)" % (PI, v.term), IDX, fresh=True)
        if fn == "searchsorted" and nargs == 2:
            kw = self.kwargs(node, ("side",))
            side = kw.get("side")
            if side is not None and not (isinstance(side, ast.Constant) and side.value in ("left", "right")):
                raise Unsupported("np.searchsorted with a computed side", node)
            a, b = A(0), A(1)
            if a.ty == VEC and b.ty == VEC:
                prim = "searchsortedRight" if side is not None and side.value == "right" else "searchsortedLeft"
                return E("(%s.%s %s %s)" % (PI, prim, a.term, b.term), IDX, fresh=True)
        raise Unsupported("np.%s on these arguments" % fn, node)

    def listcomp(self, node, env, binds):
        if len(node.generators) != 1:
            raise Unsupported("nested comprehension", node)
        g = node.generators[0]
        if g.ifs or g.is_async or not isinstance(g.target, ast.Name):
            raise Unsupported("comprehension with a filter / a non-name target", node)
        it = g.iter
        if isinstance(it, ast.Call) and dotted(it.func) == "range" and len(it.args) == 1 and not it.keywords:
            n = self.expr(it.args[0], env, binds)
            if n.ty != NAT:
                raise Unsupported("range of a %s" % show_type(n.ty), node)
            src, elt = "(List.range %s)" % n.term, NAT
        else:
            v = self.expr(it, env, binds)
            if v.ty not in (STRLIST, IDX, NATLIST, VEC):
                raise Unsupported("comprehension over a %s" % show_type(v.ty), node)
            src, elt = v.term, {STRLIST: STR, IDX: NAT, NATLIST: NAT, VEC: RAT}[v.ty]
        x = g.target.id
        env2 = dict(env)
        env2[x] = Var(elt, ident(x))
        inner = []
        save = self.tmp
        e = self.expr(node.elt, env2, inner)
        out_ty = {STR: STRLIST, NAT: NATLIST, RAT: VEC}.get(e.ty)
        if out_ty is None:
            raise Unsupported("comprehension producing %s" % show_type(e.ty), node)
        if not inner:
            return E("(List.map (fun %s => %s) %s)" % (ident(x), e.term, src), out_ty, fresh=True)
        blk = "; ".join(self.bind_lines(inner) + ["pure %s" % e.term])
        t = self.bind(binds, "List.mapM (fun %s => (do %s)) %s" % (ident(x), blk, src), out_ty, node)
        return E(t, out_ty, fresh=True)


# ----------------------------------------------------------------------------------------
# driver handler

def val_decoder(ty, v):
    simple = {RAT: "Val.asRat?", NAT: "Val.asNat?", INT: "Val.asInt?", BOOL: "Val.asBool?", STR: "Val.asStr?",
              IV: "Val.asRatPairs?", VEC: "Val.asRats?", STRLIST: "Val.asStrs?", OPT(RAT): "Val.asOptRat?"}
    if ty in simple:
        return "let %s ← %s %s" % (v, simple[ty], v)
    if ty == OPT(STRLIST):
        return "let %s ← (match %s with | Val.none => some none | _v => (Val.asStrs? _v).map some)" % (v, v)
    if ty == OPT(STR):
        return "let %s ← (match %s with | Val.none => some none | _v => (Val.asStr? _v).map some)" % (v, v)
    raise Unsupported("no protocol decoder for %s" % show_type(ty))


def val_encoder(ty):
    k = ty[0]
    simple = {"rat": "Val.rat", "nat": "Val.ofNat", "int": "Val.ofInt", "bool": "Val.bool", "str": "Val.str",
              "num": "Mir.Segment.Num.toVal", "ivrows": "Val.ofRatPairs",
              "none": "(fun _ => Val.none)", "iv": "Val.ofRatPairs", "vec": "Val.ofRats", "col": "Val.ofRats",
              "strlist": "Val.ofStrs", "natlist": "Val.ofNats", "idx": "Val.ofNats"}
    if k in simple:
        return simple[k]
    if k == "optstrlist":
        return "(fun _l => Val.list (List.map (fun _o => match _o with | some _s => Val.str _s | none => Val.none) _l))"
    if k == "opt":
        return "(fun _o => match _o with | some _v => %s _v | none => Val.none)" % val_encoder(ty[1])
    if k == "tup":
        vs = ["x%d" % i for i in range(len(ty[1]))]
        return "(fun ((%s) : %s) => Val.list [%s])" % (
            ", ".join(vs), lean_type(ty), ", ".join("%s %s" % (val_encoder(t), v) for t, v in zip(ty[1], vs)))
    if k == "either":
        return "(fun (_p : %s) => match _p.2 with | none => %s _p.1 | some _b => Val.list [%s _p.1, %s _b])" % (
            lean_type(ty), val_encoder(ty[1]), val_encoder(ty[1]), val_encoder(ty[2]))
    if k == "dict" and ty[1] == NAT:
        return "(fun _d => Val.list (List.map (fun _kv => Val.list [Val.ofNat _kv.1, %s _kv.2]) (%s.dictItems _d)))" % (
            val_encoder(ty[2]), PI)
    raise Unsupported("no protocol encoder for %s" % show_type(ty))


HEADER = """import MirModel.PyInt
/-!
  GENERATED by harness/translate/utilint.py from mir_eval/util.py — do not edit.
  One shallow definition per translated function (`Mir.Gen.util.<function>`) over `Mir.PyI` (MirModel/PyInt.lean).
  Regenerated from the working tree on every run of ./check C13; `MirProofs/Props/C13_Gen.lean` proves each of them equal
  to the hand-written model (`MirModel/Intervals.lean`) for all interval lists, label lists and crop points.
-/
set_option linter.unusedVariables false
"""


UTIL_CFG = {"modname": "util", "file": "util.py", "params": PARAMS, "ns": "Mir.Gen.util", "wanted": WANTED,
            "header": None, "op": "gen.utilint", "hns": "Mir.Gen.UtilInt"}


def translate_all(repo, wanted=None, cfg=None):
    """-> (lean text, {name: Sig}, problems [(function, detail)])"""
    global CFG
    cfg = UTIL_CFG if cfg is None else cfg
    saved = CFG
    CFG = cfg
    try:
        return _translate_all(repo, wanted, cfg)
    finally:
        CFG = saved


def _translate_all(repo, wanted, cfg):
    wanted = cfg["wanted"] if wanted is None else wanted
    path = os.path.join(repo, "mir_eval", cfg["file"])
    ns, op, hns = cfg["ns"], cfg["op"], cfg["hns"]
    problems = []
    try:
        m = Module(open(path, encoding="utf-8").read())
    except (OSError, SyntaxError) as e:
        m = None
        problems = [(f, "cannot read/parse %s: %s" % (path, e)) for f in wanted]
    if m is not None:
        for fname in wanted:
            try:
                m.translate(fname)
            except Unsupported as e:
                problems.append((fname, e.detail))
    L = [cfg["header"] or HEADER, "namespace %s" % ns, ""]
    rows = []
    emitted = [] if m is None else m.emitted
    for name, lines in emitted:
        L += lines + [""]
    L += ["end %s" % ns, ""]
    for name, _ in emitted:
        sig = m.sigs[name]
        try:
            vs = ["a%d" % i for i in range(len(sig.params))]
            decs = [val_decoder(p[1], v) for p, v in zip(sig.params, vs)]
            enc = val_encoder(sig.ret)
        except Unsupported:
            continue
        rows.append("  | \"%s\", Val.str \"%s\" :: [%s] => do\n%s      some (Except.map %s (%s.%s %s))" % (
            op, name, ", ".join(vs), "".join("      %s\n" % d for d in decs), enc, ns, ident(name), " ".join(vs)))
    L.append("namespace %s" % hns)
    L.append("")
    L.append("/-- names of the translated definitions (in emission order) -/")
    L.append("def names : List String := [%s]" % ", ".join('"%s"' % n for n, _ in emitted))
    L.append("")
    L.append("/-- protocol op `%s <\"function\"> <args...>` -/" % op)
    L.append("def handler : Handler := fun fn args =>")
    L.append("  match fn, args with")
    L += rows
    L.append("  | _, _ => none")
    L.append("")
    L.append("end %s" % hns)
    return "\n".join(L) + "\n", ({} if m is None else dict(m.sigs)), problems


def generate(repo, outdir):
    text, done, problems = translate_all(repo)
    os.makedirs(outdir, exist_ok=True)
    write_if_changed(os.path.join(outdir, "UtilInt.lean"), text)
    obligations = ["Mir.Gen.util.%s" % n for n in done]
    probs = [{"name": "utilint: util.%s" % f, "detail": "outside the translated subset: " + d} for f, d in problems]
    return obligations, probs


if __name__ == "__main__":
    repo = sys.argv[1] if len(sys.argv) > 1 else "/repo"
    text, done, problems = translate_all(repo)
    sys.stdout.write(text)
    for p in problems:
        sys.stderr.write("PROBLEM util.%s: %s\n" % p)
