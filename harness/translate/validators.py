"""mir_eval input validators -> lean/MirGen/Validators.lean   (AST based; mir_eval is never imported).   Part `validators` (C14).

One SHALLOW Lean definition per translated validator, `Mir.GenV.<module>.<function>` (its own root namespace: other
translator parts regenerate some of the same functions - melody.validate_voicing, util.validate_intervals - under `Mir.Gen`), over the run-time library
`lean/MirModel/PyVal.lean` (`Mir.PyV`) and the validator model's own view of an ndarray (`Mir.Arr` = shape + row-major
data), plus the module-level numeric constants they read (`MAX_TIME`, `MAX_FREQ`, ...) and a driver handler
(`Mir.Gen.Validators.handler`, protocol op `gen.validators <"module.function"> <args...>`).
`MirProofs/Props/C14_GenVal.lean` proves every one of them equal to the hand-written model (`MirModel/Validate.lean`) for ALL
arrays (any shape, any data), so the ~500 C14 theorems about that model are re-checked against what the source says
*now* on every run.  The definitions follow the SOURCE: its statements, the order of its checks, the exception classes.

The translator fails closed.  THE SUBSET (anything else => `Unsupported` => the function is not emitted => problem):

  def f(p1, p2=<literal>)      no decorators, *args, **kwargs.  Parameter kinds come from f's own numpydoc text:
                               `np.ndarray…` -> array | `float` -> float | `bool` -> bool | `list, shape=(n,)` -> a list that
                               enters by its LENGTH (only `len(p)` may read it) | `list of np.ndarray` / `ordered list of
                               segmentations` -> list of arrays; the kinds numpydoc cannot say are declared in PARAM_KINDS
                               (pattern lists, separation's sources) and must agree with the documented text.
  statements   docstring; `if c: raise Exc(msg)` (msg is NOT evaluated); `if/elif/else` blocks whose branches are such
               statements (an `if` that ends in `return` takes the rest of the block as its else branch);
               `if c: x = e [else: x = e']` with pure right-hand sides (read as a conditional expression);
               `warnings.warn(...)` -> SKIPPED (warnings are not part of the property; but the condition of an `if` that
               only warns is still evaluated for the exceptions it can raise, e.g. `len()` of a 0-d array);
               `x = e`; a call statement of an already translated validator (positional / keyword arguments, defaults
               filled in from the callee); `for x in [e1, e2]` / `for a, b in [(e1, e2), ...]` / `for x in <list>` /
               `for i, x in enumerate(<list>[, k])` with `i` used in warnings only (no break / continue / return / else;
               the body may not assign a name that is read after the loop); `return [e]` as the last statement; `pass`.
               Values that only feed warnings (`set(util.intervals_to_boundaries(x))`, `a - b`, `a |= b` on them) are
               typed OPAQUE, must be built from total operations, and are dropped.
  expressions  int / float / bool literals; locals; module-level numeric constants assigned exactly once;
               `x.ndim` `x.size` `x.shape` `x.shape[k]` `len(x)` `x.max()` `x.min()` `x.sum()` `np.max/min/sum(x)` `np.abs(x)`
               `np.diff(x)` `x[1:]` `x[:-1]` `x[:, k]` `x - y`; `x <cmp> s`, `s <cmp> x` (array vs scalar), `x <cmp> y`
               (arrays of one shape); `np.isfinite(x)`; `np.logical_or(m, n)`; `m.any()` `m.all()` `np.any(m)` `np.all(m)`;
               `np.allclose(s, t)` on scalars; `isinstance(x, np.ndarray)` for a parameter typed as an array (True);
               `xs[k]`, `xs[1:]`, `len(xs)` on lists; `len([e for a in A for b in a ...])`; comparisons of scalars;
               `and` / `or` / `not` (short-circuit kept when a later operand can raise);
               externs (bound to the hand model, not translated): `util.generate_labels(x)` (a list with `len(x)` entries),
               `util.intervals_to_boundaries(x)` (total, OPAQUE), `_any_source_silent(x)` (separation).
  typing       sizes / lengths / `ndim` / `shape[k]` / non-negative int literals are `Nat`, floats are `Rat`; a literal takes
               the type of the operand it is compared with; integer arithmetic is outside the subset.

`python harness/translate/validators.py [repo]` prints the generated file.
"""
import ast
import os
import sys
from fractions import Fraction

try:
    from translate import write_if_changed
    from translate.scalars import Unsupported, lean_rat, indent, doc_param_types
    from translate.scalars import ident as _ident
except ImportError:  # run as a script
    sys.path.insert(0, os.path.dirname(os.path.dirname(os.path.abspath(__file__))))
    from translate import write_if_changed
    from translate.scalars import Unsupported, lean_rat, indent, doc_param_types
    from translate.scalars import ident as _ident

EXTRA_KEYWORDS = {"matches", "is", "only", "using", "generalizing", "hiding", "renaming", "extends", "deriving",
                  "infixl", "infixr", "set_option", "omit", "include", "elab", "meta", "public", "module", "id"}


def ident(name):
    if name in EXTRA_KEYWORDS:
        return "«%s»" % name
    return _ident(name)


# (module, function) in emission order (callees first); REQUIRED: one that leaves the subset is a translator problem
WANTED = [
    ("util", "validate_intervals"), ("util", "validate_events"), ("util", "validate_frequencies"),
    ("beat", "validate"), ("onset", "validate"),
    ("tempo", "validate_tempi"), ("tempo", "validate"),
    ("segment", "validate_boundary"), ("segment", "validate_structure"),
    ("alignment", "validate"),
    ("melody", "validate_voicing"), ("melody", "validate"),
    ("transcription", "validate_intervals"), ("transcription", "validate"),
    ("transcription_velocity", "validate"),
    ("multipitch", "validate"),
    ("hierarchy", "validate_hier_intervals"),
    ("pattern", "_n_onset_midi"), ("pattern", "validate"),
    ("separation", "validate"),
]

ARR, RAT, NAT, BOOL, MASK, UNIT = ("arr",), ("rat",), ("nat",), ("bool",), ("mask",), ("unit",)
LENLIST, OPAQUE, SRC, SHAPE, LIT = ("lenlist",), ("opaque",), ("src",), ("shape",), ("lit",)


def LST(t):
    return ("list", t)


PATTERNS = LST(LST(LST(LST(RAT))))

# parameter kinds numpydoc cannot express: (module, function, parameter) -> (kind, text the documentation must start with)
PARAM_KINDS = {
    ("pattern", "validate", "reference_patterns"): (PATTERNS, "list"),
    ("pattern", "validate", "estimated_patterns"): (PATTERNS, "list"),
    ("pattern", "_n_onset_midi", "patterns"): (PATTERNS, None),
    ("separation", "validate", "reference_sources"): (SRC, "np.ndarray"),
    ("separation", "validate", "estimated_sources"): (SRC, "np.ndarray"),
}

EXC = {"ValueError": "valueError", "TypeError": "typeError", "KeyError": "keyError", "IndexError": "indexError",
       "ZeroDivisionError": "zeroDivision"}

PV = "Mir.PyV."
VAL = "Mir.Validate."


def lean_type(t):
    k = t[0]
    if k == "arr":
        return "Mir.Arr"
    if k == "rat":
        return "Rat"
    if k in ("nat", "lenlist"):
        return "Nat"
    if k == "bool":
        return "Bool"
    if k == "mask":
        return "Mir.PyV.Mask"
    if k == "unit":
        return "Unit"
    if k == "src":
        return "Mir.Validate.Src"
    if k == "shape":
        return "(List Nat)"
    if k == "list":
        return "(List %s)" % lean_type(t[1])
    raise Unsupported("no Lean type for %r" % (t,))


def show_type(t):
    return {"arr": "ndarray", "rat": "float", "nat": "int", "bool": "bool", "mask": "bool ndarray", "unit": "None",
            "lenlist": "list (by length)", "opaque": "warning-only value", "src": "sources", "shape": "shape tuple",
            "lit": "literal"}.get(t[0]) or ("list of %s" % show_type(t[1]))


class E:
    """a translated expression: Lean term (pure, over the binds emitted before it), static type, literal value"""
    __slots__ = ("term", "ty", "lit")

    def __init__(self, term, ty, lit=None):
        self.term, self.ty, self.lit = term, ty, lit


def coerce(e, to, node=None):
    if e.ty == to:
        return e.term
    if e.ty == LIT:
        v = e.lit
        if to == NAT and type(v) is int and v >= 0:
            return "(%d : Nat)" % v
        if to == RAT and type(v) in (int, float):
            return lean_rat(Fraction(repr(v)) if type(v) is float else Fraction(v))
    if e.ty == LENLIST and to == NAT:
        return e.term
    raise Unsupported("cannot use %s as %s" % (show_type(e.ty), show_type(to)), node)


def dotted(node):
    if isinstance(node, ast.Name):
        return node.id
    if isinstance(node, ast.Attribute):
        d = dotted(node.value)
        return None if d is None else d + "." + node.attr
    return None


class Sig:
    def __init__(self, module, name, params, ret):
        self.module, self.name, self.params, self.ret = module, name, params, ret   # params: [(name, type, default E|None)]

    @property
    def lean(self):
        return "Mir.GenV.%s.%s" % (ident(self.module), ident(self.name))


class Module:
    def __init__(self, name, source):
        self.name = name
        self.tree = ast.parse(source)
        self.fns, self.mod_alias, self.name_alias = {}, {}, {}
        for st in self.tree.body:
            if isinstance(st, ast.FunctionDef):
                if st.name in self.fns:
                    self.fns[st.name] = None        # defined twice: ambiguous
                else:
                    self.fns[st.name] = st
            elif isinstance(st, ast.ImportFrom) and st.level == 1 and st.module is None:
                for a in st.names:                  # from . import util
                    self.mod_alias[a.asname or a.name] = a.name
            elif isinstance(st, ast.ImportFrom) and st.level == 1:
                for a in st.names:                  # from .segment import validate_structure
                    self.name_alias[a.asname or a.name] = (st.module, a.name)
            elif isinstance(st, ast.Import):
                for a in st.names:
                    if a.name in ("numpy", "warnings"):
                        self.mod_alias[a.asname or a.name] = a.name
        self.consts = {}      # name -> (type, lean term)  emitted constants
        self.const_order = []

    def constant(self, name, node):
        """a module-level numeric constant: assigned exactly once in the whole module, by a literal"""
        if name in self.consts:
            return self.consts[name]
        stores = [n for n in ast.walk(self.tree) if isinstance(n, ast.Name) and n.id == name and not isinstance(n.ctx, ast.Load)]
        globs = [n for n in ast.walk(self.tree) if isinstance(n, (ast.Global, ast.Nonlocal)) and name in n.names]
        top = [st for st in self.tree.body if isinstance(st, ast.Assign) and len(st.targets) == 1
               and isinstance(st.targets[0], ast.Name) and st.targets[0].id == name]
        if len(stores) != 1 or len(top) != 1 or globs:
            raise Unsupported("name %r is not a local and not a module-level constant assigned exactly once" % name, node)
        v = top[0].value
        if not (isinstance(v, ast.Constant) and type(v.value) in (int, float)):
            raise Unsupported("module-level %s is not a numeric literal" % name, node)
        if type(v.value) is int:
            if v.value < 0:
                raise Unsupported("negative integer constant %s" % name, node)
            r = (NAT, "(%d : Nat)" % v.value)
        else:
            r = (RAT, lean_rat(Fraction(repr(v.value))))
        self.consts[name] = r
        self.const_order.append(name)
        return r


def is_warn(st):
    return (isinstance(st, ast.Expr) and isinstance(st.value, ast.Call)
            and dotted(st.value.func) in ("warnings.warn",))


MSG_NODES = (ast.Constant, ast.Name, ast.Attribute, ast.Call, ast.JoinedStr, ast.FormattedValue, ast.BinOp, ast.Mod,
             ast.Tuple, ast.Subscript, ast.Load, ast.Add, ast.keyword)


def check_message(call, node):
    for a in list(call.args) + [k.value for k in call.keywords]:
        for n in ast.walk(a):
            if not isinstance(n, MSG_NODES):
                raise Unsupported("exception message built with %s" % type(n).__name__, node)
            if isinstance(n, ast.Call):
                d = dotted(n.func)
                ok = d in ("type", "str", "len", "repr") or (isinstance(n.func, ast.Attribute)
                                                              and n.func.attr in ("format", "max", "min"))
                if not ok:
                    raise Unsupported("exception message calls %s" % ast.unparse(n.func), node)


def loads(nodes, skip_warn=True):
    out = set()

    def walk(n):
        if skip_warn and is_warn(n):
            return
        if isinstance(n, ast.Name) and isinstance(n.ctx, ast.Load):
            out.add(n.id)
        for c in ast.iter_child_nodes(n):
            walk(c)
    for n in nodes:
        walk(n)
    return out


def reads_before_rebind(rest, names):
    """the names of `names` that a later statement may read before it binds them again"""
    live = set(names)
    out = set()
    for st in rest:
        if not live:
            break
        if isinstance(st, ast.For):
            tg = stores([st.target])
            out |= loads([st.iter]) & live
            out |= loads(st.body) & (live - tg)
            continue
        if isinstance(st, ast.Assign) and all(isinstance(t, ast.Name) for t in st.targets):
            out |= loads([st.value]) & live
            live -= {t.id for t in st.targets}
            continue
        out |= loads([st]) & live
    return out


def stores(nodes):
    out = set()
    for n in nodes:
        for c in ast.walk(n):
            if isinstance(c, ast.Name) and not isinstance(c.ctx, ast.Load):
                out.add(c.id)
    return out


class FnTr:
    def __init__(self, ctx, module, fn):
        self.ctx, self.m, self.fn = ctx, module, fn
        self.n = 0
        self.ret = None

    def fresh(self):
        self.n += 1
        return "_t%d" % self.n

    # ---------------------------------------------------------------- signature
    def param_kind(self, pname, doc):
        key = (self.m.name, self.fn.name, pname)
        text = doc.get(pname)
        if key in PARAM_KINDS:
            kind, must = PARAM_KINDS[key]
            if must is not None and not (text or "").lower().startswith(must.lower()):
                raise Unsupported("parameter %s is documented as %r, declared kind needs %r" % (pname, text, must), self.fn)
            return kind
        if text is None:
            raise Unsupported("parameter %s has no documented type" % pname, self.fn)
        t = text.lower().strip()
        if t.startswith("np.ndarray"):
            return ARR
        if t.startswith("list of np.ndarray") or t.startswith("ordered list of segmentations"):
            return LST(ARR)
        if t.startswith("list, shape=("):
            return LENLIST
        if t.startswith("float") and " or " not in t:
            return RAT
        if t.startswith("bool") and " or " not in t:
            return BOOL
        raise Unsupported("documented type %r of parameter %s is not one the validators' model has" % (text, pname), self.fn)

    def translate(self):
        fn = self.fn
        a = fn.args
        if fn.decorator_list or a.vararg or a.kwarg or a.kwonlyargs or a.posonlyargs:
            raise Unsupported("decorators / *args / **kwargs / keyword-only parameters", fn)
        doc = doc_param_types(fn)
        params = []
        ndef = len(a.defaults)
        for i, p in enumerate(a.args):
            ty = self.param_kind(p.arg, doc)
            d = None
            j = i - (len(a.args) - ndef)
            if j >= 0:
                dn = a.defaults[j]
                if not (isinstance(dn, ast.Constant) and type(dn.value) in (int, float, bool)):
                    raise Unsupported("default of %s is not a numeric / bool literal" % p.arg, dn)
                d = self.literal(dn)
                d = E(coerce(d, ty, dn), ty)
            params.append((p.arg, ty, d))
        env = {p: t for p, t, _ in params}
        body = list(fn.body)
        if body and isinstance(body[0], ast.Expr) and isinstance(body[0].value, ast.Constant) and isinstance(body[0].value.value, str):
            body = body[1:]
        self.ret = None
        lines = self.block(body, env, top=True)
        ret = self.ret or UNIT
        sig = Sig(self.m.name, fn.name, params, ret)
        ps = " ".join("(%s : %s%s)" % (ident(p), lean_type(t), "" if d is None else " := " + d.term) for p, t, d in params)
        head = "def %s %s : Py %s := do" % (ident(fn.name), ps, lean_type(ret))
        out = ["/-- `%s.%s` (mir_eval/%s.py) -/" % (self.m.name, fn.name, self.m.name), head] + indent(lines)
        return sig, out

    # ---------------------------------------------------------------- statements
    def block(self, sts, env, top=False):
        """Lean `do` elements of a statement list (the last one has the block's type)"""
        lines = []
        env = dict(env)
        i = 0
        closed = False      # the block already ends in a value / raise
        while i < len(sts):
            s = sts[i]
            rest = sts[i + 1:]
            if isinstance(s, ast.Pass) or is_warn(s):
                if is_warn(s):
                    lines.append("-- warnings.warn(...) skipped")
                i += 1
                continue
            if isinstance(s, ast.Return):
                if not top or rest:
                    raise Unsupported("`return` that is not the last statement of the function", s)
                if s.value is None:
                    lines.append("pure ()")
                else:
                    binds = []
                    e = self.expr(s.value, env, binds)
                    if e.ty == LIT:
                        raise Unsupported("returning a bare literal", s)
                    lines += binds + ["pure %s" % e.term]
                    self.ret = e.ty
                closed = True
                break
            if isinstance(s, ast.Raise):
                lines.append("Except.error PyErr.%s" % self.exc_of(s))
                if rest:
                    raise Unsupported("statements after an unconditional raise", s)
                closed = True
                break
            if isinstance(s, ast.If):
                ends_return = bool(s.body) and isinstance(s.body[-1], ast.Return) and not s.orelse
                if ends_return:
                    if not top:
                        raise Unsupported("early `return` inside a nested block", s)
                    binds = []
                    c = self.cond(s.test, env, binds)
                    body = list(s.body[:-1])
                    if s.body[-1].value is not None:
                        raise Unsupported("early `return <value>`", s)
                    b1 = self.block(body, env)
                    b1 = [ln for ln in b1] + (["pure ()"] if not self.ends_in_action(b1) else [])
                    b2 = self.block(rest, env, top=True)
                    lines += binds + ["if %s then do" % c] + indent(b1) + ["else do"] + indent(b2)
                    closed = True
                    break
                lines += self.if_stmt(s, env, rest)
                i += 1
                continue
            if isinstance(s, ast.Expr) and isinstance(s.value, ast.Call):
                binds = []
                e = self.expr(s.value, env, binds, stmt=True)
                lines += binds
                if e is not None:
                    lines.append(e.term)
                i += 1
                continue
            if isinstance(s, ast.Assign):
                if len(s.targets) != 1 or not isinstance(s.targets[0], ast.Name):
                    raise Unsupported("assignment target other than one name", s)
                name = s.targets[0].id
                binds = []
                e = self.expr(s.value, env, binds)
                lines += binds
                if e.ty == OPAQUE:
                    lines.append("-- %s = <value used in warnings only>" % name)
                elif e.ty == LIT:
                    raise Unsupported("a bare literal assigned to %s (its type is decided by its uses)" % name, s)
                else:
                    lines.append("let %s : %s := %s" % (ident(name), lean_type(e.ty), e.term))
                env[name] = e.ty
                i += 1
                continue
            if isinstance(s, ast.AugAssign):
                binds = []
                e = self.expr(s.value, env, binds)
                if not (isinstance(s.target, ast.Name) and env.get(s.target.id) == OPAQUE and e.ty == OPAQUE and not binds
                        and isinstance(s.op, (ast.BitOr, ast.BitAnd, ast.Sub))):
                    raise Unsupported("augmented assignment", s)
                lines.append("-- %s updated (used in warnings only)" % s.target.id)
                i += 1
                continue
            if isinstance(s, ast.For):
                lines += self.for_stmt(s, env, rest)
                i += 1
                continue
            raise Unsupported("statement %s" % type(s).__name__, s)
        if not closed and (top or True):
            if not self.ends_in_action(lines):
                lines.append("pure ()")
        return lines

    @staticmethod
    def ends_in_action(lines):
        """does the last emitted element already have type `Py Unit`"""
        for ln in reversed(lines):
            t = ln.strip()
            if t.startswith("--"):
                continue
            if ln.startswith(" "):
                return True           # the tail of an if / forEach block
            return not (t.startswith("let ") or t.startswith("--"))
        return False

    def exc_of(self, s):
        x = s.exc
        if s.cause is not None or x is None:
            raise Unsupported("raise without an exception / with a cause", s)
        if isinstance(x, ast.Call):
            name = dotted(x.func)
            check_message(x, s)
        else:
            name = dotted(x)
        if name not in EXC:
            raise Unsupported("raise of %s" % name, s)
        return EXC[name]

    def if_stmt(self, s, env, rest):
        # (a) if c: raise E(...)
        if len(s.body) == 1 and isinstance(s.body[0], ast.Raise) and not s.orelse:
            binds = []
            c = self.cond(s.test, env, binds)
            return binds + ["%sraiseIf PyErr.%s %s" % (PV, self.exc_of(s.body[0]), c)]
        # (c) branches that only assign names, purely: conditional expressions
        def only_assigns(b):
            return b and all(isinstance(x, ast.Assign) and len(x.targets) == 1 and isinstance(x.targets[0], ast.Name) for x in b)
        if only_assigns(s.body) and (not s.orelse or only_assigns(s.orelse)):
            binds = []
            c = self.cond(s.test, env, binds)
            names = []
            for x in list(s.body) + list(s.orelse):
                if x.targets[0].id not in names:
                    names.append(x.targets[0].id)
            def branch(b):
                e2 = dict(env)
                vals = {}
                for x in b:
                    bb = []
                    v = self.expr(x.value, e2, bb)
                    if bb:
                        raise Unsupported("an assignment inside `if` whose value can raise", x)
                    vals[x.targets[0].id] = v
                    if v.ty != LIT:
                        e2[x.targets[0].id] = v.ty
                return vals
            v1, v2 = branch(s.body), branch(s.orelse)
            out = list(binds)
            for nme in names:
                a, b = v1.get(nme), v2.get(nme)
                if a is None and nme in env:
                    a = E(ident(nme), env[nme])
                if b is None and nme in env:
                    b = E(ident(nme), env[nme])
                if a is None or b is None:
                    raise Unsupported("%s is assigned in one branch only and not defined before" % nme, s)
                ty = a.ty if a.ty != LIT else b.ty
                if ty == LIT:
                    ty = NAT if all(type(z.lit) is int and z.lit >= 0 for z in (a, b)) else RAT
                if ty == OPAQUE:
                    raise Unsupported("conditional assignment of a warning-only value", s)
                out.append("let %s : %s := if %s then %s else %s" % (ident(nme), lean_type(ty), c, coerce(a, ty, s), coerce(b, ty, s)))
                env[nme] = ty
            return out
        # (d) general: both branches are statement blocks of type Py Unit that define nothing used later
        binds = []
        c = self.cond(s.test, env, binds, allow_opaque=True)
        used_later = reads_before_rebind(rest, stores(list(s.body) + list(s.orelse)))
        if used_later:
            raise Unsupported("a name assigned inside an `if` block is read after it: %s" % sorted(used_later), s)
        b1 = self.block(list(s.body), env)
        b2 = self.block(list(s.orelse), env) if s.orelse else ["pure ()"]
        def trivial(b):
            return all(x.strip().startswith("--") or x.strip() == "pure ()" for x in b)
        if trivial(b1) and trivial(b2):
            return binds + ["-- if %s: (warnings only) skipped" % ast.unparse(s.test)[:80].replace("\n", " ")]
        if c is None:
            raise Unsupported("a warning-only value decides a branch that is not warnings only", s)
        return binds + ["if %s then do" % c] + indent(b1) + ["else do"] + indent(b2)

    def for_stmt(self, s, env, rest):
        if s.orelse:
            raise Unsupported("for ... else", s)
        for n in ast.walk(s):
            if isinstance(n, (ast.Break, ast.Continue, ast.Return)):
                raise Unsupported("break / continue / return inside a loop", n)
        body_stores = stores(s.body)
        tgt = s.target
        it = s.iter
        binds = []
        drop_index = None
        if isinstance(it, ast.Call) and dotted(it.func) == "enumerate":
            if not (isinstance(tgt, ast.Tuple) and len(tgt.elts) == 2 and all(isinstance(x, ast.Name) for x in tgt.elts)):
                raise Unsupported("enumerate without an (index, item) target", s)
            if len(it.args) not in (1, 2) or it.keywords:
                raise Unsupported("enumerate(...) arguments", s)
            drop_index = tgt.elts[0].id
            if drop_index in loads(s.body):
                raise Unsupported("the loop index %s is used outside warnings" % drop_index, s)
            tgt = tgt.elts[1]
            it = it.args[0]
        if isinstance(tgt, ast.Name):
            names = [tgt.id]
        elif isinstance(tgt, ast.Tuple) and all(isinstance(x, ast.Name) for x in tgt.elts):
            names = [x.id for x in tgt.elts]
        else:
            raise Unsupported("loop target", s)
        later = reads_before_rebind(rest, body_stores | set(names))
        if later:
            raise Unsupported("a name assigned in a loop is read after it: %s" % sorted(later), s)
        if isinstance(it, ast.List):
            rows = []
            tys = None
            for el in it.elts:
                parts = el.elts if (isinstance(el, ast.Tuple) and len(names) > 1) else [el]
                if len(parts) != len(names):
                    raise Unsupported("loop over a list whose items do not match the target", s)
                es = [self.expr(p, env, binds) for p in parts]
                if tys is None:
                    tys = [e.ty for e in es]
                if [e.ty for e in es] != tys or any(t in (LIT, OPAQUE) for t in tys):
                    raise Unsupported("loop over a list of items of different / untyped kinds", s)
                rows.append("(%s)" % ", ".join(e.term for e in es) if len(es) > 1 else es[0].term)
            if tys is None:
                raise Unsupported("loop over an empty list literal", s)
            seq = "[%s]" % ", ".join(rows)
        else:
            e = self.expr(it, env, binds)
            if e.ty[0] != "list" or len(names) != 1:
                raise Unsupported("loop over %s" % show_type(e.ty), s)
            tys = [e.ty[1]]
            seq = e.term
        e2 = dict(env)
        for nme, t in zip(names, tys):
            e2[nme] = t
        body = self.block(list(s.body), e2)
        if len(names) == 1:
            binder = "(%s : %s)" % (ident(names[0]), lean_type(tys[0]))
        else:
            binder = "((%s) : %s)" % (", ".join(ident(n) for n in names), " × ".join(lean_type(t) for t in tys))
        return binds + ["%sforEach (fun %s => do" % (VAL, binder)] + indent(body, 4) + ["  ) %s" % seq]

    # ---------------------------------------------------------------- expressions
    def literal(self, node):
        v = node.value
        if type(v) is bool:
            return E("true" if v else "false", BOOL)
        if type(v) in (int, float):
            if v != v or v in (float("inf"), float("-inf")):
                raise Unsupported("non-finite literal", node)
            return E(None, LIT, v)
        raise Unsupported("literal %r" % (v,), node)

    def cond(self, node, env, binds, allow_opaque=False):
        e = self.expr(node, env, binds)
        if e.ty == OPAQUE and allow_opaque:
            return None
        if e.ty != BOOL:
            raise Unsupported("truth value of %s" % show_type(e.ty), node)
        return e.term

    def scalar_pair(self, a, b, node):
        """common scalar type of two compared operands"""
        for t in (NAT, RAT, SHAPE, BOOL):
            if (a.ty == t or (t == NAT and a.ty == LENLIST)) and (b.ty in (t, LIT) or (t == NAT and b.ty == LENLIST)):
                return t
            if (b.ty == t or (t == NAT and b.ty == LENLIST)) and a.ty == LIT:
                return t
        raise Unsupported("comparison of %s with %s" % (show_type(a.ty), show_type(b.ty)), node)

    CMP = {ast.Lt: "<", ast.LtE: "≤", ast.Gt: ">", ast.GtE: "≥", ast.Eq: "=", ast.NotEq: "≠"}

    def compare(self, node, env, binds):
        if len(node.ops) != 1:
            raise Unsupported("chained comparison", node)
        op = self.CMP.get(type(node.ops[0]))
        if op is None:
            raise Unsupported("comparison operator %s" % type(node.ops[0]).__name__, node)
        a = self.expr(node.left, env, binds)
        b = self.expr(node.comparators[0], env, binds)
        if a.ty == ARR and b.ty == ARR:
            t = self.fresh()
            binds.append("let %s : %s ← %szipB (fun _x _y => decide (_x %s _y)) %s %s" % (t, lean_type(MASK), PV, op, a.term, b.term))
            return E(t, MASK)
        if a.ty == ARR and b.ty in (RAT, LIT):
            return E("(%smapB (fun _x => decide (_x %s %s)) %s)" % (PV, op, coerce(b, RAT, node), a.term), MASK)
        if b.ty == ARR and a.ty in (RAT, LIT):
            return E("(%smapB (fun _x => decide (%s %s _x)) %s)" % (PV, coerce(a, RAT, node), op, b.term), MASK)
        t = self.scalar_pair(a, b, node)
        if t in (SHAPE, BOOL) and op not in ("=", "≠"):
            raise Unsupported("ordering of %s" % show_type(t), node)
        return E("(decide (%s %s %s))" % (coerce(a, t, node), op, coerce(b, t, node)), BOOL)

    def boolop(self, node, env, binds):
        is_or = isinstance(node.op, ast.Or)
        parts = []
        for v in node.values:
            bb = []
            c = self.cond(v, env, bb)
            parts.append((bb, c))
        # fold from the right; the first operand's binds are evaluated unconditionally
        bb, term = parts[-1]
        for pb, pc in reversed(parts[:-1]):
            if bb:
                t = self.fresh()
                inner = "(do %s; pure %s)" % ("; ".join(bb), term)
                if is_or:
                    line = "let %s : Bool ← (if %s then pure true else %s)" % (t, pc, inner)
                else:
                    line = "let %s : Bool ← (if %s then %s else pure false)" % (t, pc, inner)
                bb, term = pb + [line], t
            else:
                bb, term = pb, "(%s %s %s)" % (pc, "||" if is_or else "&&", term)
        binds += bb
        return E(term, BOOL)

    def arr_arg(self, call, env, binds, what):
        if len(call.args) != 1 or call.keywords:
            raise Unsupported("%s takes one array here" % what, call)
        return self.expr(call.args[0], env, binds)

    def expr(self, node, env, binds, stmt=False):
        if isinstance(node, ast.Constant):
            return self.literal(node)
        if isinstance(node, ast.Name):
            if node.id in env:
                t = env[node.id]
                return E(ident(node.id), t)
            ty, term = self.m.constant(node.id, node)
            return E("Mir.GenV.%s.%s" % (ident(self.m.name), ident(node.id)), ty)
        if isinstance(node, ast.Compare):
            return self.compare(node, env, binds)
        if isinstance(node, ast.BoolOp):
            return self.boolop(node, env, binds)
        if isinstance(node, ast.UnaryOp) and isinstance(node.op, ast.Not):
            c = self.cond(node.operand, env, binds)
            return E("(!%s)" % c, BOOL)
        if isinstance(node, ast.BinOp):
            a = self.expr(node.left, env, binds)
            b = self.expr(node.right, env, binds)
            if isinstance(node.op, ast.Sub) and a.ty == ARR and b.ty == ARR:
                t = self.fresh()
                binds.append("let %s : Mir.Arr ← %ssub %s %s" % (t, PV, a.term, b.term))
                return E(t, ARR)
            if isinstance(node.op, (ast.Sub, ast.BitOr, ast.BitAnd)) and a.ty == OPAQUE and b.ty == OPAQUE:
                return E(None, OPAQUE)
            raise Unsupported("operator %s on %s and %s" % (type(node.op).__name__, show_type(a.ty), show_type(b.ty)), node)
        if isinstance(node, ast.Attribute):
            v = self.expr(node.value, env, binds)
            if v.ty == ARR and node.attr in ("ndim", "size"):
                return E("(Mir.Arr.%s %s)" % (node.attr, v.term), NAT)
            if v.ty == SRC and node.attr in ("ndim", "size"):
                return E("(Mir.Validate.Src.%s %s)" % (node.attr, v.term), NAT)
            if v.ty in (ARR, SRC) and node.attr == "shape":
                return E("%s.shape" % v.term, SHAPE)
            raise Unsupported("attribute .%s of %s" % (node.attr, show_type(v.ty)), node)
        if isinstance(node, ast.Subscript):
            return self.subscript(node, env, binds)
        if isinstance(node, ast.Call):
            return self.call(node, env, binds, stmt)
        if isinstance(node, ast.ListComp):
            return self.listcomp(node, env, binds)
        raise Unsupported("expression %s" % type(node).__name__, node)

    @staticmethod
    def nat_literal(n):
        if isinstance(n, ast.Constant) and type(n.value) is int and n.value >= 0:
            return n.value
        return None

    def subscript(self, node, env, binds):
        sl = node.slice
        base = node.value
        # x.shape[k]
        if isinstance(base, ast.Attribute) and base.attr == "shape":
            v = self.expr(base.value, env, binds)
            k = self.nat_literal(sl)
            if k is None:
                raise Unsupported("shape index that is not a literal natural", node)
            t = self.fresh()
            if v.ty == ARR:
                binds.append("let %s : Nat ← %sshapeAt %s %d" % (t, PV, v.term, k))
                return E(t, NAT)
            if v.ty == SRC and k == 0:
                binds.append("let %s : Nat ← Mir.Validate.Src.shape0 %s" % (t, v.term))
                return E(t, NAT)
            raise Unsupported("shape[%d] of %s" % (k, show_type(v.ty)), node)
        v = self.expr(base, env, binds)

        def is_slice(s, lo, hi):
            if not isinstance(s, ast.Slice) or s.step is not None:
                return False
            def val(x):
                if x is None:
                    return None
                if isinstance(x, ast.Constant) and type(x.value) is int:
                    return x.value
                if isinstance(x, ast.UnaryOp) and isinstance(x.op, ast.USub) and isinstance(x.operand, ast.Constant) \
                        and type(x.operand.value) is int:
                    return -x.operand.value
                return "?"
            return val(s.lower) == lo and val(s.upper) == hi
        if v.ty == ARR:
            t = self.fresh()
            if is_slice(sl, 1, None):
                binds.append("let %s : Mir.Arr ← %stail1 %s" % (t, PV, v.term))
                return E(t, ARR)
            if is_slice(sl, None, -1):
                binds.append("let %s : Mir.Arr ← %sinit1 %s" % (t, PV, v.term))
                return E(t, ARR)
            if isinstance(sl, ast.Tuple) and len(sl.elts) == 2 and is_slice(sl.elts[0], None, None) \
                    and self.nat_literal(sl.elts[1]) is not None:
                binds.append("let %s : Mir.Arr ← %scol %s %d" % (t, PV, v.term, self.nat_literal(sl.elts[1])))
                return E(t, ARR)
            raise Unsupported("array indexing %s" % ast.unparse(node), node)
        if v.ty[0] == "list":
            k = self.nat_literal(sl)
            if k is not None:
                t = self.fresh()
                binds.append("let %s : %s ← %slistGet %s %d" % (t, lean_type(v.ty[1]), PV, v.term, k))
                return E(t, v.ty[1])
            if is_slice(sl, 1, None):
                return E("(List.drop 1 %s)" % v.term, v.ty)
            raise Unsupported("list indexing %s" % ast.unparse(node), node)
        raise Unsupported("indexing of %s" % show_type(v.ty), node)

    def listcomp(self, node, env, binds):
        e2 = dict(env)
        gens = []
        for g in node.generators:
            if g.ifs or g.is_async or not isinstance(g.target, ast.Name):
                raise Unsupported("comprehension with a filter / a structured target", node)
            bb = []
            it = self.expr(g.iter, e2, bb)
            if bb or it.ty[0] != "list":
                raise Unsupported("comprehension over %s" % show_type(it.ty), node)
            e2[g.target.id] = it.ty[1]
            gens.append((g.target.id, it))
        bb = []
        elt = self.expr(node.elt, e2, bb)
        if bb or elt.ty in (LIT, OPAQUE):
            raise Unsupported("comprehension element", node)
        v, it = gens[-1]
        term = "(List.map (fun (%s : %s) => %s) %s)" % (ident(v), lean_type(it.ty[1]), elt.term, it.term)
        for v, it in reversed(gens[:-1]):
            term = "(List.flatMap (fun (%s : %s) => %s) %s)" % (ident(v), lean_type(it.ty[1]), term, it.term)
        return E(term, LST(elt.ty))

    def resolve(self, func):
        """-> (module name, function name) of a call target, or None"""
        if isinstance(func, ast.Name):
            if func.id in self.m.fns:
                return (self.m.name, func.id)
            if func.id in self.m.name_alias:
                return self.m.name_alias[func.id]
            return None
        if isinstance(func, ast.Attribute) and isinstance(func.value, ast.Name) and func.value.id in self.m.mod_alias:
            mod = self.m.mod_alias[func.value.id]
            if mod not in ("numpy", "warnings"):
                return (mod, func.attr)
        return None

    def call(self, node, env, binds, stmt=False):
        d = dotted(node.func)
        np_alias = [k for k, v in self.m.mod_alias.items() if v == "numpy"]
        npname = None
        if d and "." in d and d.split(".", 1)[0] in np_alias and isinstance(node.func.value, ast.Name):
            npname = d.split(".", 1)[1]
        # ---- builtins
        if d == "len" and isinstance(node.func, ast.Name) and "len" not in env:
            if len(node.args) != 1 or node.keywords:
                raise Unsupported("len(...) arguments", node)
            v = self.expr(node.args[0], env, binds)
            if v.ty == ARR:
                t = self.fresh()
                binds.append("let %s : Nat ← Mir.Arr.len %s" % (t, v.term))
                return E(t, NAT)
            if v.ty == LENLIST:
                return E(v.term, NAT)
            if v.ty[0] == "list":
                return E("(List.length %s)" % v.term, NAT)
            raise Unsupported("len of %s" % show_type(v.ty), node)
        if d == "isinstance" and isinstance(node.func, ast.Name):
            if len(node.args) == 2 and dotted(node.args[1]) in [a + ".ndarray" for a in np_alias]:
                v = self.expr(node.args[0], env, binds)
                if v.ty == ARR:
                    return E("(%sisNdarray %s)" % (PV, v.term), BOOL)
            raise Unsupported("isinstance other than (<array parameter>, np.ndarray)", node)
        if d == "set" and isinstance(node.func, ast.Name) and len(node.args) == 1 and not node.keywords:
            v = self.expr(node.args[0], env, binds)
            if v.ty == OPAQUE:
                return E(None, OPAQUE)
            raise Unsupported("set(...) of %s" % show_type(v.ty), node)
        # ---- numpy functions
        if npname is not None:
            if npname in ("any", "all"):
                v = self.arr_arg(node, env, binds, d)
                if v.ty != MASK:
                    raise Unsupported("%s of %s" % (d, show_type(v.ty)), node)
                return E("(%sMask.%s %s)" % (PV, npname, v.term), BOOL)
            if npname in ("max", "min", "amax", "amin"):
                v = self.arr_arg(node, env, binds, d)
                if v.ty != ARR:
                    raise Unsupported("%s of %s" % (d, show_type(v.ty)), node)
                t = self.fresh()
                binds.append("let %s : Rat ← %sa%s %s" % (t, PV, npname[-3:], v.term))
                return E(t, RAT)
            if npname == "sum":
                v = self.arr_arg(node, env, binds, d)
                if v.ty != ARR:
                    raise Unsupported("%s of %s" % (d, show_type(v.ty)), node)
                return E("(%sasum %s)" % (PV, v.term), RAT)
            if npname in ("abs", "absolute"):
                v = self.arr_arg(node, env, binds, d)
                if v.ty != ARR:
                    raise Unsupported("%s of %s" % (d, show_type(v.ty)), node)
                return E("(%sabs %s)" % (PV, v.term), ARR)
            if npname == "diff":
                v = self.arr_arg(node, env, binds, d)
                if v.ty != ARR:
                    raise Unsupported("%s of %s" % (d, show_type(v.ty)), node)
                t = self.fresh()
                binds.append("let %s : Mir.Arr ← %sdiff %s" % (t, PV, v.term))
                return E(t, ARR)
            if npname == "isfinite":
                v = self.arr_arg(node, env, binds, d)
                if v.ty != ARR:
                    raise Unsupported("%s of %s" % (d, show_type(v.ty)), node)
                return E("(%sisfinite %s)" % (PV, v.term), MASK)
            if npname == "logical_or":
                if len(node.args) != 2 or node.keywords:
                    raise Unsupported("np.logical_or arguments", node)
                a = self.expr(node.args[0], env, binds)
                b = self.expr(node.args[1], env, binds)
                if a.ty != MASK or b.ty != MASK:
                    raise Unsupported("np.logical_or of %s and %s" % (show_type(a.ty), show_type(b.ty)), node)
                t = self.fresh()
                binds.append("let %s : %s ← %smaskOr %s %s" % (t, lean_type(MASK), PV, a.term, b.term))
                return E(t, MASK)
            if npname == "allclose":
                if len(node.args) != 2 or node.keywords:
                    raise Unsupported("np.allclose with tolerances", node)
                a = self.expr(node.args[0], env, binds)
                b = self.expr(node.args[1], env, binds)
                if a.ty not in (RAT, LIT) or b.ty not in (RAT, LIT):
                    raise Unsupported("np.allclose of %s and %s" % (show_type(a.ty), show_type(b.ty)), node)
                return E("(%sallclose %s %s)" % (VAL, coerce(a, RAT, node), coerce(b, RAT, node)), BOOL)
            raise Unsupported("NumPy function %s" % d, node)
        # ---- methods
        if isinstance(node.func, ast.Attribute) and self.resolve(node.func) is None:
            meth = node.func.attr
            if node.args or node.keywords:
                raise Unsupported("method .%s with arguments" % meth, node)
            v = self.expr(node.func.value, env, binds)
            if v.ty == MASK and meth in ("any", "all"):
                return E("(%sMask.%s %s)" % (PV, meth, v.term), BOOL)
            if v.ty == ARR and meth in ("max", "min"):
                t = self.fresh()
                binds.append("let %s : Rat ← %sa%s %s" % (t, PV, meth, v.term))
                return E(t, RAT)
            if v.ty == ARR and meth == "sum":
                return E("(%sasum %s)" % (PV, v.term), RAT)
            raise Unsupported("method .%s of %s" % (meth, show_type(v.ty)), node)
        # ---- externs and translated functions
        tgt = self.resolve(node.func)
        if tgt is None:
            raise Unsupported("call of %s" % (d or ast.unparse(node.func)), node)
        if tgt == ("util", "generate_labels"):
            v = self.arr_arg(node, env, binds, d)
            if v.ty != ARR:
                raise Unsupported("util.generate_labels of %s" % show_type(v.ty), node)
            t = self.fresh()
            binds.append("let %s : Nat ← %sgenerateLabels %s" % (t, PV, v.term))
            return E(t, LENLIST)
        if tgt == ("util", "intervals_to_boundaries"):
            v = self.arr_arg(node, env, binds, d)
            if v.ty != ARR:
                raise Unsupported("util.intervals_to_boundaries of %s" % show_type(v.ty), node)
            return E(None, OPAQUE)
        if tgt == ("separation", "_any_source_silent"):
            v = self.arr_arg(node, env, binds, d)
            if v.ty != SRC:
                raise Unsupported("_any_source_silent of %s" % show_type(v.ty), node)
            t = self.fresh()
            binds.append("let %s : Bool ← Mir.Validate.anySourceSilent %s" % (t, v.term))
            return E(t, BOOL)
        sig = self.ctx.sigs.get(tgt)
        if sig is None:
            raise Unsupported("call of %s.%s, which is not a translated function" % tgt, node)
        slots = [None] * len(sig.params)
        if len(node.args) > len(slots):
            raise Unsupported("too many arguments for %s.%s" % tgt, node)
        for i, a in enumerate(node.args):
            if isinstance(a, ast.Starred):
                raise Unsupported("*args in a call", node)
            slots[i] = a
        pnames = [p for p, _, _ in sig.params]
        for k in node.keywords:
            if k.arg is None or k.arg not in pnames or slots[pnames.index(k.arg)] is not None:
                raise Unsupported("keyword argument %s of %s.%s" % (k.arg, tgt[0], tgt[1]), node)
            slots[pnames.index(k.arg)] = k.value
        # Python evaluates positional arguments, then keywords, in source order
        order = list(node.args) + [k.value for k in node.keywords]
        vals = {}
        for a in order:
            vals[id(a)] = self.expr(a, env, binds)
        args = []
        for (p, ty, dflt), a in zip(sig.params, slots):
            if a is None:
                if dflt is None:
                    raise Unsupported("missing argument %s of %s.%s" % (p, tgt[0], tgt[1]), node)
                args.append(dflt.term)
            else:
                args.append(coerce(vals[id(a)], ty, node))
        term = "%s %s" % (sig.lean, " ".join(args))
        if stmt and sig.ret == UNIT:
            return E(term, UNIT)
        t = self.fresh()
        binds.append("let %s : %s ← %s" % (t, lean_type(sig.ret), term))
        if stmt:
            return None
        return E(t, sig.ret)


class Ctx:
    def __init__(self):
        self.sigs = {}


HEADER = """import MirModel.PyVal
/-!
  GENERATED by harness/translate/validators.py from mir_eval's source — do not edit.
  One shallow definition per translated input validator (`Mir.GenV.<module>.<function>`), over `Mir.PyV` and `Mir.Arr`.
  Regenerated from the working tree on every run of ./check; `MirProofs/Props/C14_GenVal.lean` proves each of them equal
  to the hand-written validator model (`MirModel/Validate.lean`) for ALL arguments.  `warnings.warn(...)` is skipped.
-/
set_option linter.unusedVariables false
"""

DECODERS = {
    ARR: "Mir.Validate.asArr? %s", RAT: "Val.asRat? %s", BOOL: "Val.asBool? %s", NAT: "Val.asNat? %s",
    LENLIST: "Val.asNat? %s", LST(ARR): "Mir.Validate.asArrs? %s", PATTERNS: "Mir.Validate.asPatterns? %s",
    SRC: "Mir.Validate.asSrc? %s",
}


def translate_all(repo):
    """-> (lean text, {(module, function): Sig}, problems [(module, function, detail)])"""
    ctx = Ctx()
    mods, problems, emitted = {}, [], []      # emitted: [(module name, function, lines)]
    for modname, fname in WANTED:
        if modname not in mods:
            path = os.path.join(repo, "mir_eval", modname + ".py")
            try:
                mods[modname] = Module(modname, open(path, encoding="utf-8").read())
            except (OSError, SyntaxError) as e:
                mods[modname] = None
                problems.append((modname, fname, "cannot read/parse %s: %s" % (path, e)))
                continue
        m = mods[modname]
        if m is None:
            problems.append((modname, fname, "module %s unreadable" % modname))
            continue
        fn = m.fns.get(fname)
        if fn is None:
            problems.append((modname, fname, "no (single) top-level definition of %s" % fname))
            continue
        nconst = len(m.const_order)
        try:
            sig, lines = FnTr(ctx, m, fn).translate()
        except Unsupported as e:
            problems.append((modname, fname, e.detail))
            for c in m.const_order[nconst:]:
                del m.consts[c]
            del m.const_order[nconst:]
            continue
        ctx.sigs[(modname, fname)] = sig
        consts = [(c, m.consts[c]) for c in m.const_order[nconst:]]
        emitted.append((modname, fname, consts, lines))
    L = [HEADER]
    cur = None
    for modname, fname, consts, lines in emitted:
        if modname != cur:
            if cur is not None:
                L += ["end Mir.GenV.%s" % ident(cur), ""]
            L += ["namespace Mir.GenV.%s" % ident(modname), ""]
            cur = modname
        for c, (ty, term) in consts:
            L += ["/-- `%s.%s` (module-level constant) -/" % (modname, c),
                  "def %s : %s := %s" % (ident(c), lean_type(ty), term), ""]
        L += lines + [""]
    if cur is not None:
        L += ["end Mir.GenV.%s" % ident(cur), ""]
    rows = []
    for modname, fname, consts, lines in emitted:
        sig = ctx.sigs[(modname, fname)]
        try:
            decs = [DECODERS[t] for _, t, _ in sig.params]
        except KeyError:
            continue
        vs = ["a%d" % i for i in range(len(decs))]
        if sig.ret == UNIT:
            res = "Mir.Validate.done (%s %s)" % (sig.lean, " ".join(vs))
        elif sig.ret == NAT:
            res = "some (Except.map Val.ofNat (%s %s))" % (sig.lean, " ".join(vs))
        else:
            continue
        rows.append("  | \"gen.validators\", Val.str \"%s.%s\" :: [%s] => do\n%s      %s" % (
            modname, fname, ", ".join(vs), "".join("      let %s ← %s\n" % (v, d % v) for v, d in zip(vs, decs)), res))
    L += ["namespace Mir.Gen.Validators", "",
          "/-- names of the translated validators (in emission order) -/",
          "def names : List String := [%s]" % ", ".join('"%s.%s"' % (mn, fn) for mn, fn, _, _ in emitted), "",
          "/-- protocol op `gen.validators <\"module.function\"> <args...>` (arrays as [shape, data]) -/",
          "def handler : Handler := fun fn args =>", "  match fn, args with"] + rows + ["  | _, _ => none", "",
          "end Mir.Gen.Validators"]
    return "\n".join(L) + "\n", ctx.sigs, problems


def generate(repo, outdir):
    text, sigs, problems = translate_all(repo)
    os.makedirs(outdir, exist_ok=True)
    write_if_changed(os.path.join(outdir, "Validators.lean"), text)
    obligations = ["Mir.GenV.%s.%s" % (mn, fn) for mn, fn in WANTED if (mn, fn) in sigs]
    probs = [{"name": "validators: %s.%s" % (mn, fn), "detail": "outside the translated subset: " + d}
             for mn, fn, d in problems]
    return obligations, probs


if __name__ == "__main__":
    repo = sys.argv[1] if len(sys.argv) > 1 else "/repo"
    text, sigs, problems = translate_all(repo)
    sys.stdout.write(text)
    for p in problems:
        sys.stderr.write("PROBLEM %s.%s: %s\n" % p)
