import MirModel
import MirGen
open Mir

/-- a regex sent by the harness (the translator's own conversion of Python's parse tree, harness/translate/regex.py
    `wire`): ["lit", cp] | ["cls", neg, [[lo, hi], …]] | ["seq", a, b] | ["alt", a, b] | ["star", a] | ["rep", a, lo, hi] |
    ["eps"] | ["any"] | ["bos"] | ["eosNl"] | ["eos"] -/
partial def regexOfVal : Val → Option Rx.Regex
  | .list [.str "eps"] => some .eps
  | .list [.str "any"] => some .any
  | .list [.str "bos"] => some .bos
  | .list [.str "eosNl"] => some .eosNl
  | .list [.str "eos"] => some .eos
  | .list [.str "lit", c] => c.asNat?.map fun n => .lit (Char.ofNat n)
  | .list [.str "cls", .bool neg, .list rs] => do
      let rs ← rs.mapM fun r =>
        match r with
        | .list [lo, hi] => do
            let lo ← lo.asNat?; let hi ← hi.asNat?
            some (Char.ofNat lo, Char.ofNat hi)
        | _ => none
      some (.cls neg rs)
  | .list [.str "seq", a, b] => do some (.seq (← regexOfVal a) (← regexOfVal b))
  | .list [.str "alt", a, b] => do some (.alt (← regexOfVal a) (← regexOfVal b))
  | .list [.str "star", a] => do some (.star (← regexOfVal a))
  | .list [.str "rep", a, lo, hi] => do some (.rep (← regexOfVal a) (← lo.asNat?) (← hi.asNat?))
  | _ => none

/-- `chord.re_match s` / `chord.re_fullmatch s`: the regenerated `CHORD_RE` run by the regex matcher;
    `chord.re_match_dollar s`: the same with every `\Z` replaced by `$`;
    `rx.match r s` / `rx.fullmatch r s`: the matcher on an arbitrary regex (validates the regex semantics and the
    translator's reading of Python's parse tree against `re` on random patterns) -/
def chordReHandler : Handler := fun fn args =>
  match fn, args with
  | "chord.re_match", [s] => (s.asStr?).map fun s => .ok (.bool (Rx.matchPrefix Gen.chordRe s.toList))
  | "chord.re_fullmatch", [s] => (s.asStr?).map fun s => .ok (.bool (Rx.fullMatch Gen.chordRe s.toList))
  | "chord.re_match_dollar", [s] =>
      (s.asStr?).map fun s => .ok (.bool (Rx.matchPrefix Gen.chordRe.dollarize s.toList))
  | "rx.match", [r, s] => do
      let r ← regexOfVal r; let s ← s.asStr?
      some (.ok (.bool (Rx.matchPrefix r s.toList)))
  | "rx.fullmatch", [r, s] => do
      let r ← regexOfVal r; let s ← s.asStr?
      some (.ok (.bool (Rx.fullMatch r s.toList)))
  | _, _ => none

/-- handlers of the REGENERATED definitions (`gen.*` ops), one per line (several branches append here); they are asked
    first: a request that falls through the whole hand-model list costs ~15 ms -/
def genHandlers : List Handler := [
  Mir.Gen.Scalars.handler,
  Mir.Gen.IOLoad.handler,
  Mir.Gen.ChordFns.handler,
  Mir.Gen.SegIndex.handler,
  Mir.Gen.UtilInt.handler,
  Mir.Gen.Multipitch.handler,
  Mir.Gen.EvGlue.handler,
  Mir.Gen.ChordCmp.handler,
  Mir.Gen.Hierarchy.handler,
  Mir.Gen.ChordSeg.handler,
  Mir.Gen.TrMatch.handler,
  Mir.Gen.TrVel.handler,
  Mir.PyTV.handler,
  Mir.Gen.Melody.handler,
  Mir.PyMel.handler,
  Mir.Gen.Validators.handler,
  Mir.PyV.handler,
  Mir.Gen.SepCrit.handler,
  Mir.Gen.Pattern.handler,
  Mir.PyPat.handler,
  Mir.Gen.Beat.handler,
  Mir.PyBeat.handler,
  Mir.Gen.Alignment.handler,
  Mir.Gen.EvalGlue.handler,
  Mir.PyAl.handler
]

def handlers : List Handler := [chordReHandler, Scores.handler, Matching.handler, HitMetric.handler, Chord.handler, Multipitch.handler, Beat.handler, Melody.handler, Intervals.handler, Pattern.handler, Onset.handler, Boundary.handler, Tempo.handler, Alignment.handler, IO.handler, Transcription.handler, Hierarchy.handler, Separation.handler, SeparationLS.handler, EvalProg.handler Gen.evalPrograms Gen.sigs EvalSpec.specs, Validate.handler, Segment.handler, ChordCompare.handler, ChordEval.handler, Key.handler, Effects.handlerFor MirGen.Effects.prog MirGen.Effects.names MirGen.Effects.table]

def dispatch (fn : String) (args : List Val) : Option (Py Val) :=
  (genHandlers ++ handlers).firstM fun h => h fn args

def processLine (line : String) : String :=
  let toks := (line.trimAscii.toString.splitOn " ").filter (· ≠ "")
  match toks with
  | id :: fn :: rest =>
      match Val.parseAll rest with
      | some args => id ++ " " ++ renderResult (dispatch fn args)
      | none => id ++ " bad-op"
  | _ => "? bad-op"

partial def loop (h : IO.FS.Stream) (out : IO.FS.Stream) : IO Unit := do
  let line ← h.getLine
  if line.isEmpty then return ()
  out.putStrLn (processLine line)
  loop h out

def main : IO Unit := do
  let stdin ← IO.getStdin
  let stdout ← IO.getStdout
  loop stdin stdout
