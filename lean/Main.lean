import MirModel
import MirGen
open Mir

def handlers : List Handler := [Scores.handler, Matching.handler, HitMetric.handler, Chord.handler, Multipitch.handler, Beat.handler, Melody.handler, Intervals.handler, Pattern.handler, Onset.handler, Boundary.handler, Tempo.handler, Alignment.handler, IO.handler, Transcription.handler, Hierarchy.handler, Separation.handler, EvalProg.handler Gen.evalPrograms Gen.sigs EvalSpec.specs, Validate.handler, Segment.handler, ChordCompare.handler, ChordEval.handler, Key.handler, Effects.handlerFor MirGen.Effects.prog MirGen.Effects.names MirGen.Effects.table]

def dispatch (fn : String) (args : List Val) : Option (Py Val) :=
  handlers.firstM fun h => h fn args

def processLine (line : String) : String :=
  let toks := (line.trimAscii.toString.splitOn " ").filter (· ≠ "")
  match toks with
  | id :: fn :: rest =>
      match Val.parseAll rest with
      | some args => id ++ " " ++ renderResult (dispatch fn args)
      | none => id ++ " bad-op"
  | _ => "? bad-op"

partial def loop (h : IO.FS.Stream) (out : IO.FS.Stream) : IO Unit := do
  let line ← h.getLine
  if line.isEmpty then return ()
  out.putStrLn (processLine line)
  loop h out

def main : IO Unit := do
  let stdin ← IO.getStdin
  let stdout ← IO.getStdout
  loop stdin stdout
