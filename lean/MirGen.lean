import MirGen.Tables
import MirGen.Signatures
import MirGen.EvalPrograms
