import MirGen.Tables
