import MirGen.Tables
import MirGen.Signatures
import MirGen.EvalPrograms
import MirGen.Effects
import MirGen.ChordRe
import MirGen.Scalars
import MirGen.Defaults
import MirGen.SegIndex
