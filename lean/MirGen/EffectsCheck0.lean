import MirGen.Effects
/-! GENERATED — do not edit. -/
set_option maxRecDepth 100000
namespace MirGen.Effects
open Mir.Effects
theorem check0 : validFrom prog table slice0 0 = true := by decide +kernel
end MirGen.Effects
