import MirGen.Effects
/-! GENERATED — do not edit. -/
set_option maxRecDepth 100000
namespace MirGen.Effects
open Mir.Effects
theorem check1 : validFrom prog table slice1 24 = true := by decide +kernel
end MirGen.Effects
