import MirGen.Effects
/-! GENERATED — do not edit. -/
set_option maxRecDepth 100000
namespace MirGen.Effects
open Mir.Effects
theorem check2 : validFrom prog table slice2 54 = true := by decide +kernel
end MirGen.Effects
