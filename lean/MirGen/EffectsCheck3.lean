import MirGen.Effects
/-! GENERATED — do not edit. -/
set_option maxRecDepth 100000
namespace MirGen.Effects
open Mir.Effects
theorem check3 : validFrom prog table slice3 77 = true := by decide +kernel
end MirGen.Effects
