import MirGen.Effects
/-! GENERATED — do not edit. -/
set_option maxRecDepth 100000
namespace MirGen.Effects
open Mir.Effects
theorem check4 : validFrom prog table slice4 106 = true := by decide +kernel
end MirGen.Effects
