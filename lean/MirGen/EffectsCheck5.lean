import MirGen.Effects
/-! GENERATED — do not edit. -/
set_option maxRecDepth 100000
namespace MirGen.Effects
open Mir.Effects
theorem check5 : validFrom prog table slice5 130 = true := by decide +kernel
end MirGen.Effects
