import MirGen.Effects
/-! GENERATED — do not edit. -/
set_option maxRecDepth 100000
namespace MirGen.Effects
open Mir.Effects
theorem check6 : validFrom prog table slice6 147 = true := by decide +kernel
end MirGen.Effects
