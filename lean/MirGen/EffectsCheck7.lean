import MirGen.Effects
/-! GENERATED — do not edit. -/
set_option maxRecDepth 100000
namespace MirGen.Effects
open Mir.Effects
theorem check7 : validFrom prog table slice7 163 = true := by decide +kernel
end MirGen.Effects
