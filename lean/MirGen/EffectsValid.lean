import MirGen.Effects
import MirGen.EffectsCheck0
import MirGen.EffectsCheck1
import MirGen.EffectsCheck2
import MirGen.EffectsCheck3
import MirGen.EffectsCheck4
import MirGen.EffectsCheck5
import MirGen.EffectsCheck6
import MirGen.EffectsCheck7
/-! GENERATED — do not edit.  The proposed table is a post-fixpoint of the analysis. -/
namespace MirGen.Effects
open Mir.Effects
theorem table_valid : validTable prog table = true := by
  show validFrom prog table [slice0, slice1, slice2, slice3, slice4, slice5, slice6, slice7].flatten 0 = true
  rw [validFrom_flatten]
  simp only [validSlices, Bool.and_eq_true, and_true]
  exact ⟨check0, check1, check2, check3, check4, check5, check6, check7⟩
end MirGen.Effects
