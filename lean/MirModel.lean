import MirModel.Basic
import MirModel.Scores
