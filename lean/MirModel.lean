import MirModel.Basic
import MirModel.Scores
import MirModel.Matching
import MirModel.HitMetric
