import MirModel.Basic
import MirModel.Scores
import MirModel.Matching
import MirModel.HitMetric
import MirModel.Chord.Grammar
import MirModel.Chord.Split
import MirModel.Chord.Encode
import MirModel.Multipitch
