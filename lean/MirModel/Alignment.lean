import MirModel.MiscStats
/-
  MirModel.Alignment — `mir_eval.alignment`
  (validate, absolute_error, percentage_correct, percentage_correct_segments, karaoke_perceptual_metric, evaluate).

  Everything is exact `Rat` except the perceptual metric (skew-normal pdf: `exp`, `erf`), which is written
  once over an abstract record of transcendental operations `TrOps α` and executed at `Float`.
-/
namespace Mir.Alignment
open Mir.MiscStats

/-- `alignment.validate` for 1-d arrays: reference non-empty, equal sizes, both non-decreasing, both ≥ 0 -/
def validate (ref est : List Rat) : Py Unit :=
  if ref.isEmpty then .error .valueError
  else if est.length ≠ ref.length then .error .valueError
  else if !(ref.zip ref.tail).all (fun p => decide (0 ≤ p.2 - p.1)) then .error .valueError
  else if !(est.zip est.tail).all (fun p => decide (0 ≤ p.2 - p.1)) then .error .valueError
  else if !ref.all (fun t => decide (0 ≤ t)) then .error .valueError
  else if !est.all (fun t => decide (0 ≤ t)) then .error .valueError
  else .ok ()

/-- `np.abs(reference_timestamps - estimated_timestamps)` -/
def deviations (ref est : List Rat) : List Rat := (ref.zip est).map fun p => absQ (p.1 - p.2)

/-- `alignment.absolute_error` → `(median, mean)` of the absolute deviations (`none` = NaN, unreachable
    after validation) -/
def absoluteError (ref est : List Rat) : Py (Option Rat × Option Rat) := do
  validate ref est
  let d := deviations ref est
  pure (median? d, mean? d)

/-- `alignment.percentage_correct(ref, est, window)` = `np.mean(deviations <= window)` -/
def percentageCorrect (ref est : List Rat) (window : Rat := 3 / 10) : Py (Option Rat) := do
  validate ref est
  let d := deviations ref est
  pure (mean? (d.map fun x => if x ≤ window then 1 else 0))

/-- MIREX-style segments `(t[:-1], t[1:])` as rows `(start, end)` -/
def segsMirex (t : List Rat) : List (Rat × Rat) := t.dropLast.zip t.tail

/-- segments `([0] ++ t, t ++ [duration])` as rows `(start, end)` -/
def segsDur (t : List Rat) (d : Rat) : List (Rat × Rat) := ((0 : Rat) :: t).zip (t ++ [d])

/-- `np.sum(np.maximum(np.minimum(ref_ends, est_ends) - np.maximum(ref_starts, est_starts), 0))` -/
def overlapDur (R E : List (Rat × Rat)) : Rat :=
  ((R.zip E).map fun p => max (min p.1.2 p.2.2 - max p.1.1 p.2.1) 0).sum

/-- `np.max` of a non-empty array -/
def maxOf : Rat → List Rat → Rat
  | x, [] => x
  | x, y :: ys => max x (maxOf y ys)

/-- `alignment.percentage_correct_segments(ref, est, duration)` -/
def percentageCorrectSegments (ref est : List Rat) (duration : Option Rat := none) : Py Rat := do
  validate ref est
  match duration with
  | some d =>
      if d ≤ 0 then .error .valueError
      else match ref, est with
        | r0 :: rs, e0 :: es =>
            if d < maxOf r0 rs then .error .valueError
            else if d < maxOf e0 es then .error .valueError
            else pure (overlapDur (segsDur ref d) (segsDur est d) / d)
        | _, _ => .error .valueError     -- unreachable: validation rejects empty input
  | none =>
      match ref.getLast?, ref.head? with
      | some last, some first =>
          let d := last - first
          if d ≤ 0 then .error .valueError
          else pure (overlapDur (segsMirex ref) (segsMirex est) / d)
      | _, _ => .error .valueError       -- unreachable: validation rejects empty input

/-! ### perceptual metric (skew-normal pdf) -/

/-- the transcendental vocabulary of the perceptual metric -/
structure TrOps (α : Type) where
  ofRat : Rat → α
  exp : α → α
  erf : α → α
  sqrt2 : α      -- √2
  sqrt2pi : α    -- √(2π)

def skewness : Rat := 112244251 / 100000000
def localisation : Rat := -22270315 / 100000000
def scale : Rat := 29779424 / 100000000
def normalisation : Rat := 16857 / 10000

/-- `(1 / normalisation_factor) * skewnorm.pdf(offset, skewness, loc, scale)` with
    `skewnorm.pdf(x, a, loc, s) = 2 φ(z) Φ(a z) / s`, `z = (x - loc) / s` -/
def perceptualScore {α : Type} [Add α] [Sub α] [Mul α] [Div α] [Neg α] (o : TrOps α) (offset : α) : α :=
  let z := (offset - o.ofRat localisation) / o.ofRat scale
  let pdf := o.exp (-(z * z) / o.ofRat 2) / o.sqrt2pi
  let cdf := (o.ofRat 1 + o.erf (o.ofRat skewness * z / o.sqrt2)) / o.ofRat 2
  o.ofRat 1 / o.ofRat normalisation * (o.ofRat 2 * pdf * cdf / o.ofRat scale)

/-- sum of the per-timestamp scores -/
def perceptualSum {α : Type} [Add α] [Sub α] [Mul α] [Div α] [Neg α] (o : TrOps α) : List α → α
  | [] => o.ofRat 0
  | x :: xs => perceptualScore o x + perceptualSum o xs

/-- `np.mean(perceptual_scores)` over the offsets `est - ref` -/
def perceptualMean {α : Type} [Add α] [Sub α] [Mul α] [Div α] [Neg α] (o : TrOps α) (offsets : List α) : α :=
  perceptualSum o offsets / o.ofRat (offsets.length : Rat)

def ratToFloat (q : Rat) : Float := Float.ofInt q.num / Float.ofNat q.den

/-- `erf` by the all-positive series `2/√π · e^{-x²} Σ 2ⁿ x^{2n+1} / (2n+1)!!` (|x| ≤ 6; ±1 beyond) -/
def erfSeries (x : Float) (terms : Nat) : Float :=
  let x2 := x * x
  let rec go (n : Nat) (k : Nat) (term acc : Float) : Float :=
    match n with
    | 0 => acc
    | n + 1 =>
        let term' := term * 2.0 * x2 / Float.ofNat (2 * k + 3)
        go n (k + 1) term' (acc + term')
  2.0 / Float.sqrt 3.141592653589793 * Float.exp (-x2) * go terms 0 x x

def erfF (x : Float) : Float :=
  if x > 6.0 then 1.0 else if x < -6.0 then -1.0 else erfSeries x 220

def floatOps : TrOps Float where
  ofRat := ratToFloat
  exp := Float.exp
  erf := erfF
  sqrt2 := Float.sqrt 2.0
  sqrt2pi := Float.sqrt (2.0 * 3.141592653589793)

/-- `alignment.karaoke_perceptual_metric` (Float instance) -/
def karaokePerceptualMetric (ref est : List Rat) : Py Float := do
  validate ref est
  pure (perceptualMean floatOps ((ref.zip est).map fun p => ratToFloat (p.2 - p.1)))

/-- `alignment.evaluate(ref, est, **kwargs)`: `window` reaches `percentage_correct`, `duration` reaches
    `percentage_correct_segments`; key order pc, mae, aae, pcs, perceptual -/
def evaluate (ref est : List Rat) (window : Option Rat) (duration : Option Rat) :
    Py (Option Rat × Option Rat × Option Rat × Rat × Float) := do
  let pc ← percentageCorrect ref est (window.getD (3 / 10))
  let ae ← absoluteError ref est
  let pcs ← percentageCorrectSegments ref est duration
  let per ← karaokePerceptualMetric ref est
  pure (pc, ae.1, ae.2, pcs, per)

def handler : Handler := fun fn args =>
  match fn, args with
  | "alignment.validate", [r, e] => do
      let r ← r.asRats?; let e ← e.asRats?
      some ((validate r e).map fun _ => Val.none)
  | "alignment.absolute_error", [r, e] => do
      let r ← r.asRats?; let e ← e.asRats?
      some ((absoluteError r e).map fun s => .list [optVal s.1, optVal s.2])
  | "alignment.percentage_correct", [r, e, w] => do
      let r ← r.asRats?; let e ← e.asRats?; let w ← w.asRat?
      some ((percentageCorrect r e w).map optVal)
  | "alignment.percentage_correct_segments", [r, e, d] => do
      let r ← r.asRats?; let e ← e.asRats?; let d ← d.asOptRat?
      some ((percentageCorrectSegments r e d).map .rat)
  | "alignment.karaoke_perceptual_metric", [r, e] => do
      let r ← r.asRats?; let e ← e.asRats?
      some ((karaokePerceptualMetric r e).map .flt)
  | "alignment.evaluate", [r, e, w, d] => do
      let r ← r.asRats?; let e ← e.asRats?; let w ← w.asOptRat?; let d ← d.asOptRat?
      some ((evaluate r e w d).map fun s =>
        .list [.list [.str "pc", optVal s.1], .list [.str "mae", optVal s.2.1], .list [.str "aae", optVal s.2.2.1],
               .list [.str "pcs", .rat s.2.2.2.1], .list [.str "perceptual", .flt s.2.2.2.2]])
  | _, _ => none

end Mir.Alignment
