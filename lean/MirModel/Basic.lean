/-
  MirModel.Basic — shared types of the executable model (Layer M) and the line protocol.
  No imports outside core Lean: the driver must link as a native executable.
-/

namespace Mir

/-- The small enum Python exceptions are mapped to (messages are never compared). -/
inductive PyErr where
  | valueError | invalidChord | indexError | zeroDivision | typeError | keyError | other
  deriving Repr, DecidableEq, Inhabited

def PyErr.name : PyErr → String
  | .valueError => "ValueError"
  | .invalidChord => "InvalidChord"
  | .indexError => "IndexError"
  | .zeroDivision => "ZeroDivision"
  | .typeError => "TypeError"
  | .keyError => "KeyError"
  | .other => "Other"

/-- Python partiality made explicit. -/
abbrev Py (α : Type) := Except PyErr α

/-- Protocol values (arguments and results). -/
inductive Val where
  | rat (q : Rat)
  | flt (x : Float)
  | str (s : String)
  | bool (b : Bool)
  | none
  | nan
  | inf (neg : Bool)
  | list (xs : List Val)
  deriving Inhabited

namespace Val

def ofInt (i : Int) : Val := .rat (i : Rat)
def ofNat (n : Nat) : Val := .rat (n : Rat)

def hexDigit (n : Nat) : Char :=
  if n < 10 then Char.ofNat (48 + n) else Char.ofNat (87 + n)

def hexOfString (s : String) : String :=
  String.ofList (s.toUTF8.toList.flatMap fun b => [hexDigit (b.toNat / 16), hexDigit (b.toNat % 16)])

def hexVal (c : Char) : Option Nat :=
  if '0' ≤ c ∧ c ≤ '9' then some (c.toNat - 48)
  else if 'a' ≤ c ∧ c ≤ 'f' then some (c.toNat - 87)
  else Option.none

/-- Decode hex to a list of code points (the harness sends one code point per 6 hex digits). -/
def decodeHex6 : List Char → Option (List Char)
  | [] => some []
  | a :: b :: c :: d :: e :: f :: rest => do
      let a ← hexVal a; let b ← hexVal b; let c ← hexVal c
      let d ← hexVal d; let e ← hexVal e; let f ← hexVal f
      let n := ((((a * 16 + b) * 16 + c) * 16 + d) * 16 + e) * 16 + f
      let tl ← decodeHex6 rest
      some (Char.ofNat n :: tl)
  | _ => Option.none

def encodeHex6 (cs : List Char) : String :=
  String.ofList (cs.flatMap fun c =>
    let n := c.toNat
    [hexDigit (n / 1048576 % 16), hexDigit (n / 65536 % 16), hexDigit (n / 4096 % 16),
     hexDigit (n / 256 % 16), hexDigit (n / 16 % 16), hexDigit (n % 16)])

def ratToString (q : Rat) : String :=
  if q.den = 1 then toString q.num else toString q.num ++ "/" ++ toString q.den

partial def render : Val → String
  | .rat q => ratToString q
  | .flt x =>
      if x.isNaN then "nan"
      else if x.isInf then (if x < 0 then "-inf" else "inf")
      else "f:" ++ toString x.toBits
  | .str s => "s:" ++ encodeHex6 s.toList
  | .bool b => if b then "T" else "F"
  | .none => "none"
  | .nan => "nan"
  | .inf neg => if neg then "-inf" else "inf"
  | .list xs => "[ " ++ String.join (xs.map fun v => render v ++ " ") ++ "]"

def parseRat (s : String) : Option Rat :=
  match s.splitOn "/" with
  | [p] => p.toInt?.map fun i => (i : Rat)
  | [p, q] => do
      let p ← p.toInt?
      let q ← q.toNat?
      if q = 0 then Option.none else some (mkRat p q)
  | _ => Option.none

/-- Parse one value from a token list; returns the value and the remaining tokens. -/
partial def parse : List String → Option (Val × List String)
  | [] => Option.none
  | "[" :: rest =>
      let rec go (acc : List Val) (ts : List String) : Option (Val × List String) :=
        match ts with
        | [] => Option.none
        | "]" :: rest => some (.list acc.reverse, rest)
        | ts => match parse ts with
          | some (v, rest) => go (v :: acc) rest
          | Option.none => Option.none
      go [] rest
  | "none" :: rest => some (.none, rest)
  | "nan" :: rest => some (.nan, rest)
  | "inf" :: rest => some (.inf false, rest)
  | "-inf" :: rest => some (.inf true, rest)
  | "T" :: rest => some (.bool true, rest)
  | "F" :: rest => some (.bool false, rest)
  | t :: rest =>
      if t.startsWith "s:" then
        match decodeHex6 (t.drop 2).toString.toList with
        | some cs => some (.str (String.ofList cs), rest)
        | Option.none => Option.none
      else match parseRat t with
        | some q => some (.rat q, rest)
        | Option.none => Option.none

partial def parseAll (ts : List String) : Option (List Val) :=
  match ts with
  | [] => some []
  | ts => match parse ts with
    | some (v, rest) => (parseAll rest).map (v :: ·)
    | Option.none => Option.none

/-! Typed extraction helpers used by the per-module driver glue. -/
def asRat? : Val → Option Rat | .rat q => some q | _ => Option.none
def asInt? : Val → Option Int | .rat q => if q.den = 1 then some q.num else Option.none | _ => Option.none
def asNat? : Val → Option Nat
  | .rat q => if q.den = 1 ∧ 0 ≤ q.num then some q.num.toNat else Option.none | _ => Option.none
def asBool? : Val → Option Bool | .bool b => some b | _ => Option.none
def asStr? : Val → Option String | .str s => some s | _ => Option.none
def asList? : Val → Option (List Val) | .list xs => some xs | _ => Option.none
def asRats? (v : Val) : Option (List Rat) := do (← v.asList?).mapM asRat?
def asInts? (v : Val) : Option (List Int) := do (← v.asList?).mapM asInt?
def asNats? (v : Val) : Option (List Nat) := do (← v.asList?).mapM asNat?
def asStrs? (v : Val) : Option (List String) := do (← v.asList?).mapM asStr?
def asPair? : Val → Option (Val × Val) | .list [a, b] => some (a, b) | _ => Option.none
def asRatPairs? (v : Val) : Option (List (Rat × Rat)) := do
  (← v.asList?).mapM fun p => do
    let (a, b) ← p.asPair?
    some ((← a.asRat?), (← b.asRat?))
def asNatPairs? (v : Val) : Option (List (Nat × Nat)) := do
  (← v.asList?).mapM fun p => do
    let (a, b) ← p.asPair?
    some ((← a.asNat?), (← b.asNat?))
def asOptRat? : Val → Option (Option Rat)
  | .none => some Option.none | .rat q => some (some q) | _ => Option.none

def ofRats (xs : List Rat) : Val := .list (xs.map .rat)
def ofNats (xs : List Nat) : Val := .list (xs.map ofNat)
def ofInts (xs : List Int) : Val := .list (xs.map ofInt)
def ofStrs (xs : List String) : Val := .list (xs.map .str)
def ofRatPairs (xs : List (Rat × Rat)) : Val := .list (xs.map fun (a, b) => .list [.rat a, .rat b])
def ofNatPairs (xs : List (Nat × Nat)) : Val := .list (xs.map fun (a, b) => .list [ofNat a, ofNat b])

end Val

/-- Result of one protocol operation: `none` = unknown op / malformed arguments (`bad-op`). -/
abbrev Handler := String → List Val → Option (Py Val)

def renderResult : Option (Py Val) → String
  | Option.none => "bad-op"
  | some (.ok v) => "ok " ++ v.render
  | some (.error e) => "err " ++ e.name

end Mir
