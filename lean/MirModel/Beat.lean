import MirModel.HitMetric
/-
  MirModel.Beat — `mir_eval.beat` as the code is (Layer M).

  Exact `Rat` everywhere except the two places the code calls `exp` / `log2` (`cemgil`,
  `information_gain`): those are written once over an explicit operation record `TOps α`, instantiated at
  `Float` here (driver) and at `ℝ` in `MirProofs/Lemmas/Beat.lean` (theorems).

  Python partiality is explicit (`Py`): `validate` (`ValueError`), `incorrect_beats[0]` on an empty index
  array in `goto` (`IndexError`), out-of-range indexing in
  `_get_entropy` (`IndexError`).  NumPy float division by zero does not raise: it is `none` (= nan / inf)
  where the code can reach it.
-/
namespace Mir
namespace Beat

/-! ### small NumPy / Python idioms -/

def absR (x : Rat) : Rat := if x < 0 then -x else x

/-- Python indexing `l[i]` with negative wrap-around; `IndexError` outside `[-len, len)`. -/
def pyGet (l : List Rat) (i : Int) : Py Rat :=
  let n : Int := l.length
  let j : Int := if i < 0 then i + n else i
  if j < 0 then .error .indexError
  else match l[j.toNat]? with
    | some x => .ok x
    | none => .error .indexError

/-- `l[i] - l[j]` -/
def diffAt (l : List Rat) (i j : Int) : Py Rat := do
  let a ← pyGet l i
  let b ← pyGet l j
  pure (a - b)

/-- evaluate `l[i]` for its possible `IndexError` only -/
def probe (l : List Rat) (i : Int) : Py Unit := do
  let _ ← pyGet l i
  pure ()

/-- bounds of the Python slice `a[start:stop]` on a sequence of length `len` -/
def pySliceBounds (len : Nat) (start stop : Int) : Nat × Nat :=
  let n : Int := len
  let norm (i : Int) : Nat := if i < 0 then (if i + n < 0 then 0 else (i + n).toNat)
                              else (if n < i then len else i.toNat)
  (norm start, norm stop)

def pySlice {α : Type} (l : List α) (start stop : Int) : List α :=
  let b := pySliceBounds l.length start stop
  (l.drop b.1).take (b.2 - b.1)

/-- `a[::2]` -/
def everyOther {α : Type} : List α → List α
  | [] => []
  | [a] => [a]
  | a :: _ :: t => a :: everyOther t

/-- value and index of the first minimum (`np.argmin`); `none` on an empty list -/
def minIdx : List Rat → Option (Rat × Nat)
  | [] => none
  | a :: t => match minIdx t with
    | none => some (a, 0)
    | some (m, j) => if a ≤ m then some (a, 0) else some (m, j + 1)

/-- `mapM` in the `Py` monad, by structural recursion (first error wins, left to right) -/
def mapPy {α β : Type} (f : α → Py β) : List α → Py (List β)
  | [] => .ok []
  | a :: t => do
      let b ← f a
      let bs ← mapPy f t
      pure (b :: bs)

def sumR : List Rat → Rat
  | [] => 0
  | a :: t => a + sumR t

def insertInt (x : Int) : List Int → List Int
  | [] => [x]
  | y :: ys => if x ≤ y then x :: y :: ys else y :: insertInt x ys

def sortInt : List Int → List Int
  | [] => []
  | x :: xs => insertInt x (sortInt xs)

/-- remove adjacent repetitions (on a sorted list: `np.unique`) -/
def dedupAdj : List Int → List Int
  | a :: b :: t => if a = b then dedupAdj (b :: t) else a :: dedupAdj (b :: t)
  | l => l

/-- `np.diff` -/
def diffs : List Int → List Int
  | a :: b :: t => (b - a) :: diffs (b :: t)
  | _ => []

/-- `np.median` of integers (`none` = nan for an empty array) -/
def medianInt (l : List Int) : Option Rat :=
  let s := sortInt l
  let n := s.length
  if n = 0 then none
  else if n % 2 = 1 then (s[n / 2]?).map fun x => (x : Rat)
  else match s[n / 2 - 1]?, s[n / 2]? with
    | some a, some b => some (((a : Rat) + (b : Rat)) / 2)
    | _, _ => none

/-- `np.round` (ties to even) -/
def roundHalfEven (x : Rat) : Int :=
  let f := x.floor
  let r := x - (f : Rat)
  if r < 1 / 2 then f else if 1 / 2 < r then f + 1 else if f % 2 = 0 then f else f + 1

/-! ### validation and trimming -/

def maxTime : Rat := 30000

def nondec : List Rat → Bool
  | a :: b :: t => decide (a ≤ b) && nondec (b :: t)
  | _ => true

/-- `util.validate_events(events, MAX_TIME)` on a 1-d array -/
def validateEvents (xs : List Rat) : Py Unit :=
  if xs.any (fun x => decide (maxTime < x)) then .error .valueError
  else if nondec xs then .ok () else .error .valueError

def validate (ref est : List Rat) : Py Unit := do
  validateEvents ref
  validateEvents est

def trimBeats (beats : List Rat) (minBeatTime : Rat := 5) : List Rat :=
  beats.filter fun b => decide (minBeatTime ≤ b)

/-! ### metric-level variations -/

/-- `np.interp` of the beats at the half-integer indices `0, 0.5, 1, …, n-1` -/
def doubled : List Rat → List Rat
  | [] => []
  | [a] => [a]
  | a :: b :: t => a :: (a + (b - a) * (1 / 2)) :: doubled (b :: t)

/-- `_get_reference_beat_variations`: true, off-beat, double tempo, half tempo (even), half tempo (odd) -/
def variations (ref : List Rat) : List (List Rat) :=
  let d := doubled ref
  [ref, everyOther (d.drop 1), d, everyOther ref, everyOther (ref.drop 1)]

/-! ### F-measure -/

def fMeasureCore (ref est : List Rat) (thr : Rat) : Rat := (hitPRF (withinWindow thr) ref est 1).2.2

def fMeasure (ref est : List Rat) (thr : Rat := 7 / 100) : Py Rat := do
  validate ref est
  pure (fMeasureCore ref est thr)

/-! ### operations of the transcendental part -/

structure TOps (α : Type) where
  ofRat : Rat → α
  add : α → α → α
  sub : α → α → α
  mul : α → α → α
  div : α → α → α
  exp : α → α
  log2 : α → α
  lt : α → α → Bool

def ratToFloat (q : Rat) : Float := Float.ofInt q.num / Float.ofNat q.den

def floatOps : TOps Float where
  ofRat := ratToFloat
  add := (· + ·)
  sub := (· - ·)
  mul := (· * ·)
  div := (· / ·)
  exp := Float.exp
  log2 := Float.log2
  lt := fun a b => a < b

/-- `np.max` of a non-empty list given as head and tail -/
def maxT {α : Type} (T : TOps α) (a : α) (l : List α) : α :=
  l.foldl (fun m x => if T.lt m x then x else m) a

/-! ### Cemgil -/

/-- `np.min(np.abs(b - est))` for `est = e :: es` -/
def minAbsDiff (b : Rat) (e : Rat) : List Rat → Rat
  | [] => absR (b - e)
  | x :: xs => min (absR (b - e)) (minAbsDiff b x xs)

/-- the argument of `np.exp` for one reference beat -/
def cemgilArg (sigma : Rat) (d : Rat) : Rat := -(d * d) / (2 * (sigma * sigma))

/-- accuracy of one variation against `est = e :: es` -/
def cemgilAcc {α : Type} (T : TOps α) (sigma : Rat) (refv : List Rat) (e : Rat) (es : List Rat) : α :=
  let s := refv.foldl (fun acc b => T.add acc (T.exp (T.ofRat (cemgilArg sigma (minAbsDiff b e es))))) (T.ofRat 0)
  T.div s (T.ofRat ((1 / 2) * (((es.length + 1 : Nat) : Rat) + (refv.length : Rat))))

def cemgilCore {α : Type} (T : TOps α) (ref est : List Rat) (sigma : Rat) : α × α :=
  match ref, est with
  | [], _ => (T.ofRat 0, T.ofRat 0)
  | _, [] => (T.ofRat 0, T.ofRat 0)
  | r :: rs, e :: es =>
      let a0 := cemgilAcc T sigma (r :: rs) e es
      let rest := ((variations (r :: rs)).drop 1).map fun v => cemgilAcc T sigma v e es
      (a0, maxT T a0 rest)

def cemgil {α : Type} (T : TOps α) (ref est : List Rat) (sigma : Rat := 1 / 25) : Py (α × α) := do
  validate ref est
  pure (cemgilCore T ref est sigma)

/-! ### Goto -/

/-- the error of the inner reference beat `b` with neighbours `a` (previous) and `c` (next) -/
def gotoErr (a b c : Rat) (est : List Rat) : Rat :=
  let prev := (1 / 2) * (b - a)
  let wmin := b - prev
  let next := (1 / 2) * (c - b)
  let wmax := b + next
  match est.filter fun e => decide (wmin ≤ e) && decide (e < wmax) with
  | [e] => let off := e - b; if off < 0 then off / prev else off / next
  | _ => 1

/-- beat errors of the inner reference beats: each consecutive triple `a b c` gives the error of `b` -/
def gotoInner (est : List Rat) : List Rat → List Rat
  | a :: b :: c :: t => gotoErr a b c est :: gotoInner est (b :: c :: t)
  | _ => []

/-- the `beat_error` array (first and last entry keep their initial value 1) -/
def gotoErrors (ref est : List Rat) : List Rat :=
  match ref with
  | [] => []
  | [_] => [1]
  | _ => 1 :: gotoInner est ref ++ [1]

/-- `np.flatnonzero(np.abs(beat_error) > thr)` (indices counted from `k`) -/
def flatnonzeroFrom (thr : Rat) (k : Nat) : List Rat → List Nat
  | [] => []
  | x :: t => if thr < absR x then k :: flatnonzeroFrom thr (k + 1) t else flatnonzeroFrom thr (k + 1) t

def flatnonzeroGt (errs : List Rat) (thr : Rat) : List Nat := flatnonzeroFrom thr 0 errs

/-- index of the first maximum of a non-empty list given as head and tail, with the maximum -/
def firstMax (a : Int) : List Int → Int × Nat
  | [] => (a, 0)
  | b :: t => let (m, j) := firstMax b t; if m ≤ a then (a, 0) else (m, j + 1)

/-- `np.mean(np.abs(track)) < mu and np.std(track, ddof=1) < sigma`, with a flag telling whether one of
    the two evaluated comparisons is an exact tie (where binary64 rounding decides in the real code) -/
def gotoTrackOk (track : List Rat) (mu sigma : Rat) : Bool × Bool :=
  let k := track.length
  if k = 0 then (false, false)                       -- mean of empty = nan
  else
    let m := sumR (track.map absR) / (k : Rat)
    if ¬ (m < mu) then (false, m = mu)
    else if k < 2 then (false, false)                -- std with ddof=1 of one element = nan
    else
      let mean := sumR track / (k : Rat)
      let var := sumR (track.map fun x => (x - mean) * (x - mean)) / ((k : Rat) - 1)
      (decide (0 < sigma ∧ var < sigma * sigma), decide (0 < sigma ∧ var = sigma * sigma))

/-- `1.0 * (goto_criteria == 3)` -/
def boolScore (b : Bool) : Rat := if b then 1 else 0

/-- `goto` after validation; returns the score and the tie flag -/
def gotoCore (ref est : List Rat) (thr mu sigma : Rat) : Py (Rat × Bool) :=
  if est.isEmpty || ref.isEmpty then .ok (0, false)
  else
    let errs := gotoErrors ref est
    let inc := flatnonzeroGt errs thr
    let n := ref.length
    if inc.length < 3 then
      match inc.head?, inc.getLast? with
      | some a, some b =>
          let track := pySlice errs ((a : Int) + 1) ((b : Int) - 1)
          let r := gotoTrackOk track mu sigma
          .ok (boolScore r.1, r.2)
      | _, _ => .error .indexError
    else
      match diffs (inc.map fun (i : Nat) => Int.ofNat i) with
      | [] => .ok (0, false)
      | d :: ds =>
          let (trackLen, trackStart) := firstMax d ds
          if (1 / 4 : Rat) * ((n : Rat) - 2) < (trackLen : Rat) - 1 then
            match inc[trackStart]?, inc[trackStart + 1]? with
            | some s, some e =>
                let track := pySlice errs (s : Int) ((e : Int) + 1)
                let r := gotoTrackOk track mu sigma
                .ok (boolScore r.1, r.2)
            | _, _ => .error .indexError
          else .ok (0, false)

def gotoFull (ref est : List Rat) (thr : Rat := 7 / 20) (mu : Rat := 1 / 5) (sigma : Rat := 1 / 5) :
    Py (Rat × Bool) := do
  validate ref est
  gotoCore ref est thr mu sigma

def goto (ref est : List Rat) (thr : Rat := 7 / 20) (mu : Rat := 1 / 5) (sigma : Rat := 1 / 5) : Py Rat := do
  let r ← gotoFull ref est thr mu sigma
  pure r.1

/-! ### P-score -/

def minList (a : Rat) (l : List Rat) : Rat := l.foldl min a
def maxList (a : Rat) (l : List Rat) : Rat := l.foldl max a

/-- `np.flatnonzero` of the impulse train: the distinct quantised positions, ascending -/
def trainSupport (beats : List Rat) (offset : Rat) : List Int :=
  dedupAdj (sortInt (beats.map fun b => ((b - offset) * 100).ceil))

/-- number of index pairs `(i, j)` with `lo ≤ i - j + shift < hi` -/
def pairCount (rs es : List Int) (shift : Int) (lo hi : Nat) : Nat :=
  (rs.flatMap fun i => es.filter fun j =>
    decide ((lo : Int) ≤ i - j + shift) && decide (i - j + shift < (hi : Int))).length

/-- everything `p_score` computes before the final division: the window size, the train length, and the
    windowed correlation sum.  `none`: all reference beats fall into one 10 ms sample, so there is no
    inter-annotation interval (`annotation_intervals.size == 0`) and the code returns 0. -/
def pScoreParts (r : Rat) (rs : List Rat) (e : Rat) (es : List Rat) (thr : Rat) : Option (Int × Nat × Nat) :=
  let offset := min (minList e es) (minList r rs)
  let endPoint : Int := (max (maxList e es - offset) (maxList r rs - offset)).ceil
  let N : Nat := (endPoint * 100 + 1).toNat
  let rIdx := trainSupport (r :: rs) offset
  let eIdx := trainSupport (e :: es) offset
  match medianInt (diffs rIdx) with
  | none => none
  | some med =>
      let win := roundHalfEven (thr * med)
      let L : Nat := 2 * N - 1
      let middle : Int := ((L / 2 : Nat) : Int)
      let b := pySliceBounds L (middle - win) (middle + win + 1)
      some (win, N, pairCount rIdx eIdx ((N : Int) - 1) b.1 b.2)

/-- `p_score` after validation: total (it never raises on validated input) -/
def pScoreCore (ref est : List Rat) (thr : Rat) : Rat :=
  match ref, est with
  | r :: r' :: rs, e :: e' :: es =>
      match pScoreParts r (r' :: rs) e (e' :: es) thr with
      | none => 0
      | some p => (p.2.2 : Rat) / ((max (es.length + 2) (rs.length + 2) : Nat) : Rat)
  | _, _ => 0

def pScore (ref est : List Rat) (thr : Rat := 1 / 5) : Py Rat := do
  validate ref est
  pure (pScoreCore ref est thr)

/-! ### P-score, literally: impulse trains, `np.correlate(·, ·, "full")` and the Python slice

`pScoreCore` above counts index pairs directly.  `pScoreLiteral` below does what the code does, step by step: it
builds the two 0/1 trains, takes `np.flatnonzero` of the reference train, computes the FULL cross-correlation as a
sliding dot product, cuts the Python slice `[middle - win : middle + win + 1]` out of it (a negative start wraps
around, as in Python) and sums.  `MirProofs/Lemmas/BeatDef.lean` proves `pScoreLiteral = pScoreCore` for all inputs;
the correspondence suite `beat.p_score_literal` ties both to the real code. -/

/-- `train = np.zeros(N); train[idx] = 1.0` (NumPy integer-array assignment: negative indices wrap around,
    indices outside `[-N, N)` raise `IndexError`; neither can happen on `p_score`'s path, which is proved) -/
def impulseTrain (N : Nat) (idx : List Int) : Py (List Nat) :=
  if idx.any (fun i => decide (i < -(N : Int)) || decide ((N : Int) ≤ i)) then .error .indexError
  else
    let pos := idx.map fun i => if i < 0 then i + (N : Int) else i
    .ok ((List.range N).map fun (k : Nat) => if pos.contains (Int.ofNat k) then 1 else 0)

/-- `np.flatnonzero` of a train (indices counted from `k`) -/
def flatnonzeroNatFrom (k : Nat) : List Nat → List Int
  | [] => []
  | x :: t => if x = 0 then flatnonzeroNatFrom (k + 1) t else (k : Int) :: flatnonzeroNatFrom (k + 1) t

/-- dot product of the overlapping part of two arrays -/
def dot : List Nat → List Nat → Nat
  | x :: xs, y :: ys => x * y + dot xs ys
  | _, _ => 0

/-- `np.correlate(a, v, "full")[k] = Σ_n a[n + k - (len(v) - 1)] * v[n]` (terms outside either array are absent):
    the dot product of `v` with `a` shifted by the lag `k - (len(v) - 1)` -/
def corrAt (a v : List Nat) (k : Nat) : Nat :=
  let s : Int := (k : Int) - ((v.length : Int) - 1)
  if 0 ≤ s then dot (a.drop s.toNat) v else dot a (v.drop (-s).toNat)

/-- `np.correlate(a, v, "full")` for non-empty `a`, `v` (`len(a) + len(v) - 1` lags) -/
def correlateFull (a v : List Nat) : List Nat :=
  (List.range (a.length + v.length - 1)).map (corrAt a v)

def sumNat : List Nat → Nat
  | [] => 0
  | a :: t => a + sumNat t

/-- `np.sum(np.correlate(a, v, "full")[middle - win : middle + win + 1])` with `middle = len // 2` -/
def corrWindowSum (a v : List Nat) (win : Int) : Nat :=
  let corr := correlateFull a v
  let middle : Int := ((corr.length / 2 : Nat) : Int)
  sumNat (pySlice corr (middle - win) (middle + win + 1))

/-- `p_score` after validation, step by step as the code computes it -/
def pScoreLiteral (ref est : List Rat) (thr : Rat) : Py Rat :=
  match ref, est with
  | r :: r' :: rs, e :: e' :: es => do
      let offset := min (minList e (e' :: es)) (minList r (r' :: rs))
      let endPoint : Int := (max (maxList e (e' :: es) - offset) (maxList r (r' :: rs) - offset)).ceil
      let N : Nat := (endPoint * 100 + 1).toNat
      let refTrain ← impulseTrain N ((r :: r' :: rs).map fun b => ((b - offset) * 100).ceil)
      let estTrain ← impulseTrain N ((e :: e' :: es).map fun b => ((b - offset) * 100).ceil)
      match medianInt (diffs (flatnonzeroNatFrom 0 refTrain)) with
      | none => pure 0
      | some med =>
          let win := roundHalfEven (thr * med)
          pure ((corrWindowSum refTrain estTrain win : Rat) / ((max (es.length + 2) (rs.length + 2) : Nat) : Rat))
  | _, _ => pure 0

/-! ### Continuity -/

/-- the estimated interval used for the first beat / first annotation: the next one if there is a next beat,
    else the previous one (`estimated_beats[m - 1]` with `m = 0` wraps to the last element; only reachable
    with a single beat) -/
def estIntFirst (e : Rat) (next prev : Option Rat) : Rat :=
  match next, prev with
  | some nx, _ => nx - e
  | none, some pv => e - pv
  | none, none => 0

/-- `estimated_beats[m] - estimated_beats[m - 1]` -/
def estIntPrev (e : Rat) (prev : Option Rat) : Rat :=
  match prev with
  | some pv => e - pv
  | none => 0

/-- one estimated beat of the continuity loop.  `m` = its index, `prev` / `next` = its neighbours,
    `used` = the annotation indices already consumed.  Returns (success, nearest annotation index). -/
def contBeat (refv : List Rat) (pthr qthr : Rat) (m : Nat) (prev : Option Rat) (e : Rat) (next : Option Rat)
    (used : List Nat) : Py (Bool × Nat) :=
  match minIdx (refv.map fun r => absR (e - r)) with
  | none => .error .valueError
  | some (minDiff, nearest) =>
    if used.contains nearest then .ok (false, nearest)
    else if m = 0 ∨ nearest = 0 then do
      let refInt ← (if nearest + 1 < refv.length then diffAt refv ((nearest : Int) + 1) nearest
                    else diffAt refv nearest ((nearest : Int) - 1))
      let estInt : Rat := estIntFirst e next prev
      let phaseOk : Bool := if refInt = 0 then decide (minDiff = 0 ∧ (1 : Rat) < pthr)
                            else decide (absR (minDiff / refInt) < pthr)
      let periodOk : Bool := if refInt = 0 then decide (estInt = 0 ∧ (0 : Rat) < qthr)
                             else decide (absR (1 - estInt / refInt) < qthr)
      .ok (phaseOk && periodOk, nearest)
    else do
      let refInt ← diffAt refv nearest ((nearest : Int) - 1)
      let estInt : Rat := estIntPrev e prev
      -- a zero reference interval gives inf / nan in NumPy: both comparisons are False
      if refInt = 0 then .ok (false, nearest)
      else .ok (decide (absR (minDiff / refInt) < pthr) && decide (absR (1 - estInt / refInt) < qthr), nearest)

/-- the loop over the estimated beats: the list of `beat_success` flags -/
def contLoop (refv : List Rat) (pthr qthr : Rat) : Nat → Option Rat → List Rat → List Nat → Py (List Bool)
  | _, _, [], _ => .ok []
  | m, prev, e :: rest, used => do
      let r ← contBeat refv pthr qthr m prev e rest.head? used
      let bs ← contLoop refv pthr qthr (m + 1) (some e) rest (if r.1 then r.2 :: used else used)
      pure (r.1 :: bs)

/-- `np.max(np.diff(beat_failures)) - 1` after padding with a failure at both ends: the longest run of
    successes -/
def longestRun : List Bool → Nat → Nat
  | [], cur => cur
  | true :: t, cur => longestRun t (cur + 1)
  | false :: t, cur => max cur (longestRun t 0)

def countTrue (bs : List Bool) : Nat := (bs.filter id).length

/-- (continuous, total) accuracy of one variation -/
def contVariation (refv est : List Rat) (pthr qthr : Rat) : Py (Rat × Rat) := do
  let bs ← contLoop refv pthr qthr 0 none est []
  let nAnn : Nat := max refv.length est.length
  pure ((longestRun bs 0 : Rat) / (nAnn : Rat), (countTrue bs : Rat) / (nAnn : Rat))

def maxRat (a : Rat) (l : List Rat) : Rat := l.foldl max a

def continuityCore (ref est : List Rat) (pthr qthr : Rat) : Py (Rat × Rat × Rat × Rat) :=
  if est.length ≤ 1 ∨ ref.length ≤ 1 then .ok (0, 0, 0, 0)
  else do
    let rs ← mapPy (fun v => contVariation v est pthr qthr) (variations ref)
    match rs with
    | [] => .error .indexError
    | (c, t) :: rest => pure (c, t, maxRat c (rest.map Prod.fst), maxRat t (rest.map Prod.snd))

def continuity (ref est : List Rat) (pthr : Rat := 7 / 40) (qthr : Rat := 7 / 40) :
    Py (Rat × Rat × Rat × Rat) := do
  validate ref est
  continuityCore ref est pthr qthr

/-! ### Information gain -/

/-- `np.mod(raw + 0.5, -1) + 0.5`: NumPy's floor-mod with divisor -1 lands in (-1, 0] -/
def wrapErr (raw : Rat) : Rat :=
  let y := raw + 1 / 2
  y + (((-y).floor : Int) : Rat) + 1 / 2

/-- the normalised, wrapped error of one estimated beat (`none` = nan / inf: a zero interval) -/
def beatError (ref : List Rat) (e : Rat) : Py (Option Rat) :=
  let dists := ref.map fun r => e - r
  match minIdx (dists.map absR) with
  | none => .error .valueError
  | some (_, c) => do
      let absErr ← pyGet dists c
      if c = 0 then probe ref 1
      let d ← (if c + 1 = ref.length then diffAt ref (-1) (-2)
               else if absErr < 0 then diffAt ref c ((c : Int) - 1)
               else diffAt ref ((c : Int) + 1) c)
      let interval := (1 / 2 : Rat) * d
      if interval = 0 then pure none
      else pure (some (wrapErr ((1 / 2 : Rat) * absErr / interval)))

def binEdge (bins : Nat) (i : Nat) : Rat := -(1 / 2) + (i : Rat) / (bins : Rat)

/-- `np.histogram(errors, np.linspace(-.5, .5, bins + 1))[0]` (nan entries are not counted) -/
def histogram (bins : Nat) (vals : List Rat) : List Nat :=
  (List.range bins).map fun i => (vals.filter fun v =>
    decide (binEdge bins i ≤ v) && (decide (v < binEdge bins (i + 1)) ||
      (decide (i + 1 = bins) && decide (v = binEdge bins (i + 1))))).length

def isDyadic (q : Rat) : Bool := q.den &&& (q.den - 1) == 0

/-- does some error sit exactly on an interior bin edge that is not a dyadic rational?  (There binary64
    rounding of the error and of the `linspace` edge decides the bin in the real code; a dyadic error on a
    dyadic edge is computed exactly by the code as well and is compared.) -/
def histTie (bins : Nat) (vals : List Rat) : Bool :=
  vals.any fun v => !isDyadic v &&
    (List.range bins).any fun i => decide (0 < i) && decide (v = binEdge bins i)

def entropyOfCounts {α : Type} (T : TOps α) (counts : List Nat) : Option α :=
  let total : Nat := counts.foldl (fun (a b : Nat) => a + b) 0
  if total = 0 then none
  else
    let s := counts.foldl (fun (acc : α) (c : Nat) =>
      let p := if c = 0 then T.ofRat 1 else T.div (T.ofRat (c : Rat)) (T.ofRat (total : Rat))
      T.add acc (T.mul p (T.log2 p))) (T.ofRat 0)
    some (T.sub (T.ofRat 0) s)

def beatErrors (ref est : List Rat) : Py (List Rat) := do
  let errs ← mapPy (fun e => beatError ref e) est
  pure (errs.filterMap id)

/-- `_get_entropy`; the entropy (`none` = nan) and the tie flag -/
def getEntropy {α : Type} (T : TOps α) (ref est : List Rat) (bins : Nat) : Py (Option α × Bool) := do
  let vals ← beatErrors ref est
  pure (entropyOfCounts T (histogram bins vals), histTie bins vals)

def infoGainOf {α : Type} (T : TOps α) (bins : Nat) (f b : Option α) : Option α :=
  let norm := T.log2 (T.ofRat (bins : Rat))
  let chosen := match f, b with
    | some x, some y => if T.lt y x then some x else some y
    | _, _ => b
  chosen.map fun h => T.div (T.sub norm h) norm

def informationGainCore {α : Type} (T : TOps α) (ref est : List Rat) (bins : Nat) : Py (Option α × Bool) :=
  if est.length ≤ 1 ∨ ref.length ≤ 1 then .ok (some (T.ofRat 0), false)
  else do
    let f ← getEntropy T ref est bins
    let b ← getEntropy T est ref bins
    pure (infoGainOf T bins f.1 b.1, f.2 || b.2)

def informationGain {α : Type} (T : TOps α) (ref est : List Rat) (bins : Nat := 41) : Py (Option α × Bool) := do
  validate ref est
  informationGainCore T ref est bins

/-! ### evaluate -/

structure Params where
  minBeatTime : Rat := 5
  fThr : Rat := 7 / 100
  cemgilSigma : Rat := 1 / 25
  gotoThr : Rat := 7 / 20
  gotoMu : Rat := 1 / 5
  gotoSigma : Rat := 1 / 5
  pThr : Rat := 1 / 5
  phaseThr : Rat := 7 / 40
  periodThr : Rat := 7 / 40
  bins : Nat := 41

inductive Score (α : Type) where
  | exact (q : Rat)
  | approx (x : α)
  | nan

/-- `beat.evaluate`: the ordered score dictionary and the tie flag of the run -/
def evaluate {α : Type} (T : TOps α) (ref0 est0 : List Rat) (p : Params) : Py (List (String × Score α) × Bool) := do
  validate ref0 est0                      -- the untrimmed arrays are validated first
  let ref := trimBeats ref0 p.minBeatTime
  let est := trimBeats est0 p.minBeatTime
  let f ← fMeasure ref est p.fThr
  let c ← cemgil T ref est p.cemgilSigma
  let g ← gotoFull ref est p.gotoThr p.gotoMu p.gotoSigma
  let ps ← pScore ref est p.pThr
  let ct ← continuity ref est p.phaseThr p.periodThr
  let ig ← informationGain T ref est p.bins
  pure ([("F-measure", .exact f), ("Cemgil", .approx c.1), ("Cemgil Best Metric Level", .approx c.2),
         ("Goto", .exact g.1), ("P-score", .exact ps),
         ("Correct Metric Level Continuous", .exact ct.1), ("Correct Metric Level Total", .exact ct.2.1),
         ("Any Metric Level Continuous", .exact ct.2.2.1), ("Any Metric Level Total", .exact ct.2.2.2),
         ("Information gain", match ig.1 with | some x => .approx x | none => .nan)],
        g.2 || ig.2)

/-! ### driver glue -/

def scoreVal : Score Float → Val
  | .exact q => .rat q
  | .approx x => .flt x
  | .nan => .nan

def optFloatVal : Option Float → Val
  | some x => .flt x
  | none => .nan

def handler : Handler := fun fn args =>
  match fn, args with
  | "beat.trim_beats", [b, t] => do
      let b ← b.asRats?; let t ← t.asRat?
      some (.ok (Val.ofRats (trimBeats b t)))
  | "beat.validate", [r, e] => do
      let r ← r.asRats?; let e ← e.asRats?
      some ((validate r e).map fun _ => Val.none)
  | "beat._get_reference_beat_variations", [r] => do
      let r ← r.asRats?
      some (.ok (.list ((variations r).map Val.ofRats)))
  | "beat.f_measure", [r, e, w] => do
      let r ← r.asRats?; let e ← e.asRats?; let w ← w.asRat?
      some ((fMeasure r e w).map Val.rat)
  | "beat.cemgil", [r, e, s] => do
      let r ← r.asRats?; let e ← e.asRats?; let s ← s.asRat?
      if s = 0 then none
      else some ((cemgil floatOps r e s).map fun c => .list [.flt c.1, .flt c.2])
  | "beat.goto", [r, e, t, mu, s] => do
      let r ← r.asRats?; let e ← e.asRats?; let t ← t.asRat?; let mu ← mu.asRat?; let s ← s.asRat?
      some ((goto r e t mu s).map Val.rat)
  | "beat.goto_checked", [r, e, t, mu, s] => do
      let r ← r.asRats?; let e ← e.asRats?; let t ← t.asRat?; let mu ← mu.asRat?; let s ← s.asRat?
      some ((gotoFull r e t mu s).map fun g => .list [.rat g.1, .bool g.2])
  | "beat.p_score", [r, e, t] => do
      let r ← r.asRats?; let e ← e.asRats?; let t ← t.asRat?
      some ((pScore r e t).map Val.rat)
  | "beat.p_score_literal", [r, e, t] => do
      -- the same function, computed the way the code computes it (trains, np.correlate, Python slice)
      let r ← r.asRats?; let e ← e.asRats?; let t ← t.asRat?
      some ((do validate r e; pScoreLiteral r e t).map Val.rat)
  | "beat._correlate_window", [n, ri, ei, w] => do
      -- [np.correlate(ref_train, est_train, "full")[middle - w : middle + w + 1], its sum] for the two 0/1
      -- trains of length n with impulses at ri / ei
      let n ← n.asNat?; let ri ← ri.asInts?; let ei ← ei.asInts?; let w ← w.asInt?
      if n = 0 then none
      else some (do
        let a ← impulseTrain n ri
        let v ← impulseTrain n ei
        let corr := correlateFull a v
        let middle : Int := ((corr.length / 2 : Nat) : Int)
        pure (.list [Val.ofNats (pySlice corr (middle - w) (middle + w + 1)), Val.ofNat (corrWindowSum a v w)]))
  | "beat.continuity", [r, e, p, q] => do
      let r ← r.asRats?; let e ← e.asRats?; let p ← p.asRat?; let q ← q.asRat?
      some ((continuity r e p q).map fun c => .list [.rat c.1, .rat c.2.1, .rat c.2.2.1, .rat c.2.2.2])
  | "beat.information_gain_checked", [r, e, b] => do
      let r ← r.asRats?; let e ← e.asRats?; let b ← b.asNat?
      if b < 2 then none
      else some ((informationGain floatOps r e b).map fun g => .list [optFloatVal g.1, .bool g.2])
  | "beat._get_entropy_checked", [r, e, b] => do
      let r ← r.asRats?; let e ← e.asRats?; let b ← b.asNat?
      if b < 1 then none
      else some ((getEntropy floatOps r e b).map fun g => .list [optFloatVal g.1, .bool g.2])
  | "beat._beat_errors", [r, e] => do
      -- the exact wrapped errors that `_get_entropy` histograms (nan / inf entries dropped)
      let r ← r.asRats?; let e ← e.asRats?
      some ((beatErrors r e).map Val.ofRats)
  | "beat.evaluate_checked", [r, e, ps] => do
      let r ← r.asRats?; let e ← e.asRats?
      match ps with
      | .list [mt, ft, cs, gt, gm, gs, pt, ph, pe, b] =>
          let mt ← mt.asRat?; let ft ← ft.asRat?; let cs ← cs.asRat?; let gt ← gt.asRat?; let gm ← gm.asRat?
          let gs ← gs.asRat?; let pt ← pt.asRat?; let ph ← ph.asRat?; let pe ← pe.asRat?; let b ← b.asNat?
          if cs = 0 ∨ b < 2 then none
          else
            let p : Params := { minBeatTime := mt, fThr := ft, cemgilSigma := cs, gotoThr := gt, gotoMu := gm,
                                gotoSigma := gs, pThr := pt, phaseThr := ph, periodThr := pe, bins := b }
            some ((evaluate floatOps r e p).map fun s =>
              .list [.list (s.1.map fun (k, v) => .list [.str k, scoreVal v]), .bool s.2])
      | _ => none
  | _, _ => none

end Beat
end Mir
