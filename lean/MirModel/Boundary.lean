import MirModel.HitMetric
import MirModel.MiscStats
/-
  MirModel.Boundary — the boundary metrics of `mir_eval.segment`:
  `validate_boundary`, `detection`, `deviation` (+ `util.validate_intervals`, `util.intervals_to_boundaries`).

  Intervals are rows `(start, end)` of an (n, 2) array (shape faults are outside the model domain).
  NaN is `none`.
-/
namespace Mir.Boundary
open Mir.MiscStats

/-- `util.validate_intervals` on an (n,2) array: no negative time, strictly positive durations -/
def validateIntervals (iv : List (Rat × Rat)) : Py Unit :=
  if iv.any (fun p => decide (p.1 < 0) || decide (p.2 < 0)) then .error .valueError
  else if iv.any (fun p => decide (p.2 ≤ p.1)) then .error .valueError
  else .ok ()

/-- `segment.validate_boundary` (the `trim` argument only selects a warning) -/
def validateBoundary (ref est : List (Rat × Rat)) (_trim : Bool) : Py Unit := do
  validateIntervals ref
  validateIntervals est

/-- drop adjacent duplicates of a sorted list (`np.unique` after sorting) -/
def dedupSorted : List Rat → List Rat
  | [] => []
  | [x] => [x]
  | x :: y :: rest => if x = y then dedupSorted (y :: rest) else x :: dedupSorted (y :: rest)

/-- `np.unique` -/
def unique (xs : List Rat) : List Rat := dedupSorted (sortRats xs)

/-- `util.intervals_to_boundaries(intervals, q=5)` = `np.unique(np.ravel(np.round(intervals, 5)))` -/
def intervalsToBoundaries (iv : List (Rat × Rat)) : List Rat :=
  unique (iv.flatMap fun p => [round5 p.1, round5 p.2])

/-- `b[1:-1]` when `trim`, else `b` -/
def trimB (trim : Bool) (b : List Rat) : List Rat := if trim then (b.drop 1).dropLast else b

/-- the boundary lists both metrics work on -/
def boundaries (iv : List (Rat × Rat)) (trim : Bool) : List Rat := trimB trim (intervalsToBoundaries iv)

/-- `segment.detection(ref, est, window, beta, trim)` → `(P, R, F)` -/
def detection (ref est : List (Rat × Rat)) (window : Rat := 1 / 2) (beta : Rat := 1) (trim : Bool := false) :
    Py (Rat × Rat × Rat) := do
  validateBoundary ref est trim
  pure (hitPRF (withinWindow window) (boundaries ref trim) (boundaries est trim) beta)

/-- minimum of `f` over the non-empty list `y0 :: ys` (`dist.min(axis=…)`, one row / column) -/
def minOver (f : Rat → Rat) : Rat → List Rat → Rat
  | y0, [] => f y0
  | y0, y :: ys => min (f y0) (minOver f y ys)

/-- `segment.deviation(ref, est, trim)` → `(reference_to_estimated, estimated_to_reference)`;
    `(NaN, NaN)` when a side has no boundaries. `dist[i, j] = |ref_i - est_j|`. -/
def deviation (ref est : List (Rat × Rat)) (trim : Bool := false) : Py (Option Rat × Option Rat) := do
  validateBoundary ref est trim
  match boundaries ref trim, boundaries est trim with
  | r0 :: rs, e0 :: es =>
      let e2r := median? ((e0 :: es).map fun e => minOver (fun r => absQ (r - e)) r0 rs)
      let r2e := median? ((r0 :: rs).map fun r => minOver (fun e => absQ (r - e)) e0 es)
      pure (r2e, e2r)
  | _, _ => pure (none, none)

def handler : Handler := fun fn args =>
  match fn, args with
  | "segment.intervals_to_boundaries", [iv] => do
      let iv ← iv.asRatPairs?
      some (.ok (Val.ofRats (intervalsToBoundaries iv)))
  | "segment.validate_boundary", [r, e, t] => do
      let r ← r.asRatPairs?; let e ← e.asRatPairs?; let t ← t.asBool?
      some ((validateBoundary r e t).map fun _ => Val.none)
  | "segment.detection", [r, e, w, b, t] => do
      let r ← r.asRatPairs?; let e ← e.asRatPairs?; let w ← w.asRat?; let b ← b.asRat?; let t ← t.asBool?
      some ((detection r e w b t).map fun s => .list [.rat s.1, .rat s.2.1, .rat s.2.2])
  | "segment.deviation", [r, e, t] => do
      let r ← r.asRatPairs?; let e ← e.asRatPairs?; let t ← t.asBool?
      some ((deviation r e t).map fun s => .list [optVal s.1, optVal s.2])
  | _, _ => none

end Mir.Boundary
