import MirModel.Chord.Split
/-
  MirModel.Chord.Encode — Layer M: `pitch_class_to_semitone`, `scale_degree_to_semitone`,
  `scale_degree_to_bitmap`, `quality_to_bitmap`, `encode`, `encode_many` of mir_eval/chord.py,
  over the regenerated tables (`MirGen.Tables`), and the protocol handler of the chord-label slice.
  Python `%` on ints with a positive modulus is `Int.emod` (result in `[0, m)`).
-/
namespace Mir.Chord
open MirGen

/-- the `for idx, char in enumerate(pitch_class)` loop from index 1 on; `none` is Python's `None`
    (`PITCH_CLASSES.get` of an unknown letter), on which `+= 1` raises TypeError -/
def accLoop (sem : Option Int) : Str → Py (Option Int)
  | [] => .ok sem
  | c :: cs =>
    if c = '#' then
      match sem with
      | some v => accLoop (some (v + 1)) cs
      | none => .error .typeError
    else if c = 'b' then
      match sem with
      | some v => accLoop (some (v - 1)) cs
      | none => .error .typeError
    else .error .invalidChord

/-- `pitch_class_to_semitone` -/
def pitchClassToSemitone : Str → Py Int
  | [] => .ok (0 % 12)
  | c :: cs =>
    match accLoop (Tables.pitchClasses.lookup [c]) cs with
    | .error e => .error e
    | .ok (some v) => .ok (v % 12)
    | .ok none => .error .typeError

/-- the accidental prefix of `scale_degree_to_semitone`: (offset, stripped string) -/
def degreeOffset (s : Str) : Int × Str :=
  if s.head? = some '#' then ((s.count '#' : Int), stripChars (· == '#') s)
  else if s.head? = some 'b' then (-(s.count 'b' : Int), stripChars (· == 'b') s)
  else (0, s)

/-- `scale_degree_to_semitone` -/
def scaleDegreeToSemitone (s : Str) : Py Int :=
  match Tables.scaleDegrees.lookup (degreeOffset s).2 with
  | some v => .ok (v + (degreeOffset s).1)
  | none => .error .invalidChord

/-- the `*` prefix of `scale_degree_to_bitmap`: (sign, stripped string) -/
def degreeSign (s : Str) : Int × Str :=
  if s.head? = some '*' then (-1, stripChars (· == '*') s) else (1, s)

/-- `scale_degree_to_bitmap(scale_degree, modulo, length)` for `length > 0` -/
def scaleDegreeToBitmap (s : Str) (modulo : Bool) (length : Nat := Tables.bitmapLength) : Py (List Int) :=
  match scaleDegreeToSemitone (degreeSign s).2 with
  | .error e => .error e
  | .ok idx =>
    if idx < (length : Int) ∨ modulo = true then
      .ok ((List.replicate length (0 : Int)).set (idx % (length : Int)).toNat (degreeSign s).1)
    else .ok (List.replicate length 0)

/-- `quality_to_bitmap` -/
def qualityToBitmap (q : Str) : Py (List Int) :=
  match Tables.qualities.lookup q with
  | some bm => .ok bm
  | none => .error .invalidChord

/-- `semitone_bitmap += other` (equal lengths) -/
def addBitmap (a b : List Int) : List Int := List.zipWith (· + ·) a b

/-- the `for scale_degree in scale_degrees` loop -/
def addDegrees (modulo : Bool) : List Int → List Str → Py (List Int)
  | bm, [] => .ok bm
  | bm, d :: ds =>
    match scaleDegreeToBitmap d modulo with
    | .error e => .error e
    | .ok e => addDegrees modulo (addBitmap bm e) ds

/-- `(semitone_bitmap > 0).astype(int)` -/
def threshold (bm : List Int) : List Int := bm.map fun x => if x > 0 then 1 else 0

abbrev Encoded := Int × List Int × Int

/-- `encode` after `split` -/
def encodeParts (p : Parts) (reduce strict : Bool) : Py Encoded :=
  match pitchClassToSemitone p.1 with
  | .error e => .error e
  | .ok root =>
    match scaleDegreeToSemitone p.2.2.2 with
    | .error e => .error e
    | .ok b =>
      match qualityToBitmap p.2.1 with
      | .error e => .error e
      | .ok q =>
        match addDegrees reduce (q.set 0 1) p.2.2.1 with
        | .error e => .error e
        | .ok bm =>
          if (threshold bm).getD (b % 12).toNat 0 = 0 ∧ strict = true then .error .invalidChord
          else .ok (root, (threshold bm).set (b % 12).toNat 1, b % 12)

/-- `encode(chord_label, reduce_extended_chords, strict_bass_intervals)` -/
def pyEncode (s : Str) (reduce strict : Bool) : Py Encoded :=
  if s = Tables.noChord then .ok Tables.noChordEncoded
  else if s = Tables.xChord then .ok Tables.xChordEncoded
  else
    match pySplit s reduce with
    | .error e => .error e
    | .ok p => encodeParts p reduce strict

/-- the loop of `encode_many`: labels are encoded in order, the first failure propagates
    (the `local_cache` only avoids recomputation) -/
def encodeAll (reduce : Bool) : List Str → Py (List Encoded)
  | [] => .ok []
  | l :: ls =>
    match pyEncode l reduce false with
    | .error e => .error e
    | .ok e =>
      match encodeAll reduce ls with
      | .error e' => .error e'
      | .ok es => .ok (e :: es)

/-- `encode_many(chord_labels, reduce_extended_chords)`: roots, bitmaps, basses -/
def pyEncodeMany (labels : List Str) (reduce : Bool) : Py (List Int × List (List Int) × List Int) :=
  match encodeAll reduce labels with
  | .error e => .error e
  | .ok rs => .ok (rs.map (·.1), rs.map (·.2.1), rs.map (·.2.2))

/-- `encode(join(*split(label, r)), r, strict)` with the model's own set order -/
def joinOfSplit (s : Str) (reduce : Bool) : Py Str :=
  match pySplit s reduce with
  | .error e => .error e
  | .ok (root, q, degs, bass) => pyJoin root q (some degs) bass

/-! ### protocol handler -/

private def vStr (s : Str) : Val := .str (String.ofList s)
private def vInts (xs : List Int) : Val := Val.ofInts xs
private def vEncoded (e : Encoded) : Val := .list [Val.ofInt e.1, vInts e.2.1, Val.ofInt e.2.2]
private def vParts (p : Parts) : Val := .list [vStr p.1, vStr p.2.1, .list (p.2.2.1.map vStr), vStr p.2.2.2]

private def optStrs? : Val → Option (Option (List Str))
  | .none => some none
  | v => (v.asStrs?).map fun xs => some (xs.map String.toList)

def handler : Handler := fun fn args =>
  match fn, args with
  | "chord.validate", [s] => do
      let s ← s.asStr?
      some ((pyValidate s.toList).map fun _ => Val.bool true)
  | "chord.recognize", [s] => do
      let s ← s.asStr?
      some (.ok (.bool (recognize s.toList).isSome))
  | "chord.accept", [s] => do
      let s ← s.asStr?
      some (.ok (.list [.bool (recognize s.toList).isSome, .bool (reMatch s.toList)]))
  | "chord.rematch", [s] => do
      let s ← s.asStr?
      some (.ok (.bool (reMatch s.toList)))
  | "chord.render_recognized", [s] => do
      let s ← s.asStr?
      some (.ok (match recognize s.toList with | some l => vStr l.render | none => Val.none))
  | "chord.split", [s, r] => do
      let s ← s.asStr?; let r ← r.asBool?
      some ((pySplit s.toList r).map vParts)
  | "chord.join", [root, q, ext, bass] => do
      let root ← root.asStr?; let q ← q.asStr?; let ext ← optStrs? ext; let bass ← bass.asStr?
      some ((pyJoin root.toList q.toList ext bass.toList).map vStr)
  | "chord.join_split", [s, r] => do
      let s ← s.asStr?; let r ← r.asBool?
      some ((joinOfSplit s.toList r).map vStr)
  | "chord.encode", [s, r, sb] => do
      let s ← s.asStr?; let r ← r.asBool?; let sb ← sb.asBool?
      some ((pyEncode s.toList r sb).map vEncoded)
  | "chord.join_split_encode", [s, r, sb] => do
      let s ← s.asStr?; let r ← r.asBool?; let sb ← sb.asBool?
      some ((joinOfSplit s.toList r).bind fun j => (pyEncode j r sb).map vEncoded)
  | "chord.encode_many", [ls, r] => do
      let ls ← ls.asStrs?; let r ← r.asBool?
      some ((pyEncodeMany (ls.map String.toList) r).map fun (a, b, c) =>
        .list [vInts a, .list (b.map vInts), vInts c])
  | "chord.pitch_class_to_semitone", [s] => do
      let s ← s.asStr?
      some ((pitchClassToSemitone s.toList).map Val.ofInt)
  | "chord.scale_degree_to_semitone", [s] => do
      let s ← s.asStr?
      some ((scaleDegreeToSemitone s.toList).map Val.ofInt)
  | "chord.scale_degree_to_bitmap", [s, m] => do
      let s ← s.asStr?; let m ← m.asBool?
      some ((scaleDegreeToBitmap s.toList m).map vInts)
  | "chord.quality_to_bitmap", [s] => do
      let s ← s.asStr?
      some ((qualityToBitmap s.toList).map vInts)
  | "chord.reduce_extended_quality", [s] => do
      let s ← s.asStr?
      let (q, add) := reduceExtendedQuality s.toList
      some (.ok (.list [vStr q, .list (add.map vStr)]))
  | _, _ => none

end Mir.Chord
