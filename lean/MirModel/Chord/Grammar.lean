import MirModel.Basic
/-
  MirModel.Chord.Grammar — Layer S: the Harte chord-label syntax documented in mir_eval.chord
      root[:shorthand][(degrees)][/bass]   plus   N   and   X
  as an inductive type `Label` with `render : Label → List Char`, and a total recogniser
  `recognize : List Char → Option Label` (no fuel, no partiality: it cuts the string at the
  separators and parses every piece completely).
  `MirProofs.Props.C10` proves `recognize (render l) = some l` and `recognize s = some l → render l = s`,
  i.e. `recognize` decides exactly the language `{render l}` and the grammar is unambiguous.
-/
namespace Mir.Chord

/-! ### small list-of-characters primitives shared with the Python-string model -/

/-- `sep.join(xs)` for a one-character separator. -/
def joinSep (sep : Char) : List (List Char) → List Char
  | [] => []
  | [x] => x
  | x :: y :: r => x ++ sep :: joinSep sep (y :: r)

/-- `s.split(sep)` for a one-character separator (always at least one piece). -/
def splitOn (sep : Char) : List Char → List (List Char)
  | [] => [[]]
  | c :: cs =>
    if c = sep then [] :: splitOn sep cs
    else match splitOn sep cs with
      | [] => [[c]]
      | h :: t => (c :: h) :: t

/-- cut at the first `sep`: (text before it, text after it if there is one). -/
def breakOn (sep : Char) : List Char → List Char × Option (List Char)
  | [] => ([], none)
  | c :: cs =>
    if c = sep then ([], some cs)
    else ((c :: (breakOn sep cs).1), (breakOn sep cs).2)

/-- length of the leading run of `c`, and what follows it. -/
def countRun (c : Char) : List Char → Nat × List Char
  | [] => (0, [])
  | x :: xs => if x = c then (((countRun c xs).1 + 1), (countRun c xs).2) else (0, x :: xs)

/-- `mapM` in `Option`, written out (structural, easy to reason about) -/
def mapOpt {α β : Type} (f : α → Option β) : List α → Option (List β)
  | [] => some []
  | x :: xs =>
    match f x, mapOpt f xs with
    | some y, some ys => some (y :: ys)
    | _, _ => none

/-! ### the grammar -/

inductive Letter where
  | A | B | C | D | E | F | G
  deriving DecidableEq, Repr, Inhabited

def Letter.char : Letter → Char
  | .A => 'A' | .B => 'B' | .C => 'C' | .D => 'D' | .E => 'E' | .F => 'F' | .G => 'G'

def Letter.all : List Letter := [.A, .B, .C, .D, .E, .F, .G]

def Letter.ofChar? (c : Char) : Option Letter := Letter.all.find? fun l => l.char == c

/-- `(b*|#*)`: nothing, or `n+1` flats, or `n+1` sharps (so that every value renders differently). -/
inductive Acc where
  | natural
  | flats (n : Nat)
  | sharps (n : Nat)
  deriving DecidableEq, Repr, Inhabited

def Acc.render : Acc → List Char
  | .natural => []
  | .flats n => List.replicate (n + 1) 'b'
  | .sharps n => List.replicate (n + 1) '#'

/-- `([1-9]|1[0-3]?)` -/
inductive DegNum where
  | d1 | d2 | d3 | d4 | d5 | d6 | d7 | d8 | d9 | d10 | d11 | d12 | d13
  deriving DecidableEq, Repr, Inhabited

def DegNum.render : DegNum → List Char
  | .d1 => ['1'] | .d2 => ['2'] | .d3 => ['3'] | .d4 => ['4'] | .d5 => ['5'] | .d6 => ['6']
  | .d7 => ['7'] | .d8 => ['8'] | .d9 => ['9'] | .d10 => ['1', '0'] | .d11 => ['1', '1']
  | .d12 => ['1', '2'] | .d13 => ['1', '3']

def DegNum.all : List DegNum :=
  [.d1, .d2, .d3, .d4, .d5, .d6, .d7, .d8, .d9, .d10, .d11, .d12, .d13]

def DegNum.ofName? (s : List Char) : Option DegNum := DegNum.all.find? fun n => n.render == s

structure Degree where
  acc : Acc
  num : DegNum
  deriving DecidableEq, Repr, Inhabited

def Degree.render (d : Degree) : List Char := d.acc.render ++ d.num.render

/-- `\*?` degree -/
structure DegItem where
  omitted : Bool
  deg : Degree
  deriving DecidableEq, Repr, Inhabited

def DegItem.render (i : DegItem) : List Char := (if i.omitted then ['*'] else []) ++ i.deg.render

/-- exactly the alternation of `CHORD_RE` -/
inductive Shorthand where
  | maj | min | dim | aug | one | five | sus2 | sus4 | maj6 | min6 | seven | maj7 | min7
  | dim7 | hdim7 | minmaj7 | aug7 | nine | maj9 | min9 | eleven | maj11 | min11
  | thirteen | maj13 | min13
  deriving DecidableEq, Repr, Inhabited

def Shorthand.name : Shorthand → List Char
  | .maj => ['m', 'a', 'j'] | .min => ['m', 'i', 'n'] | .dim => ['d', 'i', 'm'] | .aug => ['a', 'u', 'g']
  | .one => ['1'] | .five => ['5']
  | .sus2 => ['s', 'u', 's', '2'] | .sus4 => ['s', 'u', 's', '4']
  | .maj6 => ['m', 'a', 'j', '6'] | .min6 => ['m', 'i', 'n', '6']
  | .seven => ['7'] | .maj7 => ['m', 'a', 'j', '7'] | .min7 => ['m', 'i', 'n', '7']
  | .dim7 => ['d', 'i', 'm', '7'] | .hdim7 => ['h', 'd', 'i', 'm', '7']
  | .minmaj7 => ['m', 'i', 'n', 'm', 'a', 'j', '7'] | .aug7 => ['a', 'u', 'g', '7']
  | .nine => ['9'] | .maj9 => ['m', 'a', 'j', '9'] | .min9 => ['m', 'i', 'n', '9']
  | .eleven => ['1', '1'] | .maj11 => ['m', 'a', 'j', '1', '1'] | .min11 => ['m', 'i', 'n', '1', '1']
  | .thirteen => ['1', '3'] | .maj13 => ['m', 'a', 'j', '1', '3'] | .min13 => ['m', 'i', 'n', '1', '3']

def Shorthand.all : List Shorthand :=
  [.maj, .min, .dim, .aug, .one, .five, .sus2, .sus4, .maj6, .min6, .seven, .maj7, .min7,
   .dim7, .hdim7, .minmaj7, .aug7, .nine, .maj9, .min9, .eleven, .maj11, .min11,
   .thirteen, .maj13, .min13]

def Shorthand.ofName? (s : List Char) : Option Shorthand := Shorthand.all.find? fun q => q.name == s

/-- what may follow the root: `:shorthand`, `:shorthand(d,…)`, or `:(d,…)` (degree lists are non-empty). -/
inductive Body where
  | short (q : Shorthand) (degs : Option (DegItem × List DegItem))
  | degsOnly (d : DegItem) (ds : List DegItem)
  deriving DecidableEq, Repr, Inhabited

inductive Label where
  | N
  | X
  | chord (letter : Letter) (acc : Acc) (body : Option Body) (bass : Option Degree)
  deriving DecidableEq, Repr, Inhabited

def renderParen (d : DegItem) (ds : List DegItem) : List Char :=
  '(' :: (joinSep ',' ((d :: ds).map DegItem.render) ++ [')'])

def Body.render : Body → List Char
  | .short q none => ':' :: q.name
  | .short q (some (d, ds)) => ':' :: (q.name ++ renderParen d ds)
  | .degsOnly d ds => ':' :: renderParen d ds

def renderBody : Option Body → List Char
  | none => []
  | some b => b.render

def renderBass : Option Degree → List Char
  | none => []
  | some d => '/' :: d.render

def Label.render : Label → List Char
  | .N => ['N']
  | .X => ['X']
  | .chord l a body bass => l.char :: (a.render ++ (renderBody body ++ renderBass bass))

/-! ### the recogniser -/

/-- `(b*|#*)` read greedily from the front; returns what follows. -/
def parseAcc (s : List Char) : Acc × List Char :=
  match s with
  | [] => (.natural, [])
  | c :: r =>
    if c = 'b' then (.flats (countRun 'b' r).1, (countRun 'b' r).2)
    else if c = '#' then (.sharps (countRun '#' r).1, (countRun '#' r).2)
    else (.natural, c :: r)

/-- a complete string as one degree -/
def parseDegree (s : List Char) : Option Degree :=
  match DegNum.ofName? (parseAcc s).2 with
  | some n => some ⟨(parseAcc s).1, n⟩
  | none => none

/-- a complete string as one `\*?degree` -/
def parseItem (s : List Char) : Option DegItem :=
  match s with
  | [] => none
  | c :: r =>
    if c = '*' then (parseDegree r).map (DegItem.mk true)
    else (parseDegree (c :: r)).map (DegItem.mk false)

/-- the text between the parentheses -/
def parseItems (s : List Char) : Option (DegItem × List DegItem) :=
  match mapOpt parseItem (splitOn ',' s) with
  | some (d :: ds) => some (d, ds)
  | _ => none

/-- the text after `(`: items followed by the closing parenthesis, which must be the last character -/
def parseParenTail (s : List Char) : Option (DegItem × List DegItem) :=
  if s.getLast? = some ')' then parseItems s.dropLast else none

/-- the text after `:` (up to `/` or the end) -/
def parseBody (s : List Char) : Option Body :=
  match breakOn '(' s with
  | (q, none) => (Shorthand.ofName? q).map fun q => Body.short q none
  | (q, some r) =>
    match parseParenTail r with
    | none => none
    | some (d, ds) =>
      if q = [] then some (.degsOnly d ds)
      else (Shorthand.ofName? q).map fun q => Body.short q (some (d, ds))

def parseOptBody (s : List Char) : Option (Option Body) :=
  match s with
  | [] => some none
  | c :: r => if c = ':' then (parseBody r).map some else none

def parseOptBass : Option (List Char) → Option (Option Degree)
  | none => some none
  | some b => (parseDegree b).map some

def recognize (s : List Char) : Option Label :=
  if s = ['N'] then some .N
  else if s = ['X'] then some .X
  else match s with
    | [] => none
    | c :: r =>
      match Letter.ofChar? c with
      | none => none
      | some l =>
        match parseOptBody (breakOn '/' (parseAcc r).2).1, parseOptBass (breakOn '/' (parseAcc r).2).2 with
        | some body, some bass => some (.chord l (parseAcc r).1 body bass)
        | _, _ => none

end Mir.Chord
