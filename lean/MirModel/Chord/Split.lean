import MirModel.Chord.Grammar
import MirGen.Tables
/-
  MirModel.Chord.Split — Layer M: `validate_chord_label`, `split`, `join`, `reduce_extended_quality`
  of mir_eval/chord.py mirrored on Python *strings* (lists of code points), quirks included:

  * `CHORD_RE.match(s)` with `^…\Z` (the pattern is anchored at the very end of the string since the
    repair `fix: chord label validation no longer accepts a trailing newline`): the set of accepted strings is
    the regular language L of the pattern.  `recognize` (Grammar.lean) stands for L here; the pattern itself is
    regenerated from chord.py into `MirGen/ChordRe.lean` and `MirProofs/Props/C10_Regex.lean` proves, for every
    string, `reMatch s = Rx.accepts Gen.chordReMethod Gen.chordRe s` (`reMatch_eq_regex`), so this definition IS
    the regenerated regex.
  * `a, b = s.split(sep)` raises ValueError unless there is exactly one separator (`unpack2`).
  * `set(...)` is a duplicate-free list (first occurrences, insertion order); Python's iteration order is
    unspecified, so theorems about consumers of the set are stated for every permutation.
  * `str.strip()` strips Python's Unicode white space, `strip(")")` strips both ends, `lower()` is modelled
    on ASCII only (no other cased character can reach it: the label has passed `CHORD_RE`).
-/
namespace Mir.Chord
open MirGen

abbrev Str := List Char

/-- `a, b = xs` -/
def unpack2 {α : Type} : List α → Py (α × α)
  | [a, b] => .ok (a, b)
  | _ => .error .valueError

/-- `s.strip(chars)` for the characters satisfying `p` -/
def stripChars (p : Char → Bool) (s : Str) : Str :=
  ((s.dropWhile p).reverse.dropWhile p).reverse

/-- `str.isspace` for one code point (the characters `str.strip()` removes) -/
def isPySpace (c : Char) : Bool :=
  let n := c.toNat
  (9 ≤ n && n ≤ 13) || (28 ≤ n && n ≤ 32) || n == 0x85 || n == 0xa0 || n == 0x1680 ||
  (0x2000 ≤ n && n ≤ 0x200a) || n == 0x2028 || n == 0x2029 || n == 0x202f || n == 0x205f || n == 0x3000

/-- `str.lower()` on ASCII -/
def lowerChar (c : Char) : Char :=
  if 65 ≤ c.toNat ∧ c.toNat ≤ 90 then Char.ofNat (c.toNat + 32) else c

def pyLower (s : Str) : Str := s.map lowerChar

/-- `set.add` / `set(...)` / `set.update` on duplicate-free lists -/
def setInsert (s : List Str) (x : Str) : List Str := if x ∈ s then s else s ++ [x]
def setUnion (s t : List Str) : List Str := t.foldl setInsert s
def setOfList (xs : List Str) : List Str := setUnion [] xs

/-- the language of `CHORD_RE` between `^` and `\Z` (see the header) -/
def inLanguage (s : Str) : Bool := (recognize s).isSome

/-- `CHORD_RE.match(s) is not None` -/
def reMatch (s : Str) : Bool := inLanguage s

/-- `validate_chord_label` -/
def pyValidate (s : Str) : Py Unit :=
  if reMatch s then .ok () else .error .invalidChord

/-- `reduce_extended_quality` -/
def reduceExtendedQuality (q : Str) : Str × List Str :=
  match Tables.extendedQualityRedux.lookup q with
  | some (q', add) => (q', add)
  | none => (q, [])

/-- the parts `split` returns: root, quality, scale degrees (a set), bass -/
abbrev Parts := Str × Str × List Str × Str

/-- the `"/" in chord_label` block: (label, bass) -/
def splitBass (s : Str) : Py (Str × Str) :=
  if s.contains '/' then unpack2 (splitOn '/' s) else .ok (s, ['1'])

/-- the `"(" in chord_label` block: new label, scale-degree set, omission flag -/
def splitDegrees (label : Str) : Py (Str × List Str × Bool) :=
  if label.contains '(' then
    match unpack2 (splitOn '(' label) with
    | .error e => .error e
    | .ok (label', sd) =>
      .ok (label',
           setOfList ((splitOn ',' (stripChars (· == ')') sd)).map (stripChars isPySpace)),
           sd.contains '*')
  else .ok (label, [], false)

/-- the `":" in chord_label` block: (root, quality) given the default quality -/
def splitQuality (label dflt : Str) : Py (Str × Str) :=
  if label.contains ':' then
    match unpack2 (splitOn ':' label) with
    | .error e => .error e
    | .ok (root, qn) => .ok (root, if qn.isEmpty then dflt else pyLower qn)
  else .ok (label, dflt)

/-- the `if reduce_extended_chords` block -/
def applyReduce (reduce : Bool) (p : Parts) : Parts :=
  if reduce then
    (p.1, (reduceExtendedQuality p.2.1).1, setUnion p.2.2.1 (reduceExtendedQuality p.2.1).2, p.2.2.2)
  else p

/-- `split` after validation and the `N` shortcut -/
def splitCore (s : Str) (reduce : Bool) : Py Parts :=
  match splitBass s with
  | .error e => .error e
  | .ok (label, bass) =>
    match splitDegrees label with
    | .error e => .error e
    | .ok (label, degs, omission) =>
      if omission && !label.contains ':' then .error .invalidChord
      else
        match splitQuality label (if degs.isEmpty then ['m', 'a', 'j'] else []) with
        | .error e => .error e
        | .ok (root, quality) => .ok (applyReduce reduce (root, quality, degs, bass))

/-- `split(chord_label, reduce_extended_chords)` -/
def pySplit (s : Str) (reduce : Bool) : Py Parts :=
  match pyValidate s with
  | .error e => .error e
  | .ok _ =>
    if s = Tables.noChord then .ok (s, [], [], [])
    else splitCore s reduce

/-- `join(chord_root, quality, extensions, bass)`; `extensions = none` is Python's `None` -/
def joinRaw (root quality : Str) (ext : Option (List Str)) (bass : Str) : Str :=
  let exts := ext.getD []
  root
  ++ (if !quality.isEmpty || !exts.isEmpty then ':' :: quality else [])
  ++ (if !exts.isEmpty then '(' :: (joinSep ',' exts ++ [')']) else [])
  ++ (if !bass.isEmpty && bass != ['1'] then '/' :: bass else [])

def pyJoin (root quality : Str) (ext : Option (List Str)) (bass : Str) : Py Str :=
  match pyValidate (joinRaw root quality ext bass) with
  | .error e => .error e
  | .ok _ => .ok (joinRaw root quality ext bass)

end Mir.Chord
