import MirModel.Basic
/-
  MirModel.ChordCompare — the 12 chord comparison functions of `mir_eval.chord`
  (thirds, thirds_inv, triads, triads_inv, tetrads, tetrads_inv, root, mirex, majmin, majmin_inv,
  sevenths, sevenths_inv) on ONE (reference, estimate) pair of *encoded* labels, plus
  `pitch_class_to_semitone` on strings.

  The Python functions are vectorised: they `encode_many` both label lists into
  `roots : int64[n]`, `semitones : int64[n,12]`, `basses : int64[n]` and then work row by row; no
  row influences another.  The model is the row semantics, transliterated line by line.

  Model domain D_f (DESIGN §3.5): `encode_many` allocates `np.zeros([n, 12])`, so every bitmap row has
  length 12; and the `*_inv` rules index `ref_semitones[i, ref_bass[i]]`, which needs `bass < 12`.
  `WellShaped` states this; the driver answers `bad-op` outside it (no claim is made there).
-/
namespace Mir.ChordCompare

/-- One row of `encode_many`: `(root_number, semitone_bitmap, bass_number)`. -/
structure Enc where
  root : Int
  bm : List Int
  bass : Int
  deriving DecidableEq, Repr, Inhabited

def Enc.ofTuple (t : Int × List Int × Int) : Enc := ⟨t.1, t.2.1, t.2.2⟩
def Enc.toTuple (e : Enc) : Int × List Int × Int := (e.root, e.bm, e.bass)

/-- `NO_CHORD_ENCODED = -1, np.array([0] * 12), -1` -/
def noChord : Enc := ⟨-1, List.replicate 12 0, -1⟩
/-- `X_CHORD_ENCODED = -1, np.array([-1] * 12), -1` -/
def xChord : Enc := ⟨-1, List.replicate 12 (-1), -1⟩

/-! The rows of `QUALITIES` that the rules read (`majmin*`: "maj", "min" — first 8 entries only;
    `sevenths*`: "maj", "min", "maj7", "7", "min7", "").  Hard-coded here from chord.py; to be tied to
    the regenerated `MirGen/Tables.lean` by a `decide` obligation when that file exists. -/
def QUAL_maj  : List Int := [1, 0, 0, 0, 1, 0, 0, 1, 0, 0, 0, 0]
def QUAL_min  : List Int := [1, 0, 0, 1, 0, 0, 0, 1, 0, 0, 0, 0]
def QUAL_7    : List Int := [1, 0, 0, 0, 1, 0, 0, 1, 0, 0, 1, 0]
def QUAL_maj7 : List Int := [1, 0, 0, 0, 1, 0, 0, 1, 0, 0, 0, 1]
def QUAL_min7 : List Int := [1, 0, 0, 1, 0, 0, 0, 1, 0, 0, 1, 0]
def QUAL_none : List Int := [0, 0, 0, 0, 0, 0, 0, 0, 0, 0, 0, 0]
/-- `seventh_qualities = ["maj", "min", "maj7", "7", "min7", ""]` -/
def seventhBitmaps : List (List Int) := [QUAL_maj, QUAL_min, QUAL_maj7, QUAL_7, QUAL_min7, QUAL_none]

/-- the domain on which the row semantics is claimed -/
def WellShaped (e : Enc) : Prop := e.bm.length = 12 ∧ e.bass < 12
instance (e : Enc) : Decidable (WellShaped e) := by unfold WellShaped; infer_instance

/-- `.astype(np.float64)` of a boolean -/
def b2i (b : Bool) : Int := if b then 1 else 0

/-- `np.any(ref_semitones < 0, axis=1)` -/
def anyNeg (bm : List Int) : Bool := bm.any (fun v => decide (v < 0))

def eqRoot (r e : Enc) : Bool := r.root == e.root
def eqBass (r e : Enc) : Bool := r.bass == e.bass
/-- `ref_semitones[:, 3] == est_semitones[:, 3]` -/
def eqThird (r e : Enc) : Bool := r.bm[3]? == e.bm[3]?
/-- `np.all(np.equal(ref_semitones[:, :8], est_semitones[:, :8]), axis=1)` -/
def eqPrefix8 (r e : Enc) : Bool := r.bm.take 8 == e.bm.take 8
/-- `np.all(np.equal(ref_semitones, est_semitones), axis=1)` -/
def eqAll (r e : Enc) : Bool := r.bm == e.bm

/-- `comparison_scores[np.any(ref_semitones < 0, axis=1)] = -1.0` -/
def maskX (r : Enc) (score : Int) : Int := if anyNeg r.bm then -1 else score

def thirds (r e : Enc) : Int := maskX r (b2i (eqRoot r e && eqThird r e))
def thirdsInv (r e : Enc) : Int := maskX r (b2i (eqRoot r e && eqThird r e && eqBass r e))
def triads (r e : Enc) : Int := maskX r (b2i (eqRoot r e && eqPrefix8 r e))
def triadsInv (r e : Enc) : Int := maskX r (b2i (eqRoot r e && eqPrefix8 r e && eqBass r e))
def tetrads (r e : Enc) : Int := maskX r (b2i (eqRoot r e && eqAll r e))
def tetradsInv (r e : Enc) : Int := maskX r (b2i (eqRoot r e && eqAll r e && eqBass r e))
def root (r e : Enc) : Int := maskX r (b2i (eqRoot r e))

/-! ### mirex -/

/-- membership of index `i` in `np.nonzero(bitmap)` -/
def nzAt (bm : List Int) (i : Nat) : Bool :=
  match bm[i]? with
  | some v => v != 0
  | none => false

/-- `rotate_bitmap_to_root`: `idxs = (nonzero(bitmap) + chord_root) % 12; abs = zeros_like(bitmap);
    abs[idxs] = 1` (Python `%` with a positive modulus is `Int.emod`). -/
def rotate (bm : List Int) (chordRoot : Int) : List Int :=
  let idxs : List Int := ((List.range bm.length).filter (nzAt bm)).map (fun (i : Nat) => ((i : Int) + chordRoot) % 12)
  (List.range bm.length).map (fun (j : Nat) => if idxs.contains (j : Int) then 1 else 0)

/-- `(ref_chroma * est_chroma).sum(axis=-1)` -/
def dot (a b : List Int) : Int := (List.zipWith (· * ·) a b).sum

/-- `(ref_data[1] > 0).sum(axis=1)` -/
def countPos (bm : List Int) : Int := ((bm.filter (fun v => decide (v > 0))).length : Int)

def mirex (r e : Enc) : Int :=
  let minIntersection : Int := 3
  let refChroma := rotate r.bm r.root
  let estChroma := rotate e.bm e.root
  let eqChroma := dot refChroma estChroma
  let score0 := b2i (decide (eqChroma ≥ minIntersection))
  let noRoot := (r.root == -1) && (e.root == -1)
  let score1 := if noRoot then 1 else score0
  let cnt := countPos r.bm
  let skip := (decide (cnt > 0) && decide (cnt < minIntersection)) || anyNeg r.bm
  if skip then -1 else score1

/-! ### majmin / sevenths -/

def isMaj (r : Enc) : Bool := r.bm.take 8 == QUAL_maj.take 8
def isMin (r : Enc) : Bool := r.bm.take 8 == QUAL_min.take 8
/-- `np.logical_and(ref_roots < 0, np.all(ref_semitones == 0, axis=1))` -/
def isNone (r : Enc) : Bool := decide (r.root < 0) && r.bm.all (fun v => v == 0)
/-- `(is_maj + is_min + is_none) == 0` is the complement of this -/
def majminVocab (r : Enc) : Bool := isMaj r || isMin r || isNone r

/-- `valid_inversion = ones; bass_idx = ref_bass >= 0;
    valid_inversion[bass_idx] = ref_semitones[bass_idx, ref_bass[bass_idx]]` (int → bool cast).
    Inside D_f the lookup succeeds; outside it Python raises IndexError and no claim is made. -/
def validInversion (r : Enc) : Bool :=
  if r.bass ≥ 0 then
    match r.bm[r.bass.toNat]? with
    | some v => v != 0
    | none => true
  else true

def majmin (r e : Enc) : Int :=
  let score := b2i (eqRoot r e && eqPrefix8 r e)
  if majminVocab r then score else -1

def majminInv (r e : Enc) : Int :=
  let score := b2i ((eqRoot r e && eqBass r e) && eqPrefix8 r e)
  let score := if majminVocab r then score else -1
  if validInversion r then score else -1

/-- `np.sum(is_valid, axis=0) == 0` is the complement of this -/
def seventhsVocab (r : Enc) : Bool := seventhBitmaps.any (fun q => r.bm == q)

def sevenths (r e : Enc) : Int :=
  let score := b2i (eqRoot r e && eqAll r e)
  if seventhsVocab r then score else -1

def seventhsInv (r e : Enc) : Int :=
  let score := b2i ((eqRoot r e && eqBass r e) && eqAll r e)
  let score := if seventhsVocab r then score else -1
  if validInversion r then score else -1

/-! ### the 12 rules as one family -/

inductive Rule where
  | thirds | thirdsInv | triads | triadsInv | tetrads | tetradsInv | root | mirex
  | majmin | majminInv | sevenths | seventhsInv
  deriving DecidableEq, Repr

def Rule.all : List Rule :=
  [.thirds, .thirdsInv, .triads, .triadsInv, .tetrads, .tetradsInv, .root, .mirex,
   .majmin, .majminInv, .sevenths, .seventhsInv]

def Rule.pyName : Rule → String
  | .thirds => "thirds" | .thirdsInv => "thirds_inv" | .triads => "triads" | .triadsInv => "triads_inv"
  | .tetrads => "tetrads" | .tetradsInv => "tetrads_inv" | .root => "root" | .mirex => "mirex"
  | .majmin => "majmin" | .majminInv => "majmin_inv" | .sevenths => "sevenths"
  | .seventhsInv => "sevenths_inv"

def cmp : Rule → Enc → Enc → Int
  | .thirds => thirds | .thirdsInv => thirdsInv | .triads => triads | .triadsInv => triadsInv
  | .tetrads => tetrads | .tetradsInv => tetradsInv | .root => root | .mirex => mirex
  | .majmin => majmin | .majminInv => majminInv | .sevenths => sevenths | .seventhsInv => seventhsInv

/-! ### what `chord.encode` can return -/

/-- N sentinel, X sentinel, or `0 ≤ root < 12`, a 12-long 0/1 bitmap, `0 ≤ bass < 12` and the bass bit set
    (`encode` forces `semitone_bitmap[bass_number] = 1` when `strict_bass_intervals=False`, which is how
    every comparison function calls it). -/
def Reachable (e : Enc) : Prop :=
  e = noChord ∨ e = xChord ∨
    (0 ≤ e.root ∧ e.root < 12 ∧ e.bm.length = 12 ∧ (∀ v ∈ e.bm, v = 0 ∨ v = 1) ∧
      0 ≤ e.bass ∧ e.bass < 12 ∧ e.bm[e.bass.toNat]? = some 1)

instance (e : Enc) : Decidable (Reachable e) := by unfold Reachable; infer_instance

/-- joint transposition by `k` semitones: roots of real chords move mod 12, sentinels stay -/
def transposeEnc (k : Int) (e : Enc) : Enc :=
  if e.root < 0 then e else { e with root := (e.root + k) % 12 }

/-! ### `pitch_class_to_semitone` -/

/-- `PITCH_CLASSES.get(char)` -/
def letterSemitone (c : Char) : Option Int :=
  if c = 'C' then some 0 else if c = 'D' then some 2 else if c = 'E' then some 4
  else if c = 'F' then some 5 else if c = 'G' then some 7 else if c = 'A' then some 9
  else if c = 'B' then some 11 else none

/-- one iteration of `for idx, char in enumerate(pitch_class)`; the running `semitone` is `None`
    after `PITCH_CLASSES.get` misses, and `None += 1` raises TypeError. -/
def pcsStep (st : Option Int) (idx : Nat) (c : Char) : Py (Option Int) :=
  if c = '#' ∧ idx > 0 then
    match st with
    | some v => .ok (some (v + 1))
    | none => .error .typeError
  else if c = 'b' ∧ idx > 0 then
    match st with
    | some v => .ok (some (v - 1))
    | none => .error .typeError
  else if idx = 0 then .ok (letterSemitone c)
  else .error .invalidChord

def pcsGo : Option Int → Nat → List Char → Py (Option Int)
  | st, _, [] => .ok st
  | st, i, c :: cs =>
      match pcsStep st i c with
      | .ok st' => pcsGo st' (i + 1) cs
      | .error e => .error e

/-- `pitch_class_to_semitone(pitch_class)`; `semitone % 12` on `None` raises TypeError -/
def pitchClassToSemitone (s : List Char) : Py Int :=
  match pcsGo (some 0) 0 s with
  | .ok (some v) => .ok (v % 12)
  | .ok none => .error .typeError
  | .error e => .error e

/-! ### driver glue -/

def encOfVal? (v : Val) : Option Enc :=
  match v with
  | .list [r, bm, b] => do
      let r ← r.asInt?
      let bm ← bm.asInts?
      let b ← b.asInt?
      some ⟨r, bm, b⟩
  | _ => none

def ruleOfName? (s : String) : Option Rule := Rule.all.find? (fun r => "chord." ++ r.pyName == s)
def ruleOfManyName? (s : String) : Option Rule :=
  Rule.all.find? (fun r => "chord." ++ r.pyName ++ ".many" == s)

def handler : Handler := fun fn args =>
  match fn, args with
  | "chord.pitch_class_to_semitone", [s] => do
      let s ← s.asStr?
      some ((pitchClassToSemitone s.toList).map Val.ofInt)
  | "chord.reachable", [a] => do
      -- is this triple one that the theorems quantify over?  (the harness sends real `encode` outputs)
      let a ← encOfVal? a
      some (.ok (.bool (decide (Reachable a))))
  | "chord.transpose_enc", [k, a] => do
      let k ← k.asInt?
      let a ← encOfVal? a
      let t := transposeEnc k a
      some (.ok (.list [Val.ofInt t.root, Val.ofInts t.bm, Val.ofInt t.bass]))
  | "chord.compare_all", [a, b] => do
      -- all 12 rules on the same batch of pairs: one list of scores per rule, in `Rule.all` order
      let as ← (← a.asList?).mapM encOfVal?
      let bs ← (← b.asList?).mapM encOfVal?
      if as.length = bs.length ∧ as.all (fun a => decide (WellShaped a)) ∧
          bs.all (fun b => decide (WellShaped b)) then
        some (.ok (.list (Rule.all.map fun rule => Val.ofInts (List.zipWith (cmp rule) as bs))))
      else none
  | fn, [a, b] =>
      match ruleOfName? fn with
      | some rule => do
          let a ← encOfVal? a
          let b ← encOfVal? b
          if WellShaped a ∧ WellShaped b then some (.ok (Val.ofInt (cmp rule a b))) else none
      | none =>
        match ruleOfManyName? fn with
        | some rule => do
            let as ← (← a.asList?).mapM encOfVal?
            let bs ← (← b.asList?).mapM encOfVal?
            if as.length = bs.length ∧ as.all (fun a => decide (WellShaped a)) ∧
                bs.all (fun b => decide (WellShaped b)) then
              some (.ok (Val.ofInts (List.zipWith (cmp rule) as bs)))
            else none
        | none => none
  | _, _ => none

end Mir.ChordCompare
