import MirModel.Intervals
import MirModel.Chord.Encode
import MirModel.ChordCompare
/-
  MirModel.ChordEvaluate — `mir_eval.chord.evaluate` on LABEL STRINGS, as the code is: all 15 scores.

  The pipeline, in the order the code runs it (so that the escaping exception is the code's):
    1. `ref_intervals.min() / .max()`                      (ValueError on an empty reference)
    2. `util.adjust_intervals(est, …, NO_CHORD, NO_CHORD)` on the label strings
    3. `merge_chord_intervals(ref)`, `merge_chord_intervals(est')`: labels are encoded with
       `encode_many(labels, True)` — **extended chords reduced** — and neighbours with equal
       `(root, bitmap, bass)` are fused
    4. `util.merge_labeled_intervals`, `util.intervals_to_durations`
    5. the 12 comparison functions: `encode_many(labels, False)` — **not reduced** — of the merged label
       lists, then `weighted_accuracy`
    6. `underseg`, `overseg`, `seg = min(overseg, underseg)` on the fused intervals of step 3.
  Quirk kept: the fusing key (reduced encoding) and the compared encoding (not reduced) are different
  functions of the label (`C:9` and `C:7` are fused apart but compare equal; `C:9` and `C:7(9)` fuse).

  `evaluateWith` is the pipeline for abstract labels `S`, a fusing key `encK : S → Py K`, a comparison encoding
  `encT : S → Py T` and a family of comparison functions; `evaluateStr` is the instance of the code.
  No imports outside core Lean.
-/
namespace Mir
namespace ChordEval
open Iv

variable {S K T ρ : Type}

/-- `encode_many` along an annotation: labels are encoded in order, the first failure propagates -/
def encLI (enc : S → Py K) : LI S → Py (LI K)
  | [] => .ok []
  | x :: r =>
    match enc x.2.2 with
    | .error e => .error e
    | .ok k =>
      match encLI enc r with
      | .error e => .error e
      | .ok ks => .ok ((x.1, x.2.1, k) :: ks)

/-- `encode_many` of a label list -/
def encList (enc : S → Py T) : List S → Py (List T)
  | [] => .ok []
  | s :: r =>
    match enc s with
    | .error e => .error e
    | .ok t =>
      match encList enc r with
      | .error e => .error e
      | .ok ts => .ok (t :: ts)

/-- the weighted accuracies of the comparison functions `rules`, in order (the first failure propagates) -/
def accuracies (rules : List ρ) (cmp : ρ → T → T → Rat) (refT estT : List T) (durs : List Rat) : Py (List Num) :=
  rules.mapM fun r => wacc (List.zipWith (cmp r) refT estT) durs

/-- `chord.evaluate` for abstract labels: `[accuracy of each rule …, underseg, overseg, seg]` -/
def evaluateWith [DecidableEq K] (encK : S → Py K) (encT : S → Py T) (rules : List ρ) (cmp : ρ → T → T → Rat)
    (noChord : S) (ref est : LI S) : Py (List Num) := do
  let lo ← match minL (entries ref) with
    | some v => pure v
    | none => throw .valueError
  let hi ← match maxL (entries ref) with
    | some v => pure v
    | none => throw .valueError
  let est' ← adjustIntervals est (some lo) (some hi) noChord noChord
  let refK ← encLI encK ref
  let estK ← encLI encK est'
  let rows ← mergeLabeled ref est'
  let durs ← intervalsToDurations (rows.map fun r => (r.1, r.2.1))
  let refT ← encList encT (rows.map fun r => r.2.2.1)
  let estT ← encList encT (rows.map fun r => r.2.2.2)
  let accs ← accuracies rules cmp refT estT durs
  let u ← underseg (mergeChord refK) (mergeChord estK)
  let o ← overseg (mergeChord refK) (mergeChord estK)
  pure (accs ++ [u, o, Num.pymin o u])

/-- `encode(label, reduce_extended_chords)` as a row of the comparison model -/
def encodeStr (reduce : Bool) (s : Chord.Str) : Py ChordCompare.Enc :=
  match Chord.pyEncode s reduce false with
  | .ok e => .ok (ChordCompare.Enc.ofTuple e)
  | .error e => .error e

/-- a comparison rule as a float-valued function of two encodings -/
def ruleCmp (rule : ChordCompare.Rule) (a b : ChordCompare.Enc) : Rat := ((ChordCompare.cmp rule a b : Int) : Rat)

/-- `mir_eval.chord.evaluate(ref_intervals, ref_labels, est_intervals, est_labels)`: the values of the score
    dictionary in its order — thirds, thirds_inv, triads, triads_inv, tetrads, tetrads_inv, root, mirex, majmin,
    majmin_inv, sevenths, sevenths_inv, underseg, overseg, seg -/
def evaluateStr (ref est : LI Chord.Str) : Py (List Num) :=
  evaluateWith (encodeStr true) (encodeStr false) ChordCompare.Rule.all ruleCmp MirGen.Tables.noChord ref est

def handler : Handler := fun fn args =>
  match fn, args with
  | "chord.evaluate", [ri, rl, ei, el] => do
      let r ← zip3 (← ri.asRatPairs?) ((← rl.asStrs?).map String.toList)
      let e ← zip3 (← ei.asRatPairs?) ((← el.asStrs?).map String.toList)
      some ((evaluateStr r e).map fun out => .list (out.map valOfNum))
  | _, _ => none

end ChordEval
end Mir
