/-
  MirModel.Effects — the part of Python that makes impurity possible (DESIGN.md §5 C15).

  A pure Lean function is trivially pure, so the functional model of the metrics says nothing about
  C15.  What is modelled here instead is: names bound to heap objects, aliasing (views, pass-through),
  in-place writes, module-level state, `np.empty` buffers, early `return` / `raise` / `break`.

  * `Stmt`/`FunDef`/`Prog`   — the small imperative effect language the translator
                               (`harness/translate/effects.py`) emits one `FunDef` per Python function in.
  * `Exec`                   — concrete, nondeterministic big-step semantics over a store `Var → Nat`,
                               a heap `Nat → version`, an allocation counter and a global-state version.
                               Every statement may also raise (Python exceptions can occur anywhere).
  * `analyze`/`build`/`safe` — the abstract interpreter: flow-sensitive may-alias analysis whose abstract
                               values are sets of *origins* (0 = a module-level object, i+1 = the i-th
                               parameter), with callee summaries (`Eff`) checked as a post-fixpoint.
  * `ExecI`/`initOK`         — the `np.empty` bookkeeping (instrumented semantics + must-analysis).

  No imports outside core Lean (this file is linked into the native driver).  Everything is structurally
  recursive so that `decide` can evaluate it in the kernel.
-/
import MirModel.Basic

namespace Mir.Effects

abbrev Var := Nat
abbrev FunId := Nat
/-! Locations (`Nat`) and origins are plain `Nat`s.  Nat 0 = some module-level (global) object,
    origin `i+1` = the object passed as the i-th parameter. -/

/-- An expression either allocates a new object or may evaluate to (a view of / a container holding /
    an element of) one of its sources. -/
inductive Expr where
  | fresh (reads : List Var)
  | alias (srcs : List Var)
  deriving Repr, DecidableEq, Inhabited

inductive Stmt where
  | skip
  | seq (a b : Stmt)
  | assign (x : Var) (e : Expr)
  /-- in-place write through `x` (`x[i] = …`, `x += …` on arrays, `x.append(…)`, `out=x`, …) -/
  | mutate (x : Var)
  | call (ret : Option Var) (f : FunId) (args : List Var)
  | ite (a b : Stmt)
  | loop (body : Stmt)
  /-- rebinding of a module-level name or a call that changes interpreter/library global state -/
  | globalWrite (g : Nat)
  | allocEmpty (x : Var)
  | fillAll (x : Var)
  | fillSome (x : Var)
  | ret (srcs : List Var)
  | raise
  /-- `break` and `continue` (both: the current iteration ends here) -/
  | brk
  deriving Repr, Inhabited

/-- right-nested sequence of a statement list (what the translator emits for a block) -/
def Stmt.block : List Stmt → Stmt
  | [] => .skip
  | [s] => s
  | s :: rest => .seq s (Stmt.block rest)

structure FunDef where
  params : List Var
  body : Stmt
  deriving Repr, Inhabited

structure Prog where
  funs : List FunDef
  /-- variable ids that denote module-level objects (bound in every frame) -/
  globals : List Var
  deriving Repr, Inhabited

/-! ## Concrete semantics -/

structure State where
  store : Var → Option Nat
  heap : Nat → Nat
  next : Nat
  gver : Nat

inductive Out where
  | norm
  | ret (l : Nat)
  | exc
  | brk
  deriving DecidableEq, Repr

def upd (σ : Var → Option Nat) (x : Var) (l : Nat) : Var → Option Nat :=
  fun v => if v = x then some l else σ v

def bump (h : Nat → Nat) (l : Nat) : Nat → Nat :=
  fun k => if k = l then h k + 1 else h k

/-- frame of a callee: parameters bound to the argument locations, everything else to `base` -/
def bindParams : List Var → List Nat → (Var → Option Nat) → Var → Option Nat
  | p :: ps, l :: ls, base => fun v => if v = p then some l else bindParams ps ls base v
  | _, _, base => base

/-- the module-level names visible in every frame -/
def globalStore (P : Prog) (genv : Var → Option Nat) : Var → Option Nat :=
  fun v => if P.globals.contains v then genv v else none

def lookupAll (σ : Var → Option Nat) : List Var → Option (List Nat)
  | [] => some []
  | v :: vs => match σ v, lookupAll σ vs with
    | some l, some ls => some (l :: ls)
    | _, _ => none

def bindRet (σ : Var → Option Nat) : Option Var → Nat → Var → Option Nat
  | some x, l => upd σ x l
  | none, _ => σ

def entryState (P : Prog) (genv : Var → Option Nat) (fd : FunDef) (locs : List Nat)
    (heap : Nat → Nat) (next : Nat) (gver : Nat) : State :=
  { store := bindParams fd.params locs (globalStore P genv), heap := heap, next := next, gver := gver }

/-- Big-step, nondeterministic.  `Exec P genv st s s' o`: statement `st` started in `s` may end in `s'`
    with outcome `o`. -/
inductive Exec (P : Prog) (genv : Var → Option Nat) : Stmt → State → State → Out → Prop where
  /-- any statement may raise before it has any effect of its own -/
  | raise_any (st : Stmt) (s : State) : Exec P genv st s s .exc
  | skip (s : State) : Exec P genv .skip s s .norm
  | seq_norm {a b s s1 s2 o} : Exec P genv a s s1 .norm → Exec P genv b s1 s2 o →
      Exec P genv (.seq a b) s s2 o
  | seq_abort {a b s s1 o} : Exec P genv a s s1 o → o ≠ .norm → Exec P genv (.seq a b) s s1 o
  | assign_fresh {x rs} (s : State) :
      Exec P genv (.assign x (.fresh rs)) s
        { s with store := upd s.store x s.next, next := s.next + 1 } .norm
  | assign_alias {x srcs v l} (s : State) : v ∈ srcs → s.store v = some l →
      Exec P genv (.assign x (.alias srcs)) s { s with store := upd s.store x l } .norm
  | mutate {x l} (s : State) : s.store x = some l →
      Exec P genv (.mutate x) s { s with heap := bump s.heap l } .norm
  | call_ret {r f args fd locs sc l} (s : State) :
      P.funs[f]? = some fd → lookupAll s.store args = some locs →
      Exec P genv fd.body (entryState P genv fd locs s.heap s.next s.gver) sc (.ret l) →
      Exec P genv (.call r f args) s
        { store := bindRet s.store r l, heap := sc.heap, next := sc.next, gver := sc.gver } .norm
  | call_none {r f args fd locs sc} (s : State) :
      P.funs[f]? = some fd → lookupAll s.store args = some locs →
      Exec P genv fd.body (entryState P genv fd locs s.heap s.next s.gver) sc .norm →
      Exec P genv (.call r f args) s
        { store := bindRet s.store r sc.next, heap := sc.heap, next := sc.next + 1, gver := sc.gver } .norm
  | call_exc {r f args fd locs sc} (s : State) :
      P.funs[f]? = some fd → lookupAll s.store args = some locs →
      Exec P genv fd.body (entryState P genv fd locs s.heap s.next s.gver) sc .exc →
      Exec P genv (.call r f args) s
        { store := s.store, heap := sc.heap, next := sc.next, gver := sc.gver } .exc
  | ite_l {a b s s' o} : Exec P genv a s s' o → Exec P genv (.ite a b) s s' o
  | ite_r {a b s s' o} : Exec P genv b s s' o → Exec P genv (.ite a b) s s' o
  | loop_done {b} (s : State) : Exec P genv (.loop b) s s .norm
  | loop_step {b s s1 s2 o o'} : Exec P genv b s s1 o → (o = .norm ∨ o = .brk) →
      Exec P genv (.loop b) s1 s2 o' → Exec P genv (.loop b) s s2 o'
  | loop_abort {b s s1 o} : Exec P genv b s s1 o → o ≠ .norm → o ≠ .brk → Exec P genv (.loop b) s s1 o
  | globalWrite {g} (s : State) : Exec P genv (.globalWrite g) s { s with gver := s.gver + 1 } .norm
  | allocEmpty {x} (s : State) :
      Exec P genv (.allocEmpty x) s { s with store := upd s.store x s.next, next := s.next + 1 } .norm
  | fillAll {x} (s : State) : Exec P genv (.fillAll x) s s .norm
  | fillSome {x} (s : State) : Exec P genv (.fillSome x) s s .norm
  | ret_alias {srcs v l} (s : State) : v ∈ srcs → s.store v = some l → Exec P genv (.ret srcs) s s (.ret l)
  | ret_fresh {srcs} (s : State) : Exec P genv (.ret srcs) s { s with next := s.next + 1 } (.ret s.next)
  | brk (s : State) : Exec P genv .brk s s .brk

/-! ## Abstract interpreter -/

/-- abstract store: for each variable the set of origins its object may belong to (absent = none) -/
abbrev Env := List (List Nat)

def Env.get (e : Env) (v : Var) : List Nat := e.getD v []

def Env.set : Env → Var → List Nat → Env
  | [], 0, o => [o]
  | [], n + 1, o => [] :: Env.set [] n o
  | _ :: xs, 0, o => o :: xs
  | x :: xs, n + 1, o => x :: Env.set xs n o

def uni (a b : List Nat) : List Nat := a ++ b.filter (fun x => !a.contains x)

def sub (a b : List Nat) : Bool := a.all (fun x => b.contains x)

def Env.join : Env → Env → Env
  | [], ys => ys
  | xs, [] => xs
  | x :: xs, y :: ys => uni x y :: Env.join xs ys

def Env.leq : Env → Env → Bool
  | [], _ => true
  | x :: xs, [] => x.isEmpty && Env.leq xs []
  | x :: xs, y :: ys => sub x y && Env.leq xs ys

def Env.getAll (e : Env) : List Var → List Nat
  | [] => []
  | v :: vs => uni (e.get v) (Env.getAll e vs)

/-- effect summary of a statement / of a function -/
structure Eff where
  /-- origins whose objects may be written in place -/
  wr : List Nat := []
  /-- origins the returned object may belong to -/
  ret : List Nat := []
  /-- may change module-level / library global state -/
  gw : Bool := false
  /-- the analysis gave up (unknown callee, loop invariant not found) -/
  fail : Bool := false
  /-- join of the abstract stores at `break`/`continue` points of the enclosing loop -/
  brk : Env := []
  deriving Repr, Inhabited

def Eff.union (a b : Eff) : Eff :=
  { wr := uni a.wr b.wr, ret := uni a.ret b.ret, gw := a.gw || b.gw, fail := a.fail || b.fail,
    brk := Env.join a.brk b.brk }

/-- `a` is covered by the summary `b` -/
def Eff.leq (a b : Eff) : Bool :=
  sub a.wr b.wr && sub a.ret b.ret && (!a.gw || b.gw) && (!a.fail || b.fail)

/-- instantiate a callee origin at a call site: global stays global, parameter i becomes the origins
    of the i-th argument -/
def instO (oa : List (List Nat)) (o : Nat) : List Nat :=
  match o with
  | 0 => [0]
  | i + 1 => oa.getD i []

def instAll (oa : List (List Nat)) : List Nat → List Nat
  | [] => []
  | o :: os => uni (instO oa o) (instAll oa os)

def iterStable : Nat → (Env → Env) → Env → Env
  | 0, _, e => e
  | n + 1, f, e => let e' := f e; if Env.leq e' e then e else iterStable n f e'

def loopFuel : Nat := 6

/-- The abstract transfer function.  `T` = table of callee summaries (index = `FunId`). -/
def analyze (T : List Eff) : Stmt → Env → Env × Eff
  | .skip, e => (e, {})
  | .seq a b, e =>
      let r1 := analyze T a e
      let r2 := analyze T b r1.1
      (r2.1, r1.2.union r2.2)
  | .assign x (.fresh _), e => (e.set x [], {})
  | .assign x (.alias srcs), e => (e.set x (e.getAll srcs), {})
  | .mutate x, e => (e, { wr := e.get x })
  | .call r f args, e =>
      match T[f]? with
      | none => (e, { fail := true })
      | some sm =>
          let oa := args.map e.get
          let e' := match r with
            | some x => e.set x (instAll oa sm.ret)
            | none => e
          (e', { wr := instAll oa sm.wr, gw := sm.gw, fail := sm.fail })
  | .ite a b, e =>
      let r1 := analyze T a e
      let r2 := analyze T b e
      (r1.1.join r2.1, r1.2.union r2.2)
  | .loop b, e =>
      let es := iterStable loopFuel (fun X => (X.join (analyze T b X).1).join (analyze T b X).2.brk) e
      let r := analyze T b es
      let ok := Env.leq e es && Env.leq r.1 es && Env.leq r.2.brk es
      (es, { r.2 with brk := [], fail := r.2.fail || !ok })
  | .globalWrite _, e => (e, { gw := true })
  | .allocEmpty x, e => (e.set x [], {})
  | .fillAll _, e => (e, {})
  | .fillSome _, e => (e, {})
  | .ret srcs, e => (e, { ret := e.getAll srcs })
  | .raise, e => (e, {})
  | .brk, e => (e, { brk := e })

def Env.add (e : Env) (v : Var) (o : Nat) : Env := e.set v (uni [o] (e.get v))

def initGlobals : List Var → Env
  | [] => []
  | g :: gs => (initGlobals gs).add g 0

def initParams : List Var → Nat → Env → Env
  | [], _, e => e
  | p :: ps, i, e => (initParams ps (i + 1) e).add p (i + 1)

def initEnv (P : Prog) (fd : FunDef) : Env := initParams fd.params 0 (initGlobals P.globals)

/-- summary of a function body under callee table `T` -/
def analyzeFun (P : Prog) (T : List Eff) (fd : FunDef) : Eff :=
  let r := (analyze T fd.body (initEnv P fd)).2
  { r with brk := [] }

/-- summary of the next function given the summaries `acc` of all earlier ones; a self-recursive
    function (its own entry is still missing, so the first attempt fails) is iterated from the empty
    summary.  Whatever comes out is only a candidate: `validTable` checks it. -/
def analyzeRec (P : Prog) (acc : List Eff) (fd : FunDef) : Eff :=
  let s0 := analyzeFun P acc fd
  if !s0.fail then s0 else
    let s1 := analyzeFun P (acc ++ [({} : Eff)]) fd
    let s2 := (analyzeFun P (acc ++ [s1]) fd).union s1
    let s3 := (analyzeFun P (acc ++ [s2]) fd).union s2
    s3

/-- bottom-up construction of the summary table: callees must precede callers (a call to a function
    that has no summary yet makes the caller's analysis fail) -/
def buildFrom (P : Prog) : List FunDef → List Eff → List Eff
  | [], acc => acc
  | fd :: rest, acc => buildFrom P rest (acc ++ [analyzeRec P acc fd])

def build (P : Prog) : List Eff := buildFrom P P.funs []

/-- `T` is a post-fixpoint: every function's body, analysed with `T` for its callees, is covered by
    its own entry in `T`.  (This is what soundness needs; how `T` was found is irrelevant.) -/
def validFrom (P : Prog) (T : List Eff) : List FunDef → Nat → Bool
  | [], _ => true
  | fd :: rest, i =>
      (match T[i]? with
       | some sm => (analyzeFun P T fd).leq sm
       | none => false) && validFrom P T rest (i + 1)

def validTable (P : Prog) (T : List Eff) : Bool := validFrom P T P.funs 0

def Eff.pure (sm : Eff) : Bool := sm.wr.isEmpty && !sm.gw && !sm.fail

def pureAt (T : List Eff) (f : FunId) : Bool :=
  match T[f]? with
  | some sm => sm.pure
  | none => false

/-- the function writes no object it did not allocate itself and no global state -/
def safe (P : Prog) (f : FunId) : Bool := validTable P (build P) && pureAt (build P) f

def noGlobalWritesAt (T : List Eff) (f : FunId) : Bool :=
  match T[f]? with
  | some sm => !sm.gw && !sm.fail && !sm.wr.contains 0
  | none => false

def noGlobalWrites (P : Prog) (f : FunId) : Bool :=
  validTable P (build P) && noGlobalWritesAt (build P) f

end Mir.Effects

namespace Mir.Effects

/-! ### checking a table slice by slice (the generated obligations are split over several modules so that
    lake checks them in parallel) -/

def validSlices (P : Prog) (T : List Eff) : List (List FunDef) → Nat → Bool
  | [], _ => true
  | s :: rest, i => validFrom P T s i && validSlices P T rest (i + s.length)

theorem validFrom_append (P : Prog) (T : List Eff) (a b : List FunDef) (i : Nat) :
    validFrom P T (a ++ b) i = (validFrom P T a i && validFrom P T b (i + a.length)) := by
  induction a generalizing i with
  | nil => simp [validFrom]
  | cons fd rest ih =>
    simp only [List.cons_append, validFrom, ih, List.length_cons, Bool.and_assoc]
    have : i + 1 + rest.length = i + (rest.length + 1) := by omega
    rw [this]

theorem validFrom_flatten (P : Prog) (T : List Eff) (ss : List (List FunDef)) (i : Nat) :
    validFrom P T ss.flatten i = validSlices P T ss i := by
  induction ss generalizing i with
  | nil => simp [validFrom, validSlices]
  | cons s rest ih => simp [validSlices, validFrom_append, ih]

/-- a table-relative version of `safe` (`safe P f = safeWith (build P) P f`) -/
def safeWith (T : List Eff) (P : Prog) (f : FunId) : Bool := validTable P T && pureAt T f

theorem safe_eq_safeWith (P : Prog) (f : FunId) : safe P f = safeWith (build P) P f := rfl

/-! ### call histories (the `histories` quantifier of C15) -/

/-- what persists between API calls: the heap, the allocation counter, the global-state version -/
structure World where
  heap : Nat → Nat
  next : Nat
  gver : Nat

structure ApiCall where
  f : FunId
  args : List Nat

/-- a finite sequence of API calls, each on caller-owned (already allocated) objects, each running to
    any of its outcomes (return or exception) -/
inductive Run (P : Prog) (genv : Var → Option Nat) : List ApiCall → World → World → Prop where
  | nil (w : World) : Run P genv [] w w
  | cons {c : ApiCall} {rest : List ApiCall} {fd : FunDef} {w w' : World} {s' : State} {o : Out} :
      P.funs[c.f]? = some fd →
      Exec P genv fd.body (entryState P genv fd c.args w.heap w.next w.gver) s' o →
      Run P genv rest ⟨s'.heap, s'.next, s'.gver⟩ w' →
      Run P genv (c :: rest) w w'

end Mir.Effects

namespace Mir.Effects

/-! ## `np.empty` bookkeeping

An `np.empty` buffer holds whatever was in memory.  It is tracked per *variable* (any expression that
mentions the variable before it is filled — an alias, an argument, a return — counts as a read).
A buffer is thought of as one cell per iteration of "the loop that indexes it":

* `allocEmpty x`   — all cells garbage (`IStat.empty`);
* `fillAll x`      — every cell written (`x[:] = …`, `x.fill(…)`) → `init`;
* `fillSome x`     — the current iteration's cell written (`x[k] = …`, `x[:, k] = …`) → `cell`;
* a loop that starts with `x` not yet initialised must leave `x` at `cell` or `init` at the end of
  *every* iteration (on every branch); then, after the loop, all cells are written (→ `init`, or → `cell`
  for the enclosing loop).  An iteration that ends with `x` still `empty` leaves a garbage cell behind
  for good (`poison`);
* reading `x` while it is not `init` is a read of uninitialised memory;
* `allocEmpty x` inside a loop that indexes `x` (re-allocation: the cells written by earlier iterations are
  lost) is refused by `initAn` — without this the analysis is unsound w.r.t. `PathI`
  (`Mir.C15.realloc_in_indexing_loop`).
-/

inductive IStat where
  | init | cell | empty | poison
  deriving DecidableEq, Repr, Inhabited

/-- per-variable status (absent = `init`: not an `np.empty` buffer) -/
abbrev IEnv := List IStat

def IEnv.get (e : IEnv) (v : Var) : IStat := e.getD v .init

def IEnv.set : IEnv → Var → IStat → IEnv
  | [], 0, o => [o]
  | [], n + 1, o => .init :: IEnv.set [] n o
  | _ :: xs, 0, o => o :: xs
  | x :: xs, n + 1, o => x :: IEnv.set xs n o

def IStat.rank : IStat → Nat
  | .init => 0 | .cell => 1 | .empty => 2 | .poison => 3

/-- worst case of two branches (`init < cell < empty < poison`) -/
def IStat.join (a b : IStat) : IStat := if a.rank ≤ b.rank then b else a

def IStat.leq (a b : IStat) : Bool := a.rank ≤ b.rank

def IEnv.join : IEnv → IEnv → IEnv
  | [], ys => ys
  | xs, [] => xs
  | x :: xs, y :: ys => x.join y :: IEnv.join xs ys

def IEnv.leq : IEnv → IEnv → Bool
  | [], _ => true
  | x :: xs, [] => (x == .init) && IEnv.leq xs []
  | x :: xs, y :: ys => x.leq y && IEnv.leq xs ys

/-- does the statement write (part of) the buffer `x`? -/
def fills (x : Var) : Stmt → Bool
  | .seq a b => fills x a || fills x b
  | .ite a b => fills x a || fills x b
  | .loop b => fills x b
  | .fillAll y => x == y
  | .fillSome y => x == y
  | _ => false

/-- `x` is *indexed* by a loop with body `b` entered with status `s0`: not yet initialised and written
    in the body.  Each iteration then starts with a fresh (garbage) cell. -/
def indexed (b : Stmt) (x : Var) (s0 : IStat) : Bool := s0 != .init && fills x b

/-- status of the variables at the start of every iteration -/
def IEnv.iterStart (b : Stmt) : IEnv → Nat → IEnv
  | [], _ => []
  | s :: rest, x =>
      (if indexed b x s then (if s == .poison then .poison else .empty) else s) :: IEnv.iterStart b rest (x + 1)

/-- status after the loop, from the status `s0` at entry and the (worst) status `t` at the end of an
    iteration: an indexed buffer whose cell is written in every iteration is completely written — unless
    the loop is itself nested in a loop that indexes the same buffer (`nested`): then only the enclosing
    loop's current cell is complete.  Otherwise a garbage cell is left behind for good. -/
def IStat.afterLoop (isIdx nested : Bool) (s0 t : IStat) : IStat :=
  if isIdx then
    match s0, t with
    | .poison, _ => .poison
    | _, .init => .init
    | _, .cell => if nested then .cell else .init
    | _, _ => .poison
  else s0.join t

def IEnv.afterLoop (b : Stmt) (ctx : List Var) : IEnv → IEnv → Nat → IEnv
  | [], ts, _ => ts.map fun t => IStat.afterLoop false false .init t
  | s :: rest, [], x =>
      IStat.afterLoop (indexed b x s) (ctx.contains x) s .init :: IEnv.afterLoop b ctx rest [] (x + 1)
  | s :: rest, t :: ts, x =>
      IStat.afterLoop (indexed b x s) (ctx.contains x) s t :: IEnv.afterLoop b ctx rest ts (x + 1)

/-- the variables a loop with body `b`, entered in `e`, indexes -/
def IEnv.indexedVars (b : Stmt) : IEnv → Nat → List Var
  | [], _ => []
  | s :: rest, x => if indexed b x s then x :: IEnv.indexedVars b rest (x + 1) else IEnv.indexedVars b rest (x + 1)

/-- the non-indexed part of an end-of-iteration state, to be fed back as a start-of-iteration state -/
def IEnv.feedback (b : Stmt) : IEnv → IEnv → Nat → IEnv
  | [], ts, _ => ts
  | _, [], _ => []
  | s :: rest, t :: ts, x => (if indexed b x s then .init else t) :: IEnv.feedback b rest ts (x + 1)

def readsOK (e : IEnv) (vs : List Var) : Bool := vs.all fun v => e.get v == .init

def Expr.vars : Expr → List Var
  | .fresh rs => rs
  | .alias ss => ss

def fillSomeStat : IStat → IStat
  | .init => .init
  | .poison => .poison
  | _ => .cell

/-- must-analysis: returns the status after the statement and whether every read so far was of
    initialised memory (and no buffer was re-allocated inside a loop that indexes it).
    `ctx` = buffers indexed by the enclosing loops. -/
def initAn (ctx : List Var) : Stmt → IEnv → IEnv × Bool
  | .skip, e => (e, true)
  | .seq a b, e =>
      match initAn ctx a e with
      | (e1, ok1) => match initAn ctx b e1 with
        | (e2, ok2) => (e2, ok1 && ok2)
  | .assign x ex, e => (e.set x .init, readsOK e ex.vars)
  | .mutate _, e => (e, true)
  | .call r _ args, e =>
      (match r with | some x => e.set x .init | none => e, readsOK e args)
  | .ite a b, e =>
      match initAn ctx a e, initAn ctx b e with
      | (e1, ok1), (e2, ok2) => (e1.join e2, ok1 && ok2)
  | .loop b, e =>
      -- first pass from the entry state, second pass from its join with what an iteration leaves behind
      let ctx' := ctx ++ IEnv.indexedVars b e 0
      match initAn ctx' b (e.iterStart b 0) with
      | (t1, _) =>
        let start := (e.iterStart b 0).join (IEnv.feedback b e t1 0)
        match initAn ctx' b start with
        | (t2, ok2) =>
            let stable := IEnv.leq (IEnv.feedback b e t2 0) start
            (IEnv.afterLoop b ctx e t2 0, ok2 && stable)
  | .globalWrite _, e => (e, true)
  -- re-allocating a buffer inside a loop that indexes it would throw away the cells written so far: refused
  | .allocEmpty x, e => (e.set x .empty, !ctx.contains x)
  | .fillAll x, e => (e.set x .init, true)
  | .fillSome x, e => (e.set x (fillSomeStat (e.get x)), true)
  | .ret srcs, e => (e, readsOK e srcs)
  | .raise, e => (e, true)
  | .brk, e => (e, true)

/-! ### what the bookkeeping means: a path semantics (specification only — see `empty_init_sound_statement`)

`PathI ctx c e e' ok stop`: one control-flow path through `c` from status `e` ends in `e'`; `ok` = every
read on the path saw an initialised variable; `stop` = the path ended in `return`/`raise`.  A loop runs
any number of iterations; the end-of-iteration statuses of the buffers it indexes are accumulated in
`worst`, everything else flows from one iteration to the next. -/

inductive ICode where
  | stmt (s : Stmt)
  /-- loop in progress: body, buffers indexed by the loops *around* it, status at loop entry, worst
      end-of-iteration status so far -/
  | iter (b : Stmt) (outer : List Var) (e0 : IEnv) (worst : IEnv)

/-- start of the next iteration: indexed buffers get a fresh cell, the rest is what the last iteration left -/
def IEnv.nextStart (b : Stmt) : IEnv → IEnv → Nat → IEnv
  | [], ts, _ => ts
  | s :: rest, [], x =>
      (if indexed b x s then (if s == .poison then .poison else .empty) else .init) :: IEnv.nextStart b rest [] (x + 1)
  | s :: rest, t :: ts, x =>
      (if indexed b x s then (if s == .poison then .poison else .empty) else t) :: IEnv.nextStart b rest ts (x + 1)

/-- status after the last iteration: indexed buffers from `worst`, the rest from the current status -/
def IEnv.finish (b : Stmt) (ctx : List Var) : IEnv → IEnv → IEnv → Nat → IEnv
  | [], _, cur, _ => cur
  | s :: rest, w, cur, x =>
      (if indexed b x s then IStat.afterLoop true (ctx.contains x) s (w.getD 0 .init) else cur.getD 0 .init)
        :: IEnv.finish b ctx rest w.tail cur.tail (x + 1)

inductive PathI : List Var → ICode → IEnv → IEnv → Bool → Bool → Prop where
  | skip {ctx e} : PathI ctx (.stmt .skip) e e true false
  | seq_norm {ctx a b e e1 e2 ok1 ok2 st} : PathI ctx (.stmt a) e e1 ok1 false → PathI ctx (.stmt b) e1 e2 ok2 st →
      PathI ctx (.stmt (.seq a b)) e e2 (ok1 && ok2) st
  | seq_stop {ctx a b e e1 ok1} : PathI ctx (.stmt a) e e1 ok1 true → PathI ctx (.stmt (.seq a b)) e e1 ok1 true
  | assign {ctx x ex e} : PathI ctx (.stmt (.assign x ex)) e (e.set x .init) (readsOK e ex.vars) false
  | mutate {ctx x e} : PathI ctx (.stmt (.mutate x)) e e true false
  | call {ctx r f args e} : PathI ctx (.stmt (.call r f args)) e
      (match r with | some x => e.set x .init | none => e) (readsOK e args) false
  | ite_l {ctx a b e e' ok st} : PathI ctx (.stmt a) e e' ok st → PathI ctx (.stmt (.ite a b)) e e' ok st
  | ite_r {ctx a b e e' ok st} : PathI ctx (.stmt b) e e' ok st → PathI ctx (.stmt (.ite a b)) e e' ok st
  | loop {ctx b e e' ok st} :
      PathI (ctx ++ IEnv.indexedVars b e 0) (.iter b ctx e []) (e.iterStart b 0) e' ok st →
      PathI ctx (.stmt (.loop b)) e e' ok st
  | iter_done {ctx outer b e0 w cur} :
      PathI ctx (.iter b outer e0 w) cur (IEnv.finish b outer e0 w cur 0) true false
  | iter_step {ctx outer b e0 w cur t e' ok1 ok2 st} : PathI ctx (.stmt b) cur t ok1 false →
      PathI ctx (.iter b outer e0 (w.join t)) (IEnv.nextStart b e0 t 0) e' ok2 st →
      PathI ctx (.iter b outer e0 w) cur e' (ok1 && ok2) st
  | iter_stop {ctx outer b e0 w cur t ok1} : PathI ctx (.stmt b) cur t ok1 true →
      PathI ctx (.iter b outer e0 w) cur t ok1 true
  | globalWrite {ctx g e} : PathI ctx (.stmt (.globalWrite g)) e e true false
  | allocEmpty {ctx x e} : PathI ctx (.stmt (.allocEmpty x)) e (e.set x .empty) true false
  | fillAll {ctx x e} : PathI ctx (.stmt (.fillAll x)) e (e.set x .init) true false
  | fillSome {ctx x e} : PathI ctx (.stmt (.fillSome x)) e (e.set x (fillSomeStat (e.get x))) true false
  | ret {ctx srcs e} : PathI ctx (.stmt (.ret srcs)) e e (readsOK e srcs) true
  | raise {ctx e} : PathI ctx (.stmt .raise) e e true true

/-- `break`/`continue` are not handled by `initAn`: functions that use `np.empty` and contain one are
    refused -/
def noJumps : Stmt → Bool
  | .seq a b => noJumps a && noJumps b
  | .ite a b => noJumps a && noJumps b
  | .loop b => noJumps b
  | .brk => false
  | _ => true

def hasEmpty : Stmt → Bool
  | .seq a b => hasEmpty a || hasEmpty b
  | .ite a b => hasEmpty a || hasEmpty b
  | .loop b => hasEmpty b
  | .allocEmpty _ => true
  | _ => false

/-- every read of an `np.empty` buffer in `f` sees initialised memory -/
def initOKFun (fd : FunDef) : Bool :=
  !hasEmpty fd.body || (noJumps fd.body && (initAn [] fd.body []).2)

def initOK (P : Prog) (f : FunId) : Bool :=
  match P.funs[f]? with
  | some fd => initOKFun fd
  | none => false

/-! ## driver glue -/

def lookupName (names : List String) (n : String) : Option Nat :=
  let rec go : List String → Nat → Option Nat
    | [], _ => none
    | x :: xs, i => if x == n then some i else go xs (i + 1)
  go names 0

def Eff.toVal (sm : Eff) : Val :=
  .list [.list (sm.wr.map Val.ofNat), .list (sm.ret.map Val.ofNat), .bool sm.gw, .bool sm.fail]

def effBeq (a b : Eff) : Bool := sub a.wr b.wr && sub b.wr a.wr && sub a.ret b.ret && sub b.ret a.ret &&
  a.gw == b.gw && a.fail == b.fail

/-- protocol ops of the effect analysis of a (generated) program:
    `effects.safe <name>`, `effects.summary <name>`, `effects.initok <name>`, `effects.table_agrees` -/
def handlerFor (P : Prog) (names : List String) (table : List Eff) : Handler :=
  let T := build P
  let valid := validTable P T
  fun op args =>
    match op, args with
    | "effects.safe", [.str n] =>
        (lookupName names n).map fun f => .ok (.bool (valid && pureAt T f))
    | "effects.summary", [.str n] =>
        (lookupName names n).bind fun f => T[f]?.map fun sm => .ok sm.toVal
    | "effects.initok", [.str n] =>
        (lookupName names n).map fun f => .ok (.bool (initOK P f))
    | "effects.noglobal", [.str n] =>
        (lookupName names n).map fun f => .ok (.bool (valid && noGlobalWritesAt T f))
    | "effects.table_agrees", [] =>
        some (.ok (.bool (T.length == table.length && (T.zip table).all fun p => effBeq p.1 p.2)))
    | _, _ => none

end Mir.Effects
