import MirModel.Basic
/-
  MirModel.EvalProg — the bodies of the `evaluate()` functions as programs of a mini-language, and
  `util.filter_kwargs` / `util.has_kwargs`.

  What is modelled (as the code is): the keyword dictionary `kwargs` of `evaluate(..., **kwargs)` is a
  Python `dict` that the body *mutates* (`kwargs[k] = v`, `kwargs.setdefault(k, v)`,
  `saved = kwargs[k]` … `kwargs[k] = saved`), tests (`if kwargs[k] is not None:`, `if k not in kwargs:`)
  and hands to the metric functions, mostly through `util.filter_kwargs(f, *args, **kwargs)`, which keeps
  the entries whose name is in `f.__code__.co_varnames[:f.__code__.co_argcount]` unless `f` itself has a
  `**kwargs` parameter (then everything is passed).

  `run prog sigs kw` is the list of calls made, in order, each with the score keys its result is written to
  and the keyword dictionary the callee receives.  `flow` is the (keyword-independent) data flow: which
  value every positional argument is.  The programs and the signatures are *generated* from the source
  (`MirGen/EvalPrograms.lean`, `MirGen/Signatures.lean`).
-/
namespace Mir.EvalProg

/-- Values that occur in keyword dictionaries: the literals the code forces, and what the harness passes. -/
inductive KV where
  | int (i : Int)
  | flt (q : Rat)
  | bool (b : Bool)
  | none
  | str (s : String)
  deriving DecidableEq, Repr, Inhabited

/-- A Python `dict` with string keys, as an insertion-ordered association list. -/
abbrev Kwargs := List (String × KV)

namespace Kwargs

/-- `kwargs.get(k)` (`none` = key absent; a present `None` is `some KV.none`). -/
def get : Kwargs → String → Option KV
  | [], _ => Option.none
  | (a, v) :: t, k => if a = k then some v else get t k

/-- `kwargs[k] = v`: an existing key keeps its position, a new key is appended. -/
def set : Kwargs → String → KV → Kwargs
  | [], k, v => [(k, v)]
  | (a, w) :: t, k, v => if a = k then (a, v) :: t else (a, w) :: set t k v

/-- `kwargs.setdefault(k, v)` (the return value is never used by the code). -/
def setDefault (kw : Kwargs) (k : String) (v : KV) : Kwargs :=
  if (get kw k).isSome then kw else set kw k v

def keys (kw : Kwargs) : List String := kw.map (·.1)

/-- all entries with key `k` removed -/
def erase : Kwargs → String → Kwargs
  | [], _ => []
  | (a, w) :: t, k => if a = k then erase t k else (a, w) :: erase t k

end Kwargs

/-- What `filter_kwargs` / `has_kwargs` look at in a function, plus the syntactic shape of its returns. -/
structure Sig where
  /-- `co_varnames[:co_argcount]`: positional-only and positional-or-keyword parameter names -/
  params : List String
  /-- keyword-only parameter names (NOT seen by `filter_kwargs`) -/
  kwonly : List String := []
  /-- has `*args` -/
  varArgs : Bool := false
  /-- has `**kwargs` (`util.has_kwargs`) -/
  varKw : Bool := false
  /-- number of trailing `params` that have a default value -/
  nDefaults : Nat := 0
  /-- one entry per `return` statement: `some n` = a tuple display of `n` elements, `none` = any other expression -/
  rets : List (Option Nat) := []
  deriving DecidableEq, Repr, Inhabited

abbrev Sigs := List (String × Sig)

def Sigs.find : Sigs → String → Option Sig
  | [], _ => Option.none
  | (a, s) :: t, f => if a = f then some s else Sigs.find t f

/-- would `filter_kwargs` let keyword `k` through to this function? -/
def Sig.accepts (sg : Sig) (k : String) : Bool := sg.varKw || decide (k ∈ sg.params)

/-- `util.filter_kwargs`'s dictionary: everything if the callee has `**kwargs`, else the entries named by
    `co_varnames[:co_argcount]`, in the order of `kwargs.items()`. -/
def filterKwargs (sg : Sig) (kw : Kwargs) : Kwargs :=
  if sg.varKw then kw else kw.filter fun p => decide (p.1 ∈ sg.params)

/-! ### Syntax -/

/-- argument expressions that occur in the `evaluate()` bodies -/
inductive Arg where
  | var (n : String)                    -- a local name (parameter of evaluate or bound earlier)
  | lit (src : String)                  -- constant / module-level constant, by source text
  | score (key : String)                -- `scores[key]`
  | method (n : String) (m : String)    -- `n.m()`  (e.g. `ref_intervals.max()`)
  deriving DecidableEq, Repr, Inhabited

inductive Target where
  | score (key : String)                -- `scores[key] = …`
  | var (n : String)                    -- `name = …`
  deriving DecidableEq, Repr, Inhabited

inductive Guard where
  | always
  | notNone (k : String)                -- `if kwargs[k] is not None:`
  | absent (k : String)                 -- `if k not in kwargs:`
  deriving DecidableEq, Repr, Inhabited

inductive Stmt where
  | initScores                                          -- `scores = collections.OrderedDict()`
  | force (k : String) (v : KV)                         -- `kwargs[k] = v`
  | setDefault (k : String) (v : KV)                    -- `kwargs.setdefault(k, v)`
  | save (k : String) (slot : String)                   -- `slot = kwargs[k]`
  | restore (k : String) (slot : String)                -- `kwargs[k] = slot`
  | call (fn : String) (args : List Arg) (named : List (String × Arg)) (targets : List Target)
         (viaFilter : Bool) (passKwargs : Bool)         -- `targets = [util.filter_kwargs(]fn[,] args, named [, **kwargs])`; no targets: result discarded
  | ret                                                 -- `return scores`
  deriving DecidableEq, Repr, Inhabited

/-- a statement, possibly under a one-statement `if` -/
structure Step where
  guard : Guard := .always
  stmt : Stmt
  deriving DecidableEq, Repr, Inhabited

abbrev Program := List Step

/-! ### Keyword routing: `run` -/

structure CallRecord where
  /-- ordinal of the call among the call statements of the program text (skipped calls count) -/
  idx : Nat
  fn : String
  /-- the score keys the result is written to, in order -/
  outs : List String
  /-- number of positional arguments -/
  npos : Nat
  /-- names of explicitly named arguments (`labels=…`) -/
  named : List String
  viaFilter : Bool
  passKwargs : Bool
  /-- the dictionary the callee receives through `**kwargs` (after `filter_kwargs` when `viaFilter`) -/
  kwargs : Kwargs
  deriving DecidableEq, Repr, Inhabited

structure State where
  kwargs : Kwargs
  slots : List (String × KV) := []
  ncall : Nat := 0
  hasScores : Bool := false
  records : List CallRecord := []
  err : Option PyErr := Option.none
  returned : Bool := false
  deriving Repr, Inhabited

def scoreKeys (ts : List Target) : List String :=
  ts.filterMap fun | .score k => some k | .var _ => Option.none

def addKeys (keys new : List String) : List String :=
  new.foldl (fun acc k => if k ∈ acc then acc else acc ++ [k]) keys

def slotGet : List (String × KV) → String → Option KV
  | [], _ => Option.none
  | (a, v) :: t, k => if a = k then some v else slotGet t k

/-- value of a guard; `kwargs[k]` on a missing key raises `KeyError` -/
def guardVal (g : Guard) (kw : Kwargs) : Py Bool :=
  match g with
  | .always => .ok true
  | .notNone k =>
      match kw.get k with
      | Option.none => .error .keyError
      | some v => .ok (decide (v ≠ KV.none))
  | .absent k => .ok (kw.get k).isNone

def isCall : Stmt → Bool
  | .call .. => true
  | _ => false

/-- the keyword dictionary a call statement hands to its callee -/
def calleeKwargs (sigs : Sigs) (fn : String) (viaFilter passKwargs : Bool) (kw : Kwargs) : Py Kwargs :=
  if !passKwargs then .ok []
  else if !viaFilter then .ok kw
  else match sigs.find fn with
    | some sg => .ok (filterKwargs sg kw)
    | Option.none => .error .other        -- unknown callee: the translator/signature table is incomplete

def execStmt (sigs : Sigs) (st : Stmt) (s : State) : State :=
  match st with
  | .initScores => { s with hasScores := true }
  | .force k v => { s with kwargs := s.kwargs.set k v }
  | .setDefault k v => { s with kwargs := s.kwargs.setDefault k v }
  | .save k slot =>
      match s.kwargs.get k with
      | some v => { s with slots := (slot, v) :: s.slots }
      | Option.none => { s with err := some .keyError }
  | .restore k slot =>
      match slotGet s.slots slot with
      | some v => { s with kwargs := s.kwargs.set k v }
      | Option.none => { s with err := some .other }           -- NameError
  | .call fn args named targets viaFilter passKwargs =>
      match calleeKwargs sigs fn viaFilter passKwargs s.kwargs with
      | .error e => { s with err := some e, ncall := s.ncall + 1 }
      | .ok ckw =>
          let outs := scoreKeys targets
          if !outs.isEmpty && !s.hasScores then { s with err := some .other, ncall := s.ncall + 1 }   -- NameError
          else
            { s with
              ncall := s.ncall + 1
              records := s.records ++ [{ idx := s.ncall, fn := fn, outs := outs, npos := args.length,
                                         named := named.map (·.1), viaFilter := viaFilter,
                                         passKwargs := passKwargs, kwargs := ckw }] }
  | .ret => { s with returned := true }

def step (sigs : Sigs) (stp : Step) (s : State) : State :=
  if s.err.isSome || s.returned then s
  else match guardVal stp.guard s.kwargs with
    | .error e => { s with err := some e }
    | .ok b =>
        if b then execStmt sigs stp.stmt s
        else if isCall stp.stmt then { s with ncall := s.ncall + 1 } else s

def exec (sigs : Sigs) : Program → State → State
  | [], s => s
  | stp :: rest, s => exec sigs rest (step sigs stp s)

def final (p : Program) (sigs : Sigs) (kw : Kwargs) : State := exec sigs p { kwargs := kw }

/-- the calls `evaluate(…, **kw)` makes: which function, for which score keys, with which keyword dictionary -/
def run (p : Program) (sigs : Sigs) (kw : Kwargs) : List CallRecord := (final p sigs kw).records

/-- the exception the body itself raises (`none` = it runs to `return scores`) -/
def runErr (p : Program) (sigs : Sigs) (kw : Kwargs) : Option PyErr := (final p sigs kw).err

/-- keys of the returned dictionary, in insertion order (a re-assigned key keeps its place) -/
def keysOf (rs : List CallRecord) : List String := addKeys [] (rs.flatMap (·.outs))

def producedKeys (p : Program) (sigs : Sigs) (kw : Kwargs) : List String := keysOf (run p sigs kw)

def returns (p : Program) (sigs : Sigs) (kw : Kwargs) : Bool := (final p sigs kw).returned

/-! ### What a callee effectively receives -/

structure EffCall where
  idx : Nat
  fn : String
  outs : List String
  /-- for each parameter of the callee (`co_varnames[:co_argcount]`): the value received through `**kwargs`
      (`none` = not passed: the positional argument / the function's own default applies; a value for a parameter
      that is also bound positionally is Python's "multiple values" `TypeError`) -/
  eff : List (String × Option KV)
  /-- keyword entries that name no parameter: what a `**kwargs` callee receives on top; for other callees the
      entries it would reject with a `TypeError` (always `[]` behind `filter_kwargs`) -/
  extra : Kwargs
  deriving DecidableEq, Repr, Inhabited

/-- the entries of `kw` whose name is not in `ps` -/
def rejected (ps : List String) (kw : Kwargs) : Kwargs := kw.filter fun p => decide (p.1 ∉ ps)

def effView (sigs : Sigs) (idx : Nat) (fn : String) (outs : List String) (kw : Kwargs) : EffCall :=
  match sigs.find fn with
  | some sg =>
      { idx := idx, fn := fn, outs := outs
        eff := sg.params.map fun p => (p, kw.get p)
        extra := rejected sg.params kw }
  | Option.none => { idx := idx, fn := fn, outs := outs, eff := [], extra := kw }

def effective (sigs : Sigs) (r : CallRecord) : EffCall := effView sigs r.idx r.fn r.outs r.kwargs

def effectiveCalls (sigs : Sigs) (rs : List CallRecord) : List EffCall := rs.map (effective sigs)

/-! ### Data flow (independent of the keyword dictionary): `flow` -/

inductive Term where
  | input (n : String)                       -- a parameter of `evaluate`, as given by the caller
  | lit (src : String)
  | out (call : Nat) (pos : Nat) (arity : Nat)   -- `pos`-th of `arity` results of call number `call`
  | method (t : Term) (m : String)
  | unbound (n : String)                     -- NameError
  deriving DecidableEq, Repr, Inhabited

structure FlowRec where
  idx : Nat
  fn : String
  args : List Term
  named : List (String × Term)
  targets : List Target
  guard : Guard
  viaFilter : Bool
  passKwargs : Bool
  deriving DecidableEq, Repr, Inhabited

def envGet : List (String × Term) → String → Option Term
  | [], _ => Option.none
  | (a, v) :: t, k => if a = k then some v else envGet t k

def evalArg (env scores : List (String × Term)) : Arg → Term
  | .var n => (envGet env n).getD (.unbound n)
  | .lit s => .lit s
  | .score k => (envGet scores k).getD (.unbound ("scores[" ++ k ++ "]"))
  | .method n m => .method ((envGet env n).getD (.unbound n)) m

def bindTargets (idx arity : Nat) : List Target → Nat → List (String × Term) × List (String × Term) →
    List (String × Term) × List (String × Term)
  | [], _, es => es
  | .var n :: ts, pos, (env, sc) => bindTargets idx arity ts (pos + 1) ((n, .out idx pos arity) :: env, sc)
  | .score k :: ts, pos, (env, sc) => bindTargets idx arity ts (pos + 1) (env, (k, .out idx pos arity) :: sc)

def flowAux : Program → Nat → List (String × Term) → List (String × Term) → List FlowRec
  | [], _, _, _ => []
  | stp :: rest, n, env, sc =>
      match stp.stmt with
      | .call fn args named targets vf pk =>
          let r : FlowRec :=
            { idx := n, fn := fn, args := args.map (evalArg env sc),
              named := named.map (fun p => (p.1, evalArg env sc p.2)),
              targets := targets, guard := stp.guard, viaFilter := vf, passKwargs := pk }
          let (env', sc') := bindTargets n targets.length targets 0 (env, sc)
          r :: flowAux rest (n + 1) env' sc'
      | _ => flowAux rest n env sc

/-- every call of the program text with its arguments resolved to inputs / results of earlier calls -/
def flow (inputs : List String) (p : Program) : List FlowRec :=
  flowAux p 0 (inputs.map fun n => (n, Term.input n)) []

/-! ### Static obligations on a program -/

/-- `kwargs[k] = v` statements that no callee can see: between the assignment and the next write of `k` (or the
    end) no call through `filter_kwargs` goes to a function accepting `k`. -/
def forceSeen (sigs : Sigs) (k : String) : Program → Bool
  | [] => false
  | stp :: rest =>
      match stp.stmt with
      | .call fn _ _ _ true true =>
          (match sigs.find fn with
           | some sg => sg.accepts k
           | Option.none => false) || forceSeen sigs k rest
      | .call _ _ _ _ false true => true        -- a direct `**kwargs` call sees everything
      | .force k' _ => if k' = k ∧ stp.guard = .always then false else forceSeen sigs k rest
      | .restore k' _ => if k' = k ∧ stp.guard = .always then false else forceSeen sigs k rest
      | .ret => false
      | _ => forceSeen sigs k rest

def deadForces (sigs : Sigs) : Program → List (String × KV)
  | [] => []
  | stp :: rest =>
      match stp.stmt with
      | .force k v => (if forceSeen sigs k rest then [] else [(k, v)]) ++ deadForces sigs rest
      | .setDefault k v => (if forceSeen sigs k rest then [] else [(k, v)]) ++ deadForces sigs rest
      | _ => deadForces sigs rest

/-- does unpacking a result into `k` targets agree with the syntactic return shapes? a tuple display must have
    exactly `k ≥ 2` elements; any other expression is not judged -/
def shapeOk (k : Nat) (rets : List (Option Nat)) : Bool :=
  k == 0 ||        -- the result is discarded (`validate(…)` as a statement)
  rets.all fun
    | some n => decide (2 ≤ k ∧ n = k)
    | Option.none => true

/-- calls whose callee has a `return` statement of the wrong syntactic shape for the targets -/
def arityMismatches (sigs : Sigs) (p : Program) : List (String × Nat) :=
  p.filterMap fun stp =>
    match stp.stmt with
    | .call fn _ _ targets _ _ =>
        match sigs.find fn with
        | some sg => if shapeOk targets.length sg.rets then Option.none else some (fn, targets.length)
        | Option.none => Option.none
    | _ => Option.none

/-- keyword names a step itself mentions (in its guard or as the key it reads/writes) -/
def Step.mentions (stp : Step) : List String :=
  (match stp.guard with | .always => [] | .notNone k => [k] | .absent k => [k]) ++
  (match stp.stmt with
   | .force k _ => [k] | .setDefault k _ => [k] | .save k _ => [k] | .restore k _ => [k]
   | _ => [])

/-- the callee (and whether it is called through `filter_kwargs`) if the step hands `**kwargs` on -/
def Step.kwCallee (stp : Step) : Option (String × Bool) :=
  match stp.stmt with
  | .call fn _ _ _ vf true => some (fn, vf)
  | _ => Option.none

/-- keyword names that can influence what a step does: those it mentions and those its callee accepts -/
def Step.related (sigs : Sigs) (stp : Step) : List String :=
  stp.mentions ++
  (match stp.kwCallee with
   | some (fn, _) => (match sigs.find fn with | some sg => sg.params | Option.none => [])
   | Option.none => [])

def relatedKeys (sigs : Sigs) (p : Program) : List String := p.flatMap (Step.related sigs)

/-- a `**kwargs` call goes through `filter_kwargs` to a known function without `**kwargs` of its own -/
def Step.filtered (sigs : Sigs) (stp : Step) : Bool :=
  match stp.kwCallee with
  | Option.none => true
  | some (fn, vf) => vf && (match sigs.find fn with | some sg => !sg.varKw | Option.none => false)

def allFiltered (sigs : Sigs) (p : Program) : Bool := p.all (Step.filtered sigs)

/-- does the statement assign `kwargs[k]`? -/
def writes (k : String) : Stmt → Bool
  | .force k' _ => decide (k' = k)
  | .setDefault k' _ => decide (k' = k)
  | .restore k' _ => decide (k' = k)
  | _ => false

def noWrite (k : String) (p : Program) : Bool := p.all fun stp => !writes k stp.stmt

/-! ### Specification side (Layer S): the documented bundle of a task -/

inductive Cond where
  | always
  /-- the entry exists unless the (defaulted) keyword is `None` -/
  | unlessNone (k : String)
  deriving DecidableEq, Repr, Inhabited

structure SpecCall where
  fn : String
  /-- what the result is bound to: score keys (`.score`) and intermediate values (`.var`) -/
  targets : List Target
  args : List Arg
  named : List (String × Arg) := []
  /-- the documented per-entry parameter(s) -/
  forced : List (String × KV) := []
  cond : Cond := .always
  /-- do the caller's keywords reach this function? -/
  passKw : Bool := true
  deriving DecidableEq, Repr, Inhabited

structure Spec where
  inputs : List String
  /-- task-level defaults that `evaluate` applies to the caller's keywords -/
  defaults : List (String × KV) := []
  calls : List SpecCall
  deriving DecidableEq, Repr, Inhabited

def applyAll (kw : Kwargs) (xs : List (String × KV)) : Kwargs := xs.foldl (fun acc p => acc.set p.1 p.2) kw
def applyDefaults (kw : Kwargs) (xs : List (String × KV)) : Kwargs :=
  xs.foldl (fun acc p => acc.setDefault p.1 p.2) kw

def condHolds (c : Cond) (kw : Kwargs) : Bool :=
  match c with
  | .always => true
  | .unlessNone k => decide (kw.get k ≠ some KV.none)

def specCallsAux (sigs : Sigs) (kw : Kwargs) : List SpecCall → Nat → List EffCall
  | [], _ => []
  | c :: rest, n =>
      (if condHolds c.cond kw then
        [effView sigs n c.fn (scoreKeys c.targets)
          (if c.passKw then
             (match sigs.find c.fn with
              | some sg => filterKwargs sg (applyAll kw c.forced)
              | Option.none => applyAll kw c.forced)
           else [])]
       else []) ++ specCallsAux sigs kw rest (n + 1)

/-- what the documentation says each function receives, for the caller's keyword dictionary `kw` -/
def Spec.effCalls (sp : Spec) (sigs : Sigs) (kw : Kwargs) : List EffCall :=
  specCallsAux sigs (applyDefaults kw sp.defaults) sp.calls 0

/-- the data-flow facts shared by program and specification: call number, callee, argument values, targets -/
structure FlowView where
  idx : Nat
  fn : String
  args : List Term
  named : List (String × Term)
  targets : List Target
  deriving DecidableEq, Repr, Inhabited

def specFlowAux : List SpecCall → Nat → List (String × Term) → List (String × Term) → List FlowView
  | [], _, _, _ => []
  | c :: rest, n, env, sc =>
      let (env', sc') := bindTargets n c.targets.length c.targets 0 (env, sc)
      { idx := n, fn := c.fn, args := c.args.map (evalArg env sc),
        named := c.named.map (fun p => (p.1, evalArg env sc p.2)), targets := c.targets } ::
        specFlowAux rest (n + 1) env' sc'

def Spec.flow (sp : Spec) : List FlowView :=
  specFlowAux sp.calls 0 (sp.inputs.map fun n => (n, Term.input n)) []

def FlowRec.view (r : FlowRec) : FlowView :=
  { idx := r.idx, fn := r.fn, args := r.args, named := r.named, targets := r.targets }

def Spec.keys (sp : Spec) : List String := addKeys [] (sp.calls.flatMap fun c => scoreKeys c.targets)

/-- keyword names with a documented effect on the task: task-level defaults, per-entry parameters, and the
    parameters of the functions that receive the caller's keywords -/
def Spec.keywords (sp : Spec) (sigs : Sigs) : List String :=
  sp.defaults.map (·.1) ++ sp.calls.flatMap fun c =>
    c.forced.map (·.1) ++
    (if c.passKw then (match sigs.find c.fn with | some sg => sg.params | Option.none => []) else [])

/-- keys of the dictionary from the effective-call view -/
def effKeys (es : List EffCall) : List String := addKeys [] (es.flatMap (·.outs))

def Spec.forcedPairs (sp : Spec) : List (String × String × KV) :=
  sp.calls.flatMap fun c => c.forced.map fun p => (c.fn, p.1, p.2)

/-! ### Protocol glue -/

def KV.toVal : KV → Val
  | .int i => Val.ofInt i
  | .flt q => .rat q
  | .bool b => .bool b
  | .none => .none
  | .str s => .str s

/-- harness encoding of a keyword value: `["i", n] | ["f", q] | ["b", T/F] | ["n"] | ["s", str]` -/
def KV.ofVal? : Val → Option KV
  | .list [.str "i", v] => v.asInt?.map .int
  | .list [.str "f", .rat q] => some (.flt q)
  | .list [.str "b", .bool b] => some (.bool b)
  | .list [.str "n"] => some .none
  | .list [.str "s", .str s] => some (.str s)
  | _ => Option.none

def kwargsOfVal? (v : Val) : Option Kwargs := do
  (← v.asList?).mapM fun p => do
    let (k, x) ← p.asPair?
    some ((← k.asStr?), (← KV.ofVal? x))

def kwargsToVal (kw : Kwargs) : Val := .list (kw.map fun p => .list [.str p.1, p.2.toVal])

def recordToVal (r : CallRecord) : Val :=
  .list [Val.ofNat r.idx, .str r.fn, Val.ofStrs r.outs, Val.ofNat r.npos, Val.ofStrs r.named,
         .bool r.viaFilter, .bool r.passKwargs, kwargsToVal r.kwargs]

def argToVal : Arg → Val
  | .var n => .list [.str "var", .str n]
  | .lit s => .list [.str "lit", .str s]
  | .score k => .list [.str "score", .str k]
  | .method n m => .list [.str "method", .str n, .str m]

def targetToVal : Target → Val
  | .score k => .list [.str "score", .str k]
  | .var n => .list [.str "var", .str n]

def specCallToVal (c : SpecCall) : Val :=
  .list [.str c.fn, .list (c.targets.map targetToVal), .list (c.args.map argToVal),
         .list (c.named.map fun p => .list [.str p.1, argToVal p.2]),
         kwargsToVal c.forced,
         (match c.cond with | .always => .none | .unlessNone k => .str k),
         .bool c.passKw]

def specToVal (sp : Spec) : Val :=
  .list [Val.ofStrs sp.inputs, kwargsToVal sp.defaults, .list (sp.calls.map specCallToVal)]

def lookupTask {α : Type} : List (String × α) → String → Option α
  | [], _ => Option.none
  | (a, v) :: t, k => if a = k then some v else lookupTask t k

/-- driver operations.  `programs` / `sigs` are the generated tables, `specs` the hand-written bundles. -/
def handler (programs : List (String × Program)) (sigs : Sigs) (specs : List (String × Spec)) : Handler :=
  fun fn args =>
    match fn, args with
    | "evalprog.run", [task, kw] => do
        let task ← task.asStr?
        let kw ← kwargsOfVal? kw
        let p ← lookupTask programs task
        let s := final p sigs kw
        match s.err with
        | some e => some (.error e)
        | Option.none => some (.ok (.list [.list (s.records.map recordToVal), Val.ofStrs (keysOf s.records), .bool s.returned]))
    | "evalprog.filter_kwargs", [f, kw] => do
        let f ← f.asStr?
        let kw ← kwargsOfVal? kw
        let sg ← sigs.find f
        some (.ok (kwargsToVal (filterKwargs sg kw)))
    | "evalprog.sig", [f] => do
        let f ← f.asStr?
        let sg ← sigs.find f
        some (.ok (.list [Val.ofStrs sg.params, .bool sg.varKw]))
    | "evalspec.bundle", [task] => do
        let task ← task.asStr?
        let sp ← lookupTask specs task
        some (.ok (specToVal sp))
    | _, _ => Option.none

end Mir.EvalProg
