import MirModel.EvalProg
/-
  MirModel.EvalSpec — Layer S for property C03: the *documented* bundle of every task's `evaluate()`,
  hand-written from the documentation (module docstrings "Metrics" sections, the `evaluate` docstrings and the
  parameter documentation of the metric functions).  It is NOT derived from the `evaluate()` bodies.

  A `Spec` is a straight-line list of calls.  Each call names the public function, what its result is bound to
  (score keys, or intermediate values of the documented pre-processing), its positional/named arguments, the
  documented per-entry parameter (`forced`), and whether the caller's keyword arguments reach it.  There is no
  mutable keyword dictionary on this side: "the entry `Precision@3.0` is `detection(..., window=3.0)`" is
  written exactly like that.
-/
namespace Mir.EvalSpec
open Mir.EvalProg

abbrev v (n : String) : Arg := .var n
abbrev sc (ks : List String) : List Target := ks.map .score
abbrev vs (ns : List String) : List Target := ns.map .var
abbrev half : KV := .flt (mkRat 1 2)

/-- beat: both beat sequences are validated (`validate`, so that malformed arrays are rejected before trimming can
    hide them), then trimmed (`trim_beats`, first 5 s by default), then the six metrics. -/
def beat : Spec :=
  let a := [v "reference_beats", v "estimated_beats"]
  { inputs := ["reference_beats", "estimated_beats"]
    calls := [
      { fn := "beat.validate", targets := [], args := a, passKw := false },
      { fn := "beat.trim_beats", targets := vs ["reference_beats"], args := [v "reference_beats"] },
      { fn := "beat.trim_beats", targets := vs ["estimated_beats"], args := [v "estimated_beats"] },
      { fn := "beat.f_measure", targets := sc ["F-measure"], args := a },
      { fn := "beat.cemgil", targets := sc ["Cemgil", "Cemgil Best Metric Level"], args := a },
      { fn := "beat.goto", targets := sc ["Goto"], args := a },
      { fn := "beat.p_score", targets := sc ["P-score"], args := a },
      { fn := "beat.continuity",
        targets := sc ["Correct Metric Level Continuous", "Correct Metric Level Total",
                       "Any Metric Level Continuous", "Any Metric Level Total"], args := a },
      { fn := "beat.information_gain", targets := sc ["Information gain"], args := a } ] }

def onset : Spec :=
  { inputs := ["reference_onsets", "estimated_onsets"]
    calls := [
      { fn := "onset.f_measure", targets := sc ["F-measure", "Precision", "Recall"],
        args := [v "reference_onsets", v "estimated_onsets"] } ] }

/-- segment: the reference is adjusted to start at 0, the estimate to span [0, end of reference]; boundary
    detection at the 0.5 s and 3 s windows; deviation; the frame-clustering metrics. -/
def segment : Spec :=
  let b := [v "ref_intervals", v "est_intervals"]
  let s := [v "ref_intervals", v "ref_labels", v "est_intervals", v "est_labels"]
  { inputs := ["ref_intervals", "ref_labels", "est_intervals", "est_labels"]
    calls := [
      { fn := "util.adjust_intervals", targets := vs ["ref_intervals", "ref_labels"], args := [v "ref_intervals"],
        named := [("labels", v "ref_labels"), ("t_min", .lit "0.0")], passKw := false },
      { fn := "util.adjust_intervals", targets := vs ["est_intervals", "est_labels"], args := [v "est_intervals"],
        named := [("labels", v "est_labels"), ("t_min", .lit "0.0"), ("t_max", .method "ref_intervals" "max")],
        passKw := false },
      { fn := "segment.detection", targets := sc ["Precision@0.5", "Recall@0.5", "F-measure@0.5"], args := b,
        forced := [("window", half)] },
      { fn := "segment.detection", targets := sc ["Precision@3.0", "Recall@3.0", "F-measure@3.0"], args := b,
        forced := [("window", .flt (mkRat 3 1))] },
      { fn := "segment.deviation", targets := sc ["Ref-to-est deviation", "Est-to-ref deviation"], args := b },
      { fn := "segment.pairwise", targets := sc ["Pairwise Precision", "Pairwise Recall", "Pairwise F-measure"],
        args := s },
      { fn := "segment.rand_index", targets := sc ["Rand Index"], args := s },
      { fn := "segment.ari", targets := sc ["Adjusted Rand Index"], args := s },
      { fn := "segment.mutual_information",
        targets := sc ["Mutual Information", "Adjusted Mutual Information", "Normalized Mutual Information"],
        args := s },
      { fn := "segment.nce", targets := sc ["NCE Over", "NCE Under", "NCE F-measure"], args := s },
      { fn := "segment.vmeasure", targets := sc ["V Precision", "V Recall", "V-measure"], args := s } ] }

def chordCmp (name : String) (tmp : String) : List SpecCall :=
  [ { fn := "chord." ++ name, targets := vs [tmp], args := [v "ref_labels", v "est_labels"], passKw := false },
    { fn := "chord.weighted_accuracy", targets := sc [name], args := [v tmp, v "durations"], passKw := false } ]

/-- chord: the estimate is adjusted to the span of the reference (filled with `NO_CHORD`), both label sequences
    are merged onto common intervals; every comparison is the duration-weighted accuracy; the segmentation
    scores use the chord-merged intervals; `seg` is the smaller of over- and under-segmentation. -/
def chord : Spec :=
  { inputs := ["ref_intervals", "ref_labels", "est_intervals", "est_labels"]
    calls := [
      { fn := "util.adjust_intervals", targets := vs ["est_intervals", "est_labels"],
        args := [v "est_intervals", v "est_labels", .method "ref_intervals" "min", .method "ref_intervals" "max",
                 .lit "NO_CHORD", .lit "NO_CHORD"], passKw := false },
      { fn := "chord.merge_chord_intervals", targets := vs ["merged_ref_intervals"],
        args := [v "ref_intervals", v "ref_labels"], passKw := false },
      { fn := "chord.merge_chord_intervals", targets := vs ["merged_est_intervals"],
        args := [v "est_intervals", v "est_labels"], passKw := false },
      { fn := "util.merge_labeled_intervals", targets := vs ["intervals", "ref_labels", "est_labels"],
        args := [v "ref_intervals", v "ref_labels", v "est_intervals", v "est_labels"], passKw := false },
      { fn := "util.intervals_to_durations", targets := vs ["durations"], args := [v "intervals"], passKw := false } ]
      ++ chordCmp "thirds" "_t1" ++ chordCmp "thirds_inv" "_t2" ++ chordCmp "triads" "_t3"
      ++ chordCmp "triads_inv" "_t4" ++ chordCmp "tetrads" "_t5" ++ chordCmp "tetrads_inv" "_t6"
      ++ chordCmp "root" "_t7" ++ chordCmp "mirex" "_t8" ++ chordCmp "majmin" "_t9"
      ++ chordCmp "majmin_inv" "_t10" ++ chordCmp "sevenths" "_t11" ++ chordCmp "sevenths_inv" "_t12" ++ [
      { fn := "chord.underseg", targets := sc ["underseg"],
        args := [v "merged_ref_intervals", v "merged_est_intervals"], passKw := false },
      { fn := "chord.overseg", targets := sc ["overseg"],
        args := [v "merged_ref_intervals", v "merged_est_intervals"], passKw := false },
      { fn := "builtins.min", targets := sc ["seg"], args := [.score "overseg", .score "underseg"], passKw := false } ] }

/-- melody: both series are converted to cents/voicing on a common time base (`to_cent_voicing`), then the
    five measures. -/
def melody : Spec :=
  let p := [v "ref_voicing", v "ref_cent", v "est_voicing", v "est_cent"]
  { inputs := ["ref_time", "ref_freq", "est_time", "est_freq", "est_voicing", "ref_reward"]
    calls := [
      { fn := "melody.to_cent_voicing", targets := vs ["ref_voicing", "ref_cent", "est_voicing", "est_cent"],
        args := [v "ref_time", v "ref_freq", v "est_time", v "est_freq", v "est_voicing", v "ref_reward"] },
      { fn := "melody.voicing_recall", targets := sc ["Voicing Recall"], args := [v "ref_voicing", v "est_voicing"] },
      { fn := "melody.voicing_false_alarm", targets := sc ["Voicing False Alarm"],
        args := [v "ref_voicing", v "est_voicing"] },
      { fn := "melody.raw_pitch_accuracy", targets := sc ["Raw Pitch Accuracy"], args := p },
      { fn := "melody.raw_chroma_accuracy", targets := sc ["Raw Chroma Accuracy"], args := p },
      { fn := "melody.overall_accuracy", targets := sc ["Overall Accuracy"], args := p } ] }

def multipitch : Spec :=
  { inputs := ["ref_time", "ref_freqs", "est_time", "est_freqs"]
    calls := [
      { fn := "multipitch.metrics",
        targets := sc ["Precision", "Recall", "Accuracy", "Substitution Error", "Miss Error", "False Alarm Error",
                       "Total Error", "Chroma Precision", "Chroma Recall", "Chroma Accuracy",
                       "Chroma Substitution Error", "Chroma Miss Error", "Chroma False Alarm Error",
                       "Chroma Total Error"],
        args := [v "ref_time", v "ref_freqs", v "est_time", v "est_freqs"] } ] }

/-- transcription: with offsets (unless `offset_ratio=None` is requested), without offsets
    (`offset_ratio=None`), onset-only, offset-only (unless `offset_ratio=None`). -/
def transcription : Spec :=
  let n := [v "ref_intervals", v "ref_pitches", v "est_intervals", v "est_pitches"]
  let i := [v "ref_intervals", v "est_intervals"]
  { inputs := ["ref_intervals", "ref_pitches", "est_intervals", "est_pitches"]
    defaults := [("offset_ratio", .flt (mkRat 1 5))]
    calls := [
      { fn := "transcription.precision_recall_f1_overlap",
        targets := sc ["Precision", "Recall", "F-measure", "Average_Overlap_Ratio"], args := n,
        cond := .unlessNone "offset_ratio" },
      { fn := "transcription.precision_recall_f1_overlap",
        targets := sc ["Precision_no_offset", "Recall_no_offset", "F-measure_no_offset",
                       "Average_Overlap_Ratio_no_offset"], args := n,
        forced := [("offset_ratio", .none)] },
      { fn := "transcription.onset_precision_recall_f1",
        targets := sc ["Onset_Precision", "Onset_Recall", "Onset_F-measure"], args := i },
      { fn := "transcription.offset_precision_recall_f1",
        targets := sc ["Offset_Precision", "Offset_Recall", "Offset_F-measure"], args := i,
        cond := .unlessNone "offset_ratio" } ] }

def transcription_velocity : Spec :=
  let n := [v "ref_intervals", v "ref_pitches", v "ref_velocities", v "est_intervals", v "est_pitches",
            v "est_velocities"]
  { inputs := ["ref_intervals", "ref_pitches", "ref_velocities", "est_intervals", "est_pitches", "est_velocities"]
    defaults := [("offset_ratio", .flt (mkRat 1 5))]
    calls := [
      { fn := "transcription_velocity.precision_recall_f1_overlap",
        targets := sc ["Precision", "Recall", "F-measure", "Average_Overlap_Ratio"], args := n,
        cond := .unlessNone "offset_ratio" },
      { fn := "transcription_velocity.precision_recall_f1_overlap",
        targets := sc ["Precision_no_offset", "Recall_no_offset", "F-measure_no_offset",
                       "Average_Overlap_Ratio_no_offset"], args := n,
        forced := [("offset_ratio", .none)] } ] }

def tempo : Spec :=
  { inputs := ["reference_tempi", "reference_weight", "estimated_tempi"]
    calls := [
      { fn := "tempo.detection", targets := sc ["P-score", "One-correct", "Both-correct"],
        args := [v "reference_tempi", v "reference_weight", v "estimated_tempi"] } ] }

/-- key: the single weighted score; it has no parameters, so no keyword reaches it. -/
def key : Spec :=
  { inputs := ["reference_key", "estimated_key"]
    calls := [
      { fn := "key.weighted_score", targets := sc ["Weighted Score"],
        args := [v "reference_key", v "estimated_key"], passKw := false } ] }

/-- pattern: standard, establishment, occurrence at thresholds .5 and .75, three-layer, first-`n` (n = 5 unless
    given) three-layer precision and target-proportion recall. -/
def pattern : Spec :=
  let a := [v "ref_patterns", v "est_patterns"]
  { inputs := ["ref_patterns", "est_patterns"]
    defaults := [("n", .int 5)]
    calls := [
      { fn := "pattern.standard_FPR", targets := sc ["F", "P", "R"], args := a },
      { fn := "pattern.establishment_FPR", targets := sc ["F_est", "P_est", "R_est"], args := a },
      { fn := "pattern.occurrence_FPR", targets := sc ["F_occ.5", "P_occ.5", "R_occ.5"], args := a,
        forced := [("thres", half)] },
      { fn := "pattern.occurrence_FPR", targets := sc ["F_occ.75", "P_occ.75", "R_occ.75"], args := a,
        forced := [("thres", .flt (mkRat 3 4))] },
      { fn := "pattern.three_layer_FPR", targets := sc ["F_3", "P_3", "R_3"], args := a },
      { fn := "pattern.first_n_three_layer_P", targets := sc ["FFP"], args := a },
      { fn := "pattern.first_n_target_proportion_R", targets := sc ["FFTP_est"], args := a } ] }

/-- hierarchy: reference aligned to start at 0, estimate to span [0, end of reference]; T-measures in reduced
    (`transitive=False`) and full (`transitive=True`) form; L-measure. -/
def hierarchy : Spec :=
  { inputs := ["ref_intervals_hier", "ref_labels_hier", "est_intervals_hier", "est_labels_hier"]
    calls := [
      { fn := "hierarchy._hierarchy_bounds", targets := vs ["_", "t_end"], args := [v "ref_intervals_hier"],
        passKw := false },
      { fn := "hierarchy._align_intervals", targets := vs ["ref_intervals_hier", "ref_labels_hier"],
        args := [v "ref_intervals_hier", v "ref_labels_hier"],
        named := [("t_min", .lit "0.0"), ("t_max", .lit "None")], passKw := false },
      { fn := "hierarchy._align_intervals", targets := vs ["est_intervals_hier", "est_labels_hier"],
        args := [v "est_intervals_hier", v "est_labels_hier"],
        named := [("t_min", .lit "0.0"), ("t_max", v "t_end")], passKw := false },
      { fn := "hierarchy.tmeasure", targets := sc ["T-Precision reduced", "T-Recall reduced", "T-Measure reduced"],
        args := [v "ref_intervals_hier", v "est_intervals_hier"], forced := [("transitive", .bool false)] },
      { fn := "hierarchy.tmeasure", targets := sc ["T-Precision full", "T-Recall full", "T-Measure full"],
        args := [v "ref_intervals_hier", v "est_intervals_hier"], forced := [("transitive", .bool true)] },
      { fn := "hierarchy.lmeasure", targets := sc ["L-Precision", "L-Recall", "L-Measure"],
        args := [v "ref_intervals_hier", v "ref_labels_hier", v "est_intervals_hier", v "est_labels_hier"] } ] }

def alignment : Spec :=
  let a := [v "reference_timestamps", v "estimated_timestamps"]
  { inputs := ["reference_timestamps", "estimated_timestamps"]
    calls := [
      { fn := "alignment.percentage_correct", targets := sc ["pc"], args := a },
      { fn := "alignment.absolute_error", targets := sc ["mae", "aae"], args := a, passKw := false },
      { fn := "alignment.percentage_correct_segments", targets := sc ["pcs"], args := a },
      { fn := "alignment.karaoke_perceptual_metric", targets := sc ["perceptual"], args := a, passKw := false } ] }

def specs : List (String × Spec) :=
  [("beat", beat), ("onset", onset), ("segment", segment), ("chord", chord), ("melody", melody),
   ("multipitch", multipitch), ("transcription", transcription),
   ("transcription_velocity", transcription_velocity), ("tempo", tempo), ("key", key), ("pattern", pattern),
   ("hierarchy", hierarchy), ("alignment", alignment)]

end Mir.EvalSpec
