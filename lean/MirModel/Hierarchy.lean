import MirModel.Basic
import MirModel.Scores
/-
  MirModel.Hierarchy — executable model of `mir_eval/hierarchy.py` (Layer M) and the brute-force
  triple-enumeration definitions the T- and L-measures are supposed to equal (Layer S).

  Conventions
  * a segmentation level is a list of `(start, end)` rows, a hierarchy a list of levels;
  * LCA / meet matrices are dense `List (List Nat)` (the scipy sparse format is an implementation detail);
  * frame indices are `floor (t / frame_size)` (= `int(_round(t, fs) / fs)` for `fs > 0`);
  * Python partiality is explicit (`Py`): `min([])`, `hier[0]` on `[]`, `est[idx]` on a short `est`,
    validation errors.
  Domain: frame_size > 0 for the private matrix builders (the public functions reject the rest),
  at most 255 levels (uint8), ASCII labels (`str.lower`).
-/
namespace Mir
namespace Hierarchy

abbrev Ivals := List (Rat × Rat)
abbrev Hier := List Ivals
abbrev Mat := List (List Nat)

/-! ## Layer S: brute-force pair enumeration -/

/-- all pairs `(x, y)`, `x ∈ a`, `y ∈ b` (with multiplicity, row-major) -/
def pairsOf {α β : Type} (a : List α) (b : List β) : List (α × β) :=
  a.flatMap fun x => b.map fun y => (x, y)

/-- `#{(x, y) ∈ a × b | p x y}` -/
def countPairs {α β : Type} (p : α → β → Bool) (a : List α) (b : List β) : Nat :=
  (pairsOf a b).countP fun xy => p xy.1 xy.2

/-- the reference relation between two relevance levels: any number of levels apart (`transitive`),
    or exactly one level apart (reduced) -/
def rel (transitive : Bool) (a b : Nat) : Bool :=
  if transitive then decide (a < b) else decide (a + 1 = b)

/-- `#{(i, j) | rel ref[i] ref[j]}` over positions of two aligned score lists -/
def triples (transitive : Bool) (ref est : List Nat) : Nat :=
  countPairs (fun p q => rel transitive p.1 q.1) (ref.zip est) (ref.zip est)

/-- `#{(i, j) | rel ref[i] ref[j] ∧ est[i] < est[j]}` -/
def correct (transitive : Bool) (ref est : List Nat) : Nat :=
  countPairs (fun p q => rel transitive p.1 q.1 && decide (p.2 < q.2)) (ref.zip est) (ref.zip est)

/-- `#{(i, j) | rel ref[i] ref[j] ∧ est[i] ≥ est[j]}` -/
def inverted (transitive : Bool) (ref est : List Nat) : Nat :=
  countPairs (fun p q => rel transitive p.1 q.1 && decide (q.2 ≤ p.2)) (ref.zip est) (ref.zip est)

/-- the result frames of query `q`: `max(0, q-w) ≤ i < min(n, q+w)`, `i ≠ q` -/
def windowIdx (n w q : Nat) : List Nat :=
  (List.range n).filter fun i => decide (q - w ≤ i) && decide (i < min n (q + w)) && decide (i ≠ q)

/-- row `q` of a matrix restricted to the window of `q` -/
def windowRow (n w q : Nat) (row : List Nat) : List Nat :=
  (windowIdx n w q).filterMap fun i => row[i]?

/-- per-query `(correct, triples)` from the definition -/
def specQuery (n w : Nat) (transitive : Bool) (q : Nat) (rrow erow : List Nat) : Nat × Nat :=
  (correct transitive (windowRow n w q rrow) (windowRow n w q erow),
   triples transitive (windowRow n w q rrow) (windowRow n w q erow))

/-- mean over the queries that have at least one reference triple of `correct / triples`; `0/0 ↦ 0` -/
def specScore (terms : List (Nat × Nat)) : Rat :=
  let counted := terms.filter fun t => t.2 ≠ 0
  if counted.length = 0 then 0
  else (counted.map fun t => (t.1 : Rat) / (t.2 : Rat)).sum / (counted.length : Rat)

/-- the triplet-ranking definition of the generalized AUC on two `n × n` matrices -/
def gaucSpec (ref est : Mat) (transitive : Bool) (w : Nat) : Rat :=
  specScore (((ref.zip est).zipIdx).map fun x => specQuery ref.length w transitive x.2 x.1.1 x.1.2)

/-- an `n × n` dense matrix -/
def IsSquare (n : Nat) (m : Mat) : Prop := m.length = n ∧ ∀ row ∈ m, row.length = n

/-! ## `_count_inversions` -/

/-- `np.unique(·, return_counts=True)` as an ascending association list, built by insertion -/
def insertCount (x : Nat) : List (Nat × Nat) → List (Nat × Nat)
  | [] => [(x, 1)]
  | (v, c) :: t =>
      if x < v then (x, 1) :: (v, c) :: t
      else if x = v then (v, c + 1) :: t
      else (v, c) :: insertCount x t

def uniqueCounts (a : List Nat) : List (Nat × Nat) := a.foldr insertCount []

/-- `np.sum(a_counts[i:])` -/
def sumCounts (u : List (Nat × Nat)) : Nat := (u.map (·.2)).sum

/-- the two-pointer loop of `_count_inversions` over the unique values / counts -/
def mergeInv : List (Nat × Nat) → List (Nat × Nat) → Nat
  | [], _ => 0
  | _ :: _, [] => 0
  | (v, c) :: ta, (w, d) :: tb =>
      if v < w then mergeInv ta ((w, d) :: tb)
      else sumCounts ((v, c) :: ta) * d + mergeInv ((v, c) :: ta) tb
termination_by a b => a.length + b.length

def countInversions (a b : List Nat) : Nat := mergeInv (uniqueCounts a) (uniqueCounts b)

/-! ## `_compare_frame_rankings` -/

/-- `ref_map[level]` of the `defaultdict(lambda: 0)` -/
def lookupCount (u : List (Nat × Nat)) (l : Nat) : Nat :=
  match u.find? (fun p => p.1 == l) with
  | some p => p.2
  | none => 0

/-- `est_sorted[index[level]]`: the estimate scores of the positions whose reference score is `level`
    (a missing level is the empty slice `slice(0)`); the order inside a level is argsort's and is
    irrelevant to `_count_inversions` -/
def estAt (ref est : List Nat) (l : Nat) : List Nat :=
  ((ref.zip est).filter fun p => p.1 == l).map (·.2)

/-- `itertools.combinations(xs, 2)` -/
def combos2 {α : Type} : List α → List (α × α)
  | [] => []
  | x :: xs => xs.map (fun y => (x, y)) ++ combos2 xs

def levelPairs (levels : List Nat) (transitive : Bool) : List (Nat × Nat) :=
  if transitive then combos2 levels else levels.map fun i => (i, i + 1)

/-- returns `(inversions, normalizer)`; `est[idx]` raises IndexError when `est` is shorter than `ref` -/
def compareFrameRankings (ref est : List Nat) (transitive : Bool) : Py (Nat × Nat) :=
  if est.length < ref.length then .error .indexError
  else
    let u := uniqueCounts ref
    let lps := levelPairs (u.map (·.1)) transitive
    let normalizer := (lps.map fun ij => lookupCount u ij.1 * lookupCount u ij.2).sum
    if normalizer = 0 then .ok (0, 0)
    else .ok ((lps.map fun ij => countInversions (estAt ref est ij.1) (estAt ref est ij.2)).sum, normalizer)

/-! ## `_gauc` -/

/-- `xs[lo:hi]` for `0 ≤ lo`, `0 ≤ hi` -/
def pySlice {α : Type} (xs : List α) (lo hi : Nat) : List α := (xs.drop lo).take (hi - lo)

/-- `np.concatenate((xs[:k], xs[k+1:]))` -/
def removeAt {α : Type} (xs : List α) (k : Nat) : List α := xs.take k ++ xs.drop (k + 1)

/-- one iteration of the query loop: `(inversions, normalizer)`.
    `.toarray().ravel()` keeps every slice one-dimensional (a one-frame slice is just the query itself, which
    is then deleted: no result frame, no triple). -/
def gaucQuery (n w : Nat) (transitive : Bool) (q : Nat) (rrow erow : List Nat) : Py (Nat × Nat) :=
  let lo := q - w
  let hi := min n (q + w)
  let rs := pySlice rrow lo hi
  let es := pySlice erow lo hi
  let idx := min q w
  compareFrameRankings (removeAt rs idx) (removeAt es idx) transitive

def gaucTerms (ref est : Mat) (transitive : Bool) (w : Nat) : Py (List (Nat × Nat)) :=
  ((ref.zip est).zipIdx).mapM fun x => gaucQuery ref.length w transitive x.2 x.1.1 x.1.2

/-- `score += 1 - inversions / normalizer` over the queries with `normalizer ≠ 0`, divided by their
    number; `0/0 ↦ 0` -/
def gaucScore (terms : List (Nat × Nat)) : Rat :=
  let counted := terms.filter fun t => t.2 ≠ 0
  if counted.length = 0 then 0
  else (counted.map fun t => 1 - (t.1 : Rat) / (t.2 : Rat)).sum / (counted.length : Rat)

/-- `if window is None: window = n` -/
def winOf (window : Option Nat) (n : Nat) : Nat :=
  match window with
  | none => n
  | some w => w

def gauc (ref est : Mat) (transitive : Bool) (window : Option Nat) : Py Rat :=
  if ref.length ≠ est.length then .error .valueError
  else
    match gaucTerms ref est transitive (winOf window ref.length) with
    | .error e => .error e
    | .ok terms => .ok (gaucScore terms)

/-! ## `_hierarchy_bounds`, `_round`, `_lca`, `_meet` -/

def boundaries (h : Hier) : List Rat := h.flatMap fun iv => iv.flatMap fun p => [p.1, p.2]

/-- `min(boundaries), max(boundaries)`; Python's `min([])` raises ValueError -/
def bounds (h : Hier) : Py (Rat × Rat) :=
  match (boundaries h).min?, (boundaries h).max? with
  | some lo, some hi => .ok (lo, hi)
  | _, _ => .error .valueError

/-- `int(_round(t, fs) / fs)` for `fs > 0` -/
def frameOf (t fs : Rat) : Int := (t / fs).floor

def numFrames (h : Hier) (fs : Rat) : Py Nat :=
  match bounds h with
  | .error e => .error e
  | .ok (lo, hi) => .ok (frameOf hi fs - frameOf lo fs).toNat

/-- Python slice index normalisation against a dimension of size `n` -/
def normIdx (i : Int) (n : Nat) : Nat := if i < 0 then (i + (n : Int)).toNat else min i.toNat n

def frameSlice (fs : Rat) (n : Nat) (iv : Rat × Rat) : Nat × Nat :=
  (normIdx (frameOf iv.1 fs) n, normIdx (frameOf iv.2 fs) n)

def zeros (n : Nat) : Mat := List.replicate n (List.replicate n 0)

/-- `m[r0:r1, c0:c1] = v` -/
def setBlock (m : Mat) (r0 r1 c0 c1 v : Nat) : Mat :=
  m.mapIdx fun i row =>
    if r0 ≤ i ∧ i < r1 then row.mapIdx fun j x => if c0 ≤ j ∧ j < c1 then v else x
    else row

def lcaLevel (fs : Rat) (n : Nat) (m : Mat) (level : Nat) (ivs : Ivals) : Mat :=
  ivs.foldl (fun m iv => let s := frameSlice fs n iv; setBlock m s.1 s.2 s.1 s.2 level) m

def lca (h : Hier) (fs : Rat) : Py Mat :=
  match numFrames h fs with
  | .error e => .error e
  | .ok n => .ok ((h.zipIdx 1).foldl (fun m x => lcaLevel fs n m x.2 x.1) (zeros n))

/-- `zip(*np.where(np.triu(np.equal.outer(enc, enc))))` with the frame slices of both segments attached -/
def agreePairs {σ : Type} (segs : List (String × σ)) : List ((σ × Nat) × (σ × Nat)) :=
  let ls := segs.zipIdx
  ls.flatMap fun x => (ls.filter fun y => decide (x.2 ≤ y.2) && x.1.1 == y.1.1).map fun y =>
    ((x.1.2, x.2), (y.1.2, y.2))

/-- `meet_matrix[idx_i, idx_j] = level`, and the mirrored block when the two segments differ -/
def meetStep (level : Nat) (m : Mat) (pq : ((Nat × Nat) × Nat) × ((Nat × Nat) × Nat)) : Mat :=
  let a := pq.1.1
  let b := pq.2.1
  let m1 := setBlock m a.1 a.2 b.1 b.2 level
  if pq.1.2 ≠ pq.2.2 then setBlock m1 b.1 b.2 a.1 a.2 level else m1

/-- labels longer than the intervals index past `int_frames` (IndexError); shorter ones are cut by `zip`-like
    indexing (only label indices are enumerated) -/
def meetLevel (fs : Rat) (n : Nat) (m : Mat) (level : Nat) (ivs : Ivals) (labs : List String) : Py Mat :=
  if ivs.length < labs.length then .error .indexError
  else
    let segs := (labs.map String.toLower).zip (ivs.map (frameSlice fs n))
    .ok ((agreePairs segs).foldl (meetStep level) m)

def meetLevels (fs : Rat) (n : Nat) : Mat → List ((Ivals × List String) × Nat) → Py Mat
  | m, [] => .ok m
  | m, x :: rest =>
      match meetLevel fs n m x.2 x.1.1 x.1.2 with
      | .error e => .error e
      | .ok m' => meetLevels fs n m' rest

def meet (h : Hier) (labels : List (List String)) (fs : Rat) : Py Mat :=
  match numFrames h fs with
  | .error e => .error e
  | .ok n => meetLevels fs n (zeros n) ((h.zip labels).zipIdx 1)

/-! ## Layer S for the matrices: deepest level sharing a segment / a label -/

/-- entry `(i, j)` of a dense matrix (`none` outside) -/
def entry (m : Mat) (i j : Nat) : Option Nat := m[i]?.bind fun row => row[j]?

/-- frame `i` lies in the frame slice `s` -/
def inSlice (s : Nat × Nat) (i : Nat) : Bool := decide (s.1 ≤ i) && decide (i < s.2)

/-- some segment of the level contains both frames -/
def levelCovers (fs : Rat) (n : Nat) (ivs : Ivals) (i j : Nat) : Bool :=
  ivs.any fun iv => inSlice (frameSlice fs n iv) i && inSlice (frameSlice fs n iv) j

/-- the deepest level among `xs` (paired with their depth) satisfying `p`; 0 when there is none -/
def deepest {α : Type} (p : α → Bool) (xs : List (α × Nat)) : Nat :=
  ((xs.filter fun x => p x.1).map (·.2)).foldl max 0

/-- LCA depth from the definition: the deepest level at which frames `i` and `j` share a segment -/
def lcaSpec (h : Hier) (fs : Rat) (n i j : Nat) : Nat :=
  deepest (fun ivs => levelCovers fs n ivs i j) (h.zipIdx 1)

/-- two segments of the level carry the same (case-folded) label, one contains frame `i`, the other `j`;
    only segments that have a label take part (`labels` shorter than `intervals`) -/
def levelAgrees (fs : Rat) (n : Nat) (x : Ivals × List String) (i j : Nat) : Bool :=
  let segs := (x.2.map String.toLower).zip (x.1.map (frameSlice fs n))
  segs.any fun a => segs.any fun b => a.1 == b.1 && inSlice a.2 i && inSlice b.2 j

/-- meet depth from the definition: the deepest level at which frames `i` and `j` carry the same label -/
def meetSpec (h : Hier) (labels : List (List String)) (fs : Rat) (n i j : Nat) : Nat :=
  deepest (fun x => levelAgrees fs n x i j) ((h.zip labels).zipIdx 1)

/-! ## validation -/

def absR (x : Rat) : Rat := if x < 0 then -x else x

/-- `np.allclose(a, b)` on scalars: `|a − b| ≤ atol + rtol·|b|` -/
def allclose (a b : Rat) : Bool := decide (absR (a - b) ≤ 1 / 100000000 + 1 / 100000 * absR b)

def entries (iv : Ivals) : List Rat := iv.flatMap fun p => [p.1, p.2]

/-- `util.validate_intervals` on an `(n, 2)` array -/
def validateIntervals (iv : Ivals) : Py Unit :=
  if iv.any (fun p => decide (p.1 < 0) || decide (p.2 < 0)) then .error .valueError
  else if iv.any (fun p => decide (p.2 ≤ p.1)) then .error .valueError
  else .ok ()

def validateOne (iv : Ivals) : Py Unit :=
  match validateIntervals iv with
  | .error e => .error e
  | .ok () =>
      match (entries iv).min? with
      | none => .ok ()
      | some mn => if allclose mn 0 then .ok () else .error .valueError

/-- `segment.validate_structure(top, generated labels, cur, generated labels)` -/
def validateStructure (top cur : Ivals) : Py Unit :=
  match validateOne top with
  | .error e => .error e
  | .ok () =>
    match validateOne cur with
    | .error e => .error e
    | .ok () =>
      match (entries top).max?, (entries cur).max? with
      | some a, some b => if allclose a b then .ok () else .error .valueError
      | _, _ => .ok ()

def validateRest (top : Ivals) : List Ivals → Py Unit
  | [] => .ok ()
  | cur :: rest =>
      match validateStructure top cur with
      | .error e => .error e
      | .ok () => validateRest top rest

/-- `validate_hier_intervals`: nothing at all is checked for a one-level hierarchy -/
def validateHier : Hier → Py Unit
  | [] => .error .indexError
  | top :: rest => validateRest top rest

/-! ## Layer S: what a valid hierarchical segmentation is -/

/-- `lv` is a chain of contiguous segments of positive duration from `s` to `t` -/
def Chain : Rat → Ivals → Rat → Prop
  | s, [], t => s = t
  | s, p :: rest, t => p.1 = s ∧ p.1 < p.2 ∧ Chain p.2 rest t

/-- a level partitions `[0, T]` into at least one segment -/
def ValidLevel (lv : Ivals) (T : Rat) : Prop := lv ≠ [] ∧ Chain 0 lv T

/-- at least one level, every level partitions the common span `[0, T]` (nested or not) -/
def ValidHier (h : Hier) (T : Rat) : Prop := h ≠ [] ∧ ∀ lv ∈ h, ValidLevel lv T

/-- number of frames of a valid annotation of span `T`: `int((_round(T, fs) − _round(0, fs)) / fs)` -/
def framesOf (T fs : Rat) : Nat := (frameOf T fs - frameOf 0 fs).toNat

/-! ## `tmeasure`, `lmeasure` -/

def windowFrames (window : Option Rat) (fs : Rat) : Py (Option Nat) :=
  match window with
  | none => .ok none
  | some w => if fs > w then .error .valueError else .ok (some (frameOf w fs).toNat)

def tmeasure (ref est : Hier) (transitive : Bool) (window : Option Rat) (fs beta : Rat) :
    Py (Rat × Rat × Rat) :=
  if fs ≤ 0 then .error .valueError
  else do
    let wf ← windowFrames window fs
    validateHier ref
    validateHier est
    let rl ← lca ref fs
    let el ← lca est fs
    let r ← gauc rl el transitive wf
    let p ← gauc el rl transitive wf
    pure (p, r, fMeasure p r beta)

def lmeasure (ref : Hier) (refLabels : List (List String)) (est : Hier) (estLabels : List (List String))
    (fs beta : Rat) : Py (Rat × Rat × Rat) :=
  if fs ≤ 0 then .error .valueError
  else do
    validateHier ref
    validateHier est
    let rm ← meet ref refLabels fs
    let em ← meet est estLabels fs
    let r ← gauc rm em true none
    let p ← gauc em rm true none
    pure (p, r, fMeasure p r beta)

/-! ## `util.adjust_intervals` (as used by `_align_intervals`: `t_min = 0.0`) and `evaluate` -/

def adjustIntervals (iv : Ivals) (labs : List String) (tmin : Rat) (tmax : Option Rat) :
    Py (Ivals × List String) :=
  if iv.isEmpty then
    match tmax with
    | some tm => .ok ([(tmin, tm)], ["__T_MIN"])
    | none => .error .valueError
  else
    -- t_min is not None
    let s1 : Ivals × List String := match iv.findIdx? (fun p => decide (tmin < p.2)) with
      | some k => (iv.drop k, labs.drop k)
      | none => (iv, labs)
    let iv1 := s1.1.map fun p => (max tmin p.1, max tmin p.2)
    match (entries iv1).min? with
    | none => .error .valueError
    | some mn =>
      let s2 : Ivals × List String :=
        if tmin < mn then ((tmin, mn) :: iv1, "__T_MIN" :: s1.2) else (iv1, s1.2)
      match tmax with
      | none => .ok s2
      | some tm =>
        let s3 : Ivals × List String := match s2.1.findIdx? (fun p => decide (tm ≤ p.1)) with
          | some k => (s2.1.take k, s2.2.take k)
          | none => s2
        let iv3 := s3.1.map fun p => (min tm p.1, min tm p.2)
        match (entries iv3).max? with
        | none => .error .valueError
        | some mx =>
          if mx < tm then .ok (iv3 ++ [(mx, tm)], s3.2 ++ ["__T_MAX"]) else .ok (iv3, s3.2)

/-- `_align_intervals`: `zip(int_hier, lab_hier)` cuts to the shorter; unpacking the empty transpose fails -/
def alignIntervals (h : Hier) (labels : List (List String)) (tmax : Option Rat) :
    Py (Hier × List (List String)) :=
  match (h.zip labels).mapM (fun x => adjustIntervals x.1 x.2 0 tmax) with
  | .error e => .error e
  | .ok [] => .error .valueError
  | .ok rs => .ok (rs.map (·.1), rs.map (·.2))

def evaluate (ref : Hier) (refLabels : List (List String)) (est : Hier) (estLabels : List (List String))
    (window : Option Rat) (fs beta : Rat) : Py (List (String × Rat)) := do
  let b ← bounds ref
  let r ← alignIntervals ref refLabels none
  let e ← alignIntervals est estLabels (some b.2)
  let t0 ← tmeasure r.1 e.1 false window fs beta
  let t1 ← tmeasure r.1 e.1 true window fs beta
  let l ← lmeasure r.1 r.2 e.1 e.2 fs beta
  pure [("T-Precision reduced", t0.1), ("T-Recall reduced", t0.2.1), ("T-Measure reduced", t0.2.2),
        ("T-Precision full", t1.1), ("T-Recall full", t1.2.1), ("T-Measure full", t1.2.2),
        ("L-Precision", l.1), ("L-Recall", l.2.1), ("L-Measure", l.2.2)]

/-! ## protocol glue -/

def asHier? (v : Val) : Option Hier := do (← v.asList?).mapM Val.asRatPairs?
def asLabels? (v : Val) : Option (List (List String)) := do (← v.asList?).mapM Val.asStrs?
def asMat? (v : Val) : Option Mat := do (← v.asList?).mapM Val.asNats?
def ofMat (m : Mat) : Val := .list (m.map Val.ofNats)
def ofPRF (x : Rat × Rat × Rat) : Val := .list [.rat x.1, .rat x.2.1, .rat x.2.2]
def isSquare (m : Mat) : Bool := m.all fun row => row.length == m.length

def handler : Handler := fun fn args =>
  match fn, args with
  | "hierarchy._count_inversions", [a, b] => do
      let a ← a.asNats?; let b ← b.asNats?
      some (.ok (Val.ofNat (countInversions a b)))
  | "hierarchy._compare_frame_rankings", [r, e, t] => do
      let r ← r.asNats?; let e ← e.asNats?; let t ← t.asBool?
      some ((compareFrameRankings r e t).map fun x => .list [Val.ofNat x.1, Val.ofNat x.2])
  | "hierarchy._gauc", [r, e, t, w] => do
      let r ← asMat? r; let e ← asMat? e; let t ← t.asBool?
      let w ← match w with
        | .none => some none
        | v => v.asNat?.map some
      if ¬ (isSquare r && isSquare e) then none
      else some ((gauc r e t w).map .rat)
  | "hierarchy.gauc_spec", [r, e, t, w] => do
      let r ← asMat? r; let e ← asMat? e; let t ← t.asBool?
      let w ← match w with
        | .none => some r.length
        | v => v.asNat?
      if ¬ (isSquare r && isSquare e && r.length == e.length) then none
      else some (.ok (.rat (gaucSpec r e t w)))
  | "hierarchy._lca", [h, fs] => do
      let h ← asHier? h; let fs ← fs.asRat?
      if fs ≤ 0 then none else some ((lca h fs).map ofMat)
  | "hierarchy._meet", [h, l, fs] => do
      let h ← asHier? h; let l ← asLabels? l; let fs ← fs.asRat?
      if fs ≤ 0 then none else some ((meet h l fs).map ofMat)
  | "hierarchy.validate_hier_intervals", [h] => do
      let h ← asHier? h
      some ((validateHier h).map fun _ => .none)
  | "hierarchy.tmeasure", [r, e, t, w, fs, beta] => do
      let r ← asHier? r; let e ← asHier? e; let t ← t.asBool?
      let w ← w.asOptRat?; let fs ← fs.asRat?; let beta ← beta.asRat?
      if beta = 0 then none else some ((tmeasure r e t w fs beta).map ofPRF)
  | "hierarchy.lmeasure", [r, rl, e, el, fs, beta] => do
      let r ← asHier? r; let rl ← asLabels? rl; let e ← asHier? e; let el ← asLabels? el
      let fs ← fs.asRat?; let beta ← beta.asRat?
      if beta = 0 then none else some ((lmeasure r rl e el fs beta).map ofPRF)
  | "hierarchy.evaluate", [r, rl, e, el, w, fs, beta] => do
      let r ← asHier? r; let rl ← asLabels? rl; let e ← asHier? e; let el ← asLabels? el
      let w ← w.asOptRat?; let fs ← fs.asRat?; let beta ← beta.asRat?
      if beta = 0 then none
      else some ((evaluate r rl e el w fs beta).map fun kvs =>
        .list (kvs.map fun kv => .list [.str kv.1, .rat kv.2]))
  | _, _ => none

end Hierarchy
end Mir
