import MirModel.Matching
import MirModel.Scores
/-
  MirModel.HitMetric — the shape shared by every hit-based score (beat F, onset, boundary detection,
  note transcription, multipitch per frame): build the feasibility graph of a predicate, take the size of a
  maximum matching, divide by the number of estimated / reference items.
-/
namespace Mir

/-- feasibility graph of `feas` between two item lists: edges `(ref index, est index)` -/
def hitGraph {α β : Type} (feas : α → β → Bool) (ref : List α) (est : List β) : List Edge :=
  (enumFrom' 0 ref).flatMap fun (r, i) =>
    (enumFrom' 0 est).filterMap fun (e, j) => if feas r e then some (i, j) else none

def hitCount {α β : Type} (feas : α → β → Bool) (ref : List α) (est : List β) : Nat :=
  maxMatchSize (hitGraph feas ref est)

/-- precision, recall, F with the libraries' convention: all zero when either side is empty -/
def hitPRF {α β : Type} (feas : α → β → Bool) (ref : List α) (est : List β) (beta : Rat := 1) :
    Rat × Rat × Rat :=
  if ref.isEmpty || est.isEmpty then (0, 0, 0)
  else prf (hitCount feas ref est) ref.length est.length beta

/-- windowed event feasibility `|r - e| ≤ w` -/
def withinWindow (w : Rat) (r e : Rat) : Bool := decide (e - w ≤ r ∧ r ≤ e + w)

namespace HitMetric
def handler : Handler := fun fn args =>
  match fn, args with
  | "hitmetric.event_prf", [r, e, w, b] => do
      -- [precision, recall, F] of a windowed event matching (what onset.f_measure / beat.f_measure compute)
      let r ← r.asRats?; let e ← e.asRats?; let w ← w.asRat?; let b ← b.asRat?
      let (p, rc, f) := hitPRF (withinWindow w) r e b
      some (.ok (.list [.rat p, .rat rc, .rat f]))
  | _, _ => none
end HitMetric

end Mir
