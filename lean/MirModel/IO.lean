import MirModel.Basic
/-
  MirModel.IO — model of the text loaders of `mir_eval/io.py`, over `List Char`.

  What is modelled (the code as it is):
  * `str.strip()` / `re` `\s` : CPython's `Py_UNICODE_ISSPACE` set (`isSpacePy`).
  * text-mode line iteration: lines end at `'\n'` and keep it (`splitLines`).
  * `re.compile(delimiter).split(s, maxsplit)` for the documented delimiter classes: `\s+` (`Delim.ws`) and a
    literal, non-empty string (`Delim.lit`); `maxsplit = 0` means "no limit", a negative one "no split".
  * `re.compile("^" + comment).match(line)` for a literal marker: a prefix test at column 0.
  * `load_delimited` (row-numbered `ValueError`s), the wrappers built on it, `load_key`, `load_tempo`,
    `load_ragged_time_series` (rows numbered from 0; with `header=True` the first line is skipped and the remaining
    ones are numbered from 1),
    `load_patterns` (substring tests `"pattern" in line`, `"occurrence" in line`, then `line.split(",")`; a data row
    with a single column is a `ValueError`).
  Numeric tokens are abstract: every loader takes its converter(s) `List Char → Option α` as parameters.  The driver
  instantiates them with recognisers of CPython's `float()` / `int()` grammars that return the token itself; the
  harness applies `float()` to the returned tokens on its side.
  Warnings are not modelled (a validate-then-warn wrapper returns exactly what `load_delimited` returned).
-/
namespace Mir
namespace IO

/-! ### characters, stripping -/

/-- `Py_UNICODE_ISSPACE`: the set used by `str.strip()`, `str.split()` and `\s` (str patterns). -/
def isSpacePy (c : Char) : Bool :=
  let n := c.toNat
  (9 ≤ n && n ≤ 13) || (28 ≤ n && n ≤ 32) || n == 0x85 || n == 0xA0 || n == 0x1680 ||
  (0x2000 ≤ n && n ≤ 0x200A) || n == 0x2028 || n == 0x2029 || n == 0x202F || n == 0x205F || n == 0x3000

def lstripPy (s : List Char) : List Char := s.dropWhile isSpacePy
def rstripPy (s : List Char) : List Char := (s.reverse.dropWhile isSpacePy).reverse
/-- `str.strip()` -/
def stripPy (s : List Char) : List Char := rstripPy (lstripPy s)

/-! ### lines -/

/-- Iterating a text-mode file object: lines are cut after each `'\n'` and keep it; the last line may lack it. -/
def splitLines : List Char → List (List Char)
  | [] => []
  | c :: cs =>
    if c = '\n' then [c] :: splitLines cs
    else match splitLines cs with
      | [] => [[c]]
      | l :: ls => (c :: l) :: ls

/-! ### `re.split` for the documented delimiter classes -/

inductive Delim where
  | ws                      -- `\s+`
  | lit (p : List Char)     -- a literal string (no regex metacharacters), non-empty
  deriving Repr, DecidableEq

/-- A delimiter match starting at the head of `s`: the rest of `s` after the (greedy) match. -/
def matchAt : Delim → List Char → Option (List Char)
  | .ws, [] => none
  | .ws, c :: cs => if isSpacePy c then some (cs.dropWhile isSpacePy) else none
  | .lit p, s => if p.isPrefixOf s then some (s.drop p.length) else none

/-- Leftmost delimiter match: the text before it and the text after it. -/
def breakDelim (d : Delim) : List Char → Option (List Char × List Char)
  | [] => none
  | c :: cs =>
    match matchAt d (c :: cs) with
    | some rest => some ([], rest)
    | none => match breakDelim d cs with
      | some (f, r) => some (c :: f, r)
      | none => none

/-- At most `k` splits, left to right. -/
def splitN (d : Delim) : Nat → List Char → List (List Char)
  | 0, s => [s]
  | k + 1, s =>
    match breakDelim d s with
    | none => [s]
    | some (f, r) => f :: splitN d k r

/-- `re.compile(d).split(s, maxsplit)`.  Every split consumes at least one character, so `s.length` splits are
    "no limit". -/
def reSplit (d : Delim) (maxsplit : Int) (s : List Char) : List (List Char) :=
  if maxsplit < 0 then [s]
  else if maxsplit = 0 then splitN d s.length s
  else splitN d maxsplit.toNat s

/-- `comment is not None and re.compile("^" + comment).match(line)` for a literal marker. -/
def isComment (comment : Option (List Char)) (line : List Char) : Bool :=
  match comment with
  | none => false
  | some m => m.isPrefixOf line

/-! ### errors -/

inductive LoadErr where
  /-- `ValueError("Expected n columns, got k at file:row")` -/
  | columns (row expected got : Nat)
  /-- `ValueError("Couldn't convert value … found at file:row")` -/
  | convert (row col : Nat)
  /-- `ValueError("Key/Tempo file should contain only one line.")` -/
  | notOneLine
  /-- `ValueError("Invalid weight")` -/
  | badWeight
  /-- `IndexError`: `weight[0]` on a tempo file without data rows -/
  | noRow
  /-- `ValueError("Expected an 'onset, midi' pair but found a single column")` in `load_patterns` (no row number) -/
  | singleColumn
  /-- `ValueError` raised by `float()` itself in `load_patterns` (no row number in the message) -/
  | badNumber
  deriving Repr, DecidableEq

def LoadErr.toPy : LoadErr → PyErr
  | .columns .. => .valueError
  | .convert .. => .valueError
  | .notOneLine => .valueError
  | .badWeight => .valueError
  | .noRow => .indexError
  | .singleColumn => .valueError
  | .badNumber => .valueError

/-- the row number carried by the message, if any -/
def LoadErr.row? : LoadErr → Option Nat
  | .columns r _ _ => some r
  | .convert r _ => some r
  | _ => none

abbrev Conv (α : Type) := List Char → Option α

/-! ### `load_delimited` -/

/-- `for value, column, converter in zip(data, columns, converters)`: first failing converter wins. -/
def convertRow {α : Type} (row : Nat) : Nat → List (Conv α) → List (List Char) → Except LoadErr (List α)
  | _, [], _ => .ok []
  | _, _ :: _, [] => .ok []
  | col, c :: cs, v :: vs =>
    match c v with
    | none => .error (.convert row col)
    | some x =>
      match convertRow row (col + 1) cs vs with
      | .ok xs => .ok (x :: xs)
      | .error e => .error e

/-- One non-comment line of `load_delimited`. -/
def loadLine {α : Type} (convs : List (Conv α)) (d : Delim) (row : Nat) (line : List Char) :
    Except LoadErr (List α) :=
  let data := reSplit d ((convs.length : Int) - 1) (stripPy line)
  if data.length ≠ convs.length then .error (.columns row convs.length data.length)
  else convertRow row 0 convs data

/-- The loop of `load_delimited` over the lines, `row` = number of the first one.  Rows in file order. -/
def loadRows {α : Type} (convs : List (Conv α)) (d : Delim) (comment : Option (List Char)) :
    Nat → List (List Char) → Except LoadErr (List (List α))
  | _, [] => .ok []
  | row, l :: ls =>
    if isComment comment l then loadRows convs d comment (row + 1) ls
    else match loadLine convs d row l with
      | .error e => .error e
      | .ok vals =>
        match loadRows convs d comment (row + 1) ls with
        | .error e => .error e
        | .ok rest => .ok (vals :: rest)

def column {α : Type} (rows : List (List α)) (j : Nat) : List α := rows.filterMap (·[j]?)
/-- the tuple of column lists -/
def columns {α : Type} (n : Nat) (rows : List (List α)) : List (List α) := (List.range n).map (column rows)

/-- `load_delimited(file, converters, delimiter, comment)` as the list of rows (file order). -/
def loadTable {α : Type} (convs : List (Conv α)) (d : Delim) (comment : Option (List Char))
    (content : List Char) : Except LoadErr (List (List α)) :=
  loadRows convs d comment 1 (splitLines content)

/-- `load_delimited`: the tuple of columns (`columns[0]` alone when there is one converter: see the handler). -/
def loadDelimited {α : Type} (convs : List (Conv α)) (d : Delim) (comment : Option (List Char))
    (content : List Char) : Except LoadErr (List (List α)) :=
  match loadTable convs d comment content with
  | .ok rows => .ok (columns convs.length rows)
  | .error e => .error e

/-! ### the wrappers -/

/-- a loaded value: a converted number or a label -/
inductive Cell (α : Type) where
  | num (x : α)
  | str (s : List Char)
  deriving Repr, DecidableEq

def numConv {α : Type} (conv : Conv α) : Conv (Cell α) := fun t => (conv t).map Cell.num
def strConv {α : Type} : Conv (Cell α) := fun t => some (Cell.str t)

def numCol {α : Type} (rows : List (List (Cell α))) (j : Nat) : List α :=
  rows.filterMap fun (r : List (Cell α)) => match r[j]? with | some (Cell.num x) => some x | _ => none
def strCol {α : Type} (rows : List (List (Cell α))) (j : Nat) : List (List Char) :=
  rows.filterMap fun (r : List (Cell α)) => match r[j]? with | some (Cell.str s) => some s | _ => none
/-- `np.array([starts, ends]).T` -/
def pairCol {α : Type} (rows : List (List (Cell α))) (i j : Nat) : List (α × α) :=
  rows.filterMap fun (r : List (Cell α)) =>
    match r[i]?, r[j]? with | some (Cell.num a), some (Cell.num b) => some (a, b) | _, _ => none

variable {α : Type}

/-- `load_events` (the validation only warns) -/
def loadEvents (conv : Conv α) (d : Delim) (c : Option (List Char)) (s : List Char) : Except LoadErr (List α) :=
  (loadTable [numConv conv] d c s).map fun rows => numCol rows 0

def loadLabeledEvents (conv : Conv α) (d : Delim) (c : Option (List Char)) (s : List Char) :
    Except LoadErr (List α × List (List Char)) :=
  (loadTable [numConv conv, strConv] d c s).map fun rows => (numCol rows 0, strCol rows 1)

def loadIntervals (conv : Conv α) (d : Delim) (c : Option (List Char)) (s : List Char) :
    Except LoadErr (List (α × α)) :=
  (loadTable [numConv conv, numConv conv] d c s).map fun rows => pairCol rows 0 1

def loadLabeledIntervals (conv : Conv α) (d : Delim) (c : Option (List Char)) (s : List Char) :
    Except LoadErr (List (α × α) × List (List Char)) :=
  (loadTable [numConv conv, numConv conv, strConv] d c s).map fun rows => (pairCol rows 0 1, strCol rows 2)

def loadTimeSeries (conv : Conv α) (d : Delim) (c : Option (List Char)) (s : List Char) :
    Except LoadErr (List α × List α) :=
  (loadTable [numConv conv, numConv conv] d c s).map fun rows => (numCol rows 0, numCol rows 1)

def loadValuedIntervals (conv : Conv α) (d : Delim) (c : Option (List Char)) (s : List Char) :
    Except LoadErr (List (α × α) × List α) :=
  (loadTable [numConv conv, numConv conv, numConv conv] d c s).map fun rows => (pairCol rows 0 1, numCol rows 2)

/-- `load_key`: two string columns, exactly one data row, joined by one blank. -/
def loadKey (d : Delim) (c : Option (List Char)) (s : List Char) : Except LoadErr (List Char) :=
  match loadTable (α := List Char) [some, some] d c s with
  | .error e => .error e
  | .ok [[scale, mode]] => .ok (scale ++ ' ' :: mode)
  | .ok _ => .error .notOneLine

/-- `load_tempo`: `weight[0]` (IndexError on no data row), then the one-line test, then the weight range test. -/
def loadTempo (conv : Conv α) (weightOk : α → Bool) (d : Delim) (c : Option (List Char)) (s : List Char) :
    Except LoadErr ((α × α) × α) :=
  match loadTable [conv, conv, conv] d c s with
  | .error e => .error e
  | .ok [] => .error .noRow
  | .ok [[t1, t2, w]] => if weightOk w then .ok ((t1, t2), w) else .error .badWeight
  | .ok _ => .error .notOneLine

/-! ### `load_ragged_time_series` -/

def mapConv (conv : Conv α) : List (List Char) → Option (List α)
  | [] => some []
  | t :: ts => match conv t with
    | none => none
    | some x => match mapConv conv ts with
      | none => none
      | some xs => some (x :: xs)

/-- one non-comment line: time stamp, then `np.array(data[1:], dtype=dtype)` (all or nothing) -/
def loadRaggedLine (tconv vconv : Conv α) (d : Delim) (row : Nat) (line : List Char) :
    Except LoadErr (α × List α) :=
  match reSplit d 0 (stripPy line) with
  | [] => .error .noRow
  | t :: vs =>
    match tconv t with
    | none => .error (.convert row 0)
    | some tv =>
      match mapConv vconv vs with
      | none => .error (.convert row 1)
      | some vv => .ok (tv, vv)

def loadRaggedRows (tconv vconv : Conv α) (d : Delim) (comment : Option (List Char)) :
    Nat → List (List Char) → Except LoadErr (List (α × List α))
  | _, [] => .ok []
  | row, l :: ls =>
    if isComment comment l then loadRaggedRows tconv vconv d comment (row + 1) ls
    else match loadRaggedLine tconv vconv d row l with
      | .error e => .error e
      | .ok r =>
        match loadRaggedRows tconv vconv d comment (row + 1) ls with
        | .error e => .error e
        | .ok rest => .ok (r :: rest)

/-- `load_ragged_time_series`: with `header=True` the first line (whatever it is, if there is one) is skipped by
    `next(input_file, None)` and the remaining lines are numbered from 1; otherwise lines are numbered from 0. -/
def loadRagged (tconv vconv : Conv α) (d : Delim) (header : Bool) (comment : Option (List Char))
    (s : List Char) : Except LoadErr (List α × List (List α)) :=
  match loadRaggedRows tconv vconv d comment (if header then 1 else 0)
      (if header then (splitLines s).drop 1 else splitLines s) with
  | .ok rows => .ok (rows.map Prod.fst, rows.map Prod.snd)
  | .error e => .error e

/-! ### `load_patterns` -/

/-- `p in s` for strings -/
def hasSub (p : List Char) : List Char → Bool
  | [] => p.isEmpty
  | c :: cs => p.isPrefixOf (c :: cs) || hasSub p cs

/-- `str.split(",")` -/
def splitComma (s : List Char) : List (List Char) := splitN (.lit [',']) s.length s

structure PatState (α : Type) where
  list : List (List (List (α × α)))
  pattern : List (List (α × α))
  occ : List (α × α)
  deriving DecidableEq

def PatState.init : PatState α := ⟨[], [], []⟩

/-- `if occurrence != []: pattern.append(occurrence)` -/
def PatState.flushOcc (st : PatState α) : List (List (α × α)) :=
  if st.occ.isEmpty then st.pattern else st.pattern ++ [st.occ]

/-- the two flushes done at a `pattern` line and at the end of the file -/
def PatState.close (st : PatState α) : List (List (List (α × α))) :=
  if st.flushOcc.isEmpty then st.list else st.list ++ [st.flushOcc]

def patKw : List Char := "pattern".toList
def occKw : List Char := "occurrence".toList

def patStep (conv : Conv α) (st : PatState α) (line : List Char) : Except LoadErr (PatState α) :=
  if hasSub patKw line then .ok ⟨st.close, [], []⟩
  else if hasSub occKw line then .ok ⟨st.list, st.flushOcc, []⟩
  else match splitComma line with
    | [] => .error .singleColumn
    | [_] => .error .singleColumn
    | a :: b :: _ =>
      match conv a with
      | none => .error .badNumber
      | some x =>
        match conv b with
        | none => .error .badNumber
        | some y => .ok ⟨st.list, st.pattern, st.occ ++ [(x, y)]⟩

def patRun (conv : Conv α) : PatState α → List (List Char) → Except LoadErr (PatState α)
  | st, [] => .ok st
  | st, l :: ls =>
    match patStep conv st l with
    | .error e => .error e
    | .ok st' => patRun conv st' ls

def loadPatterns (conv : Conv α) (s : List Char) : Except LoadErr (List (List (List (α × α)))) :=
  match patRun conv PatState.init (splitLines s) with
  | .ok st => .ok st.close
  | .error e => .error e

/-! ### CPython's `float()` / `int()` string grammars (driver instance of the converters) -/

/-- whitespace that `float(str)` / `int(str)` strip: the Unicode set without U+001C..U+001F -/
def isSpaceNum (c : Char) : Bool := isSpacePy c && !(28 ≤ c.toNat && c.toNat ≤ 31)

def stripNum (s : List Char) : List Char :=
  ((s.dropWhile isSpaceNum).reverse.dropWhile isSpaceNum).reverse

/-- `_Py_string_to_number_with_underscores`: an underscore must sit between two digits. -/
def dropUnderscores : Char → List Char → Option (List Char)
  | prev, [] => if prev = '_' then none else some []
  | prev, c :: cs =>
    if c = '_' then (if prev.isDigit then dropUnderscores c cs else none)
    else if prev = '_' ∧ !c.isDigit then none
    else (dropUnderscores c cs).map (c :: ·)

def digitsToNat (ds : List Char) : Nat := ds.foldl (fun a c => 10 * a + (c.toNat - 48)) 0

inductive FVal where
  | fin (q : Rat)
  | inf (neg : Bool)
  | nan
  deriving Repr

def splitSign : List Char → Bool × List Char
  | '-' :: r => (true, r)
  | '+' :: r => (false, r)
  | s => (false, s)

/-- exponent part: `[eE][+-]?digits+` or nothing -/
def parseExp : List Char → Option Int
  | [] => some 0
  | e :: r =>
    if e = 'e' ∨ e = 'E' then
      let (neg, ds) := splitSign r
      if !ds.isEmpty ∧ ds.all Char.isDigit then
        some (if neg then -(digitsToNat ds : Int) else (digitsToNat ds : Int))
      else none
    else none

/-- value of mantissa digits `M` (integer) times `10^E`; magnitudes beyond 1e±400 are clamped (inf / 0): the only
    use of the value is the weight range test of `load_tempo`. -/
def decValue (neg : Bool) (digits : List Char) (e : Int) : FVal :=
  let m := digitsToNat digits
  if m = 0 then .fin 0
  else
    let nd : Int := ((digits.dropWhile (· = '0')).length : Nat)
    if nd + e > 400 then .inf neg
    else if nd + e < -400 then .fin 0
    else
      let q : Rat := if e ≥ 0 then (m : Rat) * ((10 : Rat) ^ e.toNat) else (m : Rat) / ((10 : Rat) ^ (-e).toNat)
      .fin (if neg then -q else q)

/-- `float(s)` for a `str` of ASCII digits (Unicode decimal digits are outside the model's domain). -/
def parseFloatTok (s : List Char) : Option FVal :=
  match dropUnderscores ' ' (stripNum s) with
  | none => none
  | some t =>
    let (neg, body) := splitSign t
    let low := body.map Char.toLower
    if low = "inf".toList ∨ low = "infinity".toList then some (.inf neg)
    else if low = "nan".toList then some .nan
    else
      let (ip, s1) := body.span Char.isDigit
      let (fp, s2) := match s1 with
        | '.' :: r => r.span Char.isDigit
        | _ => ([], s1)
      if ip.isEmpty ∧ fp.isEmpty then none
      else match parseExp s2 with
        | none => none
        | some e => some (decValue neg (ip ++ fp) (e - (fp.length : Nat)))

/-- `int(s)`, base 10 -/
def parseIntTok (s : List Char) : Option Int :=
  match dropUnderscores ' ' (stripNum s) with
  | none => none
  | some t =>
    let (neg, ds) := splitSign t
    if !ds.isEmpty ∧ ds.all Char.isDigit then
      some (if neg then -(digitsToNat ds : Int) else (digitsToNat ds : Int))
    else none

/-- the driver's `float` converter: accept exactly what `float()` accepts, keep the token -/
def floatConv : Conv (List Char) := fun t => (parseFloatTok t).map fun _ => t
def intConv : Conv (List Char) := fun t => (parseIntTok t).map fun _ => t

/-- `0 <= float(tok) <= 1` decided on the exact decimal value `q`: binary64 rounding is monotone, `1 + 2^-53`
    is the largest real that rounds to `1.0` (tie to even) and `-2^-1075` the smallest that rounds to `-0.0`. -/
def weightOkTok (t : List Char) : Bool :=
  match parseFloatTok t with
  | some (.fin q) => decide (-(1 : Rat) / (2 : Rat) ^ 1075 ≤ q) && decide (q ≤ 1 + 1 / (2 : Rat) ^ 53)
  | _ => false

/-! ### protocol glue -/

def parseDelim (s : String) : Option Delim :=
  let cs := s.toList
  if cs = "\\s+".toList then some .ws
  else if cs.isEmpty then none
  else if cs.any (fun c => "\\.^$*+?{}[]|()".toList.contains c) then none
  else some (.lit cs)

def parseComment : Val → Option (Option (List Char))
  | .none => some none
  | .str s =>
    if s.toList.any (fun c => "\\.^$*+?{}[]|()".toList.contains c) then none else some (some s.toList)
  | _ => none

def vStr (s : List Char) : Val := .str (String.ofList s)
def vStrs (xs : List (List Char)) : Val := .list (xs.map vStr)
def vPairs (xs : List (List Char × List Char)) : Val := .list (xs.map fun (a, b) => .list [vStr a, vStr b])

/-- errors are returned as data so that the row number is compared too: `["!err", class, row | none]` -/
def vErr (e : LoadErr) : Val :=
  .list [.str "!err", .str e.toPy.name, match e.row? with | some r => Val.ofNat r | none => .none]

def vResult {β : Type} (f : β → Val) : Except LoadErr β → Option (Py Val)
  | .ok x => some (.ok (f x))
  | .error e => some (.ok (vErr e))

def cellVal : Cell (List Char) → Val
  | .num t => vStr t
  | .str t => vStr t

def parseConvs (names : List String) : Option (List (Conv (Cell (List Char)))) :=
  names.mapM fun n =>
    if n = "float" then some (numConv floatConv)
    else if n = "int" then some (numConv intConv)
    else if n = "str" then some strConv
    else none

def handler : Handler := fun fn args =>
  match fn, args with
  | "io.load_delimited", [s, convs, d, c] => do
      let s ← s.asStr?; let names ← convs.asStrs?; let convs ← parseConvs names
      let d ← parseDelim (← d.asStr?); let c ← parseComment c
      vResult (fun cols => match cols with
          | [col] => .list (col.map cellVal)
          | cols => .list (cols.map fun col => .list (col.map cellVal)))
        (loadDelimited convs d c s.toList)
  | "io.load_events", [s, d, c] => do
      let s ← s.asStr?; let d ← parseDelim (← d.asStr?); let c ← parseComment c
      vResult vStrs (loadEvents floatConv d c s.toList)
  | "io.load_labeled_events", [s, d, c] => do
      let s ← s.asStr?; let d ← parseDelim (← d.asStr?); let c ← parseComment c
      vResult (fun (t, l) => .list [vStrs t, vStrs l]) (loadLabeledEvents floatConv d c s.toList)
  | "io.load_intervals", [s, d, c] => do
      let s ← s.asStr?; let d ← parseDelim (← d.asStr?); let c ← parseComment c
      vResult vPairs (loadIntervals floatConv d c s.toList)
  | "io.load_labeled_intervals", [s, d, c] => do
      let s ← s.asStr?; let d ← parseDelim (← d.asStr?); let c ← parseComment c
      vResult (fun (iv, l) => .list [vPairs iv, vStrs l]) (loadLabeledIntervals floatConv d c s.toList)
  | "io.load_time_series", [s, d, c] => do
      let s ← s.asStr?; let d ← parseDelim (← d.asStr?); let c ← parseComment c
      vResult (fun (t, v) => .list [vStrs t, vStrs v]) (loadTimeSeries floatConv d c s.toList)
  | "io.load_valued_intervals", [s, d, c] => do
      let s ← s.asStr?; let d ← parseDelim (← d.asStr?); let c ← parseComment c
      vResult (fun (iv, v) => .list [vPairs iv, vStrs v]) (loadValuedIntervals floatConv d c s.toList)
  | "io.load_key", [s, d, c] => do
      let s ← s.asStr?; let d ← parseDelim (← d.asStr?); let c ← parseComment c
      vResult vStr (loadKey d c s.toList)
  | "io.load_tempo", [s, d, c] => do
      let s ← s.asStr?; let d ← parseDelim (← d.asStr?); let c ← parseComment c
      vResult (fun ((t1, t2), w) => .list [vStrs [t1, t2], vStr w])
        (loadTempo floatConv weightOkTok d c s.toList)
  | "io.load_ragged_time_series", [s, dtype, d, header, c] => do
      let s ← s.asStr?; let dtype ← dtype.asStr?
      let d ← parseDelim (← d.asStr?); let header ← header.asBool?; let c ← parseComment c
      let vconv ← if dtype = "float" then some floatConv else if dtype = "int" then some intConv else none
      vResult (fun (t, v) => .list [vStrs t, .list (v.map vStrs)]) (loadRagged floatConv vconv d header c s.toList)
  | "io.load_patterns", [s] => do
      let s ← s.asStr?
      vResult (fun ps => .list (ps.map fun p => .list (p.map vPairs))) (loadPatterns floatConv s.toList)
  | _, _ => none

end IO
end Mir
