import MirModel.Basic
/-
  MirModel.Intervals — labelled-interval pre-processing (`mir_eval.util`) and the interval-weighted
  chord scores (`mir_eval.chord.weighted_accuracy`, segmentation scores), modelled as the code is.

  A labelled annotation is a list of rows `(start, end, label)` (`LI L`).  Python exceptions are explicit.
  No imports outside core Lean.
-/
namespace Mir

/-- rows `(start, end, label)` of an `(n,2)` interval array zipped with its label list -/
abbrev LI (L : Type) := List (Rat × Rat × L)
/-- rows of an `(n,2)` interval array -/
abbrev Ivals := List (Rat × Rat)

/-- A float64 result that may be `nan` (NumPy division by zero does not raise). -/
inductive Num where
  | val (q : Rat)
  | nan
  deriving DecidableEq, Repr, Inhabited

namespace Iv

variable {L M T : Type}

/-! ### Layer S: what an annotation denotes -/

/-- `labelAt xs t`: the label of the row `[s, e)` containing `t`; the later row wins. -/
def labelAt : LI L → Rat → Option L
  | [], _ => none
  | x :: r, t =>
    match labelAt r t with
    | some l => some l
    | none => if x.1 ≤ t ∧ t < x.2.1 then some x.2.2 else none

/-- closed variant `[s, e]` (the `searchsorted(left)/(right)` semantics of `interpolate_intervals`);
    the later row wins, in particular at a shared boundary. -/
def labelAtC : LI L → Rat → Option L
  | [], _ => none
  | x :: r, t =>
    match labelAtC r t with
    | some l => some l
    | none => if x.1 ≤ t ∧ t ≤ x.2.1 then some x.2.2 else none

/-- strictly positive durations, time-ordered, non-overlapping (gaps allowed); all starts `≥ lo` -/
def Chain (lo : Rat) : LI L → Prop
  | [] => True
  | x :: r => lo ≤ x.1 ∧ x.1 < x.2.1 ∧ Chain x.2.1 r

/-- as `Chain`, and each row starts where the previous one ended (a segmentation from `lo`) -/
def Contig (lo : Rat) : LI L → Prop
  | [] => True
  | x :: r => lo = x.1 ∧ x.1 < x.2.1 ∧ Contig x.2.1 r

/-! ### array helpers -/

/-- `np.ravel(intervals)` -/
def entries : LI L → List Rat
  | [] => []
  | x :: r => x.1 :: x.2.1 :: entries r

def entriesP : Ivals → List Rat
  | [] => []
  | x :: r => x.1 :: x.2 :: entriesP r

def ivals (xs : LI L) : Ivals := xs.map fun x => (x.1, x.2.1)
def labels (xs : LI L) : List L := xs.map fun x => x.2.2

/-- `arr.min()` (`none` = empty array: NumPy raises `ValueError`) -/
def minL : List Rat → Option Rat
  | [] => none
  | x :: r => match minL r with
    | none => some x
    | some m => some (min x m)

def maxL : List Rat → Option Rat
  | [] => none
  | x :: r => match maxL r with
    | none => some x
    | some m => some (max x m)

def qsum : List Rat → Rat
  | [] => 0
  | x :: r => x + qsum r

def qabs (x : Rat) : Rat := if x < 0 then -x else x

/-- insert into a strictly increasing list, dropping duplicates -/
def insertU (a : Rat) : List Rat → List Rat
  | [] => [a]
  | b :: r => if a < b then a :: b :: r else if a = b then b :: r else b :: insertU a r

/-- `np.unique` of a flat array: sorted, duplicates removed -/
def usort (xs : List Rat) : List Rat := xs.foldr insertU []

/-- consecutive pairs `zip(b[:-1], b[1:])` -/
def pairs (bs : List Rat) : Ivals := bs.zip bs.tail

/-! ### `util.adjust_intervals` -/

def clipMin (a : Rat) (xs : LI L) : LI L := xs.map fun x => (max a x.1, max a x.2.1, x.2.2)
def clipMax (b : Rat) (xs : LI L) : LI L := xs.map fun x => (min b x.1, min b x.2.1, x.2.2)

/-- drop the rows before the first one that ends after `a` (a row ending exactly at `a` has nothing left
    inside the range); quirk: when no row ends after `a`, nothing is dropped. -/
def cropMin (a : Rat) (xs : LI L) : LI L :=
  match xs.dropWhile (fun x => decide (x.2.1 ≤ a)) with
  | [] => xs
  | k => k

/-- keep the rows before the first one that starts at or after `b` -/
def cropMax (b : Rat) (xs : LI L) : LI L := xs.takeWhile (fun x => decide (x.1 < b))

def adjustMin (a : Rat) (startL : L) (xs : LI L) : Py (LI L) :=
  let c := clipMin a (cropMin a xs)
  match minL (entries c) with
  | none => .error .valueError
  | some m => if a < m then .ok ((a, m, startL) :: c) else .ok c

def adjustMax (b : Rat) (endL : L) (xs : LI L) : Py (LI L) :=
  let c := clipMax b (cropMax b xs)
  match maxL (entries c) with
  | none => .error .valueError
  | some m => if m < b then .ok (c ++ [(m, b, endL)]) else .ok c

def adjustIntervals (xs : LI L) (tmin tmax : Option Rat) (startL endL : L) : Py (LI L) :=
  match xs with
  | [] =>
    match tmin, tmax with
    | some a, some b => .ok [(a, b, startL)]
    | _, _ => .error .valueError
  | _ :: _ =>
    (match tmin with
     | none => .ok xs
     | some a => adjustMin a startL xs) >>= fun x1 =>
    match tmax with
    | none => .ok x1
    | some b => adjustMax b endL x1

/-! ### `util.adjust_events` -/

def adjustEvents (xs : List (Rat × L)) (tmin tmax : Option Rat) (minLab maxLab : L) : Py (List (Rat × L)) :=
  (match tmin with
   | none => .ok xs
   | some a =>
     let k := match xs.dropWhile (fun x => decide (x.1 < a)) with
       | [] => xs
       | k => k
     match k with
     | [] => .error .indexError
     | h :: _ => if a < h.1 then .ok ((a, minLab) :: k) else .ok k) >>= fun x1 =>
  match tmax with
  | none => .ok x1
  | some b =>
    let k := x1.takeWhile (fun x => decide (x.1 ≤ b))
    match k.getLast? with
    | none => .error .indexError
    | some z => if z.1 < b then .ok (k ++ [(b, maxLab)]) else .ok k

/-! ### `util.merge_labeled_intervals` -/

/-- label of the last row (by index) that has started at `t`: `labels[range[t >= starts][-1]]` -/
def lastStarted : LI L → Rat → Option L
  | [], _ => none
  | x :: r, t =>
    match lastStarted r t with
    | some l => some l
    | none => if x.1 ≤ t then some x.2.2 else none

def mergeRows (x : LI L) (y : LI M) (bs : List Rat) : Py (List (Rat × Rat × L × M)) :=
  (pairs bs).mapM fun pq =>
    match lastStarted x pq.1, lastStarted y pq.1 with
    | some lx, some ly => .ok (pq.1, pq.2, lx, ly)
    | _, _ => .error .indexError

def mergeLabeled (x : LI L) (y : LI M) : Py (List (Rat × Rat × L × M)) :=
  match x.head?, x.getLast?, y.head?, y.getLast? with
  | some x0, some xn, some y0, some yn =>
    if x0.1 = y0.1 ∧ xn.2.1 = yn.2.1 then
      mergeRows x y (usort (entries x ++ entries y))
    else .error .valueError
  | _, _, _, _ => .error .indexError

/-! ### `util.interpolate_intervals`, `util.intervals_to_samples` -/

def isNondecreasing : List Rat → Bool
  | a :: b :: r => decide (a ≤ b) && isNondecreasing (b :: r)
  | _ => true

/-- `aligned[start:stop] = [lab] * (stop - start)` -/
def sliceAssign (acc : List L) (start stop : Nat) (lab : L) : List L :=
  acc.mapIdx fun j v => if start ≤ j ∧ j < stop then lab else v

def interpolateStep (tps : List Rat) (acc : List L) (x : Rat × Rat × L) : List L :=
  sliceAssign acc (tps.countP fun t => decide (t < x.1)) (tps.countP fun t => decide (t ≤ x.2.1)) x.2.2

def interpolate (xs : LI L) (tps : List Rat) (fill : L) : Py (List L) :=
  if isNondecreasing tps then
    .ok (xs.foldl (interpolateStep tps) (tps.map fun _ => fill))
  else .error .valueError

def sampleTimes (n : Nat) (size offset : Rat) : List Rat :=
  (List.range n).map fun (i : Nat) => (i : Rat) * size + offset

def intervalsToSamples (xs : LI L) (offset size : Rat) (fill : L) : Py (List Rat × List L) :=
  match maxL (entries xs) with
  | none => .error .valueError
  | some m =>
    if size = 0 then (if m = 0 then .error .valueError else .error .other)
    else
      let times := sampleTimes (m / size).floor.toNat size offset
      (interpolate xs times fill).map fun ls => (times, ls)

/-! ### boundaries -/

def roundHalfEven (x : Rat) : Int :=
  let f := x.floor
  let d := x - (f : Rat)
  if d < 1/2 then f else if 1/2 < d then f + 1 else if f % 2 = 0 then f else f + 1

/-- `np.round(x, q)` -/
def roundDec (q : Nat) (x : Rat) : Rat := (roundHalfEven (x * (10 : Rat) ^ q) : Rat) / (10 : Rat) ^ q

def intervalsToBoundaries (xs : Ivals) (q : Nat := 5) : List Rat :=
  usort ((entriesP xs).map (roundDec q))

/-- `np.isclose(a, b)` with the default `rtol=1e-5, atol=1e-8` -/
def isclose (a b : Rat) : Bool := decide (qabs (a - b) ≤ 1 / 100000000 + 1 / 100000 * qabs b)

def boundariesToIntervals (bs : List Rat) : Py Ivals :=
  let u := usort bs
  let good : Bool :=
    if u.length = bs.length then (bs.zip u).all fun p => isclose p.1 p.2
    else match u with
      | [v] => bs.all fun b => isclose b v      -- broadcasting against a single unique value
      | _ => false                               -- shapes do not broadcast: ValueError as well
  if good then .ok (pairs bs) else .error .valueError

/-! ### small ones -/

def sortLabeled (xs : LI L) : LI L := xs.mergeSort fun a b => decide (a.1 ≤ b.1)

def validateIntervals (xs : Ivals) : Py Unit :=
  if xs.any (fun x => decide (x.1 < 0) || decide (x.2 < 0)) then .error .valueError
  else if xs.any (fun x => decide (x.2 ≤ x.1)) then .error .valueError
  else .ok ()

def validateEvents (ev : List Rat) (maxTime : Rat) : Py Unit :=
  if ev.any (fun t => decide (maxTime < t)) then .error .valueError
  else if isNondecreasing ev then .ok () else .error .valueError

def intervalsToDurations (xs : Ivals) : Py (List Rat) :=
  (validateIntervals xs).map fun _ => xs.map fun x => qabs (x.2 - x.1)

/-! ### `chord.weighted_accuracy` and the segmentation scores -/

def wacc (cs ws : List Rat) : Py Num :=
  if cs.length ≠ ws.length then .error .valueError
  else if ws.any (fun w => decide (w < 0)) then .error .valueError
  else if qsum ws = 0 then .ok (.val 0)
  else
    let v := (cs.zip ws).filter fun p => decide (0 ≤ p.1)
    if v.length = 0 then .ok (.val 0)
    else
      let total := qsum (v.map fun p => p.2)
      if total = 0 then .ok .nan
      else .ok (.val (qsum (v.map fun p => p.1 * (p.2 / total))))

/-- rows are fused while the (encoded) chord token stays the same; `cs, ce, prev` = the open row -/
def mergeChordAux [DecidableEq T] (prev : T) (cs ce : Rat) : LI T → Ivals
  | [] => [(cs, ce)]
  | x :: r => if x.2.2 = prev then mergeChordAux prev cs x.2.1 r
              else (cs, ce) :: mergeChordAux x.2.2 x.1 x.2.1 r

def mergeChord [DecidableEq T] : LI T → Ivals
  | [] => []
  | x :: r => mergeChordAux x.2.2 x.1 x.2.1 r

def overlaps : Ivals → Bool
  | a :: b :: r => decide (b.1 < a.2) || overlaps (b :: r)
  | _ => false

/-- `np.diff(ts).max()` (`ts` has at least two entries where it is used) -/
def maxDiff (ts : List Rat) : Option Rat := maxL ((pairs ts).map fun p => p.2 - p.1)

def dhdRow (ts : List Rat) (x : Rat × Rat) : Py Rat :=
  match maxDiff ([x.1] ++ ts.filter (fun t => decide (x.1 ≤ t) && decide (t < x.2)) ++ [x.2]) with
  | none => .error .valueError
  | some d => .ok ((x.2 - x.1) - d)

def dhd (ref est : Ivals) : Py Num := do
  validateIntervals est
  validateIntervals ref
  if overlaps ref then throw .valueError
  let ts := usort (entriesP est)
  let rows ← ref.mapM (dhdRow ts)
  match ref.head?, ref.getLast? with
  | some a, some z =>
    if z.2 - a.1 = 0 then pure .nan else pure (.val (qsum rows / (z.2 - a.1)))
  | _, _ => throw .indexError

def Num.oneMinus : Num → Num
  | .val q => .val (1 - q)
  | .nan => .nan

/-- Python `min(a, b)` = `b if b < a else a` (comparisons with nan are false) -/
def Num.pymin : Num → Num → Num
  | .val a, .val b => if b < a then .val b else .val a
  | a, _ => a

def overseg (ref est : Ivals) : Py Num := (dhd ref est).map Num.oneMinus
def underseg (ref est : Ivals) : Py Num := (dhd est ref).map Num.oneMinus
def seg (ref est : Ivals) : Py Num := do
  let u ← underseg ref est
  let o ← overseg ref est
  pure (Num.pymin u o)

/-- chord accuracy of two aligned annotations under a comparison function (−1 = not comparable) -/
def chordScore (cmp : L → M → Rat) (ref : LI L) (est : LI M) : Py Num := do
  let rows ← mergeLabeled ref est
  let durs ← intervalsToDurations (rows.map fun r => (r.1, r.2.1))
  wacc (rows.map fun r => cmp r.2.2.1 r.2.2.2) durs

/-- `chord.evaluate` on token annotations: crop/pad the estimate to the reference span with the no-chord
    token, fuse equal neighbours for the segmentation scores, merge for the accuracy.
    Returns `[accuracy, underseg, overseg, seg]`. -/
def evaluateTokens [DecidableEq T] (cmp : T → T → Rat) (noChord : T) (ref est : LI T) : Py (List Num) := do
  let lo ← match minL (entries ref) with
    | some v => pure v
    | none => throw .valueError
  let hi ← match maxL (entries ref) with
    | some v => pure v
    | none => throw .valueError
  let est' ← adjustIntervals est (some lo) (some hi) noChord noChord
  let mref := mergeChord ref
  let mest := mergeChord est'
  let acc ← chordScore cmp ref est'
  let u ← underseg mref mest
  let o ← overseg mref mest
  pure [acc, u, o, Num.pymin o u]

/-! ### protocol glue -/

def zip3 (iv : Ivals) (ls : List L) : Option (LI L) :=
  if iv.length = ls.length then some ((iv.zip ls).map fun p => (p.1.1, p.1.2, p.2)) else none

def valOfNum : Num → Val
  | .val q => .rat q
  | .nan => .nan

def optStrVal : Option String → Val
  | some s => .str s
  | none => .none

def asOptStr? : Val → Option (Option String)
  | .none => some none
  | .str s => some (some s)
  | _ => none

def handler : Handler := fun fn args =>
  match fn, args with
  | "util.adjust_intervals", [iv, labs, tmin, tmax, sl, el] => do
      let iv ← iv.asRatPairs?
      let tmin ← tmin.asOptRat?; let tmax ← tmax.asOptRat?
      let sl ← sl.asStr?; let el ← el.asStr?
      let (ls, hasLabels) ← (match labs with
        | .none => some (iv.map fun _ => "", false)
        | v => v.asStrs?.map fun l => (l, true))
      let xs ← zip3 iv ls
      some ((adjustIntervals xs tmin tmax sl el).map fun out =>
        .list [Val.ofRatPairs (ivals out),
               if hasLabels || iv.isEmpty then Val.ofStrs (labels out) else .none])
  | "util.adjust_events", [ev, labs, tmin, tmax, pre] => do
      let ev ← ev.asRats?
      let tmin ← tmin.asOptRat?; let tmax ← tmax.asOptRat?
      let pre ← pre.asStr?
      let (ls, hasLabels) ← (match labs with
        | .none => some (ev.map fun _ => "", false)
        | v => v.asStrs?.map fun l => (l, true))
      if ev.length ≠ ls.length then none else
      some ((adjustEvents (ev.zip ls) tmin tmax (pre ++ "T_MIN") (pre ++ "T_MAX")).map fun out =>
        .list [Val.ofRats (out.map (·.1)), if hasLabels then Val.ofStrs (out.map (·.2)) else .none])
  | "util.merge_labeled_intervals", [xi, xl, yi, yl] => do
      let x ← zip3 (← xi.asRatPairs?) (← xl.asStrs?)
      let y ← zip3 (← yi.asRatPairs?) (← yl.asStrs?)
      some ((mergeLabeled x y).map fun out =>
        .list [Val.ofRatPairs (out.map fun r => (r.1, r.2.1)),
               Val.ofStrs (out.map fun r => r.2.2.1), Val.ofStrs (out.map fun r => r.2.2.2)])
  | "util.interpolate_intervals", [iv, labs, tps, fill] => do
      let xs ← zip3 (← iv.asRatPairs?) ((← labs.asStrs?).map some)
      let tps ← tps.asRats?
      let fill ← asOptStr? fill
      some ((interpolate xs tps fill).map fun out => .list (out.map optStrVal))
  | "util.intervals_to_samples", [iv, labs, offset, size, fill] => do
      let xs ← zip3 (← iv.asRatPairs?) ((← labs.asStrs?).map some)
      let offset ← offset.asRat?; let size ← size.asRat?
      let fill ← asOptStr? fill
      some ((intervalsToSamples xs offset size fill).map fun out =>
        .list [Val.ofRats out.1, .list (out.2.map optStrVal)])
  | "util.intervals_to_boundaries", [iv] => do
      some (.ok (Val.ofRats (intervalsToBoundaries (← iv.asRatPairs?))))
  | "util.intervals_to_boundaries", [iv, q] => do
      some (.ok (Val.ofRats (intervalsToBoundaries (← iv.asRatPairs?) (← q.asNat?))))
  | "util.boundaries_to_intervals", [bs] => do
      some ((boundariesToIntervals (← bs.asRats?)).map Val.ofRatPairs)
  | "util.sort_labeled_intervals", [iv, labs] => do
      let iv ← iv.asRatPairs?
      match labs with
      | .none =>
        let xs ← zip3 iv (iv.map fun _ => "")
        some (.ok (Val.ofRatPairs (ivals (sortLabeled xs))))
      | v =>
        let xs ← zip3 iv (← v.asStrs?)
        let out := sortLabeled xs
        some (.ok (.list [Val.ofRatPairs (ivals out), Val.ofStrs (labels out)]))
  | "util.intervals_to_durations", [iv] => do
      some ((intervalsToDurations (← iv.asRatPairs?)).map Val.ofRats)
  | "util.validate_intervals", [iv] => do
      some ((validateIntervals (← iv.asRatPairs?)).map fun _ => .none)
  | "util.validate_events", [ev, mt] => do
      some ((validateEvents (← ev.asRats?) (← mt.asRat?)).map fun _ => .none)
  | "chord.weighted_accuracy", [cs, ws] => do
      some ((wacc (← cs.asRats?) (← ws.asRats?)).map valOfNum)
  | "chord.merge_chord_intervals", [iv, toks] => do
      let xs ← zip3 (← iv.asRatPairs?) (← toks.asInts?)
      some (.ok (Val.ofRatPairs (mergeChord xs)))
  | "chord.directional_hamming_distance", [r, e] => do
      some ((dhd (← r.asRatPairs?) (← e.asRatPairs?)).map valOfNum)
  | "chord.overseg", [r, e] => do
      some ((overseg (← r.asRatPairs?) (← e.asRatPairs?)).map valOfNum)
  | "chord.underseg", [r, e] => do
      some ((underseg (← r.asRatPairs?) (← e.asRatPairs?)).map valOfNum)
  | "chord.seg", [r, e] => do
      some ((seg (← r.asRatPairs?) (← e.asRatPairs?)).map valOfNum)
  | "chord.score_eq", [ri, rl, ei, el] => do
      -- chord accuracy of two aligned token annotations under token equality (1/0; token < -1 in the
      -- reference = not comparable): the abstract-comparison instance used by the C12 correspondence
      let r ← zip3 (← ri.asRatPairs?) (← rl.asInts?)
      let e ← zip3 (← ei.asRatPairs?) (← el.asInts?)
      some ((chordScore (fun a b => if a < -1 then -1 else if a = b then 1 else 0) r e).map valOfNum)
  | "chord.evaluate_tokens", [ri, rl, ei, el] => do
      -- `chord.evaluate` restricted to labels whose encoding is determined by the root pitch class
      -- (token = pitch class, −1 = no chord `N`, −2 = `X` in the reference: not comparable): returns [root accuracy, underseg, overseg, seg]
      let r ← zip3 (← ri.asRatPairs?) (← rl.asInts?)
      let e ← zip3 (← ei.asRatPairs?) (← el.asInts?)
      some ((evaluateTokens (fun a b => if a < -1 then -1 else if a = b then 1 else 0) (-1) r e).map
        fun out => .list (out.map valOfNum))
  | _, _ => none

end Iv

namespace Intervals
def handler : Handler := Iv.handler
end Intervals
end Mir
