import MirModel.Basic
/-
  MirModel.Key — `mir_eval.key`: `validate_key`, `split_key_string`, `weighted_score`.

  Two levels.
  * String level (`validateKey`, `splitKeyString`, `weightedScoreStr` over `List Char`) mirrors the Python
    text operations: `str.split()` (whitespace runs, no empty fields), `str.lower()`, the dictionary
    `KEY_TO_SEMITONE`, the 2-target unpacking, and the order of the `ValueError`s.
    Model domain D_f: ASCII strings (Python's `split`/`lower` are Unicode-aware; the driver answers
    `bad-op` for non-ASCII input).
  * Finite level (`KeyName` 17 spellings × `Mode` 3 + `X`), on which the theorems are decided.
  Both levels share ONE scoring function `scoreCore`, polymorphic in the representation of modes.
-/
namespace Mir.Key

/-! ### string primitives -/

/-- `str.isspace` on ASCII: TAB LF VT FF CR, FS GS RS US, SPACE -/
def isPySpace (c : Char) : Bool :=
  let n := c.toNat
  (9 ≤ n && n ≤ 13) || (28 ≤ n && n ≤ 32)

/-- `str.split()` with no argument -/
def pySplitWs : List Char → List Char → List (List Char)
  | cur, [] => if cur.isEmpty then [] else [cur.reverse]
  | cur, c :: cs =>
      if isPySpace c then
        (if cur.isEmpty then pySplitWs [] cs else cur.reverse :: pySplitWs [] cs)
      else pySplitWs (c :: cur) cs

def split (s : List Char) : List (List Char) := pySplitWs [] s

/-- `str.lower()` on ASCII -/
def lowerChar (c : Char) : Char :=
  if 65 ≤ c.toNat ∧ c.toNat ≤ 90 then Char.ofNat (c.toNat + 32) else c

def lower (s : List Char) : List Char := s.map lowerChar

def sMajor : List Char := ['m', 'a', 'j', 'o', 'r']
def sMinor : List Char := ['m', 'i', 'n', 'o', 'r']
def sOther : List Char := ['o', 't', 'h', 'e', 'r']

/-- `KEY_TO_SEMITONE` (value `none` = Python `None` for "x") -/
def KEY_TO_SEMITONE : List (List Char × Option Int) :=
  [(['c'], some 0), (['c', '#'], some 1), (['d', 'b'], some 1), (['d'], some 2), (['d', '#'], some 3),
   (['e', 'b'], some 3), (['e'], some 4), (['f'], some 5), (['f', '#'], some 6), (['g', 'b'], some 6),
   (['g'], some 7), (['g', '#'], some 8), (['a', 'b'], some 8), (['a'], some 9), (['a', '#'], some 10),
   (['b', 'b'], some 10), (['b'], some 11), (['x'], none)]

/-- dictionary lookup: outer `none` = key absent -/
def keyLookup (k : List Char) : Option (Option Int) := (KEY_TO_SEMITONE.find? (fun p => p.1 == k)).map (·.2)

/-! ### the scoring core (shared by both levels) -/

/-- The body of `weighted_score` after `split_key_string`: `rk`, `ek` are the semitones (`none` = X),
    `rm`, `em` the modes (`none` for X); `major`/`minor` are the two mode constants it compares with. -/
def scoreCore {M : Type} [DecidableEq M] (major minor : M)
    (rk : Option Int) (rm : Option M) (ek : Option Int) (em : Option M) : Rat :=
  if rk = ek ∧ rm = em then 1
  else match rk, ek with
    | some r, some e =>
        if em = rm ∧ (e - r) % 12 = 7 then 1 / 2
        else if em ≠ rm ∧ rm = some major ∧ (e - r) % 12 = 9 then 3 / 10
        else if em ≠ rm ∧ rm = some minor ∧ (e - r) % 12 = 3 then 3 / 10
        else if em ≠ rm ∧ r = e then 1 / 5
        else 0
    | _, _ => 0

/-! ### string level -/

def validateKey (key : List Char) : Py Unit :=
  let toks := split key
  if toks.length ≠ 2 ∧ ¬ (toks.length ≠ 0 ∧ lower key = ['x']) then .error .valueError
  else if lower key ≠ ['x'] then
    match toks with
    | [k, mode] =>
        if lower k = ['x'] then .error .valueError
        else if (keyLookup (lower k)).isNone then .error .valueError
        else if ¬ (mode = sMajor ∨ mode = sMinor ∨ mode = sOther) then .error .valueError
        else .ok ()
    | _ => .error .valueError      -- `key, mode = key.split()` with another count (not reachable here)
  else .ok ()

def splitKeyString (key : List Char) : Py (Option Int × Option (List Char)) :=
  if lower key ≠ ['x'] then
    match split key with
    | [k, mode] =>
        match keyLookup (lower k) with
        | some v => .ok (v, some mode)
        | none => .error .keyError
    | _ => .error .valueError
  else
    match keyLookup (lower key) with
    | some v => .ok (v, none)
    | none => .error .keyError

def weightedScoreStr (refKey estKey : List Char) : Py Rat := do
  validateKey refKey
  validateKey estKey
  let (rk, rm) ← splitKeyString refKey
  let (ek, em) ← splitKeyString estKey
  pure (scoreCore sMajor sMinor rk rm ek em)

/-! ### finite level -/

inductive Mode where
  | major | minor | other
  deriving DecidableEq, Repr

inductive KeyName where
  | C | Cs | Db | D | Ds | Eb | E | F | Fs | Gb | G | Gs | Ab | A | As | Bb | B
  deriving DecidableEq, Repr

inductive Key where
  | x
  | mk (n : KeyName) (m : Mode)
  deriving DecidableEq, Repr

def Mode.all : List Mode := [.major, .minor, .other]
def KeyName.all : List KeyName :=
  [.C, .Cs, .Db, .D, .Ds, .Eb, .E, .F, .Fs, .Gb, .G, .Gs, .Ab, .A, .As, .Bb, .B]
def Key.all : List Key := .x :: KeyName.all.flatMap (fun n => Mode.all.map (fun m => Key.mk n m))

def Mode.str : Mode → List Char
  | .major => sMajor | .minor => sMinor | .other => sOther

/-- canonical (upper-case letter) spelling -/
def KeyName.str : KeyName → List Char
  | .C => ['C'] | .Cs => ['C', '#'] | .Db => ['D', 'b'] | .D => ['D'] | .Ds => ['D', '#']
  | .Eb => ['E', 'b'] | .E => ['E'] | .F => ['F'] | .Fs => ['F', '#'] | .Gb => ['G', 'b'] | .G => ['G']
  | .Gs => ['G', '#'] | .Ab => ['A', 'b'] | .A => ['A'] | .As => ['A', '#'] | .Bb => ['B', 'b'] | .B => ['B']

def KeyName.semitone : KeyName → Int
  | .C => 0 | .Cs => 1 | .Db => 1 | .D => 2 | .Ds => 3 | .Eb => 3 | .E => 4 | .F => 5 | .Fs => 6
  | .Gb => 6 | .G => 7 | .Gs => 8 | .Ab => 8 | .A => 9 | .As => 10 | .Bb => 10 | .B => 11

def upperChar (c : Char) : Char :=
  if 97 ≤ c.toNat ∧ c.toNat ≤ 122 then Char.ofNat (c.toNat - 32) else c

/-- case variants of a spelling: bit 0 lowers the letter, bit 1 upper-cases the accidental (`b` → `B`) -/
def applyCasing (v : Nat) (s : List Char) : List Char :=
  match s with
  | [] => []
  | c :: rest =>
      (if v % 2 = 1 then lowerChar c else c) :: (if v / 2 % 2 = 1 then rest.map upperChar else rest)

/-- a key string as the user writes it (`v < 4` selects the case variant of the tonic / of `X`) -/
def Key.render (v : Nat) : Key → List Char
  | .x => applyCasing v ['X']
  | .mk n m => applyCasing v n.str ++ [' '] ++ m.str

def Key.sem : Key → Option Int
  | .x => none
  | .mk n _ => some n.semitone

def Key.mode : Key → Option Mode
  | .x => none
  | .mk _ m => some m

/-- `weighted_score` on the finite key type -/
def weightedScore (r e : Key) : Rat := scoreCore Mode.major Mode.minor r.sem r.mode e.sem e.mode

/-! ### documented relationship table (Layer S) -/

inductive Relation where
  | same | fifth | relative | parallel | unrelated
  deriving DecidableEq, Repr

def Relation.score : Relation → Rat
  | .same => 1 | .fifth => 1 / 2 | .relative => 3 / 10 | .parallel => 1 / 5 | .unrelated => 0

/-- The docstring table of `weighted_score`, read the MIREX way (the fifth relation is between keys of the
    same mode; relative/parallel relate a major and a minor key).  Mode `other` is related to nothing
    except itself. -/
def Spec.relation : Key → Key → Relation
  | .x, .x => .same
  | .x, _ => .unrelated
  | _, .x => .unrelated
  | .mk rn rm, .mk en em =>
      let d := (en.semitone - rn.semitone) % 12
      if d = 0 ∧ rm = em then .same
      else if d = 7 ∧ rm = em then .fifth
      else if rm = .major ∧ em = .minor ∧ d = 9 then .relative
      else if rm = .minor ∧ em = .major ∧ d = 3 then .relative
      else if d = 0 ∧ ((rm = .major ∧ em = .minor) ∨ (rm = .minor ∧ em = .major)) then .parallel
      else .unrelated

/-- transposition of a key *class* is only defined up to spelling: `k'` is `k` moved by `t` semitones -/
def IsTransposeOf (t : Int) (k k' : Key) : Prop :=
  match k, k' with
  | .x, .x => True
  | .mk n m, .mk n' m' => m = m' ∧ n'.semitone = (n.semitone + t) % 12
  | _, _ => False

instance (t : Int) (k k' : Key) : Decidable (IsTransposeOf t k k') := by
  unfold IsTransposeOf; split <;> infer_instance

/-- enharmonic respelling: same pitch class, same mode -/
def IsRespellingOf (k k' : Key) : Prop := k.sem = k'.sem ∧ k.mode = k'.mode

instance (k k' : Key) : Decidable (IsRespellingOf k k') := by unfold IsRespellingOf; infer_instance

/-! ### driver glue -/

def handler : Handler := fun fn args =>
  match fn, args with
  | "key.weighted_score", [r, e] => do
      let r ← r.asStr?
      let e ← e.asStr?
      if (r.toList ++ e.toList).all (fun c => c.toNat < 128) then
        some ((weightedScoreStr r.toList e.toList).map Val.rat)
      else none
  | "key.validate_key", [k] => do
      let k ← k.asStr?
      if k.toList.all (fun c => c.toNat < 128) then
        some ((validateKey k.toList).map (fun _ => Val.none))
      else none
  | _, _ => none

end Mir.Key
