import MirModel.Basic
/-
  MirModel.Matching — bipartite matchings (DESIGN.md §4.1).

  Layer S: `ValidMatching`, `IsMaxSize`.
  Layer M: a *certifying* maximum-matching size: Kuhn's augmenting-path search produces a matching `M`,
  alternating reachability produces a König vertex cover `C`; if the proved checker accepts
  (`M` valid, `C` covers every edge, `|C| ≤ |M|`) the size is `|M|`, otherwise an obviously correct
  exponential recursion `bruteMax` is used.  The theorem `maxMatchSize_isMax` (MirProofs) holds for every
  edge list and never looks inside `kuhn`.

  Also: the feasible-pair enumeration `util._fast_hit_windows` and the `np.where(distance <= window)` form.
-/
namespace Mir

abbrev Edge := Nat × Nat          -- (left index, right index)

/-- A one-to-one pairing using only edges of `E`. -/
def ValidMatching (E : List Edge) (M : List Edge) : Prop :=
  (∀ e ∈ M, e ∈ E) ∧ (M.map Prod.fst).Nodup ∧ (M.map Prod.snd).Nodup

/-- `k` is the size of some valid matching and no valid matching is larger. -/
def IsMaxSize (E : List Edge) (k : Nat) : Prop :=
  (∃ M, ValidMatching E M ∧ M.length = k) ∧ ∀ M, ValidMatching E M → M.length ≤ k

def nodupB : List Nat → Bool
  | [] => true
  | x :: xs => !xs.contains x && nodupB xs

/-- executable `ValidMatching` -/
def validB (E M : List Edge) : Bool :=
  M.all (fun e => E.contains e) && nodupB (M.map Prod.fst) && nodupB (M.map Prod.snd)

/-- Obviously-correct maximum matching size: either drop the first edge, or take it and delete
    everything that shares an endpoint with it. Exponential; used only as the fallback. -/
def bruteMaxAux : Nat → List Edge → Nat
  | 0, _ => 0
  | _ + 1, [] => 0
  | n + 1, (l, r) :: es =>
      max (bruteMaxAux n es) (1 + bruteMaxAux n (es.filter fun e => e.1 ≠ l ∧ e.2 ≠ r))

def bruteMax (E : List Edge) : Nat := bruteMaxAux E.length E

/-! ### Kuhn's algorithm (untrusted: only its output is checked) -/

def nbrs (E : List Edge) (l : Nat) : List Nat := (E.filter fun e => e.1 = l).map Prod.snd

def setMatch (M : List Edge) (l r : Nat) : List Edge := (l, r) :: M.filter fun e => e.2 ≠ r

mutual
  /-- search an augmenting path from left vertex `l`; returns (found, matching, visited right vertices) -/
  def augFrom (E : List Edge) (fuel : Nat) (l : Nat) (M : List Edge) (vis : List Nat) :
      Bool × List Edge × List Nat :=
    match fuel with
    | 0 => (false, M, vis)
    | fuel + 1 => augList E fuel l (nbrs E l) M vis
  termination_by (fuel, 0)
  def augList (E : List Edge) (fuel : Nat) (l : Nat) (rs : List Nat) (M : List Edge) (vis : List Nat) :
      Bool × List Edge × List Nat :=
    match rs with
    | [] => (false, M, vis)
    | r :: rs =>
        if vis.contains r then augList E fuel l rs M vis
        else
          match M.find? (fun e => e.2 = r) with
          | none => (true, setMatch M l r, r :: vis)
          | some (l', _) =>
              match augFrom E fuel l' M (r :: vis) with
              | (true, M', vis') => (true, setMatch M' l r, vis')
              | (false, _, vis') => augList E fuel l rs M vis'
  termination_by (fuel, rs.length + 1)
end

def dedup : List Nat → List Nat
  | [] => []
  | x :: xs => if xs.contains x then dedup xs else x :: dedup xs

def leftVerts (E : List Edge) : List Nat := dedup (E.map Prod.fst)
def rightVerts (E : List Edge) : List Nat := dedup (E.map Prod.snd)

def kuhn (E : List Edge) : List Edge :=
  (leftVerts E).foldl (fun M l => (augFrom E (E.length + 1) l M []).2.1) []

/-- alternating reachability from the unmatched left vertices, iterated `fuel` times -/
def reachIter (E M : List Edge) (zl0 : List Nat) : Nat → List Nat × List Nat
  | 0 => (zl0, [])
  | fuel + 1 =>
      let (zl, _) := reachIter E M zl0 fuel
      let zr := dedup ((E.filter fun e => zl.contains e.1).map Prod.snd)
      let zl' := dedup (zl0 ++ (M.filter fun e => zr.contains e.2).map Prod.fst)
      (zl', zr)

/-- König cover (left part, right part) derived from a matching -/
def coverOf (E M : List Edge) : List Nat × List Nat :=
  let zl0 := (leftVerts E).filter fun l => !(M.map Prod.fst).contains l
  let (zl, zr) := reachIter E M zl0 (E.length + 2)
  let zr' := dedup ((E.filter fun e => zl.contains e.1).map Prod.snd ++ zr)
  ((leftVerts E).filter fun l => !zl.contains l, zr')

/-- the proved checker: `M` is a valid matching, `(cl, cr)` touches every edge, and `|cl|+|cr| ≤ |M|` -/
def checkCert (E M : List Edge) (cl cr : List Nat) : Bool :=
  validB E M && E.all (fun e => cl.contains e.1 || cr.contains e.2) && decide (cl.length + cr.length ≤ M.length)

/-- certifying maximum matching size -/
def maxMatchSize (E : List Edge) : Nat :=
  let M := kuhn E
  let C := coverOf E M
  if checkCert E M C.1 C.2 then M.length else bruteMax E

/-- did the certificate check succeed (reported in the evidence; expected: always) -/
def certified (E : List Edge) : Bool :=
  let M := kuhn E
  let C := coverOf E M
  checkCert E M C.1 C.2

/-! ### Feasible-pair enumeration -/

/-- insertion into a list sorted by value (stable: after equal values) -/
def insertByVal (x : Rat × Nat) : List (Rat × Nat) → List (Rat × Nat)
  | [] => [x]
  | y :: ys => if x.1 < y.1 then x :: y :: ys else y :: insertByVal x ys

def sortByVal : List (Rat × Nat) → List (Rat × Nat)
  | [] => []
  | x :: xs => insertByVal x (sortByVal xs)

def enumFrom' {α} (n : Nat) : List α → List (α × Nat)
  | [] => []
  | x :: xs => (x, n) :: enumFrom' (n + 1) xs

/-- `np.searchsorted(sorted, v, side='left')`: number of entries `< v` -/
def searchLeft (s : List (Rat × Nat)) (v : Rat) : Nat := (s.filter fun x => x.1 < v).length
/-- `np.searchsorted(sorted, v, side='right')`: number of entries `≤ v` -/
def searchRight (s : List (Rat × Nat)) (v : Rat) : Nat := (s.filter fun x => x.1 ≤ v).length

/-- `util._fast_hit_windows(ref, est, window)` as pairs `(ref index, est index)` in the code's order -/
def fastHitWindows (ref est : List Rat) (w : Rat) : List Edge :=
  let s := sortByVal (enumFrom' 0 ref)
  (enumFrom' 0 est).flatMap fun (e, j) =>
    let lo := searchLeft s (e - w)
    let hi := searchRight s (e + w)
    ((s.drop lo).take (hi - lo)).map fun x => (x.2, j)

/-- the specification: all pairs with `|ref_i - est_j| ≤ w` -/
def hitPairs (ref est : List Rat) (w : Rat) : List Edge :=
  (enumFrom' 0 ref).flatMap fun (r, i) =>
    (enumFrom' 0 est).filterMap fun (e, j) => if e - w ≤ r ∧ r ≤ e + w then some (i, j) else none

/-- number of hits of a windowed event matching (`len(util.match_events(ref, est, window))`) -/
def matchEventsSize (ref est : List Rat) (w : Rat) : Nat := maxMatchSize (fastHitWindows ref est w)

/-- `util._outer_distance_mod_n` on one pair (Python `np.mod` is a floor-mod, result in [0, n)) -/
def fmod (a n : Rat) : Rat := a - n * ((a / n).floor : Rat)
def circDist (a b : Rat) (n : Rat := 12) : Rat :=
  let d := (fmod a n - fmod b n)
  let ad := if d < 0 then -d else d
  if ad ≤ n - ad then ad else n - ad

namespace Matching

def sortEdges (es : List Edge) : List Edge :=
  (es.toArray.qsort fun a b => a.1 < b.1 || (a.1 == b.1 && a.2 < b.2)).toList

def handler : Handler := fun fn args =>
  match fn, args with
  | "matching.max_size", [es] => do
      let es ← es.asNatPairs?
      some (.ok (.list [Val.ofNat (maxMatchSize es), .bool (certified es)]))
  | "matching.brute_max", [es] => do
      let es ← es.asNatPairs?
      some (.ok (Val.ofNat (bruteMax es)))
  | "matching.check", [es, m] => do
      -- the proved checker applied to a matching returned by the real code:
      -- [valid, size, maximum size, certificate accepted]
      let es ← es.asNatPairs?
      let m ← m.asNatPairs?
      some (.ok (.list [.bool (validB es m), Val.ofNat m.length, Val.ofNat (maxMatchSize es), .bool (certified es)]))
  | "matching.check_events", [r, e, w, m] => do
      -- pairs returned by util.match_events checked against the *specification* graph |ref_i-est_j| ≤ w
      let r ← r.asRats?; let e ← e.asRats?; let w ← w.asRat?; let m ← m.asNatPairs?
      let es := hitPairs r e w
      some (.ok (.list [.bool (validB es m), Val.ofNat m.length, Val.ofNat (maxMatchSize es), .bool (certified es)]))
  | "util._fast_hit_windows", [r, e, w] => do
      let r ← r.asRats?; let e ← e.asRats?; let w ← w.asRat?
      some (.ok (Val.ofNatPairs (sortEdges (fastHitWindows r e w))))
  | "matching.hit_pairs", [r, e, w] => do
      let r ← r.asRats?; let e ← e.asRats?; let w ← w.asRat?
      some (.ok (Val.ofNatPairs (sortEdges (hitPairs r e w))))
  | "util.match_events.size", [r, e, w] => do
      let r ← r.asRats?; let e ← e.asRats?; let w ← w.asRat?
      some (.ok (Val.ofNat (matchEventsSize r e w)))
  | "util._outer_distance_mod_n", [a, b, n] => do
      let a ← a.asRat?; let b ← b.asRat?; let n ← n.asRat?
      if n = 0 then none else some (.ok (.rat (circDist a b n)))
  | _, _ => none

end Matching
end Mir
