import MirModel.Basic
/-
  MirModel.Melody — `mir_eval.melody` as it is.

  Pitch lives in the log domain (DESIGN §3.3): a frequency is `sgn · base · 2^(cent/1200)` Hz, `sgn = 0`
  being 0 Hz.  `hz2cents` then is "forget the sign" and the five frame measures, which take cent and
  voicing arrays, are exact `Rat` arithmetic.  `log2` itself only occurs in the harness conversion.
-/
namespace Mir
namespace Melody

/-- `np.sum` of a 1-D float array -/
def rsum : List Rat → Rat
  | [] => 0
  | x :: xs => x + rsum xs

/-- a boolean array element `.astype(float)` -/
def ind (b : Bool) : Rat := if b then 1 else 0

/-! ## validation -/

def inUnit (v : List Rat) : Bool := v.all fun x => decide (0 ≤ x ∧ x ≤ 1)

/-- `validate_voicing` raises nothing iff … (warnings are not modelled) -/
def validVoicingB (rv ev : List Rat) : Bool :=
  decide (rv.length = ev.length) && inUnit rv && inUnit ev

def validateVoicing (rv ev : List Rat) : Py Unit :=
  if validVoicingB rv ev then .ok () else .error .valueError

def validLenB (rv rc ev ec : List Rat) : Bool :=
  decide (rv.length = rc.length) && decide (ev.length = ec.length) && decide (rc.length = ec.length)

def validate (rv rc ev ec : List Rat) : Py Unit :=
  if validLenB rv rc ev ec then .ok () else .error .valueError

/-! ## voicing measures -/

/-- NumPy elementwise product of two 1-D arrays (a length-1 operand is broadcast) -/
def bmul (a b : List Rat) : Py (List Rat) :=
  if a.length = b.length then .ok (List.zipWith (· * ·) a b)
  else match a, b with
    | [x], _ => .ok (b.map (x * ·))
    | _, [y] => .ok (a.map (· * y))
    | _, _ => .error .valueError

/-- shared shape of `voicing_recall` (`sel x = x > 0`, empty selection ↦ 1) and
    `voicing_false_alarm` (`sel x = x == 0`, empty selection ↦ 0) -/
def voicingRate (sel : Rat → Bool) (dflt : Rat) (rv ev : List Rat) : Py Rat :=
  if rv.isEmpty || ev.isEmpty then .ok 0
  else
    let ri := rv.map fun x => ind (sel x)
    if rsum ri = 0 then .ok dflt
    else match bmul ev ri with
      | .ok p => .ok (rsum p / rsum ri)
      | .error e => .error e

def isVoiced (x : Rat) : Bool := decide (0 < x)
def isUnvoiced (x : Rat) : Bool := decide (x = 0)

def voicingRecall (rv ev : List Rat) : Py Rat := voicingRate isVoiced 1 rv ev
def voicingFalseAlarm (rv ev : List Rat) : Py Rat := voicingRate isUnvoiced 0 rv ev

def voicingMeasures (rv ev : List Rat) : Py (Rat × Rat) :=
  if validVoicingB rv ev then
    match voicingRecall rv ev, voicingFalseAlarm rv ev with
    | .ok a, .ok b => .ok (a, b)
    | .error e, _ => .error e
    | _, .error e => .error e
  else .error .valueError

/-! ## pitch measures -/

/-- `abs(d - 1200*floor(d/1200 + 0.5))` -/
def chromaDist (d : Rat) : Rat := (d - 1200 * (((d / 1200 + 1 / 2).floor : Int) : Rat)).abs

/-- `sum(nonzero_freqs)` -/
def nonzeroCount : List Rat → List Rat → Nat
  | r :: rc, e :: ec => (if e ≠ 0 ∧ r ≠ 0 then 1 else 0) + nonzeroCount rc ec
  | _, _ => 0

/-- `np.sum(ref_voicing[nonzero_freqs] * correct)` where `correct = ok |ref_cent - est_cent|` -/
def pitchSum (ok : Rat → Bool) : List Rat → List Rat → List Rat → Rat
  | v :: rv, r :: rc, e :: ec =>
      (if e ≠ 0 ∧ r ≠ 0 ∧ ok (r - e).abs = true then v else 0) + pitchSum ok rv rc ec
  | _, _, _ => 0

/-- the part of `raw_pitch_accuracy` / `raw_chroma_accuracy` after validation -/
def pitchAccCore (ok : Rat → Bool) (rv rc ec : List Rat) : Rat :=
  if rv.isEmpty || decide (rsum rv = 0) || rc.isEmpty || ec.isEmpty then 0
  else if nonzeroCount rc ec = 0 then 0
  else pitchSum ok rv rc ec / rsum rv

def pitchAcc (ok : Rat → Bool) (rv rc ev ec : List Rat) : Py Rat :=
  if validVoicingB rv ev && validLenB rv rc ev ec then .ok (pitchAccCore ok rv rc ec)
  else .error .valueError

def withinTol (tol : Rat) (d : Rat) : Bool := decide (d < tol)
def chromaWithinTol (tol : Rat) (d : Rat) : Bool := decide (chromaDist d < tol)

def rawPitchAccuracy (rv rc ev ec : List Rat) (tol : Rat := 50) : Py Rat :=
  pitchAcc (withinTol tol) rv rc ev ec
def rawChromaAccuracy (rv rc ev ec : List Rat) (tol : Rat := 50) : Py Rat :=
  pitchAcc (chromaWithinTol tol) rv rc ev ec

/-- `np.sum(ref_voicing[nz] * est_voicing[nz] * correct_frequencies)` -/
def oaSum (tol : Rat) : List Rat → List Rat → List Rat → List Rat → Rat
  | v :: rv, r :: rc, w :: ev, e :: ec =>
      (if e ≠ 0 ∧ r ≠ 0 ∧ (r - e).abs < tol then v * w else 0) + oaSum tol rv rc ev ec
  | _, _, _, _ => 0

/-- `np.sum((1 - ref_binary) * (1 - est_voicing))` -/
def unvSum : List Rat → List Rat → Rat
  | v :: rv, w :: ev => (1 - ind (isVoiced v)) * (1 - w) + unvSum rv ev
  | _, _ => 0

def voicedCount (rv : List Rat) : Rat := rsum (rv.map fun x => ind (isVoiced x))

def oaCore (tol : Rat) (rv rc ev ec : List Rat) : Rat :=
  if rv.isEmpty || ev.isEmpty || rc.isEmpty || ec.isEmpty then 0
  else
    let ratio := if rsum rv = 0 then 0 else voicedCount rv / rsum rv
    (ratio * oaSum tol rv rc ev ec + unvSum rv ev) / (rv.length : Rat)

def overallAccuracy (rv rc ev ec : List Rat) (tol : Rat := 50) : Py Rat :=
  if validVoicingB rv ev && validLenB rv rc ev ec then .ok (oaCore tol rv rc ev ec)
  else .error .valueError

/-! ## frequencies, voicing, cents -/

/-- a frequency in the log domain: `sgn · base · 2^(cent/1200)` Hz (`sgn = 0`: 0 Hz, `cent` ignored) -/
structure Freq where
  sgn : Int
  cent : Rat
  deriving Repr, DecidableEq, Inhabited

def Freq.abs (f : Freq) : Freq := ⟨if f.sgn = 0 then 0 else 1, f.cent⟩
def Freq.neg (f : Freq) : Freq := ⟨-f.sgn, f.cent⟩

/-- `freq_to_voicing`: `(np.abs(frequencies), voicing)`; a given voicing array is zeroed where the
    frequency is 0 (boolean-mask assignment: `IndexError` on a length mismatch, except that NumPy accepts an
    empty mask for an array of any length) -/
def freqToVoicing (fs : List Freq) (voicing : Option (List Rat)) : Py (List Freq × List Rat) :=
  match voicing with
  | none => .ok (fs.map Freq.abs, fs.map fun f => ind (decide (0 < f.sgn)))
  | some v =>
      if fs.isEmpty then .ok ([], v)      -- an empty boolean mask is accepted for any array
      else if v.length = fs.length then
        .ok (fs.map Freq.abs, List.zipWith (fun f x => if f.sgn = 0 then 0 else x) fs v)
      else .error .indexError

/-- `hz2cents`: 0 Hz ↦ 0, otherwise `1200·log2(|f|/base)` -/
def hz2cents (fs : List Freq) : List Rat := fs.map fun f => if f.sgn = 0 then 0 else f.cent

/-! ## time bases and resampling -/

def roundHalfEven (x : Rat) : Int :=
  let f := x.floor
  let r := x - (f : Rat)
  if r < 1 / 2 then f else if 1 / 2 < r then f + 1 else if f % 2 = 0 then f else f + 1

/-- `np.round(x, 10)` -/
def round10 (x : Rat) : Rat := (roundHalfEven (x * 10000000000) : Rat) / 10000000000

/-- `constant_hop_timebase(hop, end_time)`; `hop = 0` gives `int(inf)` (OverflowError) or `int(nan)`
    (ValueError); a negative sample count makes `np.linspace` raise ValueError -/
def constantHopTimebase (hop endTime : Rat) : Py (List Rat) :=
  let e := round10 endTime
  if hop = 0 then (if e = 0 then .error .valueError else .error .other)
  else
    let n : Int := (e / hop).floor
    if n + 1 < 0 then .error .valueError
    else .ok ((List.range (n + 1).toNat).map fun (i : Nat) => round10 (hop * (i : Rat)))

/-- `np.allclose(a, b)` for equal shapes: `|a - b| ≤ 1e-8 + 1e-5·|b|` elementwise -/
def allclose (a b : List Rat) : Bool :=
  (List.zip a b).all fun p => decide ((p.1 - p.2).abs ≤ 1 / 100000000 + 1 / 100000 * p.2.abs)

def rmax (a b : Rat) : Rat := if a < b then b else a
def maxOf : List Rat → Option Rat
  | [] => none
  | x :: xs => some (xs.foldl rmax x)

/-- stable insertion (after all keys ≤ the new key) — `np.argsort(kind="mergesort")` -/
def insertLE (p : Rat × Rat) : List (Rat × Rat) → List (Rat × Rat)
  | [] => [p]
  | q :: qs => if p.1 < q.1 then p :: q :: qs else q :: insertLE p qs
def sortPairs (ps : List (Rat × Rat)) : List (Rat × Rat) := ps.foldl (fun acc p => insertLE p acc) []

def hasDup : List (Rat × Rat) → Bool
  | p :: q :: rest => decide (p.1 = q.1) || hasDup (q :: rest)
  | _ => false

/-- "fill in zero values with the last reported frequency" -/
def holdFrom (prev : Rat) : List Rat → List Rat
  | [] => []
  | f :: fs => let h := if f = 0 then prev else f; h :: holdFrom h fs
def holdForward : List Rat → List Rat
  | [] => []
  | f :: fs => f :: holdFrom f fs
/-- leading zeros have no previous frequency to hold: they take the first reported one (repair of the spline's
    artificial 0-cent data point; `frequencies_held[:reported[0]] = frequencies_held[reported[0]]`) -/
def backFill (hs : List Rat) : List Rat :=
  match hs.find? (fun h => decide (h ≠ 0)) with
  | none => hs
  | some v => (hs.takeWhile (fun h => decide (h = 0))).map (fun _ => v) ++ hs.dropWhile (fun h => decide (h = 0))
def holdZeros (fs : List Rat) : List Rat := backFill (holdForward fs)

/-- `interp1d(x, y, 'zero')` inside the range: y of the last knot ≤ x -/
def interpZero (p : Rat × Rat) : List (Rat × Rat) → Rat → Rat
  | [], _ => p.2
  | q :: rest, x => if x < q.1 then p.2 else interpZero q rest x

/-- `interp1d(x, y, 'linear')` = `np.interp` inside the range -/
def interpLinear (p : Rat × Rat) : List (Rat × Rat) → Rat → Rat
  | [], _ => p.2
  | q :: rest, x =>
      if x < q.1 then p.2 + (q.2 - p.2) / (q.1 - p.1) * (x - p.1) else interpLinear q rest x

/-- `interp1d(x, y, 'nearest')`: `searchsorted(midpoints, x, 'left')`, i.e. half-way goes left -/
def interpNearest (p : Rat × Rat) : List (Rat × Rat) → Rat → Rat
  | [], _ => p.2
  | q :: rest, x => if x ≤ p.1 / 2 + q.1 / 2 then p.2 else interpNearest q rest x

inductive Kind where | linear | zero | nearest
  deriving DecidableEq, Repr, Inhabited

def Kind.ofString? : String → Option Kind
  | "linear" => some .linear
  | "zero" => some .zero
  | "nearest" => some .nearest
  | _ => none

/-- evaluate an interpolant on a sorted knot list (`[]` never reaches here: guarded by the caller) -/
def applyInterp (f : (Rat × Rat) → List (Rat × Rat) → Rat → Rat) (knots : List (Rat × Rat))
    (xs : List Rat) : List Rat :=
  match knots with
  | [] => []
  | p :: rest => xs.map (f p rest)

def isBinary (v : List Rat) : Bool := v.all fun x => decide (x = 0 ∨ x = 1)

def lastKey (p : Rat × Rat) : List (Rat × Rat) → Rat
  | [] => p.1
  | q :: rest => lastKey q rest

/-- everything in `resample_melody_series` that can raise once the series have been extended:
    duplicate times (zero-order spline construction) and out-of-range query times -/
def interpChecks (kind : Kind) (times timesNew : List Rat) : Py Unit :=
  match sortPairs (times.map fun t => (t, 0)) with
  | [] => .error .valueError
  | p :: rest =>
      if kind ≠ .nearest ∧ hasDup (p :: rest) = true then .error .valueError
      else if timesNew.any (fun x => decide (x < p.1 ∨ lastKey p rest < x)) then .error .valueError
      else .ok ()

def resampleFreq (kind : Kind) (times freqs timesNew : List Rat) : List Rat :=
  let F := sortPairs (List.zip times freqs)
  match kind with
  | .linear =>
      let H := sortPairs (List.zip times (holdZeros freqs))
      List.zipWith (fun y m => if m ≠ 0 then y else 0)
        (applyInterp interpLinear H timesNew) (applyInterp interpZero F timesNew)
  | .zero => applyInterp interpZero F timesNew
  | .nearest => applyInterp interpNearest F timesNew

def resampleVoicing (kind : Kind) (times voicing timesNew : List Rat) : List Rat :=
  let V := sortPairs (List.zip times voicing)
  match kind with
  | .nearest => applyInterp interpNearest V timesNew
  | .linear => if isBinary voicing then applyInterp interpZero V timesNew
               else applyInterp interpLinear V timesNew
  | .zero => applyInterp interpZero V timesNew

/-- `resample_melody_series(times, frequencies, voicing, times_new, kind)`.
    Model domain: `frequencies`, `voicing` as long as `times` (anything else is `ValueError` here and is
    not sent by the harness). -/
def resampleMelodySeries (times freqs voicing timesNew : List Rat) (kind : Kind) :
    Py (List Rat × List Rat) :=
  if times.length = timesNew.length ∧ allclose times timesNew = true then .ok (freqs, voicing)
  else if freqs.length ≠ times.length ∨ voicing.length ≠ times.length then .error .valueError
  else
    let times := times.map round10
    let timesNew := timesNew.map round10
    match maxOf timesNew, maxOf times with
    | some mn, some mt =>
        let ext := decide (mt < mn)
        let times := if ext then times ++ [mn] else times
        let freqs := if ext then freqs ++ [0] else freqs
        let voicing := if ext then voicing ++ [0] else voicing
        match interpChecks kind times timesNew with
        | .error e => .error e
        | .ok () => .ok (resampleFreq kind times freqs timesNew, resampleVoicing kind times voicing timesNew)
    | _, _ => .error .valueError

/-- "check if missing sample at time 0 and if so add one" (`x[0]` raises IndexError on an empty array) -/
def padStart {α : Type} (times : List Rat) (xs : List α) (aux : Option (List Rat)) :
    Py (List Rat × List α × Option (List Rat)) :=
  match times with
  | [] => .error .indexError
  | t0 :: _ =>
      if 0 < t0 then
        match xs, aux with
        | [], _ => .error .indexError
        | x0 :: _, none => .ok (0 :: times, x0 :: xs, none)
        | _ :: _, some [] => .error .indexError
        | x0 :: _, some (a0 :: as) => .ok (0 :: times, x0 :: xs, some (a0 :: a0 :: as))
      else .ok (times, xs, aux)

/-- "ensure the estimated sequence is the same length as the reference" -/
def fitLength (nRefC nRefV : Nat) (estC estV : List Rat) : List Rat × List Rat :=
  if estC.length ≤ nRefC then
    (estC ++ List.replicate (nRefC - estC.length) 0, estV ++ List.replicate (nRefC - estC.length) 0)
  else (estC.take nRefC, estV.take nRefV)

structure CentVoicing where
  refVoicing : List Rat
  refCent : List Rat
  estVoicing : List Rat
  estCent : List Rat
  deriving Repr, DecidableEq

/-- second half of `to_cent_voicing`: bring the two cent/voicing series onto a common time base
    (both onto a constant-hop grid if `hop` is given, otherwise the estimate onto the reference times) and
    make the estimate as long as the reference -/
def alignSeries (refTime refC refV estTime estC estV : List Rat) (hop : Option Rat) (kind : Kind) :
    Py CentVoicing :=
  match hop with
  | some h =>
      match maxOf refTime, maxOf estTime with
      | some mr, some me =>
        match constantHopTimebase h mr with
        | .error e => .error e
        | .ok tbR =>
        match resampleMelodySeries refTime refC refV tbR kind with
        | .error e => .error e
        | .ok (refC, refV) =>
        match constantHopTimebase h me with
        | .error e => .error e
        | .ok tbE =>
        match resampleMelodySeries estTime estC estV tbE kind with
        | .error e => .error e
        | .ok (estC, estV) =>
          .ok ⟨refV, refC, (fitLength refC.length refV.length estC estV).2,
               (fitLength refC.length refV.length estC estV).1⟩
      | _, _ => .error .valueError
  | none =>
      match resampleMelodySeries estTime estC estV refTime kind with
      | .error e => .error e
      | .ok (estC, estV) =>
        .ok ⟨refV, refC, (fitLength refC.length refV.length estC estV).2,
             (fitLength refC.length refV.length estC estV).1⟩

/-- `to_cent_voicing` (base frequency is the unit of the log domain). -/
def toCentVoicing (refTime : List Rat) (refFreq : List Freq) (estTime : List Rat) (estFreq : List Freq)
    (estVoicing refReward : Option (List Rat)) (hop : Option Rat) (kind : Kind) : Py CentVoicing :=
  match padStart refTime refFreq refReward with
  | .error e => .error e
  | .ok (refTime, refFreq, refReward) =>
  match padStart estTime estFreq estVoicing with
  | .error e => .error e
  | .ok (estTime, estFreq, estVoicing) =>
  match freqToVoicing refFreq refReward with
  | .error e => .error e
  | .ok (refF, refV) =>
  match freqToVoicing estFreq estVoicing with
  | .error e => .error e
  | .ok (estF, estV) =>
    alignSeries refTime (hz2cents refF) refV estTime (hz2cents estF) estV hop kind

/-- the five scores of `evaluate`, in the order of the returned OrderedDict -/
def scoreAll (cv : CentVoicing) (tol : Rat) : Py (List (String × Rat)) :=
  match voicingRecall cv.refVoicing cv.estVoicing with
  | .error e => .error e
  | .ok vr =>
  match voicingFalseAlarm cv.refVoicing cv.estVoicing with
  | .error e => .error e
  | .ok vfa =>
  match rawPitchAccuracy cv.refVoicing cv.refCent cv.estVoicing cv.estCent tol with
  | .error e => .error e
  | .ok rpa =>
  match rawChromaAccuracy cv.refVoicing cv.refCent cv.estVoicing cv.estCent tol with
  | .error e => .error e
  | .ok rca =>
  match overallAccuracy cv.refVoicing cv.refCent cv.estVoicing cv.estCent tol with
  | .error e => .error e
  | .ok oa =>
    .ok [("Voicing Recall", vr), ("Voicing False Alarm", vfa), ("Raw Pitch Accuracy", rpa),
         ("Raw Chroma Accuracy", rca), ("Overall Accuracy", oa)]

def evaluate (refTime : List Rat) (refFreq : List Freq) (estTime : List Rat) (estFreq : List Freq)
    (estVoicing refReward : Option (List Rat)) (hop : Option Rat) (kind : Kind) (tol : Rat := 50) :
    Py (List (String × Rat)) :=
  match toCentVoicing refTime refFreq estTime estFreq estVoicing refReward hop kind with
  | .error e => .error e
  | .ok cv => scoreAll cv tol

/-- distance of the pitch decisions from the tolerance threshold (harness-side margin filter):
    `min` over frames with both cents non-zero of `| |d| - tol |` and `| chromaDist |d| - tol |` -/
def margin (tol : Rat) : List Rat → List Rat → Option Rat
  | r :: rc, e :: ec =>
      let rest := margin tol rc ec
      if e ≠ 0 ∧ r ≠ 0 then
        let d := (r - e).abs
        let a := (d - tol).abs
        let b := (chromaDist d - tol).abs
        let m := if a < b then a else b
        match rest with
        | none => some m
        | some m' => some (if m < m' then m else m')
      else rest
  | _, _ => none

/-! ## protocol -/

def asFreqs? (v : Val) : Option (List Freq) := do
  let ps ← v.asList?
  ps.mapM fun p => do
    let (a, b) ← p.asPair?
    some ⟨← a.asInt?, ← b.asRat?⟩

def asOptRats? : Val → Option (Option (List Rat))
  | .none => some none
  | v => (v.asRats?).map some

def ofFreqs (fs : List Freq) : Val := .list (fs.map fun f => .list [Val.ofInt f.sgn, .rat f.cent])

def ofPyRat (r : Py Rat) : Py Val := r.map Val.rat
def ofCV (cv : CentVoicing) : Val :=
  .list [Val.ofRats cv.refVoicing, Val.ofRats cv.refCent, Val.ofRats cv.estVoicing, Val.ofRats cv.estCent]

def handler : Handler := fun fn args =>
  match fn, args with
  | "melody.validate_voicing", [rv, ev] => do
      let rv ← rv.asRats?; let ev ← ev.asRats?
      some ((validateVoicing rv ev).map fun _ => Val.none)
  | "melody.validate", [rv, rc, ev, ec] => do
      let rv ← rv.asRats?; let rc ← rc.asRats?; let ev ← ev.asRats?; let ec ← ec.asRats?
      some ((validate rv rc ev ec).map fun _ => Val.none)
  | "melody.hz2cents", [fs] => do
      let fs ← asFreqs? fs
      some (.ok (Val.ofRats (hz2cents fs)))
  | "melody.freq_to_voicing", [fs, v] => do
      let fs ← asFreqs? fs; let v ← asOptRats? v
      some ((freqToVoicing fs v).map fun (a, b) => .list [ofFreqs a, Val.ofRats b])
  | "melody.constant_hop_timebase", [hop, e] => do
      let hop ← hop.asRat?; let e ← e.asRat?
      some ((constantHopTimebase hop e).map Val.ofRats)
  | "melody.resample_melody_series", [t, f, v, tn, kind] => do
      let t ← t.asRats?; let f ← f.asRats?; let v ← v.asRats?; let tn ← tn.asRats?
      let kind ← Kind.ofString? (← kind.asStr?)
      -- model domain: series of equal length
      if f.length ≠ t.length ∨ v.length ≠ t.length then none
      else some ((resampleMelodySeries t f v tn kind).map fun (a, b) => .list [Val.ofRats a, Val.ofRats b])
  | "melody.to_cent_voicing", [rt, rf, et, ef, ev, rr, hop, kind] => do
      let rt ← rt.asRats?; let rf ← asFreqs? rf; let et ← et.asRats?; let ef ← asFreqs? ef
      let ev ← asOptRats? ev; let rr ← asOptRats? rr; let hop ← hop.asOptRat?
      let kind ← Kind.ofString? (← kind.asStr?)
      if rf.length ≠ rt.length ∨ ef.length ≠ et.length then none
      else some ((toCentVoicing rt rf et ef ev rr hop kind).map ofCV)
  | "melody.voicing_recall", [rv, ev] => do
      let rv ← rv.asRats?; let ev ← ev.asRats?
      some (ofPyRat (voicingRecall rv ev))
  | "melody.voicing_false_alarm", [rv, ev] => do
      let rv ← rv.asRats?; let ev ← ev.asRats?
      some (ofPyRat (voicingFalseAlarm rv ev))
  | "melody.voicing_measures", [rv, ev] => do
      let rv ← rv.asRats?; let ev ← ev.asRats?
      some ((voicingMeasures rv ev).map fun (a, b) => .list [.rat a, .rat b])
  | "melody.raw_pitch_accuracy", [rv, rc, ev, ec, tol] => do
      let rv ← rv.asRats?; let rc ← rc.asRats?; let ev ← ev.asRats?; let ec ← ec.asRats?
      let tol ← tol.asRat?
      some (ofPyRat (rawPitchAccuracy rv rc ev ec tol))
  | "melody.raw_chroma_accuracy", [rv, rc, ev, ec, tol] => do
      let rv ← rv.asRats?; let rc ← rc.asRats?; let ev ← ev.asRats?; let ec ← ec.asRats?
      let tol ← tol.asRat?
      some (ofPyRat (rawChromaAccuracy rv rc ev ec tol))
  | "melody.overall_accuracy", [rv, rc, ev, ec, tol] => do
      let rv ← rv.asRats?; let rc ← rc.asRats?; let ev ← ev.asRats?; let ec ← ec.asRats?
      let tol ← tol.asRat?
      some (ofPyRat (overallAccuracy rv rc ev ec tol))
  | "melody.evaluate", [rt, rf, et, ef, ev, rr, hop, kind, tol] => do
      let rt ← rt.asRats?; let rf ← asFreqs? rf; let et ← et.asRats?; let ef ← asFreqs? ef
      let ev ← asOptRats? ev; let rr ← asOptRats? rr; let hop ← hop.asOptRat?
      let kind ← Kind.ofString? (← kind.asStr?)
      let tol ← tol.asRat?
      if rf.length ≠ rt.length ∨ ef.length ≠ et.length then none
      else some ((evaluate rt rf et ef ev rr hop kind tol).map fun kvs =>
        .list (kvs.map fun (k, v) => .list [.str k, .rat v]))
  | "melody.chroma_dist", [d] => do
      let d ← d.asRat?
      some (.ok (.rat (chromaDist d)))
  | "melody.margin", [rv, rc, ev, ec, tol] => do
      -- harness-side filter only: how far the pitch decisions are from the tolerance
      let _ ← rv.asRats?; let rc ← rc.asRats?; let _ ← ev.asRats?; let ec ← ec.asRats?
      let tol ← tol.asRat?
      some (.ok (match margin tol rc ec with | some m => .rat m | none => Val.none))
  | "melody.evaluate_margin", [rt, rf, et, ef, ev, rr, hop, kind, tol] => do
      let rt ← rt.asRats?; let rf ← asFreqs? rf; let et ← et.asRats?; let ef ← asFreqs? ef
      let ev ← asOptRats? ev; let rr ← asOptRats? rr; let hop ← hop.asOptRat?
      let kind ← Kind.ofString? (← kind.asStr?)
      let tol ← tol.asRat?
      if rf.length ≠ rt.length ∨ ef.length ≠ et.length then none
      else some ((toCentVoicing rt rf et ef ev rr hop kind).map fun cv =>
        match margin tol cv.refCent cv.estCent with | some m => .rat m | none => Val.none)
  | _, _ => none

end Melody
end Mir
