import MirModel.Basic
/-
  MirModel.MiscStats — small numeric helpers shared by the onset / boundary / tempo / alignment models:
  absolute value, insertion sort, `np.median`, `np.mean`, `np.round(., d)` (ties to even),
  `util.validate_events`.  Everything is exact `Rat`; NaN is `none`.
-/
namespace Mir.MiscStats

/-- `abs` on `Rat` (core Lean only; `absQ_eq_abs` in MirProofs identifies it with `|x|`) -/
def absQ (x : Rat) : Rat := if x < 0 then -x else x

/-- insertion into a sorted list -/
def insertRat (x : Rat) : List Rat → List Rat
  | [] => [x]
  | y :: ys => if x ≤ y then x :: y :: ys else y :: insertRat x ys

/-- `np.sort` -/
def sortRats : List Rat → List Rat
  | [] => []
  | x :: xs => insertRat x (sortRats xs)

/-- `np.median`: middle element of the sorted data, or the mean of the two middle elements;
    `none` = NaN (empty input). -/
def median? (xs : List Rat) : Option Rat :=
  let s := sortRats xs
  let n := s.length
  if n = 0 then none
  else if n % 2 = 1 then s[n / 2]?
  else match s[n / 2 - 1]?, s[n / 2]? with
    | some a, some b => some ((a + b) / 2)
    | _, _ => none

/-- `np.mean`; `none` = NaN (empty input) -/
def mean? (xs : List Rat) : Option Rat :=
  if xs.isEmpty then none else some (xs.sum / (xs.length : Rat))

/-- `np.rint`: nearest integer, ties to the even one -/
def roundHalfEven (y : Rat) : Int :=
  let f := y.floor
  let d := y - (f : Rat)
  if d < 1 / 2 then f else if 1 / 2 < d then f + 1 else if f % 2 = 0 then f else f + 1

/-- `np.round(x, 5)` = `rint(x * 10^5) / 10^5` -/
def round5 (x : Rat) : Rat := (roundHalfEven (x * 100000) : Rat) / 100000

/-- `util.validate_events` on a 1-d array: no event later than `maxTime`, non-decreasing order -/
def validateEvents (xs : List Rat) (maxTime : Rat) : Py Unit :=
  if xs.any (fun x => decide (maxTime < x)) then .error .valueError
  else if (xs.zip xs.tail).any (fun p => decide (p.2 - p.1 < 0)) then .error .valueError
  else .ok ()

/-! ### binary64 rounding (used only to state the float-gap finding of C06; not used by any handler) -/

def pow2 (k : Int) : Rat := if 0 ≤ k then ((2 ^ k.toNat : Nat) : Rat) else 1 / ((2 ^ (-k).toNat : Nat) : Rat)

/-- exponent `k` with `2^52 ≤ |x| / 2^k < 2^53` (search from `k`; `fuel` bounds the search) -/
def expo (x : Rat) : Nat → Int → Int
  | 0, k => k
  | fuel + 1, k =>
      let m := absQ x / pow2 k
      if 9007199254740992 ≤ m then expo x fuel (k + 1)
      else if m < 4503599627370496 then expo x fuel (k - 1)
      else k

/-- round to the nearest binary64 number, ties to even (subnormals and overflow are not modelled) -/
def rnd64 (x : Rat) : Rat :=
  if x = 0 then 0 else
    let k := expo x 2200 0
    (roundHalfEven (x / pow2 k) : Rat) * pow2 k

/-- the window test as `util._fast_hit_windows` executes it on doubles:
    `fl(est - w) ≤ ref ≤ fl(est + w)` (arguments are assumed to be binary64 numbers already) -/
def windowTest64 (w r e : Rat) : Bool := decide (rnd64 (e - w) ≤ r ∧ r ≤ rnd64 (e + w))

/-- NaN-able number to protocol value -/
def optVal : Option Rat → Val
  | some q => .rat q
  | none => .nan

end Mir.MiscStats
