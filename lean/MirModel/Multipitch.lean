import MirModel.HitMetric
/-
  MirModel.Multipitch — `mir_eval.multipitch` as the code is.

  Pitch lives in the log domain (DESIGN §3.3): a frame is a list of (continuous) MIDI numbers, i.e. the
  values `frequencies_to_midi` produces; the harness converts them to Hz (`440·2^((m-69)/12)`) for the real
  code.  `frequencies_to_midi` itself (a `log2`) has a `Float` instance for the driver only.

  Modelled quirks (all observed on the code):
  * the estimate is resampled iff `est_time.size != ref_time.size or not np.allclose(est_time, ref_time)`;
    `np.allclose(a, b)` is `|a-b| <= 1e-8 + 1e-5*|b|` elementwise (relative tolerance, asymmetric);
  * `interp1d(kind='nearest')` = `searchsorted(midpoints, t, side='left')` where the midpoints are
    `x[i]/2 + x[i+1]/2`: a target exactly half-way between two estimate frames goes to the EARLIER one;
    targets `< x[0]` or `> x[-1]` get the extra empty frame (index `n_times`);
  * per frame the raw count is a maximum matching of `|m_r - m_e| <= window` (`<=`, through
    `util._fast_hit_windows`), the chroma count a maximum matching of
    `min(|a-b|, 12-|a-b|) <= window` with `a, b` the values mod 12 (`<=`, `util._outer_distance_mod_n`);
  * `compute_num_true_positives` zips the two frame lists (stops at the shorter) and leaves zeros behind;
  * precision/recall/accuracy are 0 when their denominator is not positive; the four error scores are all
    0 when the reference has no pitch at all.
-/
namespace Mir
namespace Multipitch

abbrev Frames := List (List Rat)

def absR (x : Rat) : Rat := if x < 0 then -x else x

/-! ### validation -/

def maxTime : Rat := 30000
/-- MIDI images of `MIN_FREQ = 20 Hz` and `MAX_FREQ = 5000 Hz` (`69 + 12·log2(f/440)`, 9 decimals; the
    harness keeps pitches ≥ 1e-3 semitone away from both) -/
def midiMin : Rat := 15486820576 / 1000000000
def midiMax : Rat := 111076231992 / 1000000000

def sortedB : List Rat → Bool
  | a :: b :: rest => !(decide (b - a < 0)) && sortedB (b :: rest)
  | _ => true

/-- the checks of `util.validate_events(events, max_time=MAX_TIME)` on a 1-d array: nothing later than
    `MAX_TIME`, no negative `np.diff` -/
def eventsOk (ts : List Rat) : Bool :=
  !(ts.any fun t => decide (maxTime < t)) && sortedB ts

/-- the checks of `util.validate_frequencies(freq, MAX_FREQ, MIN_FREQ)` in the MIDI domain -/
def frameOk (f : List Rat) : Bool :=
  !(f.any fun m => decide (midiMax < m)) && !(f.any fun m => decide (m < midiMin))

/-- all checks of `multipitch.validate`.  Every failing check raises `ValueError`, so the order in which
    the code performs them is not observable; the warnings are not modelled. -/
def valid (rt : List Rat) (rf : Frames) (et : List Rat) (ef : Frames) : Bool :=
  eventsOk rt && eventsOk et && (rt.length == rf.length) && (et.length == ef.length)
    && rf.all frameOk && ef.all frameOk

/-- `multipitch.validate` -/
def validate (rt : List Rat) (rf : Frames) (et : List Rat) (ef : Frames) : Py Unit :=
  if valid rt rf et ef then pure () else throw .valueError

/-! ### resampling -/

def atol : Rat := 1 / 100000000
def rtol : Rat := 1 / 100000

/-- `np.allclose(a, b)` on equally long arrays -/
def allClose : List Rat → List Rat → Bool
  | a :: as, b :: bs => decide (absR (a - b) ≤ atol + rtol * absR b) && allClose as bs
  | _, _ => true

/-- the guard of `metrics`: `est_time.size != ref_time.size or not np.allclose(est_time, ref_time)` -/
def timeBasesDiffer (rt et : List Rat) : Bool :=
  et.length != rt.length || !allClose et rt

/-- `x_bds = x/2; x_bds[1:] + x_bds[:-1]` of `interp1d(kind='nearest')` -/
def midpoints : List Rat → List Rat
  | a :: b :: rest => (b / 2 + a / 2) :: midpoints (b :: rest)
  | _ => []

/-- `searchsorted(x_bds, t, side='left').clip(0, len(x)-1)`: number of midpoints `< t` -/
def nearestIdx (ts : List Rat) (t : Rat) : Nat :=
  min ((midpoints ts).filter fun m => decide (m < t)).length (ts.length - 1)

/-- index into `frequencies + [empty]` chosen for target time `t` (`n` = the fill value) -/
def resampleIdx (ts : List Rat) (n : Nat) (t : Rat) : Nat :=
  match ts.head?, ts.getLast? with
  | some lo, some hi => if t < lo ∨ hi < t then n else nearestIdx ts t
  | _, _ => n

/-- one resampled frame: `(frequencies + [empty])[index]`.  The `none` branch is unreachable when
    `ts.length = fs.length` (`MirProofs.Lemmas.Multipitch.resampleIdx_le`). -/
def resampleFrame (ts : List Rat) (fs : Frames) (t : Rat) : List Rat :=
  match (fs ++ [[]])[resampleIdx ts fs.length t]? with
  | some f => f
  | none => []

/-- `resample_multipitch` on arguments of equal length (what `metrics` passes after `validate`) -/
def resampleCore (ts : List Rat) (fs : Frames) (target : List Rat) : Frames :=
  if ts.isEmpty then target.map fun _ => []
  else target.map (resampleFrame ts fs)

/-- `resample_multipitch(times, frequencies, target_times)` -/
def resample (ts : List Rat) (fs : Frames) (target : List Rat) : Py Frames :=
  if target.isEmpty then pure []
  else if ts.isEmpty then pure (target.map fun _ => [])
  else if ts.length ≠ fs.length then throw .valueError      -- interp1d: x and y of unequal length
  else pure (resampleCore ts fs target)

/-! ### per-frame counts -/

/-- `midi_to_chroma` -/
def midiToChroma (fs : Frames) : Frames := fs.map fun f => f.map fun m => fmod m 12

/-- `compute_num_freqs` -/
def numFreqs (fs : Frames) : List Nat := fs.map List.length

/-- raw criterion `|m_r - m_e| <= window` -/
def rawFeas (w : Rat) (r e : Rat) : Bool := withinWindow w r e
/-- chroma criterion `min(|a-b|, 12-|a-b|) <= window`, `a = r mod 12`, `b = e mod 12` -/
def chromaFeas (w : Rat) (r e : Rat) : Bool := decide (circDist r e 12 ≤ w)

def feasOf (w : Rat) (chroma : Bool) : Rat → Rat → Bool := if chroma then chromaFeas w else rawFeas w

/-- true positives of one frame: size of a maximum matching of the feasibility graph -/
def frameCount (w : Rat) (chroma : Bool) (r e : List Rat) : Nat := hitCount (feasOf w chroma) r e

/-- `compute_num_true_positives(ref_freqs, est_freqs, window, chroma)`: `zip` stops at the shorter list,
    the remaining entries of the `len(ref_freqs)` zeros stay -/
def numTruePositives (w : Rat) (chroma : Bool) : Frames → Frames → List Nat
  | [], _ => []
  | _ :: rs, [] => 0 :: numTruePositives w chroma rs []
  | r :: rs, e :: es => frameCount w chroma r e :: numTruePositives w chroma rs es

/-! ### scores from the three count arrays (rows `(true_positives[i], n_ref[i], n_est[i])`) -/

abbrev Row := Int × Int × Int

def sumBy (f : Row → Int) (rows : List Row) : Int := (rows.map f).sum

def zip3 : List Int → List Int → List Int → List Row
  | a :: as, b :: bs, c :: cs => (a, b, c) :: zip3 as bs cs
  | _, _, _ => []

def ofInt (i : Int) : Rat := (i : Rat)

/-- `compute_accuracy` → (precision, recall, accuracy) -/
def computeAccuracy (rows : List Row) : Rat × Rat × Rat :=
  let tp := sumBy (fun x => x.1) rows
  let ne := sumBy (fun x => x.2.2) rows
  let nr := sumBy (fun x => x.2.1) rows
  let den := sumBy (fun x => x.2.2 + x.2.1 - x.1) rows
  (if 0 < ne then ofInt tp / ofInt ne else 0,
   if 0 < nr then ofInt tp / ofInt nr else 0,
   if 0 < den then ofInt tp / ofInt den else 0)

/-- `compute_err_score` → (e_sub, e_miss, e_fa, e_tot) -/
def computeErrScore (rows : List Row) : Rat × Rat × Rat × Rat :=
  let nr := sumBy (fun x => x.2.1) rows
  if nr = 0 then (0, 0, 0, 0)
  else
    (ofInt (sumBy (fun x => min x.2.1 x.2.2 - x.1) rows) / ofInt nr,
     ofInt (sumBy (fun x => if x.2.1 - x.2.2 < 0 then 0 else x.2.1 - x.2.2) rows) / ofInt nr,
     ofInt (sumBy (fun x => if x.2.2 - x.2.1 < 0 then 0 else x.2.2 - x.2.1) rows) / ofInt nr,
     ofInt (sumBy (fun x => max x.2.1 x.2.2 - x.1) rows) / ofInt nr)

/-- the seven scores of one flavour (raw or chroma) -/
structure Seven where
  precision : Rat
  recall : Rat
  accuracy : Rat
  esub : Rat
  emiss : Rat
  efa : Rat
  etot : Rat
  deriving Repr, DecidableEq

def sevenOf (rows : List Row) : Seven :=
  let a := computeAccuracy rows
  let e := computeErrScore rows
  ⟨a.1, a.2.1, a.2.2, e.1, e.2.1, e.2.2.1, e.2.2.2⟩

def Seven.toList (s : Seven) : List Rat :=
  [s.precision, s.recall, s.accuracy, s.esub, s.emiss, s.efa, s.etot]

def natsToInts (xs : List Nat) : List Int := xs.map Int.ofNat

/-- the estimate frames `metrics` scores: resampled onto the reference time base when the guard fires -/
def alignedEst (rt et : List Rat) (ef : Frames) : Frames :=
  if timeBasesDiffer rt et then resampleCore et ef rt else ef

/-- the rows of one flavour as `metrics` assembles them -/
def rowsOf (w : Rat) (chroma : Bool) (rf ef : Frames) : List Row :=
  if chroma then
    zip3 (natsToInts (numTruePositives w true (midiToChroma rf) (midiToChroma ef)))
      (natsToInts (numFreqs rf)) (natsToInts (numFreqs ef))
  else
    zip3 (natsToInts (numTruePositives w false rf ef)) (natsToInts (numFreqs rf)) (natsToInts (numFreqs ef))

/-- `metrics` after `validate`: (raw seven, chroma seven) -/
def metricsCore (rt : List Rat) (rf : Frames) (et : List Rat) (ef : Frames) (w : Rat := 1 / 2) :
    Seven × Seven :=
  let ef' := alignedEst rt et ef
  (sevenOf (rowsOf w false rf ef'), sevenOf (rowsOf w true rf ef'))

/-- `multipitch.metrics(ref_time, ref_freqs, est_time, est_freqs, window=w)` -/
def metrics (rt : List Rat) (rf : Frames) (et : List Rat) (ef : Frames) (w : Rat := 1 / 2) :
    Py (Seven × Seven) :=
  if valid rt rf et ef then pure (metricsCore rt rf et ef w) else throw .valueError

def evaluateKeys : List String :=
  ["Precision", "Recall", "Accuracy", "Substitution Error", "Miss Error", "False Alarm Error", "Total Error",
   "Chroma Precision", "Chroma Recall", "Chroma Accuracy", "Chroma Substitution Error", "Chroma Miss Error",
   "Chroma False Alarm Error", "Chroma Total Error"]

/-- `multipitch.evaluate`: the 14 scores under their documented keys, in order -/
def evaluate (rt : List Rat) (rf : Frames) (et : List Rat) (ef : Frames) (w : Rat := 1 / 2) :
    Py (List (String × Rat)) := do
  let (a, b) ← metrics rt rf et ef w
  pure (evaluateKeys.zip (a.toList ++ b.toList))

/-! ### `frequencies_to_midi` (Float instance, driver only) -/

def ratToFloat (q : Rat) : Float := Float.ofInt q.num / Float.ofNat q.den

def freqToMidiF (f : Rat) (refHz : Rat := 440) : Float :=
  69.0 + 12.0 * Float.log2 (ratToFloat f / ratToFloat refHz)

/-! ### protocol glue -/

def asFrames? (v : Val) : Option Frames := do (← v.asList?).mapM Val.asRats?
def ofFrames (fs : Frames) : Val := .list (fs.map Val.ofRats)
def liftPy {α} (x : Py α) (f : α → Val) : Option (Py Val) := some (x.map f)

def asWindow? : Val → Option Rat
  | .none => some (1 / 2)
  | .rat q => some q
  | _ => none

def handler : Handler := fun fn args =>
  match fn, args with
  | "multipitch.validate", [rt, rf, et, ef] => do
      let rt ← rt.asRats?; let rf ← asFrames? rf; let et ← et.asRats?; let ef ← asFrames? ef
      liftPy (validate rt rf et ef) fun _ => .none
  | "multipitch.resample_multipitch", [ts, fs, tg] => do
      let ts ← ts.asRats?; let fs ← asFrames? fs; let tg ← tg.asRats?
      liftPy (resample ts fs tg) ofFrames
  | "multipitch.frequencies_to_midi", [fs] => do
      let fs ← asFrames? fs
      some (.ok (.list (fs.map fun f => .list (f.map fun x => .flt (freqToMidiF x)))))
  | "multipitch.midi_to_chroma", [fs] => do
      let fs ← asFrames? fs
      some (.ok (ofFrames (midiToChroma fs)))
  | "multipitch.compute_num_freqs", [fs] => do
      let fs ← asFrames? fs
      some (.ok (Val.ofNats (numFreqs fs)))
  | "multipitch.compute_num_true_positives", [rf, ef, w, c] => do
      let rf ← asFrames? rf; let ef ← asFrames? ef; let w ← asWindow? w; let c ← c.asBool?
      some (.ok (Val.ofNats (numTruePositives w c rf ef)))
  | "multipitch.compute_accuracy", [tp, nr, ne] => do
      let tp ← tp.asInts?; let nr ← nr.asInts?; let ne ← ne.asInts?
      -- numpy refuses to add arrays of different lengths (broadcasting of length-1 arrays: outside the domain)
      if tp.length ≠ nr.length ∨ nr.length ≠ ne.length then some (.error .valueError)
      else
        let a := computeAccuracy (zip3 tp nr ne)
        some (.ok (Val.ofRats [a.1, a.2.1, a.2.2]))
  | "multipitch.compute_err_score", [tp, nr, ne] => do
      let tp ← tp.asInts?; let nr ← nr.asInts?; let ne ← ne.asInts?
      if (nr.sum : Int) = 0 then some (.ok (Val.ofRats [0, 0, 0, 0]))   -- returns before any array arithmetic
      else if tp.length ≠ nr.length ∨ nr.length ≠ ne.length then some (.error .valueError)
      else
        let e := computeErrScore (zip3 tp nr ne)
        some (.ok (Val.ofRats [e.1, e.2.1, e.2.2.1, e.2.2.2]))
  | "multipitch.metrics", [rt, rf, et, ef, w] => do
      let rt ← rt.asRats?; let rf ← asFrames? rf; let et ← et.asRats?; let ef ← asFrames? ef
      let w ← asWindow? w
      liftPy (metrics rt rf et ef w) fun (a, b) => Val.ofRats (a.toList ++ b.toList)
  | "multipitch.evaluate", [rt, rf, et, ef, w] => do
      let rt ← rt.asRats?; let rf ← asFrames? rf; let et ← et.asRats?; let ef ← asFrames? ef
      let w ← asWindow? w
      liftPy (evaluate rt rf et ef w) fun kvs => .list (kvs.map fun (k, v) => .list [.str k, .rat v])
  | _, _ => none

end Multipitch
end Mir
