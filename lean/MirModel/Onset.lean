import MirModel.HitMetric
import MirModel.MiscStats
/-
  MirModel.Onset — `mir_eval.onset` (validate, f_measure, evaluate).

  `f_measure` validates both event arrays, returns zeros when a side is empty, otherwise the size of a
  maximum matching of the graph `est - w ≤ ref ≤ est + w` (what `util.match_events` computes through
  `_fast_hit_windows`; the equality of the two enumerations is C05's business) divided by the number of
  estimated / reference onsets; F uses `util.f_measure` with its default `beta = 1`.
  NB the return order is `(F, P, R)`.
-/
namespace Mir.Onset
open Mir.MiscStats

/-- `onset.MAX_TIME` -/
def maxTime : Rat := 30000

/-- `onset.validate` (warnings are not modelled) -/
def validate (ref est : List Rat) : Py Unit := do
  validateEvents ref maxTime
  validateEvents est maxTime

/-- `onset.f_measure(reference_onsets, estimated_onsets, window)` → `(F, P, R)` -/
def fMeasure (ref est : List Rat) (window : Rat := 1 / 20) : Py (Rat × Rat × Rat) := do
  validate ref est
  let s := hitPRF (withinWindow window) ref est 1
  pure (s.2.2, s.1, s.2.1)

/-- `onset.evaluate(ref, est, **kwargs)`: the only keyword that reaches `f_measure` is `window` -/
def evaluate (ref est : List Rat) (window : Option Rat) : Py (List (String × Rat)) := do
  let s ← fMeasure ref est (window.getD (1 / 20))
  pure [("F-measure", s.1), ("Precision", s.2.1), ("Recall", s.2.2)]

def handler : Handler := fun fn args =>
  match fn, args with
  | "onset.validate", [r, e] => do
      let r ← r.asRats?; let e ← e.asRats?
      some ((validate r e).map fun _ => Val.none)
  | "onset.f_measure", [r, e, w] => do
      let r ← r.asRats?; let e ← e.asRats?; let w ← w.asRat?
      some ((fMeasure r e w).map fun s => .list [.rat s.1, .rat s.2.1, .rat s.2.2])
  | "onset.evaluate", [r, e, w] => do
      let r ← r.asRats?; let e ← e.asRats?; let w ← w.asOptRat?
      some ((evaluate r e w).map fun kv => .list (kv.map fun p => .list [.str p.1, .rat p.2]))
  -- the binary64 rounding model behind the float-gap finding (C06), tied to real doubles by the harness
  | "onset.rnd64", [x] => do
      let x ← x.asRat?
      some (.ok (.rat (rnd64 x)))
  | "onset.window_test64", [w, r, e] => do
      let w ← w.asRat?; let r ← r.asRat?; let e ← e.asRat?
      some (.ok (.bool (windowTest64 w r e)))
  | _, _ => none

end Mir.Onset
