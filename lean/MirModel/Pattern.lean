import MirModel.Basic
import MirModel.Scores
/-
  MirModel.Pattern — `mir_eval.pattern` as the code is (Layer M), plus the documented definitions (Layer S,
  namespace `Pattern.Spec`) the C04 theorems compare it with.

  A pattern list is a list of patterns, a pattern a list of occurrences, an occurrence a list of
  `(onset, midi)` points.  Everything is exact `Rat`.

  Quirks mirrored on purpose (DESIGN §8):
  * `_occurrence_intersection` intersects point *sets* while every denominator uses `len` of the list;
  * `_compute_score_matrix` divides a Python int by `float(max(len, len))` -> `ZeroDivisionError` when both
    occurrences are empty; the three-layer first layer divides by each length -> `ZeroDivisionError` when
    either is empty;
  * `standard_FPR` counts matched *reference* prototypes and divides by the number of estimates (precision can
    exceed 1); two empty prototypes reach `np.max` of an empty array (`ValueError`);
  * `occurrence_FPR` indexes the occurrence matrix with `np.ix_(rel_idx[:,0], rel_idx[:,1])`, i.e. rows and
    columns are repeated once per relevant pair;
  * `evaluate` forces `kwargs["thres"]` to 0.5 and then 0.75 for the two occurrence entries, so a `thres`
    passed by the caller is overwritten (repaired in 84ce008; before, the misspelt key `thresh` was dropped).
  (`first_n_*` return the scalar 0.0 on empty input since e3a7cc5.)
-/
namespace Mir
namespace Pattern

abbrev Point := Rat × Rat
abbrev Occ := List Point
abbrev Pat := List Occ
abbrev Pats := List Pat

/-! ### numpy reductions (partiality explicit) -/

def rmax (a b : Rat) : Rat := if a ≤ b then b else a

def absR (a : Rat) : Rat := if a < 0 then -a else a

/-- maximum of the non-empty list `x :: xs` -/
def maxNE (x : Rat) : List Rat → Rat
  | [] => x
  | y :: ys => rmax x (maxNE y ys)

/-- `np.max` of a flat array: `ValueError` on a zero-size array -/
def maxL : List Rat → Py Rat
  | [] => .error .valueError
  | x :: xs => .ok (maxNE x xs)

/-- `np.mean` of a flat array.  NumPy returns `nan` (with a warning) for a zero-size array; no caller in
    `pattern.py` can reach that case, and the model refuses (`Other`) rather than invent a value. -/
def meanPy (l : List Rat) : Py Rat :=
  if l.isEmpty then .error .other else .ok (l.sum / (l.length : Rat))

/-- transpose of a matrix given as a list of rows, all of length `ncols` -/
def transpose (ncols : Nat) : List (List Rat) → List (List Rat)
  | [] => List.replicate ncols []
  | r :: rs => List.zipWith (fun a col => a :: col) r (transpose ncols rs)

/-- `np.mean(np.max(m, axis=1))` -/
def rowMaxMean (m : List (List Rat)) : Py Rat := do
  let mx ← m.mapM maxL
  meanPy mx

/-- `np.mean(np.max(m, axis=0))` for a matrix with `ncols` columns -/
def colMaxMean (ncols : Nat) (m : List (List Rat)) : Py Rat :=
  rowMaxMean (transpose ncols m)

/-! ### helpers of the module -/

/-- `_n_onset_midi` -/
def nOnsetMidi (ps : Pats) : Nat := (ps.map fun pat => (pat.map List.length).sum).sum

/-- `validate` on well-shaped points: every pattern has at least one occurrence
    (points that are not 2-tuples are rejected by the handler with the same `ValueError`). -/
def validate (ref est : Pats) : Py Unit :=
  if (ref ++ est).any (fun p => p.isEmpty) then .error .valueError else .ok ()

/-- `set(...)` of a point list, as a duplicate-free list -/
def dedup : Occ → Occ
  | [] => []
  | p :: ps => if p ∈ ps then dedup ps else p :: dedup ps

/-- `_occurrence_intersection` : `set_P & set_Q` as a duplicate-free list -/
def inter (P Q : Occ) : Occ := (dedup P).filter fun p => decide (p ∈ Q)

def interCount (P Q : Occ) : Nat := (inter P Q).length

def pointLe (a b : Point) : Bool := decide (a.1 < b.1) || (decide (a.1 = b.1) && decide (a.2 ≤ b.2))

/-- cardinality score of one pair of occurrences: `len(P ∩ Q) / float(max(len P, len Q))` -/
def cardScore (P Q : Occ) : Py Rat :=
  let d := Nat.max P.length Q.length
  if d = 0 then .error .zeroDivision else .ok ((interCount P Q : Rat) / (d : Rat))

def cardName : String := "cardinality_score"

/-- `_compute_score_matrix(P, Q, similarity_metric)`: rows = occurrences of `P`, columns = occurrences of `Q` -/
def scoreMatrix (P Q : Pat) (metric : String := cardName) : Py (List (List Rat)) :=
  P.mapM fun occP => Q.mapM fun occQ =>
    if metric = cardName then cardScore occP occQ else .error .valueError

def isZero (ref est : Pats) : Bool := nOnsetMidi ref == 0 || nOnsetMidi est == 0

/-! ### standard_FPR -/

/-- `pattern[0]` -/
def proto (p : Pat) : Py Occ :=
  match p with
  | [] => .error .indexError
  | o :: _ => .ok o

/-- rows of `np.diff(P - Q, axis=0)` -/
def diffRows (P Q : Occ) : List Point :=
  let d := List.zipWith (fun (p q : Point) => (p.1 - q.1, p.2 - q.2)) P Q
  List.zipWith (fun (a b : Point) => (b.1 - a.1, b.2 - a.2)) d d.tail

/-- the test in the inner loop of `standard_FPR` (`false` = `continue`) -/
def protoMatch (tol : Rat) (P Q : Occ) : Py Bool :=
  if P.length ≠ Q.length then .ok false
  else if P.length = 1 then .ok true
  else do
    let m ← maxL ((diffRows P Q).flatMap fun x => [absR x.1, absR x.2])
    return decide (m < tol)

/-- inner loop: does the reference prototype `P` match some estimated prototype (stop at the first)? -/
def matchAny (tol : Rat) (P : Occ) : Pats → Py Bool
  | [] => .ok false
  | e :: es => do
      let Q ← proto e
      let m ← protoMatch tol P Q
      if m then return true else matchAny tol P es

/-- outer loop: `k` -/
def countMatches (tol : Rat) : Pats → Pats → Py Nat
  | [], _ => .ok 0
  | r :: rs, est => do
      let P ← proto r
      let m ← matchAny tol P est
      let k ← countMatches tol rs est
      return (if m then 1 else 0) + k

def defaultTol : Rat := 1 / 100000

def standardFPR (ref est : Pats) (tol : Rat := defaultTol) : Py (Rat × Rat × Rat) := do
  validate ref est
  if isZero ref est then return (0, 0, 0)
  let k ← countMatches tol ref est
  if est.length = 0 ∨ ref.length = 0 then throw .zeroDivision
  let p : Rat := (k : Rat) / (est.length : Rat)
  let r : Rat := (k : Rat) / (ref.length : Rat)
  return (fMeasure p r, p, r)

/-! ### establishment_FPR -/

/-- the establishment matrix `S[iP, iQ] = np.max(score matrix)` -/
def estMatrix (ref est : Pats) (metric : String) : Py (List (List Rat)) :=
  ref.mapM fun rp => est.mapM fun ep => do
    let s ← scoreMatrix rp ep metric
    maxL s.flatten

def establishmentFPR (ref est : Pats) (metric : String := cardName) : Py (Rat × Rat × Rat) := do
  validate ref est
  if isZero ref est then return (0, 0, 0)
  let S ← estMatrix ref est metric
  let p ← colMaxMean est.length S
  let r ← rowMaxMean S
  return (fMeasure p r, p, r)

/-! ### occurrence_FPR -/

/-- one cell of `O_PR` : `some (precision, recall)` when the pair is relevant (`np.max(s) >= thres`),
    `none` when it is left at its initial zeros -/
def occCell (thres : Rat) (metric : String) (rp ep : Pat) : Py (Option (Rat × Rat)) := do
  let s ← scoreMatrix rp ep metric
  let mx ← maxL s.flatten
  if thres ≤ mx then
    let p ← colMaxMean ep.length s
    let r ← rowMaxMean s
    return some (p, r)
  else return none

def occMatrix (thres : Rat) (metric : String) (ref est : Pats) : Py (List (List (Option (Rat × Rat)))) :=
  ref.mapM fun rp => est.mapM fun ep => occCell thres metric rp ep

/-- `rel_idx` : the `[iP, iQ]` rows stacked in loop order -/
def relIdx (O : List (List (Option (Rat × Rat)))) : List (Nat × Nat) :=
  O.zipIdx.flatMap fun (row, i) =>
    row.zipIdx.filterMap fun (c, j) => if c.isSome then some (i, j) else none

/-- `O_PR[i, j, :]` (zeros where no relevant pair was stored); `IndexError` outside the array -/
def lookup (O : List (List (Option (Rat × Rat)))) (i j : Nat) : Py (Rat × Rat) :=
  match O[i]? with
  | none => .error .indexError
  | some row =>
    match row[j]? with
    | none => .error .indexError
    | some c => .ok (c.getD (0, 0))

def defaultThres : Rat := 3 / 4

def occurrenceFPR (ref est : Pats) (thres : Rat := defaultThres) (metric : String := cardName) :
    Py (Rat × Rat × Rat) := do
  validate ref est
  if isZero ref est then return (0, 0, 0)
  let O ← occMatrix thres metric ref est
  let rel := relIdx O
  if rel.isEmpty then return (fMeasure 0 0, 0, 0)
  -- P[np.ix_(rel_idx[:, 0], rel_idx[:, 1])] and the same for R
  let Pm ← rel.mapM fun a => rel.mapM fun b => do let c ← lookup O a.1 b.2; return c.1
  let Rm ← rel.mapM fun a => rel.mapM fun b => do let c ← lookup O a.1 b.2; return c.2
  let p ← colMaxMean rel.length Pm
  let r ← rowMaxMean Rm
  return (fMeasure p r, p, r)

/-! ### three_layer_FPR -/

/-- `compute_first_layer_PR` -/
def firstLayerPR (refOcc estOcc : Occ) : Py (Rat × Rat) :=
  let s := interCount refOcc estOcc
  if refOcc.length = 0 then .error .zeroDivision
  else if estOcc.length = 0 then .error .zeroDivision
  else .ok ((s : Rat) / (refOcc.length : Rat), (s : Rat) / (estOcc.length : Rat))

/-- `compute_layer(ref_pattern, est_pattern, layer=1)` -/
def layer1 (rp ep : Pat) : Py (List (List Rat)) :=
  rp.mapM fun ro => ep.mapM fun eo => do
    let pr ← firstLayerPR ro eo
    return fMeasure pr.1 pr.2

/-- `compute_second_layer_PR` -/
def secondLayerPR (rp ep : Pat) : Py (Rat × Rat) := do
  let F1 ← layer1 rp ep
  let p ← colMaxMean ep.length F1
  let r ← rowMaxMean F1
  return (p, r)

/-- `compute_layer(reference_patterns, estimated_patterns, layer=2)` -/
def layer2 (ref est : Pats) : Py (List (List Rat)) :=
  ref.mapM fun rp => est.mapM fun ep => do
    let pr ← secondLayerPR rp ep
    return fMeasure pr.1 pr.2

def threeLayerFPR (ref est : Pats) : Py (Rat × Rat × Rat) := do
  validate ref est
  if isZero ref est then return (0, 0, 0)
  let F2 ← layer2 ref est
  let p ← colMaxMean est.length F2
  let r ← rowMaxMean F2
  return (fMeasure p r, p, r)

/-! ### first-n scores -/

/-- `xs[: k]` for a Python int `k` -/
def pySliceTo {α : Type} (xs : List α) (k : Int) : List α :=
  if 0 ≤ k then xs.take k.toNat else xs.take (xs.length - (-k).toNat)

/-- `estimated_patterns[: min(len(estimated_patterns), n)]` -/
def firstN (est : Pats) (n : Int) : Pats :=
  pySliceTo est (if (est.length : Int) ≤ n then (est.length : Int) else n)

def defaultN : Int := 5

def firstNThreeLayerP (ref est : Pats) (n : Int := defaultN) : Py Rat := do
  validate ref est
  if isZero ref est then return 0
  let fpr ← threeLayerFPR ref (firstN est n)
  return fpr.2.1

def firstNTargetProportionR (ref est : Pats) (n : Int := defaultN) : Py Rat := do
  validate ref est
  if isZero ref est then return 0
  let fpr ← establishmentFPR ref (firstN est n)
  return fpr.2.2

/-! ### evaluate -/

/-- `evaluate(ref, est, **kwargs)` for the keyword arguments `tol`, `thres`, `similarity_metric`, `n`
    (`none` = not passed).  `util.filter_kwargs` hands each metric only the keywords it declares.  Before the
    occurrence scores `evaluate` assigns `kwargs["thres"] = 0.5`, then `= 0.75`: the two occurrence entries use
    exactly these thresholds and a caller's `thres` is overwritten (it reaches no metric). -/
def evaluate (ref est : Pats) (tol : Option Rat) (_thres : Option Rat) (metric : Option String)
    (n : Option Int) : Py (List (String × Rat)) := do
  let s ← standardFPR ref est (tol.getD defaultTol)
  let e ← establishmentFPR ref est (metric.getD cardName)
  let o5 ← occurrenceFPR ref est (1 / 2) (metric.getD cardName)
  let o75 ← occurrenceFPR ref est (3 / 4) (metric.getD cardName)
  let t ← threeLayerFPR ref est
  let ffp ← firstNThreeLayerP ref est (n.getD defaultN)
  let fftp ← firstNTargetProportionR ref est (n.getD defaultN)
  return [("F", s.1), ("P", s.2.1), ("R", s.2.2),
          ("F_est", e.1), ("P_est", e.2.1), ("R_est", e.2.2),
          ("F_occ.5", o5.1), ("P_occ.5", o5.2.1), ("R_occ.5", o5.2.2),
          ("F_occ.75", o75.1), ("P_occ.75", o75.2.1), ("R_occ.75", o75.2.2),
          ("F_3", t.1), ("P_3", t.2.1), ("R_3", t.2.2),
          ("FFP", ffp), ("FFTP_est", fftp)]

/-! ### Layer S: the documented definitions (Collins, MIREX 2013) -/
namespace Spec

/-- maximum of a list (0 for the empty list, which the definitions never take) -/
def maxR : List Rat → Rat
  | [] => 0
  | x :: xs => maxNE x xs

def meanR (l : List Rat) : Rat := l.sum / (l.length : Rat)

/-- mean over the rows `x` of the best column: `(1/|xs|) Σ_x max_y f x y` -/
def rowMM {α β : Type} (f : α → β → Rat) (xs : List α) (ys : List β) : Rat :=
  meanR (xs.map fun x => maxR (ys.map fun y => f x y))

/-- mean over the columns `y` of the best row: `(1/|ys|) Σ_y max_x f x y` -/
def colMM {α β : Type} (f : α → β → Rat) (xs : List α) (ys : List β) : Rat :=
  meanR (ys.map fun y => maxR (xs.map fun x => f x y))

/-- cardinality score `|P ∩ Q| / max(|P|, |Q|)` -/
def card (P Q : Occ) : Rat := (interCount P Q : Rat) / ((Nat.max P.length Q.length : Nat) : Rat)

/-- establishment matrix entry: the best cardinality score over all pairs of occurrences -/
def estS (rp ep : Pat) : Rat := maxR (rp.flatMap fun p => ep.map fun q => card p q)

/-- occurrence precision / recall of one pattern pair -/
def occP (rp ep : Pat) : Rat := colMM card rp ep
def occR (rp ep : Pat) : Rat := rowMM card rp ep

/-- the relevant pattern pairs (establishment score at least `thres`), in loop order -/
def relPairs (thres : Rat) (ref est : Pats) : List (Pat × Pat) :=
  ref.flatMap fun rp => est.filterMap fun ep => if thres ≤ estS rp ep then some (rp, ep) else none

/-- entry of the occurrence matrix: the pair's score if the pair is relevant, else 0 -/
def occEntry (thres : Rat) (g : Pat → Pat → Rat) (rp ep : Pat) : Rat :=
  if thres ≤ estS rp ep then g rp ep else 0

/-- first-layer F1 of two occurrences -/
def f1 (p q : Occ) : Rat :=
  fMeasure ((interCount p q : Rat) / (p.length : Rat)) ((interCount p q : Rat) / (q.length : Rat))

/-- second-layer F1 of two patterns -/
def f2 (rp ep : Pat) : Rat := fMeasure (colMM f1 rp ep) (rowMM f1 rp ep)

def prf (p r : Rat) : Rat × Rat × Rat := (fMeasure p r, p, r)

def establishment (ref est : Pats) : Rat × Rat × Rat := prf (colMM estS ref est) (rowMM estS ref est)

def occurrence (thres : Rat) (ref est : Pats) : Rat × Rat × Rat :=
  let rel := relPairs thres ref est
  if rel.isEmpty then (0, 0, 0)
  else prf (colMM (fun a b => occEntry thres occP a.1 b.2) rel rel)
           (rowMM (fun a b => occEntry thres occR a.1 b.2) rel rel)

def threeLayer (ref est : Pats) : Rat × Rat × Rat := prf (colMM f2 ref est) (rowMM f2 ref est)

/-- `Q` is a translation of `P` up to `tol` (same length; constant difference between corresponding points) -/
def transEquiv (tol : Rat) (P Q : Occ) : Bool :=
  decide (P.length = Q.length) &&
    (decide (P.length = 1) || (diffRows P Q).all fun x => decide (absR x.1 < tol) && decide (absR x.2 < tol))

/-- number of reference prototypes that are a translation of some estimated prototype -/
def standardK (tol : Rat) (ref est : Pats) : Nat :=
  (ref.filter fun rp => est.any fun ep => transEquiv tol (rp.headD []) (ep.headD [])).length

def standard (tol : Rat) (ref est : Pats) : Rat × Rat × Rat :=
  prf ((standardK tol ref est : Rat) / (est.length : Rat)) ((standardK tol ref est : Rat) / (ref.length : Rat))

end Spec

/-! ### protocol glue -/

def toPoint? : List Rat → Option Point
  | [a, b] => some (a, b)
  | _ => none

abbrev RawPats := List (List (List (List Rat)))

def parseRaw? (v : Val) : Option RawPats := do
  (← v.asList?).mapM fun pat => do
    (← pat.asList?).mapM fun occ => do
      (← occ.asList?).mapM fun pt => pt.asRats?

/-- `none` = some point is not a 2-tuple (what `validate` rejects with `ValueError`) -/
def toPats? (r : RawPats) : Option Pats :=
  r.mapM fun pat => pat.mapM fun occ => occ.mapM toPoint?

def parseOcc? (v : Val) : Option Occ := do
  (← (← v.asList?).mapM fun pt => pt.asRats?).mapM toPoint?

def parsePat? (v : Val) : Option Pat := do (← v.asList?).mapM parseOcc?

def ofTriple (t : Rat × Rat × Rat) : Val := .list [.rat t.1, .rat t.2.1, .rat t.2.2]

def ofMatrix (m : List (List Rat)) : Val := .list (m.map Val.ofRats)

/-- run a metric on raw input: malformed points are `validate`'s `ValueError` -/
def withPats (ref est : Val) (k : Pats → Pats → Py Val) : Option (Py Val) := do
  let r ← parseRaw? ref
  let e ← parseRaw? est
  match toPats? r, toPats? e with
  | some r, some e => some (k r e)
  | _, _ => some (.error .valueError)

def asOptStr? : Val → Option (Option String)
  | .none => some none | .str s => some (some s) | _ => none
def asOptInt? : Val → Option (Option Int)
  | .none => some none | v => (v.asInt?).map some

def handler : Handler := fun fn args =>
  match fn, args with
  | "pattern._n_onset_midi", [p] => do
      let r ← parseRaw? p
      some (.ok (Val.ofNat ((r.map fun pat => (pat.map List.length).sum).sum)))
  | "pattern.validate", [r, e] => withPats r e fun r e => do validate r e; return .none
  | "pattern._occurrence_intersection", [p, q] => do
      let p ← parseOcc? p; let q ← parseOcc? q
      some (.ok (.list (((inter p q).mergeSort pointLe).map fun x => .list [.rat x.1, .rat x.2])))
  | "pattern._compute_score_matrix", [p, q, m] => do
      let p ← parsePat? p; let q ← parsePat? q; let m ← m.asStr?
      some ((scoreMatrix p q m).map ofMatrix)
  | "pattern.standard_FPR", [r, e, tol] => do
      let tol ← tol.asOptRat?
      withPats r e fun r e => (standardFPR r e (tol.getD defaultTol)).map ofTriple
  | "pattern.establishment_FPR", [r, e, m] => do
      let m ← asOptStr? m
      withPats r e fun r e => (establishmentFPR r e (m.getD cardName)).map ofTriple
  | "pattern.occurrence_FPR", [r, e, th, m] => do
      let th ← th.asOptRat?; let m ← asOptStr? m
      withPats r e fun r e => (occurrenceFPR r e (th.getD defaultThres) (m.getD cardName)).map ofTriple
  | "pattern.three_layer_FPR", [r, e] => withPats r e fun r e => (threeLayerFPR r e).map ofTriple
  | "pattern.first_n_three_layer_P", [r, e, n] => do
      let n ← asOptInt? n
      withPats r e fun r e => (firstNThreeLayerP r e (n.getD defaultN)).map .rat
  | "pattern.first_n_target_proportion_R", [r, e, n] => do
      let n ← asOptInt? n
      withPats r e fun r e => (firstNTargetProportionR r e (n.getD defaultN)).map .rat
  | "pattern.evaluate", [r, e, tol, th, m, n] => do
      let tol ← tol.asOptRat?; let th ← th.asOptRat?; let m ← asOptStr? m; let n ← asOptInt? n
      withPats r e fun r e =>
        (evaluate r e tol th m n).map fun kv => .list (kv.map fun (k, v) => .list [.str k, .rat v])
  -- the documented definitions, executable (used to cross-check the C04 statements on concrete inputs)
  | "pattern.spec.establishment", [r, e] => withPats r e fun r e => .ok (ofTriple (Spec.establishment r e))
  | "pattern.spec.occurrence", [r, e, th] => do
      let th ← th.asRat?
      withPats r e fun r e => .ok (ofTriple (Spec.occurrence th r e))
  | "pattern.spec.three_layer", [r, e] => withPats r e fun r e => .ok (ofTriple (Spec.threeLayer r e))
  | "pattern.spec.standard", [r, e, tol] => do
      let tol ← tol.asRat?
      withPats r e fun r e => .ok (ofTriple (Spec.standard tol r e))
  | _, _ => none

end Pattern
end Mir
