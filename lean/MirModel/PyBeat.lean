import MirModel.Beat
import MirModel.PyMel
/-
  MirModel.PyBeat — run-time library of the translator part `beat` (harness/translate/beat.py): the NumPy operations the
  definitions regenerated from `mir_eval/beat.py` (lean/MirGen/Beat.lean) call, beyond those of `Mir.PyMel` / `Mir.PyM`.
  These definitions ARE the translator's semantic assumptions; each is exercised against NumPy by suite `gen_beat`
  (driver ops `pybeat.*`).  No Mathlib (linked into the native driver).

  * `arange start stop step`  — `np.arange(start, stop, step)` for a float `step > 0` (the translator accepts a positive
    literal step only; `np.arange(start, stop)` is read with step 1): `ceil((stop - start) / step)` elements
    `start + i * step`.  Exact rationals: binary64 rounding of the element count is outside the model (the translated
    call sites use multiples of 1/2).
  * `interp xs xp fp`         — `np.interp(xs, xp, fp)` for a NON-DECREASING `xp` (NumPy does not check this and its result
    is unspecified otherwise): `ValueError` when `xp` and `fp` differ in length, or when `xp` is empty and `xs` is not;
    otherwise per point `x`: `fp[0]` left of / at `xp[0]`, `fp[-1]` right of / at `xp[-1]`, `fp[j]` at a sample point
    (the LAST of equal sample points), and `fp[j] + (x - xp[j]) * ((fp[j+1] - fp[j]) / (xp[j+1] - xp[j]))` strictly
    between two sample points.
  * `step2 l k`               — the slice `l[k::2]` for a literal `k ≥ 0` (`l[::2]` is `k = 0`): every other element,
    starting at index `k` (the hand model's `everyOther` of `l.drop k`).
-/
namespace Mir
namespace PyBeat

/-- `np.arange(start, stop, step)`, `step > 0` -/
def arange (start stop step : Rat) : List Rat :=
  (List.range (((stop - start) / step).ceil.toNat)).map fun i => start + ((i : Nat) : Rat) * step

/-- `np.interp` at one point, sample points `xp` non-decreasing (`0` for an empty `fp`: not reached from `interp`) -/
def interp1 (x : Rat) : List Rat → List Rat → Rat
  | x0 :: x1 :: xs, f0 :: f1 :: fs =>
      if x < x1 then (if x ≤ x0 then f0 else f0 + (x - x0) * ((f1 - f0) / (x1 - x0)))
      else interp1 x (x1 :: xs) (f1 :: fs)
  | _, f0 :: _ => f0
  | _, [] => 0

/-- `np.interp(xs, xp, fp)` -/
def interp (xs xp fp : List Rat) : Py (List Rat) :=
  if xp.length ≠ fp.length then .error .valueError
  else if xp.length = 0 then (if xs.length = 0 then .ok [] else .error .valueError)
  else .ok (xs.map fun x => interp1 x xp fp)

/-- `l[k::2]` -/
def step2 {α : Type} (l : List α) (k : Nat) : List α := Beat.everyOther (l.drop k)

def handler : Handler := fun fn args =>
  match fn, args with
  | "pybeat.arange", [a, b, c] => do
      let a ← a.asRat?; let b ← b.asRat?; let c ← c.asRat?
      some (.ok (Val.ofRats (arange a b c)))
  | "pybeat.interp", [a, b, c] => do
      let a ← a.asRats?; let b ← b.asRats?; let c ← c.asRats?
      some ((interp a b c).map Val.ofRats)
  | "pybeat.step2", [a, k] => do
      let a ← a.asRats?; let k ← k.asNat?
      some (.ok (Val.ofRats (step2 a k)))
  | _, _ => none

end PyBeat
end Mir
