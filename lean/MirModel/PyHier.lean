import MirModel.Basic
import MirModel.Hierarchy
/-
  MirModel.PyHier — the run-time library of the translator part `hierarchy` (harness/translate/hierarchy.py ->
  MirGen/Hierarchy.lean).  Every definition here IS a semantic assumption of that translator: it states how one
  NumPy / SciPy / builtin operation that `mir_eval/hierarchy.py` uses is read.  Each one is exercised against the real
  operation by suite `gen_hierarchy` of C17 (through the functions that call it).  No imports outside core Lean + the
  hand model (whose helpers are reused where the reading is shared).

  Value representations
  * a 1-D integer array / a Python list of ints            `List Nat`   (relevance levels, counts, positions: never negative)
  * `slice(a, b)` with natural bounds                      `Nat × Nat`  (`slice(b)` is `(0, b)`)
  * `slice(a, b)` with integer bounds (frame indices)      `Int × Int`  (a negative bound counts from the end, as Python does)
  * `collections.defaultdict(lambda: d)` keyed by levels   association list `List (Nat × V)`, newest binding first; the
                                                           default `d` is supplied at every lookup (the translator knows it)
  * a scipy.sparse matrix of shape (n, n), dtype uint8     dense `Hierarchy.Mat` with n rows (the translated functions only
                                                           build and read SQUARE matrices; at most 255 levels)
  * an `(n, 2)` float array of intervals                   `List (Rat × Rat)`; after `.astype(int)`: `List (Int × Int)`
-/
namespace Mir
namespace PyH
open Mir.Hierarchy

/-! ## sequences -/

/-- `len(x)` -/
def len {α : Type} (xs : List α) : Nat := xs.length

/-- `x[i]` for a natural `i`: `IndexError` when out of range -/
def getItem {α : Type} (xs : List α) (i : Nat) : Py α :=
  match xs[i]? with
  | some v => .ok v
  | none => .error .indexError

/-- `x[i:]` (natural `i`) -/
def sliceFrom {α : Type} (xs : List α) (i : Nat) : List α := xs.drop i

/-- `x[:i]` (natural `i`) -/
def sliceTo {α : Type} (xs : List α) (i : Nat) : List α := xs.take i

/-- `x[:-1]` -/
def dropLast1 {α : Type} (xs : List α) : List α := xs.dropLast

/-- `np.concatenate((a, b))` of 1-D arrays -/
def concat {α : Type} (a b : List α) : List α := a ++ b

/-- `np.sum(x)` / builtin `sum(x)` of naturals -/
def npSum (xs : List Nat) : Nat := xs.sum

/-- `np.unique(x, return_counts=True)`: ascending distinct values and their multiplicities (the hand model's reading) -/
def uniqueCounts (x : List Nat) : List Nat × List Nat :=
  ((Hierarchy.uniqueCounts x).map (·.1), (Hierarchy.uniqueCounts x).map (·.2))

/-- `np.unique(x, return_index=True, return_counts=True)`: values, index of the FIRST occurrence of each, counts -/
def uniqueIndexCounts (x : List Nat) : List Nat × List Nat × List Nat :=
  ((Hierarchy.uniqueCounts x).map (·.1),
   (Hierarchy.uniqueCounts x).map (fun p => x.idxOf p.1),
   (Hierarchy.uniqueCounts x).map (·.2))

/-- `np.argsort(x)`: the positions grouped by ascending value, in their original order inside one value (the stable
    sorting permutation).  NumPy's default kind is not stable for long arrays; the translated function only uses the
    permutation to gather the estimate scores of one reference level, and `_count_inversions` depends on them as a
    multiset only (C17 `countInversions_spec`). -/
def argsort (x : List Nat) : List Nat :=
  ((Hierarchy.uniqueCounts x).map (·.1)).flatMap fun l => ((x.zipIdx).filter fun p => p.1 == l).map (·.2)

/-- fancy indexing `x[idx]` with an index array: `IndexError` at the first index out of range -/
def take (x : List Nat) (idx : List Nat) : Py (List Nat) := idx.mapM (getItem x)

/-- `itertools.combinations(xs, 2)` (the hand model's reading) -/
def combinations2 (xs : List Nat) : List (Nat × Nat) := Hierarchy.combos2 xs

/-- `itertools.tee(it)`: two independent iterators over the same items -/
def tee {α : Type} (xs : List α) : List α × List α := (xs, xs)

/-- `zip(a, b, c, d)`: stops at the shortest -/
def zip4 {α β γ δ : Type} (a : List α) (b : List β) (c : List γ) (d : List δ) : List (α × β × γ × δ) :=
  a.zip (b.zip (c.zip d))

/-! ## slices and default dictionaries -/

abbrev Slice := Nat × Nat

/-- `slice(stop)` -/
def slice1 (stop : Nat) : Slice := (0, stop)

/-- `slice(start, stop)` (natural bounds) -/
def slice2 (start stop : Nat) : Slice := (start, stop)

/-- `x[s]` for a slice object with natural bounds (clamped, never raises) -/
def getSlice {α : Type} (xs : List α) (s : Slice) : List α := Hierarchy.pySlice xs s.1 s.2

abbrev DDict (V : Type) := List (Nat × V)

/-- `d[k] = v` -/
def dictSet {V : Type} (d : DDict V) (k : Nat) (v : V) : DDict V := (k, v) :: d

/-- `d[k]` of a `defaultdict` whose factory returns `dflt` (the insertion of the default that Python performs on a
    missing key is not modelled: the translator admits such a dict only where it is never iterated or measured) -/
def dictGetD {V : Type} (d : DDict V) (k : Nat) (dflt : V) : V :=
  match d.find? (fun p => p.1 == k) with
  | some p => p.2
  | none => dflt

/-! ## numbers -/

/-- Python `a / b` on numbers: `ZeroDivisionError` on a zero divisor.  (Where the numerator may be a NumPy integer
    NumPy would return inf / nan with a RuntimeWarning instead; `Props/C17_Gen` proves the divisor non-zero wherever the
    translated code divides, so the difference is unreachable.) -/
def divF (a b : Rat) : Py Rat := if b = 0 then .error .zeroDivision else .ok (a / b)

/-- `int(x)` of a finite float: truncation toward zero -/
def pyInt (q : Rat) : Int := if 0 ≤ q then q.floor else -((-q).floor)

/-- `np.mod(t, m)` for `m > 0` (declared precondition of every function that reaches it): `t − m·⌊t / m⌋` -/
def npMod (t m : Rat) : Rat := t - m * ((t / m).floor : Rat)

/-! ## square sparse matrices (dense rows) -/

/-- `m.shape` of an (n, n) matrix -/
def shape (m : Mat) : Nat × Nat := (m.length, m.length)

/-- `m[q, s]` (row `q`, column slice `s`) followed by `.toarray().ravel()`: a 1-D array; `IndexError` when the row is
    out of range.  (`.toarray()` and `.ravel()` do not change the representation.) -/
def rowSlice (m : Mat) (q : Nat) (s : Slice) : Py (List Nat) :=
  match m[q]? with
  | some row => .ok (getSlice row s)
  | none => .error .indexError

/-- `scipy.sparse.lil_matrix((n, n), dtype=np.uint8)`: all zeros; a negative dimension is a `ValueError` -/
def lilZeros (n : Int) : Py Mat := if n < 0 then .error .valueError else .ok (Hierarchy.zeros n.toNat)

abbrev ISlice := Int × Int

/-- `m[r, c] = v` with two slices of integer bounds on an (n, n) lil matrix: bounds are normalised as Python does
    (negative counts from the end, everything clamped to the dimension), an empty range writes nothing -/
def setBlock (m : Mat) (r c : ISlice) (v : Nat) : Mat :=
  Hierarchy.setBlock m (normIdx r.1 m.length) (normIdx r.2 m.length) (normIdx c.1 m.length) (normIdx c.2 m.length) v

/-! ## interval arrays -/

/-- `list(itertools.chain(*list(itertools.chain(*h))))` for a list of `(n, 2)` arrays: all boundaries, row-major -/
def chain2 (h : Hier) : List Rat := Hierarchy.boundaries h

/-- builtin `min(xs)`: `ValueError` on an empty sequence -/
def pyMin (xs : List Rat) : Py Rat :=
  match xs.min? with
  | some v => .ok v
  | none => .error .valueError

/-- builtin `max(xs)` -/
def pyMax (xs : List Rat) : Py Rat :=
  match xs.max? with
  | some v => .ok v
  | none => .error .valueError

/-- elementwise map over an `(n, 2)` array -/
def mapIvals {α β : Type} (f : α → β) (xs : List (α × α)) : List (β × β) := xs.map fun p => (f p.1, f p.2)

/-- elementwise `a - b` of two `(n, 2)` arrays of the same shape -/
def subIvals (a b : List (Rat × Rat)) : List (Rat × Rat) := List.zipWith (fun p q => (p.1 - q.1, p.2 - q.2)) a b

/-- `util.index_labels(labels)[0]` (extern): equal indices exactly for labels equal after `str.lower` (ASCII); the
    index VALUES are not modelled — the translated code only compares them with each other (`np.equal.outer`) -/
def labelKeys (labels : List String) : List String := labels.map String.toLower

/-- `zip(*np.where(np.triu(np.equal.outer(e, e))))`: the pairs `(i, j)`, `i ≤ j`, with `e[i] == e[j]`, row-major -/
def triuAgree (e : List String) : List (Nat × Nat) :=
  let ls := e.zipIdx
  ls.flatMap fun x => (ls.filter fun y => decide (x.2 ≤ y.2) && x.1 == y.1).map fun y => (x.2, y.2)

/-! ## the public functions: externs and the checked cast of frame counts -/

/-- `validate_hier_intervals(h)` (EXTERN, not translated): bound to the hand model's `validateHier` (`IndexError` for no
    levels, the `ValueError`s of `segment.validate_structure`; its warnings are not modelled) -/
def validate_hier_intervals (h : Hier) : Py Unit := Hierarchy.validateHier h

/-- an `int(...)` frame count handed to a kernel whose parameter is a natural number: a negative value is outside the kernel's
    modelled domain and is the error `other`; `Props/C17_Gen` proves this unreachable (window ≥ frame_size > 0 there) -/
def natOfIntOpt : Option Int → Py (Option Nat)
  | none => .ok none
  | some k => if k < 0 then .error .other else .ok (some k.toNat)

/-! ## protocol glue for the generated handler -/

def asMat? (v : Val) : Option Mat := Hierarchy.asMat? v
def ofMat (m : Mat) : Val := Hierarchy.ofMat m
def asHier? (v : Val) : Option Hier := Hierarchy.asHier? v
def asLabels? (v : Val) : Option (List (List String)) := Hierarchy.asLabels? v
def asOptNat? : Val → Option (Option Nat)
  | .none => some none
  | v => v.asNat?.map some
def isSquare (m : Mat) : Bool := Hierarchy.isSquare m

end PyH
end Mir
