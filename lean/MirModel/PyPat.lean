import MirModel.Basic
import MirModel.Scores
import MirModel.Pattern
/-
  MirModel.PyPat — the run-time library of the definitions regenerated from `mir_eval/pattern.py`
  (`harness/translate/pattern.py` -> `lean/MirGen/Pattern.lean`).  These definitions ARE the translator's
  semantic assumptions: each one is the reading of one Python / NumPy construct.  Core Lean only.

  Data.  A pattern list is what the code receives: a list of patterns, a pattern a list of occurrences, an
  occurrence a list of points, a point a list of numbers (`Pt = List Rat`; `validate` is what makes it a pair).
  Floats are exact `Rat`.

  Reading of each primitive (exercised against Python / NumPy by suite `gen_pattern`, ops `pypat.*`):
  * `tuple(x)`                      `tuple`   (identity: a point is compared by value)
  * `set([...])`                    `setOf`   duplicate-free list (order is not observable: only `len` / `&` read it)
  * `a & b` on sets                 `setInter`
  * `x[0]`                          `getItem0`  (`IndexError` on an empty list)
  * `np.asarray(occ)`               `asarray` (identity on a list of rows; an empty occurrence is the empty array)
  * `P - Q` on (n, d) arrays        `msub`    elementwise on EQUAL shapes; unequal shapes (NumPy would broadcast or
                                              raise) are outside the modelled domain: `PyErr.other`
  * `np.diff(m, axis=0)`            `diff0`   `np.abs(m)` `mabs`   `np.max(m)` `npMaxArr` (`ValueError` on size 0)
  * `np.zeros((len(X), len(Y)))` followed by the nested loops that assign every cell `M[i, j]` once, in row-major
    order                           `fill2 X Y f`  (a `Mat` that remembers its shape; the first exception wins)
    (`fill2T`: the same with the OUTER loop over the columns)
  * `np.max(M)` `npMaxMat`; `np.max(M, axis=0)` / `axis=1` `maxAxis0` / `maxAxis1` (`ValueError` when the reduced
    axis is empty and the result is not); `np.mean(v)` `npMean` = the hand model's `meanPy` (nan of an empty array
    is refused: `PyErr.other`)
  * `O = np.zeros((len X, len Y, 2)); rel = np.empty((0, 2), dtype=int)` + nested loops whose body ends in
    `if c: O[i, j, 0] = a; O[i, j, 1] = b; rel = np.vstack((rel, [i, j]))`   `fillOpt X Y f` (cells stored or left
    at zero, and the list of stored index pairs in loop order); `O[:, :, k]` `plane0/1`; `rel[:, k]` `relCol0/1`;
    `M[np.ix_(rows, cols)]` `ix` (rows and columns repeated as listed; `IndexError` outside)
  * `int / float(...)`              `divF`    Python float division: `ZeroDivisionError` on a zero divisor
  * `for x in xs:` with `break` / `continue` and loop-carried variables `forLoop xs s body`
  * `min(a, b)` on ints             `minInt`; `xs[:k]` = the hand model's `pySliceTo`
-/
namespace Mir
namespace PyPat
open Mir.Pattern

abbrev Pt := List Rat
abbrev Occ := List Pt
abbrev Pat := List Occ
abbrev Pats := List Pat

def tuple (x : Pt) : Pt := x

/-- `set(xs)` as a duplicate-free list -/
def setOf {α : Type} [DecidableEq α] : List α → List α
  | [] => []
  | p :: ps => if p ∈ ps then setOf ps else p :: setOf ps

/-- `a & b` -/
def setInter {α : Type} [DecidableEq α] (a b : List α) : List α := a.filter fun p => decide (p ∈ b)

/-- `xs[0]` -/
def getItem0 {α : Type} (xs : List α) : Py α :=
  match xs with
  | [] => .error .indexError
  | x :: _ => .ok x

def asarray (o : Occ) : List (List Rat) := o

def sameShape (P Q : List (List Rat)) : Bool :=
  P.length == Q.length && (List.zipWith (fun (p q : List Rat) => p.length == q.length) P Q).all id

/-- `P - Q` on arrays of one shape -/
def msub (P Q : List (List Rat)) : Py (List (List Rat)) :=
  if sameShape P Q then .ok (List.zipWith (fun p q => List.zipWith (fun (a b : Rat) => a - b) p q) P Q)
  else .error .other

/-- `np.diff(m, axis=0)` -/
def diff0 (m : List (List Rat)) : List (List Rat) :=
  List.zipWith (fun a b => List.zipWith (fun (x y : Rat) => y - x) a b) m m.tail

/-- `np.abs(m)` -/
def mabs (m : List (List Rat)) : List (List Rat) := m.map fun r => r.map absR

/-- `np.max(m)` of an array given by its rows -/
def npMaxArr (m : List (List Rat)) : Py Rat := maxL m.flatten

/-- `np.min(m)` -/
def npMinArr (m : List (List Rat)) : Py Rat := (maxL (m.flatten.map fun x => -x)).map fun x => -x

structure Mat where
  nrows : Nat
  ncols : Nat
  data : List (List Rat)

/-- `M = np.zeros((len(xs), len(ys)))`, then `M[i, j] = f xs[i] ys[j]` for `i` (outer) and `j` (inner) -/
def fill2 {α β : Type} (xs : List α) (ys : List β) (f : α → β → Py Rat) : Py Mat := do
  let d ← xs.mapM fun x => ys.mapM fun y => f x y
  pure ⟨xs.length, ys.length, d⟩

/-- the same with the outer loop over the columns `ys` -/
def fill2T {α β : Type} (xs : List α) (ys : List β) (f : α → β → Py Rat) : Py Mat := do
  let d ← ys.mapM fun y => xs.mapM fun x => f x y
  pure ⟨xs.length, ys.length, transpose xs.length d⟩

def npMaxMat (m : Mat) : Py Rat := maxL m.data.flatten
def maxAxis0 (m : Mat) : Py (List Rat) := (transpose m.ncols m.data).mapM maxL
def maxAxis1 (m : Mat) : Py (List Rat) := m.data.mapM maxL
def npMean (v : List Rat) : Py Rat := meanPy v

/-- `O = np.zeros((len(xs), len(ys), 2))` with the cells the loops stored (`none` = left at its zeros) -/
structure OMat where
  nrows : Nat
  ncols : Nat
  data : List (List (Option (Rat × Rat)))

/-- `O = np.zeros((len(xs), len(ys), 2)); rel = np.empty((0, 2), dtype=int)`, then for `i` (outer), `j` (inner):
    `if c: O[i, j, 0] = a; O[i, j, 1] = b; rel = np.vstack((rel, [i, j]))` — `f` returns `some (a, b)` when the
    branch is taken.  The index list is the list of the stored cells in loop order (the hand model's `relIdx`). -/
def fillOpt {α β : Type} (xs : List α) (ys : List β) (f : α → β → Py (Option (Rat × Rat))) :
    Py (OMat × List (Nat × Nat)) := do
  let d ← xs.mapM fun x => ys.mapM fun y => f x y
  pure (⟨xs.length, ys.length, d⟩, relIdx d)

/-- `O[:, :, 0]`, `O[:, :, 1]` -/
def plane0 (O : OMat) : Mat := ⟨O.nrows, O.ncols, O.data.map fun r => r.map fun c => (c.getD (0, 0)).1⟩
def plane1 (O : OMat) : Mat := ⟨O.nrows, O.ncols, O.data.map fun r => r.map fun c => (c.getD (0, 0)).2⟩

/-- `rel[:, 0]`, `rel[:, 1]` -/
def relCol0 (rel : List (Nat × Nat)) : List Nat := rel.map fun a => a.1
def relCol1 (rel : List (Nat × Nat)) : List Nat := rel.map fun a => a.2

def getCell (d : List (List Rat)) (i j : Nat) : Py Rat :=
  match d[i]? with
  | none => .error .indexError
  | some row =>
    match row[j]? with
    | none => .error .indexError
    | some v => .ok v

/-- `M[np.ix_(rows, cols)]`: the matrix of the cells `M[i, j]`, `i` in `rows`, `j` in `cols` (`IndexError` outside) -/
def ix (M : Mat) (rows cols : List Nat) : Py Mat := do
  let d ← rows.mapM fun i => cols.mapM fun j => getCell M.data i j
  pure ⟨rows.length, cols.length, d⟩

/-- Python `a / b` with a float divisor -/
def divF (a b : Rat) : Py Rat := if b = 0 then .error .zeroDivision else .ok (a / b)

def minInt (a b : Int) : Int := if b < a then b else a

inductive Step (σ : Type) where
  | next (s : σ)
  | brk (s : σ)

/-- `for x in xs: body` with loop-carried state `s`; the body says whether the loop goes on -/
def forLoop {α σ : Type} (xs : List α) (s : σ) (body : α → σ → Py (Step σ)) : Py σ :=
  match xs with
  | [] => .ok s
  | x :: rest => do
      match ← body x s with
      | .next s' => forLoop rest s' body
      | .brk s' => pure s'

/-! ### protocol glue -/

def asPats? (v : Val) : Option Pats := do
  (← v.asList?).mapM fun pat => do
    (← pat.asList?).mapM fun occ => do
      (← occ.asList?).mapM Val.asRats?

def asPat? (v : Val) : Option Pat := do
  (← v.asList?).mapM fun occ => do
    (← occ.asList?).mapM Val.asRats?

def asOcc? (v : Val) : Option Occ := do (← v.asList?).mapM Val.asRats?

def ratsLe : List Rat → List Rat → Bool
  | [], _ => true
  | _ :: _, [] => false
  | a :: as, b :: bs => decide (a < b) || (decide (a = b) && ratsLe as bs)

def ofSet (s : List Pt) : Val := .list ((s.mergeSort ratsLe).map Val.ofRats)
def ofMat (m : Mat) : Val := .list (m.data.map Val.ofRats)
def ofTriple (t : Rat × Rat × Rat) : Val := .list [.rat t.1, .rat t.2.1, .rat t.2.2]
def ofPair (t : Rat × Rat) : Val := .list [.rat t.1, .rat t.2]
def asOptStr? : Val → Option (Option String)
  | .none => some none | .str s => some (some s) | _ => none
def asOptInt? : Val → Option (Option Int)
  | .none => some none | v => (v.asInt?).map some

def asMat? (v : Val) : Option (List (List Rat)) := do (← v.asList?).mapM Val.asRats?

/-- the primitives themselves (suite `gen_pattern` compares them with NumPy) -/
def handler : Handler := fun fn args =>
  match fn, args with
  | "pypat.msub", [p, q] => do some ((msub (← asMat? p) (← asMat? q)).map fun m => .list (m.map Val.ofRats))
  | "pypat.diffabsmax", [p] => do some ((npMaxArr (mabs (diff0 (← asMat? p)))).map .rat)
  | "pypat.setlen", [p] => do some (.ok (Val.ofNat (setOf (← asOcc? p)).length))
  | "pypat.inter", [p, q] => do some (.ok (ofSet (setInter (setOf (← asOcc? p)) (setOf (← asOcc? q)))))
  | "pypat.maxaxis0", [r, c, p] => do
      let d ← asMat? p
      some ((maxAxis0 ⟨(← r.asNat?), (← c.asNat?), d⟩).map Val.ofRats)
  | "pypat.maxaxis1", [r, c, p] => do
      let d ← asMat? p
      some ((maxAxis1 ⟨(← r.asNat?), (← c.asNat?), d⟩).map Val.ofRats)
  | "pypat.ix", [p, r, c] => do
      let d ← asMat? p
      let r ← (← r.asList?).mapM Val.asNat?
      let c ← (← c.asList?).mapM Val.asNat?
      some ((ix ⟨d.length, 0, d⟩ r c).map ofMat)
  | "pypat.divF", [a, b] => do some ((divF (← a.asRat?) (← b.asRat?)).map .rat)
  | "pypat.minInt", [a, b] => do some (.ok (Val.ofInt (minInt (← a.asInt?) (← b.asInt?))))
  | "pypat.sliceTo", [p, k] => do some (.ok (Val.ofRats (pySliceTo (← p.asRats?) (← k.asInt?))))
  | _, _ => none

end PyPat
end Mir
