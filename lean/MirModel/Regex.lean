/-
  MirModel.Regex — regular expressions as Python's `re` parses them (the subset `harness/translate/regex.py`
  accepts), and a total, executable matcher.

  * `Regex` is what `re._parser.parse` produces for a pattern without back-references, look-around,
    conditional groups or flags: literals, character classes (lists of inclusive code-point ranges, possibly
    negated), `.`, concatenation, alternation, `*`, bounded repetition `{lo,hi}` (`?` is `{0,1}`; `{n,}` is emitted as
    `{n,n}` followed by `*`), and the anchors `^` / `\A` (`bos`: only at position 0 — no MULTILINE),
    `$` (`eosNl`: at the end of the string OR just before a final newline) and `\Z` (`eos`: only at the very end).
    Capturing and non-capturing groups, greedy and lazy quantifiers have the same language; the translator drops
    the distinction (it affects which match is reported, never whether there is one).
  * `matchPrefix r s` = "Python's `re.compile(p).match(s)` is not None": SOME prefix of `s` is matched by `r`, where
    the anchors look at the WHOLE string (what is to the left of the current position, what remains to its right).
    `fullMatch r s` = `fullmatch`.
  * The matcher computes, for a position, the duplicate-free list of ALL positions where a match of `r` can end
    (`ends`); repetition is a level-by-level closure with the length of the remaining input as fuel (an iteration
    that consumes nothing never reaches a new position, so `length` levels are enough).  No back-tracking, no
    exponential blow-up: every intermediate list has at most 2·(length+1) entries.
    `MirProofs/Lemmas/Regex.lean` proves `ends` correct against the denotational semantics `Matches`, for every
    regex and every string.

  No imports: this file is linked into the native driver.
-/
namespace Mir.Rx

inductive Regex where
  | eps
  | lit (c : Char)
  | cls (neg : Bool) (rs : List (Char × Char))
  | any
  | seq (a b : Regex)
  | alt (a b : Regex)
  | star (a : Regex)
  | rep (a : Regex) (lo hi : Nat)
  | bos
  | eosNl
  | eos
  deriving Repr, DecidableEq, Inhabited

namespace Regex

/-- a sequence of items (`re._parser.SubPattern`), nested to the right; the empty sequence is `eps` -/
def cat : List Regex → Regex
  | [] => .eps
  | [r] => r
  | r :: r' :: rs => .seq r (cat (r' :: rs))

/-- the empty language (a class without members) -/
def nothing : Regex := .cls false []

/-- a BRANCH, nested to the right -/
def alts : List Regex → Regex
  | [] => nothing
  | [r] => r
  | r :: r' :: rs => .alt r (alts (r' :: rs))

/-- a literal string -/
def word (cs : List Char) : Regex := cat (cs.map .lit)

/-- `r?` -/
def opt (r : Regex) : Regex := .rep r 0 1

/-- every `\Z` replaced by `$` (used to state the repaired trailing-newline defect) -/
def dollarize : Regex → Regex
  | .seq a b => .seq (dollarize a) (dollarize b)
  | .alt a b => .alt (dollarize a) (dollarize b)
  | .star a => .star (dollarize a)
  | .rep a lo hi => .rep (dollarize a) lo hi
  | .eos => .eosNl
  | r => r

end Regex

/-- the method called on the compiled pattern -/
inductive Method where
  | matchStart      -- `pattern.match(s)`: anchored at position 0 only
  | fullMatch       -- `pattern.fullmatch(s)`: anchored at both ends
  deriving Repr, DecidableEq, Inhabited

/-- membership in a character class: some range contains `c`, xor negation -/
def inClass (neg : Bool) (rs : List (Char × Char)) (c : Char) : Bool :=
  (rs.any fun r => decide (r.1 ≤ c) && decide (c ≤ r.2)) != neg

/-- a position in the subject string: are we at index 0, what remains to the right, and how long that is
    (`len` is carried along only to make the comparison of two positions cheap; the matcher never branches on it) -/
structure Pos where
  atStart : Bool
  rest : List Char
  len : Nat
  deriving Repr

def Pos.same (a b : Pos) : Bool := a.len == b.len && a.atStart == b.atStart && a.rest == b.rest

def dedup : List Pos → List Pos
  | [] => []
  | p :: ps => if ps.any p.same then dedup ps else p :: dedup ps

/-- consume one character satisfying `ok` -/
def stepChar (ok : Char → Bool) (p : Pos) : List Pos :=
  match p.rest with
  | [] => []
  | c :: cs => if ok c then [⟨false, cs, p.len - 1⟩] else []

/-- positions reachable from the frontier `fr` by exactly `n` applications of `step` -/
def exactly (step : Pos → List Pos) : Nat → List Pos → List Pos
  | 0, fr => fr
  | n + 1, fr => exactly step n (dedup (fr.flatMap step))

/-- positions reachable from the frontier `fr` by at most `n` applications of `step` -/
def upTo (step : Pos → List Pos) : Nat → List Pos → List Pos
  | 0, fr => fr
  | n + 1, fr => if fr.isEmpty then [] else fr ++ upTo step n (dedup (fr.flatMap step))

/-- all positions at which a match of the regex that starts at `p` can end -/
def ends : Regex → Pos → List Pos
  | .eps, p => [p]
  | .lit c, p => stepChar (fun x => x == c) p
  | .cls neg rs, p => stepChar (inClass neg rs) p
  | .any, p => stepChar (fun x => x != '\n') p
  | .seq a b, p => dedup ((ends a p).flatMap (ends b))
  | .alt a b, p => dedup (ends a p ++ ends b p)
  | .star a, p => dedup (upTo (ends a) p.rest.length [p])
  | .rep a lo hi, p => if lo ≤ hi then dedup (upTo (ends a) (hi - lo) (exactly (ends a) lo [p])) else []
  | .bos, p => if p.atStart then [p] else []
  | .eosNl, p => if p.rest.isEmpty || p.rest == ['\n'] then [p] else []
  | .eos, p => if p.rest.isEmpty then [p] else []

/-- the position before the first character of `s` -/
def Pos.start (s : List Char) : Pos := ⟨true, s, s.length⟩

/-- `re.compile(p).match(s) is not None` -/
def matchPrefix (r : Regex) (s : List Char) : Bool := !(ends r (Pos.start s)).isEmpty

/-- `re.compile(p).fullmatch(s) is not None` -/
def fullMatch (r : Regex) (s : List Char) : Bool := (ends r (Pos.start s)).any fun q => q.rest.isEmpty

def accepts : Method → Regex → List Char → Bool
  | .matchStart, r, s => matchPrefix r s
  | .fullMatch, r, s => fullMatch r s

end Mir.Rx
