import MirModel.Basic
/-
  MirModel.Scores — `util.f_measure` and the precision/recall/F triple computed from a hit count.
-/
namespace Mir

/-- `util.f_measure(precision, recall, beta)`: the `p = 0 ∧ r = 0` guard, then the quotient.
    (With p, r ≥ 0 not both 0 and beta ≠ 0 or r ≠ 0 the denominator is positive.) -/
def fMeasure (p r : Rat) (beta : Rat := 1) : Rat :=
  if p = 0 ∧ r = 0 then 0
  else (1 + beta * beta) * p * r / (beta * beta * p + r)

/-- precision, recall, F from `k` hits among `nRef` reference and `nEst` estimated items
    (callers return zeros before this when a side is empty). -/
def prf (k nRef nEst : Nat) (beta : Rat := 1) : Rat × Rat × Rat :=
  let p : Rat := (k : Rat) / (nEst : Rat)
  let r : Rat := (k : Rat) / (nRef : Rat)
  (p, r, fMeasure p r beta)

namespace Scores
def handler : Handler := fun fn args =>
  match fn, args with
  | "util.f_measure", [p, r, b] => do
      let p ← p.asRat?; let r ← r.asRat?; let b ← b.asRat?
      -- Python float division by zero raises ZeroDivisionError
      if ¬ (p = 0 ∧ r = 0) ∧ b * b * p + r = 0 then some (.error .zeroDivision)
      else some (.ok (.rat (fMeasure p r b)))
  | _, _ => none
end Scores
end Mir
