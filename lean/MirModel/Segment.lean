import MirModel.Basic
import MirModel.Scores
/-
  MirModel.Segment — the frame-clustering ("structure") metrics of `mir_eval.segment`:
  `pairwise`, `rand_index`, `ari`, `mutual_information`, `nce`, `vmeasure`, together with the helpers they
  go through (`validate_structure`, `util.intervals_to_samples` / `interpolate_intervals`,
  `util.index_labels`, `_contingency_matrix`, `_adjusted_rand_index`, `_mutual_info_score`, `_entropy`,
  `_adjusted_mutual_info_score`, `_normalized_mutual_info_score`).

  The pair-counting metrics are exact (`Rat`, with numpy's `x/0` made explicit in `Num`); the entropy based
  ones are written once over a class `Transc` (log / exp / sqrt) and executed at `Float`.

  Model domain: label strings are ASCII (Python's `str.lower` is Unicode aware, `Char.toLower` is not);
  `frame_size > 0`; the two annotations have *equal* (not merely `allclose`) maxima, so both frame
  sequences have the same length (with different lengths numpy would broadcast or raise).
-/
namespace Mir
namespace Segment

/-! ### numpy scalars that may be nan / ±inf -/

/-- An `np.float64` result of exact rational arithmetic that may have gone through a division by zero. -/
inductive Num where
  | val (q : Rat)
  | nan
  | inf (neg : Bool)
  deriving DecidableEq, Repr, Inhabited

/-- `np.float64(a) / np.float64(b)` (never raises; `0/0 = nan`, `x/0 = ±inf`). -/
def npDiv (a b : Rat) : Num :=
  if b = 0 then (if a = 0 then .nan else .inf (decide (a < 0))) else .val (a / b)

/-- `util.f_measure` applied to numpy scalars: the `== 0` guard is false for nan, every arithmetic
    combination of a non-finite precision/recall with `beta > 0` is nan. -/
def fMeasureNum (p r : Num) (beta : Rat) : Num :=
  match p, r with
  | .val p, .val r =>
      if p = 0 ∧ r = 0 then .val 0
      else npDiv ((1 + beta * beta) * p * r) (beta * beta * p + r)
  | _, _ => .nan

def Num.toVal : Num → Val
  | .val q => .rat q
  | .nan => .nan
  | .inf neg => .inf neg

/-! ### sorted unique values (`np.unique`, `sorted(set(...))`) -/

section SortedUniq
variable {α : Type} [LT α] [DecidableRel (α := α) (· < ·)] [DecidableEq α]

def insertUniq (a : α) : List α → List α
  | [] => [a]
  | b :: l => if a < b then a :: b :: l else if a = b then b :: l else b :: insertUniq a l

def sortedUniq (l : List α) : List α := l.foldr insertUniq []

end SortedUniq

/-! ### annotation → frame labels → indices -/

/-- `np.allclose(a, b)` with the default `rtol=1e-5, atol=1e-8` (exact arithmetic). -/
def allclose (a b : Rat) : Bool :=
  decide ((a - b).abs ≤ (1 : Rat) / 100000000 + (1 : Rat) / 100000 * b.abs)

def flat (ivs : List (Rat × Rat)) : List Rat := ivs.flatMap fun p => [p.1, p.2]

def listMax : List Rat → Option Rat
  | [] => none
  | a :: l => some (l.foldl (fun m x => if m < x then x else m) a)

def listMin : List Rat → Option Rat
  | [] => none
  | a :: l => some (l.foldl (fun m x => if x < m then x else m) a)

/-- `util.validate_intervals` on an `(n, 2)` array. -/
def validateIntervals (ivs : List (Rat × Rat)) : Py Unit :=
  if (flat ivs).any (fun x => decide (x < 0)) then .error .valueError
  else if ivs.any (fun p => decide (p.2 ≤ p.1)) then .error .valueError
  else .ok ()

def validateSide (ivs : List (Rat × Rat)) (nLabels : Nat) : Py Unit := do
  validateIntervals ivs
  if ivs.length ≠ nLabels then throw .valueError
  match listMin (flat ivs) with
  | none => pure ()
  | some m => if allclose m 0 then pure () else throw .valueError

/-- `segment.validate_structure`. -/
def validateStructure (ri : List (Rat × Rat)) (nrl : Nat) (ei : List (Rat × Rat)) (nel : Nat) : Py Unit := do
  validateSide ri nrl
  validateSide ei nel
  match listMax (flat ri), listMax (flat ei) with
  | some a, some b => if allclose a b then pure () else throw .valueError
  | _, _ => pure ()

/-- Labels are strings, kept as lists of code points (comparison = Python's, by code point). -/
abbrev Label := List Char

/-- The label `interpolate_intervals` leaves at time `t`: intervals are written in order with
    `aligned[start:end] = lab`, `start = searchsorted(times, s, 'left')`, `end = searchsorted(times, e, 'right')`,
    so the *last* interval (in list order) with `s ≤ t ≤ e` wins; `None` if there is none. -/
def labelAtFrame (ivl : List ((Rat × Rat) × Label)) (t : Rat) : Option Label :=
  ivl.foldl (fun acc p => if p.1.1 ≤ t ∧ t ≤ p.1.2 then some p.2 else acc) none

/-- `int(np.floor(intervals.max() / sample_size))` (negative counts give an empty `arange`). -/
def numSamples (ivs : List (Rat × Rat)) (fs : Rat) : Nat :=
  match listMax (flat ivs) with
  | none => 0
  | some m => (m / fs).floor.toNat

/-- `util.intervals_to_samples(intervals, labels, sample_size=fs)[-1]` (frame times `i * fs`). -/
def frameLabels (ivs : List (Rat × Rat)) (labs : List Label) (fs : Rat) : List (Option Label) :=
  (List.range (numSamples ivs fs)).map fun (i : Nat) => labelAtFrame (ivs.zip labs) ((i : Rat) * fs)

/-- `str(s).lower()` (ASCII domain); the fill value `None` becomes `"none"`. -/
def normLabel : Option Label → Label
  | none => ['n', 'o', 'n', 'e']
  | some s => s.map Char.toLower

/-- `util.index_labels(labels)[0]` for already normalised labels: position in `sorted(set(labels))`. -/
def indexNorm (ls : List Label) : List Nat :=
  let u := sortedUniq ls
  ls.map fun s => u.idxOf s

/-- `util.index_labels(labels)[0]` with `case_sensitive=False`. -/
def indexLabels (labels : List (Option Label)) : List Nat := indexNorm (labels.map normLabel)

/-- The frame-label index sequence of one annotation. -/
def frameIndices (ivs : List (Rat × Rat)) (labs : List Label) (fs : Rat) : List Nat :=
  indexLabels (frameLabels ivs labs fs)

/-! ### pair counting on two index sequences -/

/-- `np.equal.outer(y, y)`. -/
def eqMat (y : List Nat) : List (List Bool) := y.map fun a => y.map fun b => a == b

/-- `np.logical_and` on two equal-shape matrices. -/
def matAnd (A B : List (List Bool)) : List (List Bool) := List.zipWith (List.zipWith (· && ·)) A B

/-- `~A`. -/
def matNot (A : List (List Bool)) : List (List Bool) := A.map (·.map not)

/-- `A.sum()` of a boolean matrix. -/
def matSum (A : List (List Bool)) : Nat := (A.map fun r => r.countP id).sum

/-- numbers of agreeing pairs exactly as `segment.pairwise` computes them:
    `(n_matches, n_agree_est, n_agree_ref)`. -/
def pairCounts (yr ye : List Nat) : Rat × Rat × Rat :=
  let aR := eqMat yr
  let aE := eqMat ye
  let nAgreeRef : Rat := ((matSum aR : Nat) - (yr.length : Rat)) / 2
  let nAgreeEst : Rat := ((matSum aE : Nat) - (ye.length : Rat)) / 2
  let nMatches : Rat := ((matSum (matAnd aR aE) : Nat) - (yr.length : Rat)) / 2
  (nMatches, nAgreeEst, nAgreeRef)

/-- body of `segment.pairwise` after sampling: precision, recall, F. -/
def pairwiseIdx (yr ye : List Nat) (beta : Rat) : Py (Num × Num × Num) :=
  if yr.length ≠ ye.length then .error .valueError   -- numpy cannot broadcast the two agreement matrices
  else
    let (nMatches, nAgreeEst, nAgreeRef) := pairCounts yr ye
    let p := npDiv nMatches nAgreeEst
    let r := npDiv nMatches nAgreeRef
    .ok (p, r, fMeasureNum p r beta)

/-- the three quantities `segment.rand_index` divides: `(n_matches_pos, n_matches_neg, n_pairs)`. -/
def randCounts (yr ye : List Nat) : Rat × Rat × Rat :=
  let aR := eqMat yr
  let aE := eqMat ye
  let n : Rat := (yr.length : Rat)
  let nPairs : Rat := n * (n - 1) / 2
  let pos : Rat := ((matSum (matAnd aR aE) : Nat) - n) / 2
  let neg : Rat := (matSum (matAnd (matNot aR) (matNot aE)) : Nat) / 2
  (pos, neg, nPairs)

/-- body of `segment.rand_index` after sampling. -/
def randIdx (yr ye : List Nat) : Py Num :=
  if yr.length ≠ ye.length then .error .valueError
  else
    let (pos, neg, nPairs) := randCounts yr ye
    .ok (npDiv (pos + neg) nPairs)

/-! ### contingency table, adjusted Rand index -/

/-- `scipy.special.comb(n, 2, exact=1)`. -/
def choose2 (n : Nat) : Nat := n * (n - 1) / 2

/-- `np.unique(y)`. -/
def classes (y : List Nat) : List Nat := sortedUniq y

/-- `_contingency_matrix` (rows: reference classes, columns: estimated classes, both ascending). -/
def contingency (yr ye : List Nat) : List (List Nat) :=
  (classes yr).map fun a => (classes ye).map fun b =>
    (yr.zip ye).countP fun p => p.1 == a && p.2 == b

/-- `C.sum(axis=1)`. -/
def rowSums (c : List (List Nat)) : List Nat := c.map List.sum

/-- `C.sum(axis=0)` of a matrix with `ncols` columns. -/
def colSums (c : List (List Nat)) (ncols : Nat) : List Nat :=
  c.foldr (List.zipWith (· + ·)) (List.replicate ncols 0)

/-- The three binomial sums of the table: `(Σ_ij C(n_ij,2), Σ_i C(a_i,2), Σ_j C(b_j,2))`. -/
def combSums (yr ye : List Nat) : Nat × Nat × Nat :=
  let c := contingency yr ye
  ((c.flatten.map choose2).sum,
   ((rowSums c).map choose2).sum,
   ((colSums c (classes ye).length).map choose2).sum)

/-- `_adjusted_rand_index` (Python float arithmetic: a zero denominator raises). -/
def adjustedRandIdx (yr ye : List Nat) : Py Rat :=
  let n := yr.length
  let kr := (classes yr).length
  let ke := (classes ye).length
  if (kr = 1 ∧ ke = 1) ∨ (kr = 0 ∧ ke = 0) ∨ (kr = n ∧ ke = n) then .ok 1
  else if yr.length ≠ ye.length then .error .valueError   -- coo_matrix: row and column index length differ
  else
    let (s, sc, sk) := combSums yr ye
    let nC2 : Rat := ((n : Rat) * ((n : Rat) - 1)) / 2
    if nC2 = 0 then .error .zeroDivision
    else
      let prod : Rat := ((sc : Rat) * (sk : Rat)) / nC2
      let mean : Rat := ((sk : Rat) + (sc : Rat)) / 2
      if mean - prod = 0 then .error .zeroDivision
      else .ok (((s : Rat) - prod) / (mean - prod))

/-! ### entropy based scores, polymorphic in the number type -/

/-- What the transcendental part of the code needs from its numbers.  Instances: `Float` (executed by the
    driver) and `ℝ` (in `MirProofs`, for theorems). -/
class Transc (α : Type) extends Add α, Sub α, Mul α, Div α, Neg α where
  ofNat : Nat → α
  ofRat : Rat → α
  log : α → α
  exp : α → α
  sqrt : α → α
  lt : α → α → Bool
  beq : α → α → Bool

instance : Transc Float where
  ofNat := Float.ofNat
  ofRat q := Float.ofInt q.num / Float.ofNat q.den
  log := Float.log
  exp := Float.exp
  sqrt := Float.sqrt
  lt a b := a < b
  beq a b := a == b

section Transcendental
variable {α : Type} [Transc α]
open Transc

/-- `np.sum` of a vector. -/
def tsum (xs : List α) : α := xs.foldr (· + ·) (ofNat 0)

/-- Python's builtin `max(a, b)`: `b` only if `b > a`. -/
def pyMax (a b : α) : α := if lt a b then b else a

/-- `scipy.special.gammaln(k + 1)` at a natural number, as a sum of logarithms. -/
def lgammaSucc (k : Nat) : α := tsum ((List.range' 2 (k - 1)).map fun m => log (ofNat m))

/-- one summand of `_mutual_info_score` for a non-zero cell. -/
def miTerm (total sa sb : α) (nij ai bj : Nat) : α :=
  let cnm : α := ofNat nij / total
  let logOuter : α := -log (ofNat ai * ofNat bj) + log sa + log sb
  cnm * (log (ofNat nij) - log total) + cnm * logOuter

/-- `np.clip(x, 0.0, None)`: rounding noise below zero is cut off (nan passes through). -/
def clip0 (x : α) : α := if lt x (ofNat 0) then ofNat 0 else x

/-- the unclipped sum `mi.sum()` of `_mutual_info_score`. -/
def mutualInfoSum (c : List (List Nat)) (a b : List Nat) : α :=
  let total : α := ofNat (c.map List.sum).sum
  let sa : α := ofNat a.sum
  let sb : α := ofNat b.sum
  tsum ((c.zip a).flatMap fun (row, ai) =>
    (row.zip b).filterMap fun (nij, bj) =>
      if nij = 0 then none else some (miTerm total sa sb nij ai bj))

/-- `_mutual_info_score` from the contingency table `c` with marginals `a` (rows) and `b` (columns):
    `np.clip(mi.sum(), 0.0, None)`. -/
def mutualInfoTab (c : List (List Nat)) (a b : List Nat) : α := clip0 (mutualInfoSum c a b)

def mutualInfoIdx (yr ye : List Nat) : α :=
  let c := contingency yr ye
  mutualInfoTab c (rowSums c) (colSums c (classes ye).length)

/-- `_entropy(labels)`. -/
def entropyIdx (y : List Nat) : α :=
  if y.length = 0 then ofNat 1
  else
    let pi := (classes y).map fun c => y.count c
    let piSum : α := ofNat pi.sum
    let s : α := tsum (pi.map fun p => (ofNat p / piSum) * (log (ofNat p) - log piSum))
    Neg.neg s

/-- the triple loop of `_adjusted_mutual_info_score` (expected mutual information). -/
def expectedMI (a b : List Nat) (n : Nat) : α :=
  let N : α := ofNat n
  let glnN : α := lgammaSucc n
  tsum (a.flatMap fun (ai : Nat) => b.flatMap fun (bj : Nat) =>
    let start : Nat := max ((ai : Int) - (n : Int) + (bj : Int)).toNat 1
    let stop : Nat := min ai bj + 1
    (List.range' start (stop - start)).map fun (nij : Nat) =>
      let term1 : α := ofNat nij / N
      let term2 : α := log (N * ofNat nij) - log (ofNat (ai * bj))
      let gln : α := lgammaSucc ai + lgammaSucc bj + lgammaSucc (n - ai) + lgammaSucc (n - bj)
        - glnN - lgammaSucc nij - lgammaSucc (ai - nij) - lgammaSucc (bj - nij)
        - lgammaSucc (n + nij - ai - bj)
      term1 * term2 * exp gln)

/-- `_adjusted_mutual_info_score`: `(ami, numerator, denominator)`. -/
def amiIdx (yr ye : List Nat) : α × α × α :=
  let kr := (classes yr).length
  let ke := (classes ye).length
  if (kr = 1 ∧ ke = 1) ∨ (kr = 0 ∧ ke = 0) then (ofNat 1, ofNat 1, ofNat 1)
  else
    let c := contingency yr ye
    let a := rowSums c
    let b := colSums c ke
    let mi : α := mutualInfoTab c a b
    let emi : α := expectedMI a b yr.length
    let num := mi - emi
    let den := pyMax (entropyIdx yr) (entropyIdx ye) - emi
    (num / den, num, den)

/-- `_normalized_mutual_info_score`: `(nmi, numerator, denominator)`. -/
def nmiIdx (yr ye : List Nat) : α × α × α :=
  let kr := (classes yr).length
  let ke := (classes ye).length
  if (kr = 1 ∧ ke = 1) ∨ (kr = 0 ∧ ke = 0) then (ofNat 1, ofNat 1, ofNat 1)
  else
    let mi : α := mutualInfoIdx yr ye
    let den : α := pyMax (sqrt (entropyIdx yr * entropyIdx ye)) (ofRat (1 / 10000000000))
    (mi / den, mi, den)

/-- `scipy.special.entr`. -/
def entr (x : α) : α := if lt (ofNat 0) x then -x * log x else ofNat 0

/-- `scipy.stats.entropy(pk, base=2)` of one vector. -/
def statsEntropy2 (pk : List α) : α :=
  let s := tsum pk
  tsum (pk.map fun p => entr (p / s)) / log (ofNat 2)

/-- `util.f_measure` on the number type. -/
def fMeasureT (p r beta : α) : α :=
  if beq p (ofNat 0) && beq r (ofNat 0) then ofNat 0
  else (ofNat 1 + beta * beta) * p * r / (beta * beta * p + r)

/-- transpose of a matrix given as rows of length `ncols`. -/
def columns (m : List (List α)) (ncols : Nat) : List (List α) :=
  m.foldr (List.zipWith (· :: ·)) (List.replicate ncols [])

/-- body of `segment.nce` after sampling: `(S_over, S_under, S_F)`. -/
def nceIdx (yr ye : List Nat) (beta : α) (marginal : Bool) : α × α × α :=
  let c := contingency yr ye
  let ke := (classes ye).length
  let n : α := ofNat yr.length
  let p : List (List α) := c.map (·.map fun nij => ofNat nij / n)
  let cols := columns p ke
  let pEst : List α := cols.map tsum
  let pRef : List α := p.map tsum
  let trueGivenEst : α := tsum (List.zipWith (· * ·) pEst (cols.map statsEntropy2))
  let predGivenRef : α := tsum (List.zipWith (· * ·) pRef (p.map statsEntropy2))
  let zRef : α := if marginal then statsEntropy2 pRef else log (ofNat c.length) / log (ofNat 2)
  let zEst : α := if marginal then statsEntropy2 pEst else log (ofNat ke) / log (ofNat 2)
  let under : α := if lt (ofNat 0) zRef then ofNat 1 - trueGivenEst / zRef else ofNat 0
  let over : α := if lt (ofNat 0) zEst then ofNat 1 - predGivenRef / zEst else ofNat 0
  (over, under, fMeasureT over under beta)

/-- `segment.vmeasure` is `nce(..., marginal=True)`. -/
def vmeasureIdx (yr ye : List Nat) (beta : α) : α × α × α := nceIdx yr ye beta true

end Transcendental

/-! ### the public functions -/

structure Annot where
  refIvs : List (Rat × Rat)
  refLabs : List Label
  estIvs : List (Rat × Rat)
  estLabs : List Label

/-- common prologue: validate, detect empty input, sample both annotations. `none` = the early return of
    every metric (`0., 0., 0.` for the three-valued ones, `0.0` for `rand_index` and `ari`). -/
def prologue (A : Annot) (fs : Rat) : Py (Option (List Nat × List Nat)) := do
  validateStructure A.refIvs A.refLabs.length A.estIvs A.estLabs.length
  if A.refIvs.isEmpty ∨ A.estIvs.isEmpty then pure none
  else pure (some (frameIndices A.refIvs A.refLabs fs, frameIndices A.estIvs A.estLabs fs))

def zeros3 : Val := .list [.rat 0, .rat 0, .rat 0]

def triple (x : Num × Num × Num) : Val := .list [x.1.toVal, x.2.1.toVal, x.2.2.toVal]

def tripleF (x : Float × Float × Float) : Val := .list [.flt x.1, .flt x.2.1, .flt x.2.2]

def pairwise (A : Annot) (fs beta : Rat) : Py Val := do
  match ← prologue A fs with
  | none => pure zeros3
  | some (yr, ye) => pure (triple (← pairwiseIdx yr ye beta))

def randIndex (A : Annot) (fs : Rat) : Py Val := do
  match ← prologue A fs with
  | none => pure (.rat 0)
  | some (yr, ye) => pure (← randIdx yr ye).toVal

def ari (A : Annot) (fs : Rat) : Py Val := do
  match ← prologue A fs with
  | none => pure (.rat 0)
  | some (yr, ye) => pure (.rat (← adjustedRandIdx yr ye))

def checkLen (yr ye : List Nat) : Py Unit :=
  if yr.length ≠ ye.length then .error .valueError else .ok ()

/-- `[mi, ami, nmi, ami_num, ami_den, nmi_den]` — the last three let the harness treat ill-conditioned
    quotients (DESIGN §2.3). -/
def mutualInformation (A : Annot) (fs : Rat) : Py Val := do
  match ← prologue A fs with
  | none => pure zeros3
  | some (yr, ye) =>
      checkLen yr ye
      let mi : Float := mutualInfoIdx yr ye
      let (ami, amiNum, amiDen) := amiIdx (α := Float) yr ye
      let (nmi, _, nmiDen) := nmiIdx (α := Float) yr ye
      pure (.list [.flt mi, .flt ami, .flt nmi, .flt amiNum, .flt amiDen, .flt nmiDen])

def ratToFloat (q : Rat) : Float := Transc.ofRat q

def nce (A : Annot) (fs beta : Rat) (marginal : Bool) : Py Val := do
  match ← prologue A fs with
  | none => pure zeros3
  | some (yr, ye) =>
      checkLen yr ye
      pure (tripleF (nceIdx yr ye (ratToFloat beta) marginal))

def vmeasure (A : Annot) (fs beta : Rat) : Py Val := nce A fs beta true

def parseAnnot (ri rl ei el : Val) : Option Annot := do
  some ⟨← ri.asRatPairs?, (← rl.asStrs?).map String.toList, ← ei.asRatPairs?, (← el.asStrs?).map String.toList⟩

def posRat (v : Val) : Option Rat := do
  let q ← v.asRat?
  if 0 < q then some q else none

def handler : Handler := fun fn args =>
  match fn, args with
  | "segment.pairwise", [ri, rl, ei, el, fs, beta] => do
      let A ← parseAnnot ri rl ei el; let fs ← posRat fs; let beta ← posRat beta
      some (pairwise A fs beta)
  | "segment.rand_index", [ri, rl, ei, el, fs] => do
      let A ← parseAnnot ri rl ei el; let fs ← posRat fs
      some (randIndex A fs)
  | "segment.ari", [ri, rl, ei, el, fs] => do
      let A ← parseAnnot ri rl ei el; let fs ← posRat fs
      some (ari A fs)
  | "segment.mutual_information", [ri, rl, ei, el, fs] => do
      let A ← parseAnnot ri rl ei el; let fs ← posRat fs
      some (mutualInformation A fs)
  | "segment.nce", [ri, rl, ei, el, fs, beta, marginal] => do
      let A ← parseAnnot ri rl ei el; let fs ← posRat fs; let beta ← posRat beta
      let m ← marginal.asBool?
      some (nce A fs beta m)
  | "segment.vmeasure", [ri, rl, ei, el, fs, beta] => do
      let A ← parseAnnot ri rl ei el; let fs ← posRat fs; let beta ← posRat beta
      some (vmeasure A fs beta)
  | "segment.all", [ri, rl, ei, el, fs, beta] => do
      -- all six public functions on one input (used by the exhaustive small-scope suite)
      let A ← parseAnnot ri rl ei el; let fs ← posRat fs; let beta ← posRat beta
      some (do
        let a ← pairwise A fs beta
        let b ← randIndex A fs
        let c ← ari A fs
        let d ← mutualInformation A fs
        let e ← nce A fs beta false
        let f ← vmeasure A fs beta
        pure (.list [a, b, c, d, e, f]))
  | "segment.exact3", [ri, rl, ei, el, fs, beta] => do
      -- the three exact (rational) metrics on one input
      let A ← parseAnnot ri rl ei el; let fs ← posRat fs; let beta ← posRat beta
      some (do
        let a ← pairwise A fs beta
        let b ← randIndex A fs
        let c ← ari A fs
        pure (.list [a, b, c]))
  | "segment.frame_indices", [ivs, labs, fs] => do
      let ivs ← ivs.asRatPairs?; let labs ← labs.asStrs?; let fs ← posRat fs
      some (.ok (Val.ofNats (frameIndices ivs (labs.map String.toList) fs)))
  | "util.index_labels", [labs] => do
      let labs ← labs.asStrs?
      some (.ok (Val.ofNats (indexLabels (labs.map fun s => some s.toList))))
  | _, _ => none

end Segment
end Mir
