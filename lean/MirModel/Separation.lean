import MirModel.Basic
/-
  MirModel.Separation — the logic of `mir_eval.separation` around an ABSTRACT least-squares projection.

  Not modelled (numerical linear algebra in binary64, DESIGN §5 C19): `_project`, `_project_images`.
  Modelled, as the code computes it:
    * `_bss_decomp_mtifilt(_images)`  : the four components from the two projections, `e_artif` as the remainder
    * `_bss_source_crit`, `_bss_image_crit`, `_safe_db` : energy ratios with the code's `den == 0 ⇒ +inf` rule
    * the permutation search of `bss_eval_sources/images` : first argmax of the mean SIR over
      `itertools.permutations(range(nsrc))`, and the fancy-indexed selection of the outputs
    * `_any_source_silent`, `validate`, the empty-input special cases (with their arities)
    * `bss_eval_sources_framewise`, `bss_eval_images_framewise` : `nwin`, the window slices, the `nwin < 2`
      fall-back, the NaN columns of silent windows (`Cell.uninit` = a cell of an `np.empty` array that is never
      assigned; the repaired code leaves none, a mutant that forgets an output does).
  The definitions that theorems are stated about are polymorphic in the signal type `V` (only `+ - neg`) and
  in the energy functional; the driver instantiates them at `Sig` (lists of `Rat`, pointwise).
-/
namespace Mir
namespace Separation

/-! ### decomposition -/

/-- `(s_true, e_spat, e_interf, e_artif)` -/
structure Decomp (V : Type) where
  sTrue : V
  eSpat : V
  eInterf : V
  eArtif : V

/-- `_bss_decomp_mtifilt`: `projT` is the projection of the estimate on the delayed target reference,
    `projAll` on all delayed references, `sePad` the zero-padded estimate.
      e_spat   = projT − s_true
      e_interf = projAll − s_true − e_spat
      e_artif  = −s_true − e_spat − e_interf ;  e_artif[:nsampl] += estimate -/
def decomp {V : Type} [Add V] [Sub V] [Neg V] (sTrue projT projAll sePad : V) : Decomp V :=
  let eSpat := projT - sTrue
  let eInterf := projAll - sTrue - eSpat
  let eArtif := (-sTrue - eSpat - eInterf) + sePad
  ⟨sTrue, eSpat, eInterf, eArtif⟩

/-- An abstract projection for a fixed set of references (onto the delayed target / all references). -/
structure Proj (V : Type) where
  onTarget : V → V
  onAll : V → V

def decompP {V : Type} [Add V] [Sub V] [Neg V] (P : Proj V) (sTrue se : V) : Decomp V :=
  decomp sTrue (P.onTarget se) (P.onAll se) se

/-! ### criteria -/

/-- A level in dB: `ofRatio q` stands for `10·log10 q` (`q = 0` is `−inf`, as `np.log10(0.)`). -/
inductive Db where
  | posInf
  | ofRatio (q : Rat)
  deriving DecidableEq, Repr

/-- `_safe_db(num, den)`: only the denominator is checked. -/
def safeDb (num den : Rat) : Db :=
  if den = 0 then .posInf else .ofRatio (num / den)

/-- `_bss_source_crit` → (sdr, sir, sar); `E` is `x ↦ np.sum(x**2)`. -/
def sourceCrit {V : Type} [Add V] (E : V → Rat) (d : Decomp V) : Db × Db × Db :=
  let sFilt := d.sTrue + d.eSpat
  (safeDb (E sFilt) (E (d.eInterf + d.eArtif)),
   safeDb (E sFilt) (E d.eInterf),
   safeDb (E (sFilt + d.eInterf)) (E d.eArtif))

/-- `_bss_image_crit` → (sdr, isr, sir, sar). -/
def imageCrit {V : Type} [Add V] (E : V → Rat) (d : Decomp V) : Db × Db × Db × Db :=
  (safeDb (E d.sTrue) (E (d.eSpat + d.eInterf + d.eArtif)),
   safeDb (E d.sTrue) (E d.eSpat),
   safeDb (E (d.sTrue + d.eSpat)) (E d.eInterf),
   safeDb (E (d.sTrue + d.eSpat + d.eInterf)) (E d.eArtif))

/-! ### executable signals -/

/-- A (flattened) real signal; arithmetic is pointwise as for equally shaped ndarrays. -/
structure Sig where
  xs : List Rat
  deriving Repr, DecidableEq

instance : Add Sig := ⟨fun a b => ⟨List.zipWith (· + ·) a.xs b.xs⟩⟩
instance : Sub Sig := ⟨fun a b => ⟨List.zipWith (· - ·) a.xs b.xs⟩⟩
instance : Neg Sig := ⟨fun a => ⟨a.xs.map (- ·)⟩⟩

/-- `np.sum(x**2)` -/
def energy (s : Sig) : Rat := (s.xs.map fun x => x * x).sum

/-- zero-pad on the right to length `n` (`np.hstack((x, np.zeros(n - len x)))`). -/
def padTo (n : Nat) (xs : List Rat) : List Rat := xs ++ List.replicate (n - xs.length) 0

/-- The decomposition of one channel row as the code computes it from the row of the estimate. -/
def decompRow (sTrue projT projAll se : List Rat) : Decomp Sig :=
  decomp ⟨sTrue⟩ ⟨projT⟩ ⟨projAll⟩ ⟨padTo sTrue.length se⟩

/-! ### permutation search -/

/-- every element together with the others, in order -/
def picks {α : Type} : List α → List (α × List α)
  | [] => []
  | x :: xs => (x, xs) :: (picks xs).map fun p => (p.1, x :: p.2)

def permsN {α : Type} : Nat → List α → List (List α)
  | 0, _ => [[]]
  | n + 1, xs => (picks xs).flatMap fun p => (permsN n p.2).map (p.1 :: ·)

/-- `list(itertools.permutations(xs))`, in itertools' (lexicographic-by-position) order. -/
def perms {α : Type} (xs : List α) : List (List α) := permsN xs.length xs

/-- `Σ_j S[p[j], j]` for `j` counted from `j0` — the sum inside `np.mean(sir[perm, dum])`. -/
def scoreFrom (S : Nat → Nat → Rat) : Nat → List Nat → Rat
  | _, [] => 0
  | j, e :: es => S e j + scoreFrom S (j + 1) es

def score (S : Nat → Nat → Rat) (p : List Nat) : Rat := scoreFrom S 0 p

/-- `np.mean(sir[perm, dum])` -/
def meanSir (n : Nat) (S : Nat → Nat → Rat) (p : List Nat) : Rat := score S p / (n : Rat)

/-- first maximiser of `f` in `b :: xs` (what `xs[np.argmax(map f xs)]` selects) -/
def firstMaxBy {α : Type} (f : α → Rat) : α → List α → α
  | b, [] => b
  | b, x :: xs => if f b < f x then firstMaxBy f x xs else firstMaxBy f b xs

/-- `popt = perms[np.argmax(mean_sir)]` ; `S e t` = SIR of estimate `e` against reference `t`. -/
def bestPerm (n : Nat) (S : Nat → Nat → Rat) : List Nat :=
  match perms (List.range n) with
  | [] => []
  | p :: ps => firstMaxBy (meanSir n S) p ps

/-- `M[popt, dum]` = `[M[popt[j], j] for j]` -/
def selectFrom (M : Nat → Nat → Rat) : Nat → List Nat → List Rat
  | _, [] => []
  | j, e :: es => M e j :: selectFrom M (j + 1) es

/-- The tail of `bss_eval_sources` (`nm = 3`, `sirIdx = 1`) and `bss_eval_images` (`nm = 4`, `sirIdx = 2`):
    `C e t o` is criterion number `o` of estimate `e` decomposed against reference `t`.
    Result: the `nm` selected criterion vectors followed by the permutation. -/
def selectOutputs (nm sirIdx nsrc : Nat) (C : Nat → Nat → Nat → Rat) (cp : Bool) : List (List Rat) :=
  let popt := if cp then bestPerm nsrc (fun e t => C e t sirIdx) else List.range nsrc
  ((List.range nm).map fun o => selectFrom (fun e t => C e t o) 0 popt) ++ [popt.map fun (e : Nat) => (e : Rat)]

/-! ### arrays, silence, validation -/

/-- An ndarray as far as this module looks at it: its shape and its values as
    `data[source][sample][channel]` (a 1-D array is one source, a 2-D array has singleton channel lists). -/
structure Arr where
  shape : List Nat
  data : List (List (List Rat))
  deriving Repr

def Arr.size (a : Arr) : Nat := a.shape.foldl (· * ·) 1

/-- `_any_source_silent`: a source is silent when the sum over channels is 0 at every sample. -/
def anySourceSilent (a : Arr) : Bool :=
  a.data.any fun src => src.all fun samp => samp.sum = 0

def MAX_SOURCES : Nat := 100

/-- `validate` (warnings are not modelled). -/
def validate (ref est : Arr) : Py Unit := do
  if ref.shape ≠ est.shape then throw .valueError
  if ref.shape.length > 3 ∨ est.shape.length > 3 then throw .valueError
  if ref.size ≠ 0 then
    if ref.shape.length < 2 then throw .valueError   -- np.all(..., axis=1) on a 0-d/1-d array: AxisError
    if anySourceSilent ref then throw .valueError
  if est.size ≠ 0 then
    if est.shape.length < 2 then throw .valueError
    if anySourceSilent est then throw .valueError
  match est.shape.head?, ref.shape.head? with
  | some a, some b => if a > MAX_SOURCES ∨ b > MAX_SOURCES then throw .valueError
  | _, _ => throw .indexError

/-- `x[np.newaxis, :]` when `x.ndim == 1` -/
def promote2 (a : Arr) : Arr := if a.shape.length = 1 then { a with shape := 1 :: a.shape } else a

/-- `np.atleast_3d` -/
def atleast3d (a : Arr) : Arr :=
  match a.shape with
  | [] => { a with shape := [1, 1, 1] }
  | [n] => { a with shape := [1, n, 1] }
  | [m, n] => { a with shape := [m, n, 1] }
  | _ => a

/-- Results of the four public functions. -/
inductive Cell where
  | val (q : Rat)
  | nan
  | uninit      -- a cell of an `np.empty` array that the code never assigns
  deriving DecidableEq, Repr

inductive Out where
  | empties (k : Nat)                       -- `k` empty 1-D arrays
  | vecs (vs : List (List Rat))             -- non-framewise: one vector per output
  | mats (ms : List (List (List Cell)))     -- framewise: `ms[output][source][window]`
  deriving Repr

def Out.arity : Out → Nat
  | .empties k => k
  | .vecs vs => vs.length
  | .mats ms => ms.length

/-- `bss_eval_sources` with the numerical kernel (`decomp` + `crit` for a pair) abstracted as `C`. -/
def bssEvalSources (C : Nat → Nat → Nat → Rat) (ref est : Arr) (cp : Bool) : Py Out := do
  let est := promote2 est
  let ref := promote2 ref
  validate ref est
  if ref.size = 0 ∨ est.size = 0 then return .empties 4
  return .vecs (selectOutputs 3 1 (est.shape.headD 0) C cp)

/-- `bss_eval_images`. -/
def bssEvalImages (C : Nat → Nat → Nat → Rat) (ref est : Arr) (cp : Bool) : Py Out := do
  let est := atleast3d est
  let ref := atleast3d ref
  validate ref est
  if ref.size = 0 ∨ est.size = 0 then return .empties 5
  return .vecs (selectOutputs 4 2 (est.shape.headD 0) C cp)

/-! ### framewise -/

/-- `int(np.floor((nsampl - window + hop) / hop))` for Python ints. -/
def nwin (nsampl window hop : Int) : Py Int :=
  if hop = 0 then throw .zeroDivision else pure (Int.fdiv (nsampl - window + hop) hop)

/-- `slice(k*hop, k*hop + window)` for `k in range(nwin)` (window, hop ≥ 1). -/
def windows (n window hop : Nat) : List (Nat × Nat) :=
  (List.range n).map fun k => (k * hop, k * hop + window)

/-- `a[:, s:e]` / `a[:, s:e, :]` -/
def sliceArr (a : Arr) (s e : Nat) : Arr :=
  let n := (a.shape.drop 1).headD 0
  { shape := a.shape.set 1 (min e n - min s n),
    data := a.data.map fun src => (src.drop s).take (e - s) }

/-- The shared body of the framewise functions after validation / the empty special case.
    `ev r t cp o j` is output `o`, source `j` of the non-framewise function on `(r, t)`;
    `nOut` the number of arrays allocated and returned; `nanOut o` tells whether the silent-window branch
    assigns NaN to output `o`. -/
def framewiseBody (nOut : Nat) (nanOut : Nat → Bool) (ev : Arr → Arr → Bool → Nat → Nat → Rat)
    (ref est : Arr) (window hop : Int) (cp : Bool) : Py Out := do
  let nsrc := ref.shape.headD 0
  let nsampl := (ref.shape.drop 1).headD 0
  let nw ← nwin nsampl window hop
  if nw < 2 then
    return .mats ((List.range nOut).map fun o => (List.range nsrc).map fun j => [.val (ev ref est cp o j)])
  else
    let wins := windows nw.toNat window.toNat hop.toNat
    return .mats ((List.range nOut).map fun o => (List.range nsrc).map fun j => wins.map fun w =>
      let r := sliceArr ref w.1 w.2
      let t := sliceArr est w.1 w.2
      if anySourceSilent r || anySourceSilent t then (if nanOut o then Cell.nan else Cell.uninit)
      else .val (ev r t cp o j))

/-- `bss_eval_sources_framewise` (`ev` = `bss_eval_sources`). -/
def sourcesFramewise (ev : Arr → Arr → Bool → Nat → Nat → Rat)
    (ref est : Arr) (window hop : Int) (cp : Bool) : Py Out := do
  let est := promote2 est
  let ref := promote2 ref
  validate ref est
  if ref.size = 0 ∨ est.size = 0 then return .empties 4
  framewiseBody 4 (fun _ => true) ev ref est window hop cp

/-- `bss_eval_images_framewise` (`ev` = `bss_eval_images`): the empty special case returns five arrays and
    the silent-window branch assigns NaN to all five outputs (since the `fix:` commits b910d54, 1910533). -/
def imagesFramewise (ev : Arr → Arr → Bool → Nat → Nat → Rat)
    (ref est : Arr) (window hop : Int) (cp : Bool) : Py Out := do
  let est := atleast3d est
  let ref := atleast3d ref
  validate ref est
  if ref.size = 0 ∨ est.size = 0 then return .empties 5
  framewiseBody 5 (fun _ => true) ev ref est window hop cp

/-! ### driver glue -/

/-- `Rat → Float` to about 2⁻⁶² relative accuracy without overflow of the intermediate integers. -/
def natToFloatScaled (n : Nat) : Float × Int :=
  let l := n.log2
  if l < 63 then (Float.ofNat n, 0) else (Float.ofNat (n >>> (l - 62)), ((l - 62 : Nat) : Int))

def ratToFloat (q : Rat) : Float :=
  let (a, ea) := natToFloatScaled q.num.natAbs
  let (b, eb) := natToFloatScaled q.den
  let r := (a / b).scaleB (ea - eb)
  if q.num < 0 then -r else r

def Db.toVal : Db → Val
  | .posInf => .inf false
  | .ofRatio q => if q = 0 then .inf true else .flt (10 * Float.log10 (ratToFloat q))

/-- the value a poisoned `np.empty` is filled with by the harness -/
def uninitSentinel : Rat := 424242

def Cell.toVal : Cell → Val
  | .val q => .rat q
  | .nan => .nan
  | .uninit => .rat uninitSentinel

def Out.toVal : Out → Val
  | .empties k => .list (List.replicate k (.list []))
  | .vecs vs => .list (vs.map Val.ofRats)
  | .mats ms => .list (ms.map fun m => .list (m.map fun row => .list (row.map Cell.toVal)))

def asRows? (v : Val) : Option (List (List Rat)) := do (← v.asList?).mapM Val.asRats?

def asArr? (shape data : Val) : Option Arr := do
  let sh ← shape.asNats?
  let d ← (← data.asList?).mapM asRows?
  some ⟨sh, d⟩

/-- criterion table `C[jest][jtrue][o]` sent by the harness; total lookup (absent ⇒ the handler rejects first) -/
def tableLookup (t : List (List (List Rat))) (e j o : Nat) : Rat :=
  (((t.getD e []).getD j []).getD o 0)

def tableOk (t : List (List (List Rat))) (nsrc nm : Nat) : Bool :=
  t.length = nsrc && t.all fun r => r.length = nsrc && r.all fun c => c.length = nm

def wsumFrom : Nat → List (List Rat) → Rat
  | _, [] => 0
  | i, s :: ss => (i : Rat) * s.sum + wsumFrom (i + 1) ss

/-- The deterministic stand-in for the non-framewise function used by the framewise structure suite
    (the harness installs the same function in place of `bss_eval_sources/images`). -/
def stubEv (nOut : Nat) (r t : Arr) (cp : Bool) (o j : Nat) : Rat :=
  if o + 1 = nOut then
    (if cp then ((r.data.length - 1 - j : Nat) : Rat) else (j : Rat))
  else
    (o : Rat) * 4096 + wsumFrom 1 (r.data.getD j []) + 64 * wsumFrom 1 (t.data.getD j [])

def rowsVal (rs : List Sig) : Val := .list (rs.map fun s => Val.ofRats s.xs)

def sumRows (E : Sig → Rat) (rs : List Sig) : Rat := (rs.map E).sum

/-- a multichannel signal as a list of channel rows: pointwise operations, energy summed over rows -/
structure Rows where
  rs : List Sig

instance : Add Rows := ⟨fun a b => ⟨List.zipWith (· + ·) a.rs b.rs⟩⟩
instance : Sub Rows := ⟨fun a b => ⟨List.zipWith (· - ·) a.rs b.rs⟩⟩
instance : Neg Rows := ⟨fun a => ⟨a.rs.map (- ·)⟩⟩
def Rows.energy (a : Rows) : Rat := (a.rs.map Separation.energy).sum
def Rows.ofLists (l : List (List Rat)) : Rows := ⟨l.map Sig.mk⟩
def Rows.toVal (a : Rows) : Val := rowsVal a.rs

def sameShape (a b : List (List Rat)) : Bool :=
  a.length = b.length && (List.zipWith (fun x y => decide (x.length = y.length)) a b).all id

def handler : Handler := fun fn args =>
  match fn, args with
  | "separation.safe_db", [num, den] => do
      let num ← num.asRat?; let den ← den.asRat?
      some (.ok (safeDb num den).toVal)
  | "separation.decomp", [sTrue, projT, projAll, se] => do
      -- rows = channels; every row of s_true / projections has nsampl + flen - 1 entries, rows of se nsampl
      let sTrue ← asRows? sTrue; let projT ← asRows? projT; let projAll ← asRows? projAll; let se ← asRows? se
      if ¬ (sameShape sTrue projT && sameShape sTrue projAll && sTrue.length = se.length) then none
      else
        let sePad := List.zipWith (fun s e => padTo s.length e) sTrue se
        let d := decomp (Rows.ofLists sTrue) (Rows.ofLists projT) (Rows.ofLists projAll) (Rows.ofLists sePad)
        some (.ok (.list [d.sTrue.toVal, d.eSpat.toVal, d.eInterf.toVal, d.eArtif.toVal]))
  | "separation.source_crit", [a, b, c, d] => do
      let a ← asRows? a; let b ← asRows? b; let c ← asRows? c; let d ← asRows? d
      if ¬ (sameShape a b && sameShape a c && sameShape a d) then none
      else
        let (sdr, sir, sar) := sourceCrit Rows.energy ⟨Rows.ofLists a, Rows.ofLists b, Rows.ofLists c, Rows.ofLists d⟩
        some (.ok (.list [sdr.toVal, sir.toVal, sar.toVal]))
  | "separation.image_crit", [a, b, c, d] => do
      let a ← asRows? a; let b ← asRows? b; let c ← asRows? c; let d ← asRows? d
      if ¬ (sameShape a b && sameShape a c && sameShape a d) then none
      else
        let (sdr, isr, sir, sar) := imageCrit Rows.energy ⟨Rows.ofLists a, Rows.ofLists b, Rows.ofLists c, Rows.ofLists d⟩
        some (.ok (.list [sdr.toVal, isr.toVal, sir.toVal, sar.toVal]))
  | "separation.permutations", [n] => do
      let n ← n.asNat?
      if n > 6 then none else some (.ok (.list ((perms (List.range n)).map Val.ofNats)))
  | "separation.best_perm", [m] => do
      -- m[jest][jtrue] = SIR
      let m ← asRows? m
      let n := m.length
      if n = 0 ∨ n > 7 ∨ ¬ m.all (·.length = n) then none
      else some (.ok (Val.ofNats (bestPerm n fun e t => (m.getD e []).getD t 0)))
  | "separation.any_source_silent", [shape, data] => do
      let a ← asArr? shape data
      some (.ok (.bool (anySourceSilent a)))
  | "separation.validate", [rs, rd, es, ed] => do
      let r ← asArr? rs rd; let e ← asArr? es ed
      some ((validate r e).map fun _ => Val.none)
  | "separation.bss_eval_sources", [rs, rd, es, ed, cp, table] => do
      let r ← asArr? rs rd; let e ← asArr? es ed; let cp ← cp.asBool?
      let t ← (← table.asList?).mapM asRows?
      if r.shape.length = 0 ∨ r.shape.length = 3 ∨ e.shape.length = 0 ∨ e.shape.length = 3 then none
      else match validate (promote2 r) (promote2 e) with
        | .error err => some (.error err)
        | .ok _ =>
          if ¬ tableOk t ((promote2 e).shape.headD 0) 3 ∧ (promote2 e).size ≠ 0 then none
          else some ((bssEvalSources (tableLookup t) r e cp).map Out.toVal)
  | "separation.bss_eval_images", [rs, rd, es, ed, cp, table] => do
      let r ← asArr? rs rd; let e ← asArr? es ed; let cp ← cp.asBool?
      let t ← (← table.asList?).mapM asRows?
      match validate (atleast3d r) (atleast3d e) with
      | .error err => some (.error err)
      | .ok _ =>
        if ¬ tableOk t ((atleast3d e).shape.headD 0) 4 ∧ (atleast3d e).size ≠ 0 then none
        else some ((bssEvalImages (tableLookup t) r e cp).map Out.toVal)
  | "separation.framewise_windows", [nsampl, window, hop] => do
      -- → [fallback?, [[start, end] …]]
      let n ← nsampl.asNat?; let w ← window.asInt?; let h ← hop.asInt?
      if w < 1 ∨ h < 0 then none
      else some (do
        let nw ← nwin n w h
        if nw < 2 then pure (.list [.bool true, .list []])
        else pure (.list [.bool false, Val.ofNatPairs (windows nw.toNat w.toNat h.toNat)]))
  | "separation.bss_eval_sources_framewise", [rs, rd, es, ed, window, hop, cp] => do
      let r ← asArr? rs rd; let e ← asArr? es ed; let cp ← cp.asBool?
      let w ← window.asInt?; let h ← hop.asInt?
      if w < 1 ∨ h < 0 then none
      else if r.shape.length = 0 ∨ r.shape.length = 3 ∨ e.shape.length = 0 ∨ e.shape.length = 3 then none
      else some ((sourcesFramewise (stubEv 4) r e w h cp).map Out.toVal)
  | "separation.bss_eval_images_framewise", [rs, rd, es, ed, window, hop, cp] => do
      let r ← asArr? rs rd; let e ← asArr? es ed; let cp ← cp.asBool?
      let w ← window.asInt?; let h ← hop.asInt?
      if w < 1 ∨ h < 0 then none
      else some ((imagesFramewise (stubEv 5) r e w h cp).map Out.toVal)
  | _, _ => none

end Separation
end Mir
