import MirModel.Separation
/-
  MirModel.SeparationLS — an EXACT rational model of the least-squares projection of `mir_eval.separation`
  (`_project`), and of `_bss_decomp_mtifilt` / `_bss_source_crit` / `bss_eval_sources` built on it.

  What `_project(reference_sources, estimated_source, flen)` computes (FFT cross-correlations, Toeplitz blocks,
  `np.linalg.solve`, `fftconvolve`), written without the FFT:
    * every reference is zero-padded to `N = nsampl + flen - 1` samples and delayed by `d = 0 … flen-1` samples;
      these `nsrc·flen` signals (source-major, delay-minor: index `i·flen + d`) are the basis `B`;
    * `G[k][l] = ⟨B_k, B_l⟩` (the Toeplitz blocks of circular cross-correlations: no wrap-around because
      `n_fft ≥ N`), `D[k] = ⟨B_k, se⟩` with `se` the estimate zero-padded to `N`;
    * `C = solve(G, D)`;  `sproj = Σ_k C[k] · B_k` (`fftconvolve(C[:, i], ref_i)[:N]`).
  The model does exactly this over `Rat`, with Gaussian elimination (`solve?`, `none` when the elimination finds
  no pivot, i.e. the Gram matrix is singular).  A singular system (where the code falls back to `lstsq` or
  returns rounding noise) is OUTSIDE the domain of this model: the handler answers `bad-op`.

  Vector operations are written so that the algebra needs no length side conditions: `dot` reads missing
  entries as 0 and `padd` zero-pads the shorter operand.
-/
namespace Mir
namespace SeparationLS
open Separation

/-! ### vectors -/

/-- `Σ aᵢ·bᵢ` (`np.dot` / `np.sum(a*b)` for equally long vectors; missing entries count as 0) -/
def dot : List Rat → List Rat → Rat
  | a :: as, b :: bs => a * b + dot as bs
  | _, _ => 0

def vscale (c : Rat) (v : List Rat) : List Rat := v.map (c * ·)

/-- pointwise sum, the shorter operand zero-padded -/
def padd : List Rat → List Rat → List Rat
  | [], bs => bs
  | a :: as, [] => a :: as
  | a :: as, b :: bs => (a + b) :: padd as bs

def zeros (n : Nat) : List Rat := List.replicate n 0

/-- `Σ_k c_k · B_k` -/
def lincomb : List Rat → List (List Rat) → List Rat
  | c :: cs, b :: bs => padd (vscale c b) (lincomb cs bs)
  | _, _ => []

/-- `[⟨v, b⟩ for b in B]` -/
def dots (B : List (List Rat)) (v : List Rat) : List Rat := B.map (dot v)

/-! ### the delayed references -/

/-- the signal `xs` delayed by `d` samples inside a frame of `N` samples -/
def delayed (N d : Nat) (xs : List Rat) : List Rat := (padTo N (zeros d ++ xs)).take N

/-- the `flen` delayed copies of one reference -/
def delays (N flen : Nat) (r : List Rat) : List (List Rat) := (List.range flen).map fun d => delayed N d r

/-- all delayed references, index `i·flen + d` -/
def basis (N flen : Nat) (refs : List (List Rat)) : List (List Rat) := refs.flatMap (delays N flen)

/-- `G[k][l] = ⟨B_k, B_l⟩` -/
def gram (B : List (List Rat)) : List (List Rat) := B.map (dots B)

/-! ### Gaussian elimination over `Rat` -/

/-- one equation `Σ coeffs·x = rhs` -/
abbrev Row := List Rat × Rat

def Row.head (r : Row) : Rat := r.1.headD 0

/-- the first equation whose leading coefficient is not 0, and the others in order -/
def findPivot : List Row → Option (Row × List Row)
  | [] => none
  | r :: rs =>
    if r.head ≠ 0 then some (r, rs)
    else match findPivot rs with
      | none => none
      | some (p, rest) => some (p, r :: rest)

/-- eliminate the leading unknown of `r` with the pivot equation `p` (leading coefficient ≠ 0) -/
def elimRow (p r : Row) : Row :=
  let f := r.head / p.head
  (padd r.1.tail (vscale (-f) p.1.tail), r.2 - f * p.2)

/-- Solve a system with `n` unknowns.  Elimination column by column, pivot = first non-zero entry, back
    substitution on the way out; with no unknown left every remaining equation must read `0 = 0`. -/
def solveRows : Nat → List Row → Option (List Rat)
  | 0, rows => if rows.all (fun r => r.2 = 0) then some [] else none
  | n + 1, rows =>
    match findPivot rows with
    | none => none
    | some (p, rest) =>
      match solveRows n (rest.map (elimRow p)) with
      | none => none
      | some xs => some ((p.2 - dot p.1.tail xs) / p.head :: xs)

/-- `np.linalg.solve(A, b)` for a square `A`; `none` when singular -/
def solve? (A : List (List Rat)) (b : List Rat) : Option (List Rat) := solveRows A.length (A.zip b)

/-- Any solution of a consistent system, also a rank-deficient one: an unknown whose column holds no pivot is
    set to 0.  (`np.linalg.lstsq` picks the minimum-norm solution instead; for the normal equations every
    solution gives the same projected signal.)  Agrees with `solveRows` whenever that succeeds. -/
def solveAnyRows : Nat → List Row → Option (List Rat)
  | 0, rows => if rows.all (fun r => r.2 = 0) then some [] else none
  | n + 1, rows =>
    match findPivot rows with
    | none => (solveAnyRows n (rows.map fun r => (r.1.tail, r.2))).map (0 :: ·)
    | some (p, rest) =>
      match solveAnyRows n (rest.map (elimRow p)) with
      | none => none
      | some xs => some ((p.2 - dot p.1.tail xs) / p.head :: xs)

def solveAny? (A : List (List Rat)) (b : List Rat) : Option (List Rat) := solveAnyRows A.length (A.zip b)

/-! ### the projection -/

/-- orthogonal projection of `se` on the span of `B`, through the normal equations `G c = D` -/
def projectOn (B : List (List Rat)) (se : List Rat) : Option (List Rat) :=
  (solve? (gram B) (dots B se)).map fun c => lincomb c B

/-- `_project(reference_sources, estimated_source, flen)` -/
def project (refs : List (List Rat)) (est : List Rat) (flen : Nat) : Option (List Rat) :=
  let nsampl := (refs.headD []).length
  projectOn (basis (nsampl + flen - 1) flen refs) (est ++ zeros (flen - 1))

/-- the projection also when the delayed references are linearly dependent (the code's
    `except LinAlgError: lstsq` branch) -/
def projectOnAny (B : List (List Rat)) (se : List Rat) : Option (List Rat) :=
  (solveAny? (gram B) (dots B se)).map fun c => padd (lincomb c B) (zeros se.length)

def projectAny (refs : List (List Rat)) (est : List Rat) (flen : Nat) : Option (List Rat) :=
  let nsampl := (refs.headD []).length
  projectOnAny (basis (nsampl + flen - 1) flen refs) (est ++ zeros (flen - 1))

/-- `_project_images(reference_sources, estimated_source, flen)`: `refRows` are the reference channels
    (row `s·nchan + c` = channel `c` of source `s`), `estChans` the channels of the estimate; every channel of
    the estimate is projected on the span of ALL delayed reference channels (one `solve` with `nchan` right-hand
    sides). -/
def projectImages (refRows estChans : List (List Rat)) (flen : Nat) : Option (List (List Rat)) :=
  let nsampl := (refRows.headD []).length
  let B := basis (nsampl + flen - 1) flen refRows
  estChans.mapM fun e => projectOn B (e ++ zeros (flen - 1))

def projectImagesAny (refRows estChans : List (List Rat)) (flen : Nat) : Option (List (List Rat)) :=
  let nsampl := (refRows.headD []).length
  let B := basis (nsampl + flen - 1) flen refRows
  estChans.mapM fun e => projectOnAny B (e ++ zeros (flen - 1))

/-- `_bss_decomp_mtifilt_images(reference_sources, estimated_source, j, flen)`; `refs[s][c]` is channel `c` of
    source `s`. -/
def decompImagesExact (refs : List (List (List Rat))) (estChans : List (List Rat)) (j flen : Nat) :
    Option (Decomp Rows) :=
  let rj := refs.getD j []
  match projectImages rj estChans flen, projectImages refs.flatten estChans flen with
  | some pT, some pA =>
    let sTrue := rj.map fun r => r ++ zeros (flen - 1)
    let sePad := List.zipWith (fun s e => padTo s.length e) sTrue estChans
    some (decomp (Rows.ofLists sTrue) (Rows.ofLists pT) (Rows.ofLists pA) (Rows.ofLists sePad))
  | _, _ => none

def imageCritExact (refs : List (List (List Rat))) (estChans : List (List Rat)) (j flen : Nat) :
    Option (Db × Db × Db × Db) :=
  (decompImagesExact refs estChans j flen).map (imageCrit Rows.energy)

/-- `_bss_decomp_mtifilt(reference_sources, estimated_source, j, flen)` -/
def decompExact (refs : List (List Rat)) (est : List Rat) (j flen : Nat) : Option (Decomp Sig) :=
  let rj := refs.getD j []
  match project [rj] est flen, project refs est flen with
  | some pT, some pA => some (decompRow (rj ++ zeros (flen - 1)) pT pA est)
  | _, _ => none

/-- `_bss_source_crit(*_bss_decomp_mtifilt(…))` -/
def sourceCritExact (refs : List (List Rat)) (est : List Rat) (j flen : Nat) : Option (Db × Db × Db) :=
  (decompExact refs est j flen).map (sourceCrit energy)

/-! ### `bss_eval_sources` on the exact kernel -/

def dbRatio? : Db → Option Rat
  | .posInf => none
  | .ofRatio q => some q

/-- `Π_j S[p[j], j]` for `j` counted from `j0`: ordering permutations by the mean of `10·log10` of positive
    ratios is ordering them by the product of the ratios -/
def prodFrom (S : Nat → Nat → Rat) : Nat → List Nat → Rat
  | _, [] => 1
  | j, e :: es => S e j * prodFrom S (j + 1) es

/-- `perms[np.argmax(mean_sir)]` for a table of finite positive SIR ratios -/
def bestPermMul (n : Nat) (S : Nat → Nat → Rat) : List Nat :=
  match perms (List.range n) with
  | [] => []
  | p :: ps => firstMaxBy (prodFrom S 0) p ps

/-- The tail of `bss_eval_sources` / `bss_eval_images` (after validation, non-empty input) on a criterion table:
    `crit e j` = the criteria (as `Db` lists) of estimate `e` against reference `j`, `none` when a projection is
    singular.  Result: the selected criteria per source and the permutation.  With `compute_permutation` and more
    than one source every SIR (entry `sirIdx`) must be a finite positive ratio (otherwise the input is outside
    this model: `none`). -/
def selectExact (nsrc sirIdx : Nat) (crit : Nat → Nat → Option (List Db)) (cp : Bool) :
    Option (List (List Db) × List Nat) := do
  if cp then
    let T ← (List.range nsrc).mapM fun e => (List.range nsrc).mapM fun j => crit e j
    let cell := fun (e j : Nat) => (T.getD e []).getD j []
    if nsrc ≤ 1 then some ((List.range nsrc).map fun j => cell j j, List.range nsrc)
    else
      let sirs ← T.mapM fun row => row.mapM fun c =>
        (dbRatio? (c.getD sirIdx .posInf)).bind fun q => if q > 0 then some q else none
      let popt := bestPermMul nsrc fun e j => (sirs.getD e []).getD j 0
      some ((List.range nsrc).zipWith (fun j e => cell e j) popt, popt)
  else
    let cs ← (List.range nsrc).mapM fun j => crit j j
    some (cs, List.range nsrc)

/-- `bss_eval_sources` with filter length `flen` -/
def bssEvalSourcesExact (refs ests : List (List Rat)) (flen : Nat) (cp : Bool) :
    Option (List (List Db) × List Nat) :=
  selectExact ests.length 1
    (fun e j => (sourceCritExact refs (ests.getD e []) j flen).map fun c => [c.1, c.2.1, c.2.2]) cp

/-- `bss_eval_images` with filter length `flen` -/
def bssEvalImagesExact (refs ests : List (List (List Rat))) (flen : Nat) (cp : Bool) :
    Option (List (List Db) × List Nat) :=
  selectExact ests.length 2
    (fun e j => (imageCritExact refs (ests.getD e []) j flen).map fun c => [c.1, c.2.1, c.2.2.1, c.2.2.2]) cp

/-! ### conditioning (exact) -/

def rabs (x : Rat) : Rat := if x < 0 then -x else x

def rmax (xs : List Rat) : Rat := xs.foldl (fun m x => if m < x then x else m) 0

def unitVec (n k : Nat) : List Rat := (List.range n).map fun i => if i = k then 1 else 0

/-- the columns of `A⁻¹` -/
def inverseCols? (A : List (List Rat)) : Option (List (List Rat)) :=
  (List.range A.length).mapM fun k => solve? A (unitVec A.length k)

/-- `‖A‖₁ · ‖A⁻¹‖₁` for a symmetric `A` (`‖A‖₁` = the largest absolute row sum of a symmetric matrix) -/
def cond1? (A : List (List Rat)) : Option Rat :=
  (inverseCols? A).map fun cols =>
    rmax (A.map fun r => (r.map rabs).sum) * rmax (cols.map fun c => (c.map rabs).sum)

/-! ### driver glue -/

def dbRatioVal : Db → Val
  | .posInf => .inf false
  | .ofRatio q => .rat q

def critVal (c : Db × Db × Db) : Val := .list [dbRatioVal c.1, dbRatioVal c.2.1, dbRatioVal c.2.2]

/-- the model's domain: `nsrc ≥ 1` references of one common length `nsampl ≥ 1`, `flen ≥ 1` -/
def refsOk (refs : List (List Rat)) (flen : Nat) : Bool :=
  flen ≥ 1 && refs ≠ [] && (refs.headD []).length ≥ 1 && refs.all fun r => r.length = (refs.headD []).length

def as3? (v : Val) : Option (List (List (List Rat))) := do (← v.asList?).mapM asRows?

/-- images: `nsrc ≥ 1` sources of `nchan ≥ 1` channels, all of one length `nsampl ≥ 1`; the estimate has
    `nchan` channels of that length -/
def imagesOk (refs : List (List (List Rat))) (est : List (List Rat)) (flen : Nat) : Bool :=
  refs ≠ [] && est ≠ [] && refs.all (fun s => s.length = est.length) && refsOk refs.flatten flen &&
    est.all fun e => e.length = ((refs.flatten).headD []).length

/-- `nm` criterion vectors followed by the permutation -/
def selVal (nm : Nat) (cs : List (List Db)) (popt : List Nat) : Val :=
  .list (((List.range nm).map fun o => Val.list (cs.map fun c => dbRatioVal (c.getD o .posInf))) ++ [Val.ofNats popt])

def handler : Handler := fun fn args =>
  match fn, args with
  | "separation.project_exact", [refs, est, flen] => do
      let refs ← asRows? refs; let est ← est.asRats?; let flen ← flen.asNat?
      if ¬ (refsOk refs flen && est.length = (refs.headD []).length) then none
      else (project refs est flen).map fun p => .ok (Val.ofRats p)
  | "separation.gram_exact", [refs, est, flen] => do
      -- → [G, D]
      let refs ← asRows? refs; let est ← est.asRats?; let flen ← flen.asNat?
      if ¬ (refsOk refs flen && est.length = (refs.headD []).length) then none
      else
        let B := basis ((refs.headD []).length + flen - 1) flen refs
        some (.ok (.list [.list ((gram B).map Val.ofRats), Val.ofRats (dots B (est ++ zeros (flen - 1)))]))
  | "separation.gram_info_exact", [refs, flen] => do
      -- → 1-norm condition numbers of the Gram matrices of [all references, reference 0, reference 1, …];
      --   `none` marks a singular one
      let refs ← asRows? refs; let flen ← flen.asNat?
      if ¬ refsOk refs flen then none
      else
        let N := (refs.headD []).length + flen - 1
        let one := fun (rs : List (List Rat)) => match cond1? (gram (basis N flen rs)) with
          | some c => Val.rat c
          | none => Val.none
        some (.ok (.list (one refs :: refs.map fun r => one [r])))
  | "separation.bss_decomp_exact", [refs, est, j, flen] => do
      let refs ← asRows? refs; let est ← est.asRats?; let j ← j.asNat?; let flen ← flen.asNat?
      if ¬ (refsOk refs flen && est.length = (refs.headD []).length && j < refs.length) then none
      else (decompExact refs est j flen).map fun d =>
        .ok (.list [Val.ofRats d.sTrue.xs, Val.ofRats d.eSpat.xs, Val.ofRats d.eInterf.xs, Val.ofRats d.eArtif.xs])
  | "separation.bss_source_crit_exact", [refs, est, j, flen] => do
      -- → [sdr, sir, sar] as energy RATIOS (the harness applies 10·log10); `inf` when the denominator is 0
      let refs ← asRows? refs; let est ← est.asRats?; let j ← j.asNat?; let flen ← flen.asNat?
      if ¬ (refsOk refs flen && est.length = (refs.headD []).length && j < refs.length) then none
      else (sourceCritExact refs est j flen).map fun c => .ok (critVal c)
  | "separation.bss_eval_sources_exact", [refs, ests, flen, cp] => do
      -- → [[sdr…], [sir…], [sar…], perm] with energy ratios in place of dB
      let refs ← asRows? refs; let ests ← asRows? ests; let flen ← flen.asNat?; let cp ← cp.asBool?
      if ¬ (refsOk refs flen && ests.length = refs.length && ests.all fun e => e.length = (refs.headD []).length)
      then none
      else (bssEvalSourcesExact refs ests flen cp).map fun (cs, popt) => .ok (selVal 3 cs popt)
  | "separation.project_lstsq_exact", [refs, est, flen] => do
      -- `_project` through its singular-system branch
      let refs ← asRows? refs; let est ← est.asRats?; let flen ← flen.asNat?
      if ¬ (refsOk refs flen && est.length = (refs.headD []).length) then none
      else (projectAny refs est flen).map fun p => .ok (Val.ofRats p)
  | "separation.project_images_exact", [refs, est, flen, anySol] => do
      -- refs[s][c] = channel c of source s; est[c] = channel c of the estimate → the projected channels
      let refs ← as3? refs; let est ← asRows? est; let flen ← flen.asNat?; let anySol ← anySol.asBool?
      if ¬ imagesOk refs est flen then none
      else ((if anySol then projectImagesAny else projectImages) refs.flatten est flen).map fun p =>
        .ok (.list (p.map Val.ofRats))
  | "separation.gram_images_exact", [refs, est, flen] => do
      -- → [G, D] (D has one column per channel of the estimate)
      let refs ← as3? refs; let est ← asRows? est; let flen ← flen.asNat?
      if ¬ imagesOk refs est flen then none
      else
        let rows := refs.flatten
        let B := basis ((rows.headD []).length + flen - 1) flen rows
        some (.ok (.list [.list ((gram B).map Val.ofRats),
          .list (B.map fun b => Val.ofRats (est.map fun e => dot (e ++ zeros (flen - 1)) b))]))
  | "separation.gram_info_images_exact", [refs, flen] => do
      let refs ← as3? refs; let flen ← flen.asNat?
      if ¬ (refs ≠ [] ∧ refsOk refs.flatten flen) then none
      else
        let N := ((refs.flatten).headD []).length + flen - 1
        let one := fun (rs : List (List Rat)) => match cond1? (gram (basis N flen rs)) with
          | some c => Val.rat c
          | none => Val.none
        some (.ok (.list (one refs.flatten :: refs.map one)))
  | "separation.bss_decomp_images_exact", [refs, est, j, flen] => do
      let refs ← as3? refs; let est ← asRows? est; let j ← j.asNat?; let flen ← flen.asNat?
      if ¬ (imagesOk refs est flen && j < refs.length) then none
      else (decompImagesExact refs est j flen).map fun d =>
        .ok (.list [d.sTrue.toVal, d.eSpat.toVal, d.eInterf.toVal, d.eArtif.toVal])
  | "separation.bss_image_crit_exact", [refs, est, j, flen] => do
      let refs ← as3? refs; let est ← asRows? est; let j ← j.asNat?; let flen ← flen.asNat?
      if ¬ (imagesOk refs est flen && j < refs.length) then none
      else (imageCritExact refs est j flen).map fun c =>
        .ok (.list [dbRatioVal c.1, dbRatioVal c.2.1, dbRatioVal c.2.2.1, dbRatioVal c.2.2.2])
  | "separation.bss_eval_images_exact", [refs, ests, flen, cp] => do
      -- → [[sdr…], [isr…], [sir…], [sar…], perm] with energy ratios in place of dB
      let refs ← as3? refs; let ests ← as3? ests; let flen ← flen.asNat?; let cp ← cp.asBool?
      if ¬ (ests.length = refs.length && ests.all fun e => imagesOk refs e flen) then none
      else (bssEvalImagesExact refs ests flen cp).map fun (cs, popt) => .ok (selVal 4 cs popt)
  | _, _ => none

end SeparationLS
end Mir
