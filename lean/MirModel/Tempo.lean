import MirModel.MiscStats
/-
  MirModel.Tempo — `mir_eval.tempo` (validate_tempi, validate, detection, evaluate).
  Tempi arrive as lists (the length-2 requirement is part of what is validated).
-/
namespace Mir.Tempo
open Mir.MiscStats

/-- `tempo.validate_tempi(tempi, reference)`: exactly two values, none negative, and for a reference not
    both zero (finiteness is outside the model domain: all `Rat`s are finite) -/
def validateTempi (tempi : List Rat) (reference : Bool) : Py Unit :=
  if tempi.length ≠ 2 then .error .valueError
  else if tempi.any (fun t => decide (t < 0)) then .error .valueError
  else if reference && tempi.all (fun t => decide (t = 0)) then .error .valueError
  else .ok ()

/-- `tempo.validate(reference_tempi, reference_weight, estimated_tempi)` -/
def validate (ref : List Rat) (weight : Rat) (est : List Rat) : Py Unit := do
  validateTempi ref true
  validateTempi est false
  if weight < 0 ∨ 1 < weight then .error .valueError else .ok ()

/-- `np.min(np.abs(ref_t - estimated_tempi) / float(ref_t))` for two estimates -/
def relErr (r e0 e1 : Rat) : Rat := min (absQ (r - e0) / r) (absQ (r - e1) / r)

/-- `hits[i]`: stays `False` for a zero reference tempo -/
def hit (r e0 e1 tol : Rat) : Bool := if 0 < r then decide (relErr r e0 e1 ≤ tol) else false

def b2r (b : Bool) : Rat := if b then 1 else 0

/-- `tempo.detection(reference_tempi, reference_weight, estimated_tempi, tol)` →
    `(p_score, one_correct, both_correct)` -/
def detection (ref : List Rat) (weight : Rat) (est : List Rat) (tol : Rat := 2 / 25) :
    Py (Rat × Bool × Bool) := do
  validate ref weight est
  if tol < 0 ∨ 1 < tol then .error .valueError
  else match ref, est with
    | [r0, r1], [e0, e1] =>
        let h0 := hit r0 e0 e1 tol
        let h1 := hit r1 e0 e1 tol
        pure (weight * b2r h0 + (1 - weight) * b2r h1, h0 || h1, h0 && h1)
    | _, _ => .error .valueError   -- unreachable: `validate` has rejected every other shape

/-- `tempo.evaluate`: the only keyword that reaches `detection` is `tol` -/
def evaluate (ref : List Rat) (weight : Rat) (est : List Rat) (tol : Option Rat) :
    Py (Rat × Bool × Bool) := detection ref weight est (tol.getD (2 / 25))

def handler : Handler := fun fn args =>
  match fn, args with
  | "tempo.validate_tempi", [t, r] => do
      let t ← t.asRats?; let r ← r.asBool?
      some ((validateTempi t r).map fun _ => Val.none)
  | "tempo.validate", [r, w, e] => do
      let r ← r.asRats?; let w ← w.asRat?; let e ← e.asRats?
      some ((validate r w e).map fun _ => Val.none)
  | "tempo.detection", [r, w, e, tol] => do
      let r ← r.asRats?; let w ← w.asRat?; let e ← e.asRats?; let tol ← tol.asRat?
      some ((detection r w e tol).map fun s => .list [.rat s.1, .bool s.2.1, .bool s.2.2])
  | "tempo.evaluate", [r, w, e, tol] => do
      let r ← r.asRats?; let w ← w.asRat?; let e ← e.asRats?; let tol ← tol.asOptRat?
      some ((evaluate r w e tol).map fun s =>
        .list [.list [.str "P-score", .rat s.1], .list [.str "One-correct", .bool s.2.1],
               .list [.str "Both-correct", .bool s.2.2]])
  | _, _ => none

end Mir.Tempo
