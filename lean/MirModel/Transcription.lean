import MirModel.HitMetric
/-
  MirModel.Transcription — `mir_eval.transcription` and `mir_eval.transcription_velocity` as they are.

  * Times are `Rat` (the harness uses the 1/16 s and 1/32 s lattices); onset / offset distances are rounded
    to `N_DECIMALS = 4` with NumPy's round-half-even (`round4`).
  * Pitch lives in the log domain: a pitch is a MIDI number `m : Rat`, the harness sends
    `440·2^((m−69)/12)` Hz to the code.  `1200·|log2 f_r − log2 f_e|` is then `100·|m_r − m_e|`, and
    "multiply every frequency by a common factor" is a translation of every `m`.
    A non-positive Hz value has no MIDI number; the protocol sends it as `none` (only `validate` looks at it).
  * Note matching is a hit metric over notes: feasibility graph of the criterion (`hitGraph`, row-major =
    the order of `np.where`), then `util._bipartite_match`.  The Hopcroft–Karp routine is transliterated with
    insertion-ordered association lists (= Python dict order) because *which* maximum matching is returned
    matters for the Average Overlap Ratio.  The transliteration is not verified; like `kuhn` in
    `MirModel.Matching` only its output is checked: `pyMatching` returns it when the proved checker accepts it
    as a valid matching of maximum size (`validB`, `maxMatchSize`) and raises `PyErr.other` otherwise (which can
    never agree with a result of the real code, so a failure of the transliteration is a visible disagreement).
-/
namespace Mir
namespace Transcription

abbrev Ival := Rat × Rat
/-- a note: ((onset, offset), pitch as a MIDI number) -/
abbrev Note := Ival × Rat

def absR (x : Rat) : Rat := if x < 0 then -x else x
def maxR (a b : Rat) : Rat := if a ≤ b then b else a
def minR (a b : Rat) : Rat := if a ≤ b then a else b

/-- `np.rint`: round to the nearest integer, ties to the even one -/
def rintHalfEven (x : Rat) : Int :=
  let f := x.floor
  let d := x - (f : Rat)
  if d < 1 / 2 then f else if 1 / 2 < d then f + 1 else if f % 2 = 0 then f else f + 1

/-- `np.around(x, decimals=N_DECIMALS)` with `N_DECIMALS = 4` -/
def round4 (x : Rat) : Rat := (rintHalfEven (x * 10000) : Rat) / 10000

/-- `np.less` (strict) or `np.less_equal` -/
def cmpTol (strict : Bool) (d tol : Rat) : Bool := if strict then decide (d < tol) else decide (d ≤ tol)

/-! ### the three criteria -/

def onsetHit (tol : Rat) (strict : Bool) (r e : Ival) : Bool :=
  cmpTol strict (round4 (absR (r.1 - e.1))) tol

/-- `max(offset_ratio * ref_duration, offset_min_tolerance)`.  (`util.intervals_to_durations` validates the
    reference intervals first, so the `np.abs` it applies to the duration is the identity.) -/
def offsetTol (ratio minTol : Rat) (r : Ival) : Rat := maxR (ratio * (r.2 - r.1)) minTol

def offsetHit (ratio minTol : Rat) (strict : Bool) (r e : Ival) : Bool :=
  cmpTol strict (round4 (absR (r.2 - e.2))) (offsetTol ratio minTol r)

/-- `|1200·(log2 f_r − log2 f_e)|` in cents for `f = 440·2^((m−69)/12)` -/
def pitchDist (r e : Rat) : Rat := absR (100 * (r - e))

def pitchHit (tol : Rat) (strict : Bool) (r e : Rat) : Bool := cmpTol strict (pitchDist r e) tol

structure Params where
  onsetTol : Rat := 1 / 20
  pitchTol : Rat := 50
  offsetRatio : Option Rat := some (1 / 5)
  offsetMinTol : Rat := 1 / 20
  strict : Bool := false

/-- `note_hit_matrix = onset_hit_matrix * pitch_hit_matrix * offset_hit_matrix` (the last is `True` when
    `offset_ratio is None`) -/
def noteHit (p : Params) (r e : Note) : Bool :=
  onsetHit p.onsetTol p.strict r.1 e.1 && pitchHit p.pitchTol p.strict r.2 e.2 &&
    (match p.offsetRatio with
     | none => true
     | some ρ => offsetHit ρ p.offsetMinTol p.strict r.1 e.1)

/-! ### `util._bipartite_match` (Hopcroft–Karp, dict-order faithful; proved valid and maximum for every dict in
     `MirProofs.Props.C05_HK`; the output is still run through the proved checker) -/

abbrev AL (α : Type) := List (Nat × α)

def alGet {α : Type} (k : Nat) : AL α → Option α
  | [] => none
  | (k', v) :: rest => if k' = k then some v else alGet k rest

def alHas {α : Type} (k : Nat) (m : AL α) : Bool := m.any fun x => x.1 == k

/-- `d[k] = v`: update in place, or append (insertion order) -/
def alSet {α : Type} (k : Nat) (v : α) : AL α → AL α
  | [] => [(k, v)]
  | (k', v') :: rest => if k' = k then (k, v) :: rest else (k', v') :: alSet k v rest

def alErase {α : Type} (k : Nat) (m : AL α) : AL α := m.filter fun x => x.1 != k

/-- the graph dict `G[est_i] = [ref_i, …]` built from `zip(*np.where(hit_matrix))` -/
def buildGraph (edges : List Edge) : AL (List Nat) :=
  edges.foldl (fun g e =>
    match alGet e.2 g with
    | none => alSet e.2 [e.1] g
    | some l => alSet e.2 (l ++ [e.1]) g) []

/-- the greedy initialisation -/
def greedyInit (graph : AL (List Nat)) : AL Nat :=
  graph.foldl (fun m uv =>
    match uv.2.find? (fun v => !alHas v m) with
    | some v => alSet v uv.1 m
    | none => m) []

def buildNewLayer (graph preds : AL (List Nat)) (layer : List Nat) : AL (List Nat) :=
  layer.foldl (fun nl u =>
    match alGet u graph with
    | none => nl
    | some vs => vs.foldl (fun nl v =>
        if alHas v preds then nl
        else match alGet v nl with
          | none => alSet v [u] nl
          | some l => alSet v (l ++ [u]) nl) nl) []

structure Layers where
  layer : List Nat
  preds : AL (List Nat)
  pred : AL (Option Nat)      -- `none` = the `unmatched` sentinel
  unmatched : List Nat

def absorbLayer (matching : AL Nat) (nl : AL (List Nat)) (s : Layers) : Layers :=
  nl.foldl (fun s vus =>
    let preds := alSet vus.1 vus.2 s.preds
    match alGet vus.1 matching with
    | some u => { s with layer := s.layer ++ [u], preds := preds, pred := alSet u (some vus.1) s.pred }
    | none => { s with preds := preds, unmatched := s.unmatched ++ [vus.1] })
    { s with layer := [] }

def layerLoop (graph : AL (List Nat)) (matching : AL Nat) : Nat → Layers → Layers
  | 0, s => s
  | fuel + 1, s =>
      if s.layer.isEmpty || !s.unmatched.isEmpty then s
      else layerLoop graph matching fuel (absorbLayer matching (buildNewLayer graph s.preds s.layer) s)

structure HKState where
  preds : AL (List Nat)
  pred : AL (Option Nat)
  matching : AL Nat

/-- the `for u in L:` loop of `recurse(v)`, with the recursive call abstracted -/
def recurseList (rec : Nat → HKState → Bool × HKState) (v : Nat) : List Nat → HKState → Bool × HKState
  | [], s => (false, s)
  | u :: L, s =>
      match alGet u s.pred with
      | none => recurseList rec v L s
      | some pu =>
          let s := { s with pred := alErase u s.pred }
          match pu with
          | none => (true, { s with matching := alSet v u s.matching })
          | some w =>
              match rec w s with
              | (true, s') => (true, { s' with matching := alSet v u s'.matching })
              | (false, s') => recurseList rec v L s'

/-- `recurse(v)`; `fuel` bounds the recursion depth (the number of layers) -/
def recurse : Nat → Nat → HKState → Bool × HKState
  | 0, _, s => (false, s)
  | fuel + 1, v, s =>
      match alGet v s.preds with
      | none => (false, s)
      | some L => recurseList (recurse fuel) v L { s with preds := alErase v s.preds }

def hkLoop (graph : AL (List Nat)) (bound : Nat) : Nat → AL Nat → AL Nat
  | 0, matching => matching
  | fuel + 1, matching =>
      let pred0 : AL (Option Nat) :=
        (graph.map fun uv => (uv.1, (none : Option Nat))).filter fun x => !(matching.any fun vu => vu.2 == x.1)
      let ls := layerLoop graph matching bound
        { layer := pred0.map Prod.fst, preds := [], pred := pred0, unmatched := [] }
      if ls.unmatched.isEmpty then matching
      else
        let st := ls.unmatched.foldl (fun st v => (recurse bound v st).2)
          { preds := ls.preds, pred := ls.pred, matching := matching : HKState }
        hkLoop graph bound fuel st.matching

def hkMatch (graph : AL (List Nat)) : AL Nat :=
  let bound := graph.length + (graph.map fun uv => uv.2.length).sum + 2
  hkLoop graph bound bound (greedyInit graph)

def insertPair (x : Nat × Nat) : List (Nat × Nat) → List (Nat × Nat)
  | [] => [x]
  | y :: ys => if x.1 < y.1 || (x.1 == y.1 && x.2 ≤ y.2) then x :: y :: ys else y :: insertPair x ys

/-- `sorted(matching.items())` -/
def sortPairs : List (Nat × Nat) → List (Nat × Nat)
  | [] => []
  | x :: xs => insertPair x (sortPairs xs)

/-- `sorted(util._bipartite_match(G).items())` for the graph of `edges = (ref_i, est_i)` in `np.where` order,
    accepted only as a valid maximum matching (see the header). -/
def pyMatching (edges : List Edge) : Py (List Edge) :=
  let m := sortPairs (hkMatch (buildGraph edges))
  if validB edges m && m.length == maxMatchSize edges then .ok m else .error .other

/-! ### validation -/

/-- `util.validate_intervals` on an (n, 2) array -/
def validateIntervals1 (iv : List Ival) : Py Unit :=
  if iv.any (fun x => decide (x.1 < 0) || decide (x.2 < 0)) then .error .valueError
  else if iv.any (fun x => decide (x.2 ≤ x.1)) then .error .valueError
  else .ok ()

/-- `transcription.validate_intervals` (the emptiness warnings are not observations) -/
def validateIntervals (refI estI : List Ival) : Py Unit := do
  validateIntervals1 refI
  validateIntervals1 estI

/-- `if cond: raise ValueError(...)` -/
def raiseIf (c : Bool) : Py Unit := if c then .error .valueError else .ok ()

/-- `transcription.validate`; a pitch is `some m` (positive Hz) or `none` (non-positive Hz) -/
def validate (refI : List Ival) (refP : List (Option Rat)) (estI : List Ival) (estP : List (Option Rat)) :
    Py Unit := do
  validateIntervals refI estI
  raiseIf (refI.length != refP.length)
  raiseIf (estI.length != estP.length)
  raiseIf (refP.any Option.isNone)
  raiseIf (estP.any Option.isNone)

/-! ### matching functions -/

def matchNoteOffsets (refI estI : List Ival) (ratio minTol : Rat) (strict : Bool) : Py (List Edge) := do
  validateIntervals1 refI            -- inside util.intervals_to_durations
  pyMatching (hitGraph (offsetHit ratio minTol strict) refI estI)

def matchNoteOnsets (refI estI : List Ival) (tol : Rat) (strict : Bool) : Py (List Edge) :=
  pyMatching (hitGraph (onsetHit tol strict) refI estI)

/-- `util.intervals_to_durations(ref_intervals)` validates the reference intervals; reached only when
    `offset_ratio is not None` -/
def durationsCheck (p : Params) (refI : List Ival) : Py Unit :=
  if p.offsetRatio.isSome then validateIntervals1 refI else .ok ()

def matchNotes (refI : List Ival) (refP : List Rat) (estI : List Ival) (estP : List Rat) (p : Params) :
    Py (List Edge) := do
  durationsCheck p refI
  pyMatching (hitGraph (noteHit p) (refI.zip refP) (estI.zip estP))

/-! ### scores -/

def overlapRatio (r e : Ival) : Rat :=
  (minR r.2 e.2 - maxR r.1 e.1) / (maxR r.2 e.2 - minR r.1 e.1)

def ratiosOf (refI estI : List Ival) : List Edge → Py (List Rat)
  | [] => .ok []
  | (i, j) :: rest =>
      match refI[i]?, estI[j]? with
      | some r, some e => do
          let tl ← ratiosOf refI estI rest
          pure (overlapRatio r e :: tl)
      | _, _ => .error .indexError

def meanR (xs : List Rat) : Rat := xs.sum / (xs.length : Rat)

def averageOverlapRatio (refI estI : List Ival) (m : List Edge) : Py Rat :=
  match ratiosOf refI estI m with
  | .error e => .error e
  | .ok ratios => .ok (if ratios.isEmpty then 0 else meanR ratios)

def precisionRecallF1Overlap (refI : List Ival) (refP : List Rat) (estI : List Ival) (estP : List Rat)
    (p : Params) (beta : Rat) : Py (Rat × Rat × Rat × Rat) := do
  validate refI (refP.map some) estI (estP.map some)
  if refP.isEmpty || estP.isEmpty then pure (0, 0, 0, 0)
  else do
    let m ← matchNotes refI refP estI estP p
    let aor ← averageOverlapRatio refI estI m
    let s := prf m.length refP.length estP.length beta
    pure (s.1, s.2.1, s.2.2, aor)

def onsetPRF (refI estI : List Ival) (tol : Rat) (strict : Bool) (beta : Rat) : Py (Rat × Rat × Rat) := do
  validateIntervals refI estI
  if refI.isEmpty || estI.isEmpty then pure (0, 0, 0)
  else do
    let m ← matchNoteOnsets refI estI tol strict
    pure (prf m.length refI.length estI.length beta)

def offsetPRF (refI estI : List Ival) (ratio minTol : Rat) (strict : Bool) (beta : Rat) :
    Py (Rat × Rat × Rat) := do
  validateIntervals refI estI
  if refI.isEmpty || estI.isEmpty then pure (0, 0, 0)
  else do
    let m ← matchNoteOffsets refI estI ratio minTol strict
    pure (prf m.length refI.length estI.length beta)

/-- `transcription.evaluate`: the ordered dictionary as a key/value list -/
def evaluate (refI : List Ival) (refP : List Rat) (estI : List Ival) (estP : List Rat)
    (p : Params) (beta : Rat) : Py (List (String × Rat)) := do
  let withOff ←
    match p.offsetRatio with
    | none => pure []
    | some _ => do
        let s ← precisionRecallF1Overlap refI refP estI estP p beta
        pure [("Precision", s.1), ("Recall", s.2.1), ("F-measure", s.2.2.1),
              ("Average_Overlap_Ratio", s.2.2.2)]
  let s ← precisionRecallF1Overlap refI refP estI estP { p with offsetRatio := none } beta
  let noOff := [("Precision_no_offset", s.1), ("Recall_no_offset", s.2.1), ("F-measure_no_offset", s.2.2.1),
                ("Average_Overlap_Ratio_no_offset", s.2.2.2)]
  let o ← onsetPRF refI estI p.onsetTol p.strict beta
  let ons := [("Onset_Precision", o.1), ("Onset_Recall", o.2.1), ("Onset_F-measure", o.2.2)]
  let offs ←
    match p.offsetRatio with
    | none => pure []
    | some ρ => do
        let f ← offsetPRF refI estI ρ p.offsetMinTol p.strict beta
        pure [("Offset_Precision", f.1), ("Offset_Recall", f.2.1), ("Offset_F-measure", f.2.2)]
  return withOff ++ noOff ++ ons ++ offs

/-! ### transcription_velocity -/

def sumR (xs : List Rat) : Rat := xs.sum

/-- `np.linalg.lstsq([x, 1], y)`: slope and intercept; when all `x` are equal (in particular for a single
    point) the system is rank deficient and `lstsq` returns the minimum-norm solution. -/
def lstsqLine (xs ys : List Rat) : Rat × Rat :=
  let n : Rat := (xs.length : Rat)
  let sx := sumR xs
  let sy := sumR ys
  let sxx := sumR (xs.map fun x => x * x)
  let sxy := sumR (List.zipWith (fun x y => x * y) xs ys)
  let det := n * sxx - sx * sx
  if det = 0 then
    let c := sx / n
    let ybar := sy / n
    (c * ybar / (c * c + 1), ybar / (c * c + 1))
  else ((n * sxy - sx * sy) / det, (sy * sxx - sx * sxy) / det)

def minList : List Rat → Option Rat
  | [] => none
  | x :: xs => some (xs.foldl minR x)
def maxList : List Rat → Option Rat
  | [] => none
  | x :: xs => some (xs.foldl maxR x)

def lookupAll (vs : List Rat) : List Nat → Py (List Rat)
  | [] => .ok []
  | i :: rest =>
      match vs[i]? with
      | some v => do
          let tl ← lookupAll vs rest
          pure (v :: tl)
      | none => .error .indexError

/-- keep the pairs whose regressed estimated velocity is within (strictly) the tolerance -/
def velFilter (slope intercept tol : Rat) : List Edge → List Rat → List Rat → List Edge
  | m :: ms, r :: rs, e :: es =>
      if absR (slope * e + intercept - r) < tol then m :: velFilter slope intercept tol ms rs es
      else velFilter slope intercept tol ms rs es
  | _, _, _ => []

/-- normalised reference velocities `(v − min) / max(1, max − min)`; `np.min` of an empty array raises -/
def normVelocities (refV : List Rat) : Py (List Rat) :=
  match minList refV, maxList refV with
  | some mn, some mx => .ok (refV.map fun v => (v - mn) / maxR 1 (mx - mn))
  | _, _ => .error .valueError

/-- the regression and tolerance filter applied to a non-empty matching -/
def velKeep (refVn estV : List Rat) (velTol : Rat) (m : List Edge) : Py (List Edge) := do
  let rv ← lookupAll refVn (m.map Prod.fst)
  let ev ← lookupAll estV (m.map Prod.snd)
  let se := lstsqLine ev rv
  pure (velFilter se.1 se.2 velTol m rv ev)

def velMatchNotes (refI : List Ival) (refP refV : List Rat) (estI : List Ival) (estP estV : List Rat)
    (p : Params) (velTol : Rat) : Py (List Edge) := do
  let m ← matchNotes refI refP estI estP p
  let refVn ← normVelocities refV
  if m.isEmpty then pure [] else velKeep refVn estV velTol m

def velValidate (refI : List Ival) (refP : List (Option Rat)) (refV : List Rat)
    (estI : List Ival) (estP : List (Option Rat)) (estV : List Rat) : Py Unit := do
  validate refI refP estI estP
  raiseIf (refV.length != refP.length)
  raiseIf (estV.length != estP.length)
  raiseIf (refV.any (fun v => decide (v < 0)))
  raiseIf (estV.any (fun v => decide (v < 0)))

def velPRFOverlap (refI : List Ival) (refP refV : List Rat) (estI : List Ival) (estP estV : List Rat)
    (p : Params) (velTol beta : Rat) : Py (Rat × Rat × Rat × Rat) := do
  velValidate refI (refP.map some) refV estI (estP.map some) estV
  if refP.isEmpty || estP.isEmpty then pure (0, 0, 0, 0)
  else do
    let m ← velMatchNotes refI refP refV estI estP estV p velTol
    let aor ← averageOverlapRatio refI estI m
    let s := prf m.length refP.length estP.length beta
    pure (s.1, s.2.1, s.2.2, aor)

def velEvaluate (refI : List Ival) (refP refV : List Rat) (estI : List Ival) (estP estV : List Rat)
    (p : Params) (velTol beta : Rat) : Py (List (String × Rat)) := do
  let withOff ←
    match p.offsetRatio with
    | none => pure []
    | some _ => do
        let s ← velPRFOverlap refI refP refV estI estP estV p velTol beta
        pure [("Precision", s.1), ("Recall", s.2.1), ("F-measure", s.2.2.1),
              ("Average_Overlap_Ratio", s.2.2.2)]
  let s ← velPRFOverlap refI refP refV estI estP estV { p with offsetRatio := none } velTol beta
  return withOff ++ [("Precision_no_offset", s.1), ("Recall_no_offset", s.2.1),
    ("F-measure_no_offset", s.2.2.1), ("Average_Overlap_Ratio_no_offset", s.2.2.2)]

/-! ### driver glue -/

def asOptRats? (v : Val) : Option (List (Option Rat)) := do (← v.asList?).mapM Val.asOptRat?

def allSome (xs : List (Option Rat)) : Option (List Rat) := xs.mapM id

def mkParams (ot pt ratio mt strict : Val) : Option Params := do
  some { onsetTol := (← ot.asRat?), pitchTol := (← pt.asRat?), offsetRatio := (← ratio.asOptRat?),
         offsetMinTol := (← mt.asRat?), strict := (← strict.asBool?) }

def ofQuad (s : Rat × Rat × Rat × Rat) : Val := Val.ofRats [s.1, s.2.1, s.2.2.1, s.2.2.2]
def ofTriple (s : Rat × Rat × Rat) : Val := Val.ofRats [s.1, s.2.1, s.2.2]
def ofDict (d : List (String × Rat)) : Val := .list (d.map fun kv => .list [.str kv.1, .rat kv.2])

/-- the proved checker applied to a pairing returned by the real code, against the model's feasibility graph:
    [valid, size, maximum size, certificate accepted] -/
def checkPairs (g : List Edge) (m : List Edge) : Val :=
  .list [.bool (validB g m), Val.ofNat m.length, Val.ofNat (maxMatchSize g), .bool (certified g)]

/-- every matched pair has a non-zero union length (model domain of `average_overlap_ratio`) -/
def aorDomain (refI estI : List Ival) (m : List Edge) : Bool :=
  m.all fun ij =>
    match refI[ij.1]?, estI[ij.2]? with
    | some r, some e => decide (maxR r.2 e.2 - minR r.1 e.1 ≠ 0)
    | _, _ => true

def liftUnit (r : Py Unit) : Py Val := r.map fun _ => Val.none

/-- an adjacency dict `[[u, [v, …]], …]` in insertion order; `none` unless the keys are distinct -/
def asAdj? (v : Val) : Option (AL (List Nat)) := do
  let g ← (← v.asList?).mapM fun p => do
    let (a, b) ← p.asPair?
    some ((← a.asNat?), (← b.asNats?))
  if nodupB (g.map Prod.fst) then some g else none

def handler : Handler := fun fn args =>
  match fn, args with
  | "transcription.validate_intervals", [ri, ei] => do
      let ri ← ri.asRatPairs?; let ei ← ei.asRatPairs?
      some (liftUnit (validateIntervals ri ei))
  | "transcription.validate", [ri, rp, ei, ep] => do
      let ri ← ri.asRatPairs?; let rp ← asOptRats? rp; let ei ← ei.asRatPairs?; let ep ← asOptRats? ep
      some (liftUnit (validate ri rp ei ep))
  | "transcription.match_note_offsets", [ri, ei, ratio, mt, strict] => do
      let ri ← ri.asRatPairs?; let ei ← ei.asRatPairs?
      let ratio ← ratio.asRat?; let mt ← mt.asRat?; let strict ← strict.asBool?
      some ((matchNoteOffsets ri ei ratio mt strict).map Val.ofNatPairs)
  | "transcription.match_note_onsets", [ri, ei, tol, strict] => do
      let ri ← ri.asRatPairs?; let ei ← ei.asRatPairs?; let tol ← tol.asRat?; let strict ← strict.asBool?
      some ((matchNoteOnsets ri ei tol strict).map Val.ofNatPairs)
  | "transcription.match_notes", [ri, rp, ei, ep, ot, pt, ratio, mt, strict] => do
      let ri ← ri.asRatPairs?; let rp ← rp.asRats?; let ei ← ei.asRatPairs?; let ep ← ep.asRats?
      let p ← mkParams ot pt ratio mt strict
      if ri.length ≠ rp.length ∨ ei.length ≠ ep.length then none
      else some ((matchNotes ri rp ei ep p).map Val.ofNatPairs)
  | "transcription.check_match_notes", [ri, rp, ei, ep, ot, pt, ratio, mt, strict, m] => do
      let ri ← ri.asRatPairs?; let rp ← rp.asRats?; let ei ← ei.asRatPairs?; let ep ← ep.asRats?
      let p ← mkParams ot pt ratio mt strict
      let m ← m.asNatPairs?
      if ri.length ≠ rp.length ∨ ei.length ≠ ep.length then none
      else some (.ok (checkPairs (hitGraph (noteHit p) (ri.zip rp) (ei.zip ep)) m))
  | "transcription.check_match_note_onsets", [ri, ei, tol, strict, m] => do
      let ri ← ri.asRatPairs?; let ei ← ei.asRatPairs?; let tol ← tol.asRat?; let strict ← strict.asBool?
      let m ← m.asNatPairs?
      some (.ok (checkPairs (hitGraph (onsetHit tol strict) ri ei) m))
  | "transcription.check_match_note_offsets", [ri, ei, ratio, mt, strict, m] => do
      let ri ← ri.asRatPairs?; let ei ← ei.asRatPairs?
      let ratio ← ratio.asRat?; let mt ← mt.asRat?; let strict ← strict.asBool?
      let m ← m.asNatPairs?
      some (.ok (checkPairs (hitGraph (offsetHit ratio mt strict) ri ei) m))
  | "transcription.average_overlap_ratio", [ri, ei, m] => do
      let ri ← ri.asRatPairs?; let ei ← ei.asRatPairs?; let m ← m.asNatPairs?
      if aorDomain ri ei m then some ((averageOverlapRatio ri ei m).map Val.rat) else none
  | "transcription.precision_recall_f1_overlap", [ri, rp, ei, ep, ot, pt, ratio, mt, strict, beta] => do
      let ri ← ri.asRatPairs?; let rp ← asOptRats? rp; let ei ← ei.asRatPairs?; let ep ← asOptRats? ep
      let p ← mkParams ot pt ratio mt strict
      let beta ← beta.asRat?
      match allSome rp, allSome ep with
      | some rp', some ep' => some ((precisionRecallF1Overlap ri rp' ei ep' p beta).map ofQuad)
      | _, _ =>
          match validate ri rp ei ep with
          | .error e => some (.error e)
          | .ok _ => none
  | "transcription.onset_precision_recall_f1", [ri, ei, tol, strict, beta] => do
      let ri ← ri.asRatPairs?; let ei ← ei.asRatPairs?; let tol ← tol.asRat?; let strict ← strict.asBool?
      let beta ← beta.asRat?
      some ((onsetPRF ri ei tol strict beta).map ofTriple)
  | "transcription.offset_precision_recall_f1", [ri, ei, ratio, mt, strict, beta] => do
      let ri ← ri.asRatPairs?; let ei ← ei.asRatPairs?
      let ratio ← ratio.asRat?; let mt ← mt.asRat?; let strict ← strict.asBool?; let beta ← beta.asRat?
      some ((offsetPRF ri ei ratio mt strict beta).map ofTriple)
  | "transcription.evaluate", [ri, rp, ei, ep, ot, pt, ratio, mt, strict, beta] => do
      let ri ← ri.asRatPairs?; let rp ← asOptRats? rp; let ei ← ei.asRatPairs?; let ep ← asOptRats? ep
      let p ← mkParams ot pt ratio mt strict
      let beta ← beta.asRat?
      match allSome rp, allSome ep with
      | some rp', some ep' => some ((evaluate ri rp' ei ep' p beta).map ofDict)
      | _, _ =>
          match validate ri rp ei ep with
          | .error e => some (.error e)
          | .ok _ => none
  | "transcription_velocity.validate", [ri, rp, rv, ei, ep, ev] => do
      let ri ← ri.asRatPairs?; let rp ← asOptRats? rp; let rv ← rv.asRats?
      let ei ← ei.asRatPairs?; let ep ← asOptRats? ep; let ev ← ev.asRats?
      some (liftUnit (velValidate ri rp rv ei ep ev))
  | "transcription_velocity.match_notes", [ri, rp, rv, ei, ep, ev, ot, pt, ratio, mt, strict, vt] => do
      let ri ← ri.asRatPairs?; let rp ← rp.asRats?; let rv ← rv.asRats?
      let ei ← ei.asRatPairs?; let ep ← ep.asRats?; let ev ← ev.asRats?
      let p ← mkParams ot pt ratio mt strict
      let vt ← vt.asRat?
      if ri.length ≠ rp.length ∨ ei.length ≠ ep.length ∨ ri.length ≠ rv.length ∨ ei.length ≠ ev.length then none
      else some ((velMatchNotes ri rp rv ei ep ev p vt).map Val.ofNatPairs)
  | "transcription_velocity.precision_recall_f1_overlap",
      [ri, rp, rv, ei, ep, ev, ot, pt, ratio, mt, strict, vt, beta] => do
      let ri ← ri.asRatPairs?; let rp ← asOptRats? rp; let rv ← rv.asRats?
      let ei ← ei.asRatPairs?; let ep ← asOptRats? ep; let ev ← ev.asRats?
      let p ← mkParams ot pt ratio mt strict
      let vt ← vt.asRat?; let beta ← beta.asRat?
      match allSome rp, allSome ep with
      | some rp', some ep' => some ((velPRFOverlap ri rp' rv ei ep' ev p vt beta).map ofQuad)
      | _, _ =>
          match velValidate ri rp rv ei ep ev with
          | .error e => some (.error e)
          | .ok _ => none
  | "transcription_velocity.evaluate", [ri, rp, rv, ei, ep, ev, ot, pt, ratio, mt, strict, vt, beta] => do
      let ri ← ri.asRatPairs?; let rp ← asOptRats? rp; let rv ← rv.asRats?
      let ei ← ei.asRatPairs?; let ep ← asOptRats? ep; let ev ← ev.asRats?
      let p ← mkParams ot pt ratio mt strict
      let vt ← vt.asRat?; let beta ← beta.asRat?
      match allSome rp, allSome ep with
      | some rp', some ep' => some ((velEvaluate ri rp' rv ei ep' ev p vt beta).map ofDict)
      | _, _ =>
          match velValidate ri rp rv ei ep ev with
          | .error e => some (.error e)
          | .ok _ => none
  | "transcription.bipartite_match_items", [es] => do
      -- sorted(util._bipartite_match(G).items()) for G built from (ref_i, est_i) hits in the given order,
      -- straight from the transliteration (no certificate guard), plus the certified maximum size
      let es ← es.asNatPairs?
      some (.ok (.list [Val.ofNatPairs (sortPairs (hkMatch (buildGraph es))), Val.ofNat (maxMatchSize es)]))
  | "util._bipartite_match", [adj] => do
      -- sorted(util._bipartite_match(G).items()) for the dict G given in insertion order (adjacency lists in
      -- the given order, empty lists allowed), straight from the transliteration `hkMatch` (about which
      -- MirProofs.Props.C05_HK proves validity and maximality), plus the certified maximum size
      let g ← asAdj? adj
      let es : List Edge := g.flatMap fun uv => uv.2.map fun v => (uv.1, v)
      some (.ok (.list [Val.ofNatPairs (sortPairs (hkMatch g)), Val.ofNat (maxMatchSize es)]))
  | "transcription.round4", [x] => do
      let x ← x.asRat?
      some (.ok (.rat (round4 x)))
  | "transcription.lstsq_line", [xs, ys] => do
      let xs ← xs.asRats?; let ys ← ys.asRats?
      if xs.length ≠ ys.length ∨ xs.isEmpty then none
      else
        let se := lstsqLine xs ys
        some (.ok (Val.ofRats [se.1, se.2]))
  | _, _ => none

end Transcription
end Mir
