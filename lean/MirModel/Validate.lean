import MirModel.Basic
/-
  MirModel.Validate — every input validator of mir_eval, as the code is (C14).

  An ndarray is modelled only as far as validators look at it: its `shape` and its row-major `data`
  (`Arr`).  NaN / inf are out of scope (data are rationals).  Representation invariant (`Arr.wf`, enforced by
  the protocol handler): `data.length = product of shape`; `a.size` is therefore `data.length`.

  Every validator is `Py Unit`-valued and raises exactly where, and in the order, the Python does (the first
  failing check wins).  Python partiality that validators can reach is explicit: `a.shape[0]` of a 0-d array is
  `IndexError`, `len(a)` of a 0-d array is `TypeError`, `xs[0]` of an empty list is `IndexError`, `np.min` of an
  empty array is `ValueError`, `np.all(·, axis=1)` of an array with fewer than two axes is `AxisError` (a
  subclass of `ValueError`).
-/
namespace Mir

/-- what a validator sees of an `np.ndarray` of floats -/
structure Arr where
  shape : List Nat
  data : List Rat
  deriving Repr, DecidableEq, Inhabited

namespace Arr
def prodL : List Nat → Nat
  | [] => 1
  | n :: ns => n * prodL ns
/-- representation invariant: as many data as the shape says -/
def wf (a : Arr) : Bool := a.data.length == prodL a.shape
/-- `a.ndim` -/
def ndim (a : Arr) : Nat := a.shape.length
/-- `a.size` (number of elements) -/
def size (a : Arr) : Nat := a.data.length
/-- `a.shape[0]`: `IndexError: tuple index out of range` on a 0-d array -/
def shape0 (a : Arr) : Py Nat :=
  match a.shape with
  | [] => .error .indexError
  | n :: _ => .ok n
/-- `len(a)`: `TypeError: len() of unsized object` on a 0-d array -/
def len (a : Arr) : Py Nat :=
  match a.shape with
  | [] => .error .typeError
  | n :: _ => .ok n
/-- a 1-d array -/
def vec (xs : List Rat) : Arr := ⟨[xs.length], xs⟩
end Arr

namespace Validate

/-- `if bad: raise ValueError(...)` -/
def check (bad : Bool) : Py Unit := if bad then .error .valueError else .ok ()

/-- `for x in xs: f(x)` (first failure wins) -/
def forEach {α : Type} (f : α → Py Unit) : List α → Py Unit
  | [] => .ok ()
  | x :: xs => f x >>= fun _ => forEach f xs

def rabs (x : Rat) : Rat := if x < 0 then -x else x

/-- `np.diff` of a 1-d array (also `x[1:] - x[:-1]`) -/
def diffs : List Rat → List Rat
  | a :: b :: t => (b - a) :: diffs (b :: t)
  | _ => []

/-- the rows of an `(n, 2)` array given row-major -/
def rows2 : List Rat → List (Rat × Rat)
  | a :: b :: t => (a, b) :: rows2 t
  | _ => []

/-- `np.min(a)` / `a.min()`: raises `ValueError` on an empty array -/
def npMin : List Rat → Py Rat
  | [] => .error .valueError
  | x :: t => .ok (t.foldl min x)

/-- `np.max(a)` / `a.max()` -/
def npMax : List Rat → Py Rat
  | [] => .error .valueError
  | x :: t => .ok (t.foldl max x)

/-- `np.allclose(a, b)` on finite scalars: `|a - b| <= atol + rtol * |b|`, atol = 1e-8, rtol = 1e-5 -/
def allclose (a b : Rat) : Bool :=
  decide (rabs (a - b) ≤ (1 : Rat) / 100000000 + (1 : Rat) / 100000 * rabs b)

/-! ### util -/

/-- `util.validate_events(events, max_time)` -/
def utilEvents (e : Arr) (maxTime : Rat) : Py Unit := do
  check (e.data.any fun x => decide (maxTime < x))
  check (e.ndim != 1)
  check ((diffs e.data).any fun d => decide (d < 0))

/-- `intervals.ndim != 2 or intervals.shape[1] != 2` -/
def notNby2 (shape : List Nat) : Bool :=
  match shape with
  | [_, m] => m != 2
  | _ => true

/-- `util.validate_intervals(intervals)` -/
def utilIntervals (iv : Arr) : Py Unit := do
  check (notNby2 iv.shape)
  check (iv.data.any fun x => decide (x < 0))
  check ((rows2 iv.data).any fun r => decide (r.2 ≤ r.1))

/-- `util.validate_frequencies(frequencies, max_freq, min_freq, allow_negatives)`.
    The tests take `np.abs` whatever `allow_negatives` says, so the flag has no effect. -/
def utilFrequencies (f : Arr) (maxFreq minFreq : Rat) (allowNegatives : Bool) : Py Unit := do
  let d := if allowNegatives then f.data.map rabs else f.data
  check (d.any fun x => decide (maxFreq < rabs x))
  check (d.any fun x => decide (rabs x < minFreq))
  check (f.ndim != 1)

/-! ### beat / onset (`MAX_TIME = 30000`) -/

def maxTime : Rat := 30000

/-- `beat.validate(reference_beats, estimated_beats)` (emptiness only warns) -/
def beatValidate (r e : Arr) : Py Unit := do
  utilEvents r maxTime
  utilEvents e maxTime

/-- `onset.validate(reference_onsets, estimated_onsets)` -/
def onsetValidate (r e : Arr) : Py Unit := do
  utilEvents r maxTime
  utilEvents e maxTime

/-! ### tempo -/

/-- `tempo.validate_tempi(tempi, reference)` (the `isfinite` test is out of the model's scope) -/
def tempoTempi (t : Arr) (reference : Bool) : Py Unit := do
  check (t.size != 2)
  check (t.data.any fun x => decide (x < 0))
  check (reference && t.data.all fun x => decide (x = 0))

/-- `tempo.validate(reference_tempi, reference_weight, estimated_tempi)` -/
def tempoValidate (rt : Arr) (w : Rat) (et : Arr) : Py Unit := do
  tempoTempi rt true
  tempoTempi et false
  check (decide (w < 0) || decide (1 < w))

/-- the checks `tempo.detection` makes before computing: `validate`, then `tol` in [0, 1] -/
def tempoDetection (rt : Arr) (w : Rat) (et : Arr) (tol : Rat) : Py Unit := do
  tempoValidate rt w et
  check (decide (tol < 0) || decide (1 < tol))

/-! ### key (ASCII strings; `str.split()` and `str.lower()` as CPython does on ASCII) -/

/-- `c.isspace()` for an ASCII character: TAB LF VT FF CR, FS GS RS US, SPACE -/
def isPySpace (c : Char) : Bool :=
  let n := c.toNat
  (9 ≤ n && n ≤ 13) || (28 ≤ n && n ≤ 32)

def splitGo : List Char → List Char → List (List Char)
  | [], cur => if cur.isEmpty then [] else [cur.reverse]
  | c :: cs, cur =>
      if isPySpace c then
        (if cur.isEmpty then splitGo cs [] else cur.reverse :: splitGo cs [])
      else splitGo cs (c :: cur)

/-- `s.split()` -/
def pySplit (s : List Char) : List (List Char) := splitGo s []

/-- `c.lower()` for an ASCII character -/
def asciiLower (c : Char) : Char :=
  if 65 ≤ c.toNat ∧ c.toNat ≤ 90 then Char.ofNat (c.toNat + 32) else c

/-- `s.lower()` on ASCII -/
def pyLower (s : List Char) : List Char := s.map asciiLower

/-- the keys of `key.KEY_TO_SEMITONE` -/
def keyTable : List (List Char) :=
  ["c", "c#", "db", "d", "d#", "eb", "e", "f", "f#", "gb", "g", "g#", "ab", "a", "a#", "bb", "b", "x"].map
    String.toList

def modeTable : List (List Char) := ["major", "minor", "other"].map String.toList

/-- `key.validate_key(key)` -/
def keyValidateKey (key : List Char) : Py Unit := do
  let toks := pySplit key
  check (toks.length != 2 && !(toks.length != 0 && pyLower key == ['x']))
  if pyLower key != ['x'] then
    match toks with
    | [k, mode] => do
        check (pyLower k == ['x'])
        check (!keyTable.contains (pyLower k))
        check (!modeTable.contains mode)
    | _ => .error .valueError   -- `key, mode = key.split()`: unpacking error (unreachable)

/-- `key.validate(reference_key, estimated_key)` -/
def keyValidate (r e : List Char) : Py Unit := do
  keyValidateKey r
  keyValidateKey e

/-! ### alignment -/

/-- `alignment.validate(reference_timestamps, estimated_timestamps)` (arguments are ndarrays) -/
def alignmentValidate (r e : Arr) : Py Unit := do
  check (r.ndim != 1)
  check (e.ndim != 1)
  check (r.size == 0)
  check (e.size != r.size)
  check (!(diffs r.data).all fun d => decide (0 ≤ d))
  check (!(diffs e.data).all fun d => decide (0 ≤ d))
  check (!r.data.all fun x => decide (0 ≤ x))
  check (!e.data.all fun x => decide (0 ≤ x))

/-! ### multipitch (`MAX_TIME = 30000`, `MAX_FREQ = 5000`, `MIN_FREQ = 20`) -/

def maxFreq : Rat := 5000
def minFreq : Rat := 20

/-- `multipitch.validate(ref_time, ref_freqs, est_time, est_freqs)`; the frequency lists are lists of arrays -/
def multipitchValidate (rt : Arr) (rf : List Arr) (et : Arr) (ef : List Arr) : Py Unit := do
  utilEvents rt maxTime
  utilEvents et maxTime
  check (rt.ndim != 1)
  check (et.ndim != 1)
  check (rt.size != rf.length)
  check (et.size != ef.length)
  forEach (fun f => utilFrequencies f maxFreq minFreq false) rf
  forEach (fun f => utilFrequencies f maxFreq minFreq false) ef

/-! ### melody -/

/-- `melody.validate_voicing(ref_voicing, est_voicing)` -/
def melodyVoicing (rv ev : Arr) : Py Unit := do
  let n ← rv.shape0
  let m ← ev.shape0
  check (n != m)
  check (rv.data.any fun x => decide (x < 0) || decide (1 < x))
  check (ev.data.any fun x => decide (x < 0) || decide (1 < x))

/-- `melody.validate(ref_voicing, ref_cent, est_voicing, est_cent)` (`or` short-circuits) -/
def melodyValidate (rv rc ev ec : Arr) : Py Unit := do
  let a ← rv.shape0
  let b ← rc.shape0
  check (a != b)
  let c ← ev.shape0
  let d ← ec.shape0
  check (c != d)
  check (b != d)

/-! ### transcription / transcription_velocity -/

/-- `transcription.validate_intervals(ref_intervals, est_intervals)` -/
def transcriptionIntervals (ri ei : Arr) : Py Unit := do
  utilIntervals ri
  utilIntervals ei

/-- `if a.size > 0 and np.min(a) <= 0: raise` -/
def minNonPositive (a : Arr) : Py Unit :=
  if a.size > 0 then do
    let m ← npMin a.data
    check (decide (m ≤ 0))
  else .ok ()

/-- `if a.size > 0 and np.min(a) < 0: raise` -/
def minNegative (a : Arr) : Py Unit :=
  if a.size > 0 then do
    let m ← npMin a.data
    check (decide (m < 0))
  else .ok ()

/-- `transcription.validate(ref_intervals, ref_pitches, est_intervals, est_pitches)` -/
def transcriptionValidate (ri rp ei ep : Arr) : Py Unit := do
  transcriptionIntervals ri ei
  let n ← ri.shape0
  let m ← rp.shape0
  check (n != m)
  let n' ← ei.shape0
  let m' ← ep.shape0
  check (n' != m')
  minNonPositive rp
  minNonPositive ep

/-- `transcription_velocity.validate(...)` -/
def velocityValidate (ri rp rv ei ep ev : Arr) : Py Unit := do
  transcriptionValidate ri rp ei ep
  let a ← rv.shape0
  let b ← rp.shape0
  check (a != b)
  let c ← ev.shape0
  let d ← ep.shape0
  check (c != d)
  minNegative rv
  minNegative ev

/-! ### pattern: a pattern is a list of occurrences, an occurrence a list of (onset, midi) tuples -/

abbrev Patterns := List (List (List (List Rat)))

def patternSide (ps : Patterns) : Py Unit :=
  forEach (fun pat => do
    check (decide (pat.length ≤ 0))
    forEach (fun occ => forEach (fun om : List Rat => check (om.length != 2)) occ) pat) ps

/-- `pattern.validate(reference_patterns, estimated_patterns)` -/
def patternValidate (r e : Patterns) : Py Unit := do
  patternSide r
  patternSide e

/-! ### segment -/

/-- `segment.validate_boundary(reference_intervals, estimated_intervals, trim)`; `len()` only feeds warnings -/
def segmentBoundary (r e : Arr) (_trim : Bool) : Py Unit := do
  let _ ← r.len
  let _ ← e.len
  utilIntervals r
  utilIntervals e

/-- `if intervals.size > 0: if not np.allclose(intervals.min(), 0.0): raise` -/
def startsAtZero (iv : Arr) : Py Unit :=
  if iv.size > 0 then do
    let m ← npMin iv.data
    check (!allclose m 0)
  else .ok ()

/-- `if ref.size > 0 and est.size > 0: if not np.allclose(ref.max(), est.max()): raise` -/
def endTogether (ri ei : Arr) : Py Unit :=
  if ri.size > 0 && ei.size > 0 then do
    let a ← npMax ri.data
    let b ← npMax ei.data
    check (!allclose a b)
  else .ok ()

/-- one turn of the loop in `validate_structure` -/
def structureSide (iv : Arr) (nLabels : Nat) : Py Unit := do
  utilIntervals iv
  let n ← iv.shape0
  check (n != nLabels)
  startsAtZero iv

/-- `segment.validate_structure(ref_intervals, ref_labels, est_intervals, est_labels)`; labels enter by their count -/
def segmentStructure (ri : Arr) (nRefLabels : Nat) (ei : Arr) (nEstLabels : Nat) : Py Unit := do
  structureSide ri nRefLabels
  structureSide ei nEstLabels
  endTogether ri ei

/-! ### hierarchy -/

/-- `hierarchy.validate_hier_intervals(intervals_hier)`: every lower level against the top level.
    `generate_labels(x)` takes `len(x)`; `intervals_to_boundaries` never raises.  A one-level hierarchy is not
    checked at all. -/
def hierValidate (levels : List Arr) : Py Unit :=
  match levels with
  | [] => .error .indexError
  | top :: rest => do
      let nTop ← top.len
      forEach (fun lvl => do
        let n ← lvl.len
        segmentStructure top nTop lvl n) rest

/-- `if window is None: … else: if frame_size > window: raise` -/
def windowCheck (frameSize : Rat) (window : Option Rat) : Py Unit :=
  match window with
  | none => .ok ()
  | some w => check (decide (w < frameSize))

/-- the checks of `hierarchy.tmeasure` before any computation -/
def hierTmeasure (frameSize : Rat) (window : Option Rat) (ref est : List Arr) : Py Unit := do
  check (decide (frameSize ≤ 0))
  windowCheck frameSize window
  hierValidate ref
  hierValidate est

/-- the checks of `hierarchy.lmeasure` before any computation -/
def hierLmeasure (frameSize : Rat) (ref est : List Arr) : Py Unit := do
  check (decide (frameSize ≤ 0))
  hierValidate ref
  hierValidate est

/-! ### chord: label validity is a given Bool per label -/

def labelCheck (valid : Bool) : Py Unit := if valid then .ok () else .error .invalidChord

/-- `chord.validate(reference_labels, estimated_labels)` -/
def chordValidate (refValid estValid : List Bool) : Py Unit := do
  check (refValid.length != estValid.length)
  forEach labelCheck refValid
  forEach labelCheck estValid

/-- the checks of `chord.weighted_accuracy(comparisons, weights)`; `comparisons` enters by its length -/
def chordWeightedAccuracy (nComparisons : Nat) (weights : Arr) : Py Unit := do
  let n ← weights.shape0
  check (n != nComparisons)
  check (weights.data.any fun x => decide (x < 0))

/-! ### separation: shape descriptor + one `silent` flag per source (first axis) -/

structure Src where
  shape : List Nat
  silent : List Bool
  deriving Repr, DecidableEq, Inhabited

def Src.size (s : Src) : Nat := Arr.prodL s.shape
def Src.ndim (s : Src) : Nat := s.shape.length
def Src.shape0 (s : Src) : Py Nat :=
  match s.shape with
  | [] => .error .indexError
  | n :: _ => .ok n

/-- `_any_source_silent(sources)`: `np.all(·, axis=1)` needs two axes (`AxisError` is a `ValueError`) -/
def anySourceSilent (s : Src) : Py Bool :=
  if s.ndim < 2 then .error .valueError else .ok (s.silent.any id)

def maxSources : Nat := 100

/-- `if x.size == 0: warn  elif _any_source_silent(x): raise` -/
def silentCheck (s : Src) : Py Unit :=
  if s.size == 0 then .ok ()
  else do
    let b ← anySourceSilent s
    check b

/-- `separation.validate(reference_sources, estimated_sources)` -/
def separationValidate (r e : Src) : Py Unit := do
  check (r.shape != e.shape)
  check (decide (3 < r.ndim) || decide (3 < e.ndim))
  silentCheck r
  silentCheck e
  let n ← e.shape0
  let m ← r.shape0
  check (decide (maxSources < n) || decide (maxSources < m))

/-! ### protocol -/

def asArr? (v : Val) : Option Arr := do
  let (s, d) ← v.asPair?
  let a : Arr := ⟨← s.asNats?, ← d.asRats?⟩
  if a.wf then some a else none

def asArrs? (v : Val) : Option (List Arr) := do (← v.asList?).mapM asArr?

def asBools? (v : Val) : Option (List Bool) := do (← v.asList?).mapM Val.asBool?

def asSrc? (v : Val) : Option Src := do
  let (s, f) ← v.asPair?
  some ⟨← s.asNats?, ← asBools? f⟩

def asAscii? (v : Val) : Option (List Char) := do
  let s ← v.asStr?
  let cs := s.toList
  if cs.all (fun c => c.toNat < 128) then some cs else none

def asPatterns? (v : Val) : Option Patterns := do
  (← v.asList?).mapM fun pat => do
    (← pat.asList?).mapM fun occ => do
      (← occ.asList?).mapM Val.asRats?

def done (r : Py Unit) : Option (Py Val) := some (r.map fun _ => Val.none)

def handler : Handler := fun fn args =>
  match fn, args with
  | "validate.util.validate_events", [a, m] => do
      done (utilEvents (← asArr? a) (← m.asRat?))
  | "validate.util.validate_intervals", [a] => do
      done (utilIntervals (← asArr? a))
  | "validate.util.validate_frequencies", [a, mx, mn, neg] => do
      done (utilFrequencies (← asArr? a) (← mx.asRat?) (← mn.asRat?) (← neg.asBool?))
  | "validate.beat.validate", [r, e] => do
      done (beatValidate (← asArr? r) (← asArr? e))
  | "validate.onset.validate", [r, e] => do
      done (onsetValidate (← asArr? r) (← asArr? e))
  | "validate.tempo.validate_tempi", [t, ref] => do
      done (tempoTempi (← asArr? t) (← ref.asBool?))
  | "validate.tempo.validate", [rt, w, et] => do
      done (tempoValidate (← asArr? rt) (← w.asRat?) (← asArr? et))
  | "validate.tempo.detection", [rt, w, et, tol] => do
      done (tempoDetection (← asArr? rt) (← w.asRat?) (← asArr? et) (← tol.asRat?))
  | "validate.key.validate_key", [k] => do
      done (keyValidateKey (← asAscii? k))
  | "validate.key.validate", [r, e] => do
      done (keyValidate (← asAscii? r) (← asAscii? e))
  | "validate.alignment.validate", [r, e] => do
      done (alignmentValidate (← asArr? r) (← asArr? e))
  | "validate.multipitch.validate", [rt, rf, et, ef] => do
      done (multipitchValidate (← asArr? rt) (← asArrs? rf) (← asArr? et) (← asArrs? ef))
  | "validate.melody.validate_voicing", [rv, ev] => do
      done (melodyVoicing (← asArr? rv) (← asArr? ev))
  | "validate.melody.validate", [rv, rc, ev, ec] => do
      done (melodyValidate (← asArr? rv) (← asArr? rc) (← asArr? ev) (← asArr? ec))
  | "validate.transcription.validate_intervals", [ri, ei] => do
      done (transcriptionIntervals (← asArr? ri) (← asArr? ei))
  | "validate.transcription.validate", [ri, rp, ei, ep] => do
      done (transcriptionValidate (← asArr? ri) (← asArr? rp) (← asArr? ei) (← asArr? ep))
  | "validate.transcription_velocity.validate", [ri, rp, rv, ei, ep, ev] => do
      done (velocityValidate (← asArr? ri) (← asArr? rp) (← asArr? rv) (← asArr? ei) (← asArr? ep) (← asArr? ev))
  | "validate.pattern.validate", [r, e] => do
      done (patternValidate (← asPatterns? r) (← asPatterns? e))
  | "validate.segment.validate_boundary", [r, e, trim] => do
      done (segmentBoundary (← asArr? r) (← asArr? e) (← trim.asBool?))
  | "validate.segment.validate_structure", [ri, nr, ei, ne] => do
      done (segmentStructure (← asArr? ri) (← nr.asNat?) (← asArr? ei) (← ne.asNat?))
  | "validate.hierarchy.validate_hier_intervals", [h] => do
      done (hierValidate (← asArrs? h))
  | "validate.hierarchy.tmeasure", [fs, w, r, e] => do
      done (hierTmeasure (← fs.asRat?) (← w.asOptRat?) (← asArrs? r) (← asArrs? e))
  | "validate.hierarchy.lmeasure", [fs, r, e] => do
      done (hierLmeasure (← fs.asRat?) (← asArrs? r) (← asArrs? e))
  | "validate.chord.validate", [r, e] => do
      done (chordValidate (← asBools? r) (← asBools? e))
  | "validate.chord.weighted_accuracy", [n, w] => do
      done (chordWeightedAccuracy (← n.asNat?) (← asArr? w))
  | "validate.separation.validate", [r, e] => do
      done (separationValidate (← asSrc? r) (← asSrc? e))
  | _, _ => none

end Validate
end Mir
