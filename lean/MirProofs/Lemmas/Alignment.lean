import MirModel.Alignment
import MirProofs.Lemmas.MiscStats

namespace Mir.Alignment
open Mir.MiscStats

/-! ### validation -/

theorem validate_cases (ref est : List Rat) :
    validate ref est = .ok () ∨ validate ref est = .error .valueError := by
  unfold validate
  repeat' split
  all_goals first | exact Or.inr rfl | exact Or.inl rfl

theorem validate_ok_iff (ref est : List Rat) :
    validate ref est = .ok () ↔
      ref ≠ [] ∧ est.length = ref.length ∧ (∀ p ∈ ref.zip ref.tail, p.1 ≤ p.2) ∧
      (∀ p ∈ est.zip est.tail, p.1 ≤ p.2) ∧ (∀ t ∈ ref, 0 ≤ t) ∧ (∀ t ∈ est, 0 ≤ t) := by
  constructor
  · intro h
    unfold validate at h
    split at h
    · cases h
    rename_i c1
    split at h
    · cases h
    rename_i c2
    split at h
    · cases h
    rename_i c3
    split at h
    · cases h
    rename_i c4
    split at h
    · cases h
    rename_i c5
    split at h
    · cases h
    rename_i c6
    simp only [Bool.not_eq_true', Bool.not_eq_false, List.all_eq_true, decide_eq_true_eq, sub_nonneg] at c3 c4 c5 c6
    refine ⟨fun hh => c1 (List.isEmpty_iff.2 hh), not_not.1 c2, c3, c4, c5, c6⟩
  · rintro ⟨h1, h2, h3, h4, h5, h6⟩
    have c1 : ¬ (ref.isEmpty = true) := fun hh => h1 (List.isEmpty_iff.1 hh)
    have c2 : ¬ (est.length ≠ ref.length) := not_not.2 h2
    have a3 : (ref.zip ref.tail).all (fun p => decide (0 ≤ p.2 - p.1)) = true :=
      List.all_eq_true.2 (fun p hp => by simpa using h3 p hp)
    have a4 : (est.zip est.tail).all (fun p => decide (0 ≤ p.2 - p.1)) = true :=
      List.all_eq_true.2 (fun p hp => by simpa using h4 p hp)
    have a5 : ref.all (fun t => decide (0 ≤ t)) = true := List.all_eq_true.2 (fun t ht => by simpa using h5 t ht)
    have a6 : est.all (fun t => decide (0 ≤ t)) = true := List.all_eq_true.2 (fun t ht => by simpa using h6 t ht)
    unfold validate
    rw [if_neg c1, if_neg c2]
    simp only [a3, a4, a5, a6, Bool.not_true, Bool.false_eq_true, if_false]

theorem validate_self {x : List Rat} (hne : x ≠ []) (hm : ∀ p ∈ x.zip x.tail, p.1 ≤ p.2) (h0 : ∀ t ∈ x, 0 ≤ t) :
    validate x x = .ok () := (validate_ok_iff x x).2 ⟨hne, rfl, hm, hm, h0, h0⟩

/-! ### unfolding the metrics -/

theorem absoluteError_of_valid {ref est : List Rat} (hv : validate ref est = .ok ()) :
    absoluteError ref est = .ok (median? (deviations ref est), mean? (deviations ref est)) := by
  simp [absoluteError, hv, bind, Except.bind, pure, Except.pure]

theorem absoluteError_of_invalid {ref est : List Rat} (hv : validate ref est = .error .valueError) :
    absoluteError ref est = .error .valueError := by
  simp [absoluteError, hv, bind, Except.bind]

theorem percentageCorrect_of_valid {ref est : List Rat} (w : Rat) (hv : validate ref est = .ok ()) :
    percentageCorrect ref est w = .ok (mean? ((deviations ref est).map fun x => if x ≤ w then 1 else 0)) := by
  simp [percentageCorrect, hv, bind, Except.bind, pure, Except.pure]

theorem percentageCorrect_of_invalid {ref est : List Rat} (w : Rat) (hv : validate ref est = .error .valueError) :
    percentageCorrect ref est w = .error .valueError := by
  simp [percentageCorrect, hv, bind, Except.bind]

theorem pcs_of_invalid {ref est : List Rat} (d : Option Rat) (hv : validate ref est = .error .valueError) :
    percentageCorrectSegments ref est d = .error .valueError := by
  simp [percentageCorrectSegments, hv, bind, Except.bind]

theorem validate_of_ok {α : Type} {ref est : List Rat} {f : Py α} {a : α}
    (hf : validate ref est = .error .valueError → f = .error .valueError) (h : f = .ok a) :
    validate ref est = .ok () := by
  rcases validate_cases ref est with hv | hv
  · exact hv
  · rw [hf hv] at h; cases h

theorem pcs_mirex_of_valid {ref est : List Rat} {first last : Rat} (hv : validate ref est = .ok ())
    (hf : ref.head? = some first) (hl : ref.getLast? = some last) (hd : 0 < last - first) :
    percentageCorrectSegments ref est none =
      .ok (overlapDur (segsMirex ref) (segsMirex est) / (last - first)) := by
  simp [percentageCorrectSegments, hv, hf, hl, not_le.2 hd, bind, Except.bind, pure, Except.pure]

theorem pcs_dur_of_valid {r0 e0 : Rat} {rs es : List Rat} {d : Rat} (hv : validate (r0 :: rs) (e0 :: es) = .ok ())
    (hd : 0 < d) (hr : maxOf r0 rs ≤ d) (he : maxOf e0 es ≤ d) :
    percentageCorrectSegments (r0 :: rs) (e0 :: es) (some d) =
      .ok (overlapDur (segsDur (r0 :: rs) d) (segsDur (e0 :: es) d) / d) := by
  simp [percentageCorrectSegments, hv, not_le.2 hd, not_lt.2 hr, not_lt.2 he, bind, Except.bind, pure, Except.pure]

/-! ### deviations -/

theorem deviations_eq_zipWith (ref est : List Rat) :
    deviations ref est = List.zipWith (fun r e => |r - e|) ref est := by
  unfold deviations
  rw [List.zip_eq_zipWith, List.map_zipWith]
  congr 1
  funext r e
  exact absQ_eq_abs _

theorem length_deviations {ref est : List Rat} (h : est.length = ref.length) :
    (deviations ref est).length = ref.length := by
  simp [deviations, h]

theorem deviations_nonneg {ref est : List Rat} : ∀ x ∈ deviations ref est, 0 ≤ x := by
  intro x hx
  obtain ⟨p, _, rfl⟩ := List.mem_map.1 hx
  exact absQ_nonneg _

theorem deviations_self (x : List Rat) : ∀ y ∈ deviations x x, y = 0 := by
  intro y hy
  obtain ⟨p, hp, rfl⟩ := List.mem_map.1 hy
  have : p.1 = p.2 := by
    rw [List.zip_eq_zipWith, List.zipWith_self] at hp
    obtain ⟨a, _, rfl⟩ := List.mem_map.1 hp
    rfl
  rw [this]; exact absQ_self_sub _

theorem deviations_ne_nil {ref est : List Rat} (hne : ref ≠ []) (h : est.length = ref.length) :
    deviations ref est ≠ [] := by
  intro hc
  have := length_deviations h
  rw [hc] at this
  exact hne (List.length_eq_zero_iff.1 this.symm)

theorem deviations_shift (ref est : List Rat) (c : Rat) :
    deviations (ref.map (· + c)) (est.map (· + c)) = deviations ref est := by
  unfold deviations
  rw [List.zip_map, List.map_map]
  apply List.map_congr_left
  intro p _
  simp only [Function.comp, Prod.map_fst, Prod.map_snd]
  exact absQ_shift _ _ _

/-! ### mean of indicator / constant lists -/

theorem mean?_isSome {xs : List Rat} (h : xs ≠ []) : ∃ m, mean? xs = some m := by
  cases xs with
  | nil => exact absurd rfl h
  | cons a t => exact ⟨(a :: t).sum / ((a :: t).length : Rat), by simp [mean?]⟩

theorem mean?_const {xs : List Rat} {c : Rat} (hne : xs ≠ []) (hc : ∀ x ∈ xs, x = c) : mean? xs = some c := by
  obtain ⟨m, hm⟩ := mean?_isSome hne
  have := mean?_bounds (lo := c) (hi := c) (fun x hx => ⟨(hc x hx).ge, (hc x hx).le⟩) hm
  rw [hm, le_antisymm this.2 this.1]

theorem sum_indicator (xs : List Rat) (w : Rat) :
    (xs.map fun x => if x ≤ w then (1 : Rat) else 0).sum = ((xs.filter fun x => decide (x ≤ w)).length : Rat) := by
  induction xs with
  | nil => simp
  | cons x xs ih =>
    simp only [List.map_cons, List.sum_cons, ih, List.filter_cons]
    by_cases h : x ≤ w
    · simp [h]; ring
    · simp [h]

theorem sum_map_le {xs : List Rat} {f g : Rat → Rat} (h : ∀ x ∈ xs, f x ≤ g x) :
    (xs.map f).sum ≤ (xs.map g).sum := by
  induction xs with
  | nil => simp
  | cons x xs ih =>
    simp only [List.map_cons, List.sum_cons]
    have := ih (fun y hy => h y (List.mem_cons_of_mem _ hy))
    linarith [h x List.mem_cons_self]

/-! ### segments and overlaps -/

/-- total length of a list of segments -/
def segLen (R : List (Rat × Rat)) : Rat := (R.map fun r => r.2 - r.1).sum

theorem segLen_zip {a b : List Rat} (h : a.length = b.length) : segLen (a.zip b) = b.sum - a.sum := by
  unfold segLen
  induction a generalizing b with
  | nil => cases b with
    | nil => simp
    | cons => simp at h
  | cons x xs ih =>
    cases b with
    | nil => simp at h
    | cons y ys =>
      simp only [List.length_cons, Nat.add_right_cancel_iff] at h
      simp only [List.zip_cons_cons, List.map_cons, List.sum_cons, ih h]
      ring

theorem segsMirex_eq_zip_tail (t : List Rat) : segsMirex t = t.zip t.tail := by
  unfold segsMirex
  induction t with
  | nil => simp
  | cons a t ih =>
    cases t with
    | nil => simp
    | cons b rest =>
      simp only [List.dropLast_cons_cons, List.tail_cons, List.zip_cons_cons] at ih ⊢
      rw [ih]

theorem segsDur_eq_segsMirex (t : List Rat) (d : Rat) : segsDur t d = segsMirex ((0 : Rat) :: t ++ [d]) := by
  unfold segsDur segsMirex
  have : ((0 : Rat) :: t ++ [d]).dropLast = (0 : Rat) :: t := by
    rw [show (0 : Rat) :: t ++ [d] = ((0 : Rat) :: t) ++ [d] from rfl, List.dropLast_concat]
  rw [this]; rfl

theorem sum_tail {t : List Rat} {a : Rat} (h : t.head? = some a) : t.tail.sum = t.sum - a := by
  cases t with
  | nil => simp at h
  | cons x xs => simp at h; subst h; simp

theorem sum_dropLast {t : List Rat} {a : Rat} (h : t.getLast? = some a) : t.dropLast.sum = t.sum - a := by
  have hne : t ≠ [] := by rintro rfl; simp at h
  have := List.dropLast_append_getLast hne
  have hl : t.getLast hne = a := by
    rw [List.getLast?_eq_some_getLast hne] at h; exact Option.some.inj h
  have hs : t.sum = t.dropLast.sum + a := by
    conv_lhs => rw [← this]
    rw [List.sum_append, hl]; simp
  linarith

theorem segLen_segsMirex {t : List Rat} {first last : Rat} (hf : t.head? = some first) (hl : t.getLast? = some last) :
    segLen (segsMirex t) = last - first := by
  unfold segsMirex
  rw [segLen_zip (by simp), sum_tail hf, sum_dropLast hl]; ring

theorem segLen_segsDur (t : List Rat) (d : Rat) : segLen (segsDur t d) = d := by
  unfold segsDur
  rw [segLen_zip (by simp)]; simp

theorem overlapDur_nonneg (R E : List (Rat × Rat)) : 0 ≤ overlapDur R E := by
  unfold overlapDur
  apply List.sum_nonneg
  intro x hx
  obtain ⟨p, _, rfl⟩ := List.mem_map.1 hx
  exact le_max_right _ _

theorem overlapDur_le (R E : List (Rat × Rat)) (h : ∀ r ∈ R, r.1 ≤ r.2) : overlapDur R E ≤ segLen R := by
  unfold overlapDur segLen
  induction R generalizing E with
  | nil => simp
  | cons r R ih =>
    have hr := h r List.mem_cons_self
    have hR : ∀ r' ∈ R, r'.1 ≤ r'.2 := fun r' hr' => h r' (List.mem_cons_of_mem _ hr')
    cases E with
    | nil =>
      simp only [List.zip_nil_right, List.map_nil, List.sum_nil, List.map_cons, List.sum_cons]
      have : 0 ≤ (R.map fun r => r.2 - r.1).sum := by
        apply List.sum_nonneg
        intro x hx
        obtain ⟨p, hp, rfl⟩ := List.mem_map.1 hx
        linarith [hR p hp]
      linarith
    | cons e E =>
      simp only [List.zip_cons_cons, List.map_cons, List.sum_cons]
      have h1 : max (min r.2 e.2 - max r.1 e.1) 0 ≤ r.2 - r.1 := by
        apply max_le
        · linarith [min_le_left r.2 e.2, le_max_left r.1 e.1]
        · linarith
      linarith [ih E hR]

theorem overlapDur_self (R : List (Rat × Rat)) (h : ∀ r ∈ R, r.1 ≤ r.2) : overlapDur R R = segLen R := by
  unfold overlapDur segLen
  rw [List.zip_eq_zipWith, List.zipWith_self, List.map_map]
  congr 1
  apply List.map_congr_left
  intro r hr
  simp only [Function.comp, min_self, max_self]
  exact max_eq_left (by linarith [h r hr])

theorem overlapDur_shift (R E : List (Rat × Rat)) (c : Rat) :
    overlapDur (R.map (Prod.map (· + c) (· + c))) (E.map (Prod.map (· + c) (· + c))) = overlapDur R E := by
  unfold overlapDur
  rw [List.zip_map, List.map_map]
  congr 1
  apply List.map_congr_left
  intro p _
  simp only [Function.comp, Prod.map_fst, Prod.map_snd, min_add_add_right, max_add_add_right]
  congr 1; ring

theorem segsMirex_map (t : List Rat) (c : Rat) :
    segsMirex (t.map (· + c)) = (segsMirex t).map (Prod.map (· + c) (· + c)) := by
  rw [segsMirex_eq_zip_tail, segsMirex_eq_zip_tail, ← List.map_tail, List.zip_map]

theorem le_maxOf (x0 : Rat) (xs : List Rat) : ∀ x ∈ x0 :: xs, x ≤ maxOf x0 xs := by
  induction xs generalizing x0 with
  | nil => intro x hx; simp at hx; subst hx; simp [maxOf]
  | cons y ys ih =>
    intro x hx
    simp only [maxOf]
    rcases List.mem_cons.1 hx with rfl | hx
    · exact le_max_left _ _
    · exact le_trans (ih y x hx) (le_max_right _ _)

theorem maxOf_mem (x0 : Rat) (xs : List Rat) : maxOf x0 xs ∈ x0 :: xs := by
  induction xs generalizing x0 with
  | nil => simp [maxOf]
  | cons y ys ih =>
    simp only [maxOf]
    rcases le_total x0 (maxOf y ys) with h | h
    · rw [max_eq_right h]; exact List.mem_cons_of_mem _ (ih y)
    · rw [max_eq_left h]; exact List.mem_cons_self

/-- consecutive pairs of a non-decreasing list closed by an upper bound are ordered -/
theorem zip_snoc_le (t : List Rat) (d : Rat) (hm : ∀ p ∈ t.zip t.tail, p.1 ≤ p.2) (hd : ∀ x ∈ t, x ≤ d) :
    ∀ p ∈ t.zip (t.tail ++ [d]), p.1 ≤ p.2 := by
  induction t with
  | nil => simp
  | cons a t ih =>
    cases t with
    | nil =>
      intro p hp
      simp at hp; subst hp; exact hd a List.mem_cons_self
    | cons b rest =>
      intro p hp
      simp only [List.tail_cons, List.cons_append, List.zip_cons_cons, List.mem_cons] at hp
      rcases hp with rfl | hp
      · exact hm (a, b) (by simp)
      · apply ih (fun q hq => hm q (by simp only [List.tail_cons, List.zip_cons_cons]; exact List.mem_cons_of_mem _ hq))
          (fun x hx => hd x (List.mem_cons_of_mem _ hx))
        simpa using hp

theorem segsDur_ordered {t : List Rat} {d : Rat} (hm : ∀ p ∈ t.zip t.tail, p.1 ≤ p.2) (h0 : ∀ x ∈ t, 0 ≤ x)
    (hd : ∀ x ∈ t, x ≤ d) (hd0 : 0 ≤ d) : ∀ s ∈ segsDur t d, s.1 ≤ s.2 := by
  unfold segsDur
  cases t with
  | nil => intro s hs; simp at hs; subst hs; exact hd0
  | cons a rest =>
    intro s hs
    simp only [List.cons_append, List.zip_cons_cons, List.mem_cons] at hs
    rcases hs with rfl | hs
    · exact h0 a List.mem_cons_self
    · exact zip_snoc_le (a :: rest) d hm hd s (by simpa using hs)

end Mir.Alignment
