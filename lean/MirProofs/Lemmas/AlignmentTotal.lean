import MirProofs.Lemmas.Alignment
import MirProofs.Lemmas.Validate
import MirProofs.Lemmas.Totality

/-!
  Helpers for `Props/C14_Alignment.lean`: the two ways the models write "in increasing order".
-/
namespace Mir.Alignment
open Mir.Validate

theorem zip_all_eq_diffs_all (xs : List Rat) :
    (xs.zip xs.tail).all (fun p => decide (0 ≤ p.2 - p.1)) = (diffs xs).all fun d => decide (0 ≤ d) := by
  induction xs with
  | nil => rfl
  | cons a t ih =>
    cases t with
    | nil => rfl
    | cons b t =>
      show (((a, b) :: (b :: t).zip t).all fun p => decide (0 ≤ p.2 - p.1)) =
        (((b - a) :: diffs (b :: t)).all fun d => decide (0 ≤ d))
      rw [List.all_cons, List.all_cons]
      have : (b :: t).zip t = (b :: t).zip (b :: t).tail := rfl
      rw [this, ih]

theorem zip_le_iff_pairwise (xs : List Rat) : (∀ p ∈ xs.zip xs.tail, p.1 ≤ p.2) ↔ xs.Pairwise (· ≤ ·) := by
  rw [← diffs_all_nonneg_iff, ← zip_all_eq_diffs_all]
  simp

end Mir.Alignment
