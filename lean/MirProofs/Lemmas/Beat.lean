import MirModel.Beat
import MirProofs.Lemmas.HitMetric
import Mathlib.Algebra.Order.Field.Basic
import Mathlib.Algebra.Order.Field.Rat
import Mathlib.Algebra.Order.AbsoluteValue.Basic
import Mathlib.Tactic.Positivity
import Mathlib.Tactic.Linarith
import Mathlib.Tactic.FieldSimp
import Mathlib.Tactic.Ring
import Mathlib.Data.Rat.Floor

namespace Mir
namespace Beat

/-! ### Python monad plumbing -/

theorem bind_ok_iff {α β : Type} (x : Py α) (f : α → Py β) (v : β) :
    (x >>= f) = .ok v ↔ ∃ a, x = .ok a ∧ f a = .ok v := by
  cases x with
  | error e => simp [bind, Except.bind]
  | ok a => simp [bind, Except.bind]

theorem validate_bind_ok {β : Type} (ref est : List Rat) (f : Py β) (v : β) :
    (do validate ref est; f) = .ok v ↔ validate ref est = .ok () ∧ f = .ok v := by
  rw [bind_ok_iff]
  constructor
  · rintro ⟨a, h1, h2⟩; exact ⟨h1, h2⟩
  · rintro ⟨h1, h2⟩; exact ⟨(), h1, h2⟩

/-! ### absolute value, window -/

theorem absR_eq_abs (x : Rat) : absR x = |x| := by
  unfold absR
  split
  · rename_i h; rw [abs_of_neg h]
  · rename_i h; rw [abs_of_nonneg (not_lt.1 h)]

theorem withinWindow_iff (w r e : Rat) : withinWindow w r e = true ↔ |r - e| ≤ w := by
  unfold withinWindow
  rw [decide_eq_true_iff, abs_le]
  constructor
  · rintro ⟨a, b⟩; constructor <;> linarith
  · rintro ⟨a, b⟩; constructor <;> linarith

theorem withinWindow_symm (w r e : Rat) : withinWindow w e r = withinWindow w r e := by
  rw [Bool.eq_iff_iff, withinWindow_iff, withinWindow_iff, abs_sub_comm]

theorem withinWindow_mono {w w' : Rat} (h : w ≤ w') (r e : Rat) :
    withinWindow w r e = true → withinWindow w' r e = true := by
  rw [withinWindow_iff, withinWindow_iff]; intro h1; exact le_trans h1 h

theorem withinWindow_shift (w c r e : Rat) : withinWindow w (r + c) (e + c) = withinWindow w r e := by
  rw [Bool.eq_iff_iff, withinWindow_iff, withinWindow_iff, add_sub_add_right_eq_sub]

theorem withinWindow_self {w : Rat} (h : 0 ≤ w) (x : Rat) : withinWindow w x x = true := by
  rw [withinWindow_iff]; simpa using h

/-! ### F-measure -/

theorem fMeasure_ok_iff (ref est : List Rat) (thr v : Rat) :
    fMeasure ref est thr = .ok v ↔ validate ref est = .ok () ∧ v = fMeasureCore ref est thr := by
  unfold fMeasure
  rw [validate_bind_ok]
  constructor
  · rintro ⟨h1, h2⟩; exact ⟨h1, by cases h2; rfl⟩
  · rintro ⟨h1, h2⟩; exact ⟨h1, by rw [h2]; rfl⟩

theorem fMeasureCore_range (ref est : List Rat) (thr : Rat) :
    0 ≤ fMeasureCore ref est thr ∧ fMeasureCore ref est thr ≤ 1 :=
  (hitPRF_range (withinWindow thr) ref est 1).2.2

theorem fMeasureCore_self (xs : List Rat) {thr : Rat} (hthr : 0 ≤ thr) (hne : xs ≠ []) :
    fMeasureCore xs xs thr = 1 := by
  unfold fMeasureCore
  rw [hitPRF_self (withinWindow thr) xs 1 hne (fun x _ => withinWindow_self hthr x)]

theorem fMeasureCore_swap (ref est : List Rat) (thr : Rat) :
    fMeasureCore est ref thr = fMeasureCore ref est thr := by
  unfold fMeasureCore
  have h := (hitPRF_swap (withinWindow thr) ref est).2.2
  have hf : (fun e r => withinWindow thr r e) = withinWindow thr := by
    funext e r; exact withinWindow_symm thr e r
  rw [hf] at h
  exact h

/-- with both sides non-empty, F at beta = 1 is `2k / (n + m)` -/
theorem prf_f_eq {k n m : Nat} (hn : 0 < n) (hm : 0 < m) :
    (prf k n m 1).2.2 = 2 * (k : Rat) / ((n : Rat) + (m : Rat)) := by
  have hn' : (0 : Rat) < n := by exact_mod_cast hn
  have hm' : (0 : Rat) < m := by exact_mod_cast hm
  unfold prf Mir.fMeasure
  by_cases hk : k = 0
  · subst hk; simp
  · have hk' : (0 : Rat) < k := by exact_mod_cast Nat.pos_of_ne_zero hk
    have h1 : ¬ ((k : Rat) / (m : Rat) = 0 ∧ (k : Rat) / (n : Rat) = 0) := by
      rintro ⟨h, _⟩
      have : (0 : Rat) < (k : Rat) / (m : Rat) := div_pos hk' hm'
      linarith
    simp only [h1, if_false]
    field_simp
    ring

theorem fMeasureCore_eq (ref est : List Rat) (thr : Rat) (hr : ref ≠ []) (he : est ≠ []) :
    fMeasureCore ref est thr =
      2 * (hitCount (withinWindow thr) ref est : Rat) / ((ref.length : Rat) + (est.length : Rat)) := by
  unfold fMeasureCore hitPRF
  have h : (ref.isEmpty || est.isEmpty) = false := by simp [hr, he]
  rw [h]
  exact prf_f_eq (List.length_pos_iff.2 hr) (List.length_pos_iff.2 he)

theorem fMeasureCore_empty (ref est : List Rat) (thr : Rat) (h : ref = [] ∨ est = []) :
    fMeasureCore ref est thr = 0 := by
  unfold fMeasureCore hitPRF
  rcases h with h | h <;> simp [h]

theorem fMeasureCore_mono (ref est : List Rat) {thr thr' : Rat} (h : thr ≤ thr') :
    fMeasureCore ref est thr ≤ fMeasureCore ref est thr' := by
  by_cases hr : ref = []
  · rw [fMeasureCore_empty _ _ _ (Or.inl hr), fMeasureCore_empty _ _ _ (Or.inl hr)]
  by_cases he : est = []
  · rw [fMeasureCore_empty _ _ _ (Or.inr he), fMeasureCore_empty _ _ _ (Or.inr he)]
  rw [fMeasureCore_eq _ _ _ hr he, fMeasureCore_eq _ _ _ hr he]
  have hk : (hitCount (withinWindow thr) ref est : Rat) ≤ (hitCount (withinWindow thr') ref est : Rat) := by
    exact_mod_cast hitCount_mono (withinWindow_mono h) ref est
  have hd : (0 : Rat) ≤ (ref.length : Rat) + (est.length : Rat) := by positivity
  apply div_le_div_of_nonneg_right _ hd
  linarith

theorem hitPRF_shift (w c : Rat) (ref est : List Rat) (beta : Rat) :
    hitPRF (withinWindow w) (ref.map (· + c)) (est.map (· + c)) beta = hitPRF (withinWindow w) ref est beta := by
  unfold hitPRF
  rw [hitCount_map (feas := withinWindow w) (feas' := withinWindow w) (· + c) (· + c)
    (fun r e => withinWindow_shift w c r e)]
  simp

theorem fMeasureCore_shift (c : Rat) (ref est : List Rat) (thr : Rat) :
    fMeasureCore (ref.map (· + c)) (est.map (· + c)) thr = fMeasureCore ref est thr := by
  unfold fMeasureCore; rw [hitPRF_shift]

theorem trimBeats_shift (c t : Rat) (l : List Rat) :
    trimBeats (l.map (· + c)) (t + c) = (trimBeats l t).map (· + c) := by
  unfold trimBeats
  rw [List.filter_map]
  congr 1
  apply List.filter_congr
  intro x _
  simp

/-! ### continuity -/

theorem mapPy_ok_mem {α β : Type} (f : α → Py β) : ∀ (l : List α) (rs : List β), mapPy f l = .ok rs →
    ∀ r ∈ rs, ∃ a ∈ l, f a = .ok r := by
  intro l
  induction l with
  | nil => intro rs h r hr; simp [mapPy] at h; subst h; simp at hr
  | cons a t ih =>
    intro rs h r hr
    rw [mapPy, bind_ok_iff] at h
    obtain ⟨b, hb, h⟩ := h
    rw [bind_ok_iff] at h
    obtain ⟨bs, hbs, h⟩ := h
    simp only [pure, Except.pure, Except.ok.injEq] at h
    subst h
    rcases List.mem_cons.1 hr with rfl | hr
    · exact ⟨a, List.mem_cons_self, hb⟩
    · obtain ⟨a', ha', hf⟩ := ih bs hbs r hr
      exact ⟨a', List.mem_cons_of_mem _ ha', hf⟩

theorem contLoop_length (refv : List Rat) (p q : Rat) : ∀ (est : List Rat) (m : Nat) (prev : Option Rat)
    (used : List Nat) (bs : List Bool), contLoop refv p q m prev est used = .ok bs → bs.length = est.length := by
  intro est
  induction est with
  | nil => intro m prev used bs h; simp [contLoop] at h; subst h; rfl
  | cons e rest ih =>
    intro m prev used bs h
    rw [contLoop, bind_ok_iff] at h
    obtain ⟨r, _, h⟩ := h
    rw [bind_ok_iff] at h
    obtain ⟨bs', hbs', h⟩ := h
    simp only [pure, Except.pure, Except.ok.injEq] at h
    subst h
    simp [ih _ _ _ _ hbs']

theorem countTrue_le (bs : List Bool) : countTrue bs ≤ bs.length := List.length_filter_le _ _

theorem longestRun_le : ∀ (bs : List Bool) (cur : Nat), longestRun bs cur ≤ cur + countTrue bs := by
  intro bs
  induction bs with
  | nil => intro cur; simp [longestRun]
  | cons b t ih =>
    intro cur
    cases b with
    | true =>
      have := ih (cur + 1)
      simp only [longestRun, countTrue, List.filter_cons, id_eq, if_true, List.length_cons] at *
      omega
    | false =>
      have := ih 0
      simp only [longestRun, countTrue, List.filter_cons, id_eq, Bool.false_eq_true, if_false] at *
      omega

theorem contVariation_ok {refv est : List Rat} {p q c t : Rat}
    (h : contVariation refv est p q = .ok (c, t)) : 0 ≤ c ∧ c ≤ t ∧ t ≤ 1 := by
  rw [contVariation, bind_ok_iff] at h
  obtain ⟨bs, hbs, h⟩ := h
  simp only [pure, Except.pure, Except.ok.injEq, Prod.mk.injEq] at h
  obtain ⟨rfl, rfl⟩ := h
  have hlen := contLoop_length _ _ _ _ _ _ _ _ hbs
  have h1 : longestRun bs 0 ≤ countTrue bs := by simpa using longestRun_le bs 0
  have h2 : countTrue bs ≤ max refv.length est.length := by
    have := countTrue_le bs; omega
  have hd : (0 : Rat) ≤ ((max refv.length est.length : Nat) : Rat) := by positivity
  refine ⟨by positivity, ?_, ?_⟩
  · apply div_le_div_of_nonneg_right _ hd
    exact_mod_cast h1
  · apply div_le_one_of_le₀ _ hd
    exact_mod_cast h2

theorem le_maxRat (a : Rat) (l : List Rat) : a ≤ maxRat a l := by
  unfold maxRat
  induction l generalizing a with
  | nil => simp
  | cons x t ih => exact le_trans (le_max_left a x) (ih (max a x))

theorem maxRat_pairs_le : ∀ (l : List (Rat × Rat)) (a b : Rat), a ≤ b → (∀ p ∈ l, p.1 ≤ p.2) →
    maxRat a (l.map Prod.fst) ≤ maxRat b (l.map Prod.snd) := by
  intro l
  induction l with
  | nil => intro a b hab _; simpa [maxRat] using hab
  | cons x t ih =>
    intro a b hab hl
    simp only [maxRat, List.map_cons, List.foldl_cons]
    exact ih _ _ (max_le_max hab (hl x List.mem_cons_self)) (fun p hp => hl p (List.mem_cons_of_mem _ hp))

theorem maxRat_le_of (l : List Rat) (a u : Rat) (ha : a ≤ u) (hl : ∀ x ∈ l, x ≤ u) : maxRat a l ≤ u := by
  unfold maxRat
  induction l generalizing a with
  | nil => simpa using ha
  | cons x t ih =>
    exact ih (max a x) (max_le ha (hl x List.mem_cons_self)) (fun y hy => hl y (List.mem_cons_of_mem _ hy))

/-- everything the four continuity scores satisfy, for every input on which the function returns -/
theorem continuityCore_ok {ref est : List Rat} {p q c t ac at' : Rat}
    (h : continuityCore ref est p q = .ok (c, t, ac, at')) :
    0 ≤ c ∧ c ≤ t ∧ t ≤ 1 ∧ c ≤ ac ∧ t ≤ at' ∧ ac ≤ at' ∧ at' ≤ 1 := by
  unfold continuityCore at h
  split at h
  · simp only [Except.ok.injEq, Prod.mk.injEq] at h
    obtain ⟨rfl, rfl, rfl, rfl⟩ := h
    norm_num
  · rw [bind_ok_iff] at h
    obtain ⟨rs, hrs, h⟩ := h
    have hall := mapPy_ok_mem _ _ _ hrs
    cases rs with
    | nil => simp at h
    | cons r0 rest =>
      obtain ⟨c0, t0⟩ := r0
      simp only [pure, Except.pure, Except.ok.injEq, Prod.mk.injEq] at h
      obtain ⟨rfl, rfl, rfl, rfl⟩ := h
      obtain ⟨_, _, h0⟩ := hall (c0, t0) List.mem_cons_self
      obtain ⟨h0a, h0b, h0c⟩ := contVariation_ok h0
      have hrest : ∀ r ∈ rest, 0 ≤ r.1 ∧ r.1 ≤ r.2 ∧ r.2 ≤ 1 := by
        intro r hr
        obtain ⟨_, _, hv⟩ := hall r (List.mem_cons_of_mem _ hr)
        exact contVariation_ok (c := r.1) (t := r.2) hv
      refine ⟨h0a, h0b, h0c, le_maxRat _ _, le_maxRat _ _,
        maxRat_pairs_le rest _ _ h0b (fun r hr => (hrest r hr).2.1), ?_⟩
      apply maxRat_le_of _ _ _ h0c
      intro x hx
      obtain ⟨r, hr, rfl⟩ := List.mem_map.1 hx
      exact (hrest r hr).2.2

theorem continuity_ok_iff (ref est : List Rat) (p q : Rat) (v : Rat × Rat × Rat × Rat) :
    continuity ref est p q = .ok v ↔ validate ref est = .ok () ∧ continuityCore ref est p q = .ok v := by
  unfold continuity; exact validate_bind_ok _ _ _ _

/-! ### goto -/

theorem boolScore_binary (b : Bool) : boolScore b = 0 ∨ boolScore b = 1 := by
  cases b <;> simp [boolScore]

theorem gotoCore_binary {ref est : List Rat} {thr mu sigma v : Rat} {tie : Bool}
    (h : gotoCore ref est thr mu sigma = .ok (v, tie)) : v = 0 ∨ v = 1 := by
  unfold gotoCore at h
  split at h
  · simp only [Except.ok.injEq, Prod.mk.injEq] at h; exact Or.inl h.1.symm
  · simp only [] at h
    repeat' split at h
    all_goals first
      | (simp at h; done)
      | (simp only [Except.ok.injEq, Prod.mk.injEq] at h
         obtain ⟨rfl, _⟩ := h
         first | exact Or.inl rfl | exact boolScore_binary _)

/-! ### metric-level variations: specification -/

/-- midpoints of consecutive beats -/
def midpoints : List Rat → List Rat
  | a :: b :: t => (a + b) / 2 :: midpoints (b :: t)
  | _ => []

/-- `a₀ b₀ a₁ b₁ …` (the longer list's tail is appended) -/
def interleave : List Rat → List Rat → List Rat
  | a :: as, b :: bs => a :: b :: interleave as bs
  | as, [] => as
  | [], bs => bs

theorem doubled_eq_interleave : ∀ l : List Rat, doubled l = interleave l (midpoints l)
  | [] => rfl
  | [a] => rfl
  | a :: b :: t => by
    have ih := doubled_eq_interleave (b :: t)
    simp only [doubled, midpoints, interleave, ih, List.cons.injEq, true_and]
    constructor
    · ring
    · trivial

theorem everyOther_doubled : ∀ l : List Rat, everyOther (doubled l) = l
  | [] => rfl
  | [a] => rfl
  | a :: b :: t => by simp [doubled, everyOther, everyOther_doubled (b :: t)]

theorem doubled_cons (b : Rat) (t : List Rat) : doubled (b :: t) = b :: (doubled (b :: t)).drop 1 := by
  cases t <;> simp [doubled]

theorem everyOther_doubled_tail : ∀ l : List Rat, everyOther ((doubled l).drop 1) = midpoints l
  | [] => rfl
  | [a] => rfl
  | a :: b :: t => by
    have ih := everyOther_doubled_tail (b :: t)
    rw [doubled, List.drop_succ_cons, List.drop_zero, doubled_cons, everyOther, ih, midpoints]
    congr 1
    ring

theorem doubled_length : ∀ l : List Rat, (doubled l).length = 2 * l.length - 1
  | [] => rfl
  | [a] => rfl
  | a :: b :: t => by
    have ih := doubled_length (b :: t)
    simp only [doubled, List.length_cons] at *
    omega

/-! ### invariance under a common time shift -/

theorem absR_shift (c a b : Rat) : absR ((a + c) - (b + c)) = absR (a - b) := by
  rw [add_sub_add_right_eq_sub]

theorem doubled_shift (c : Rat) : ∀ l : List Rat, doubled (l.map (· + c)) = (doubled l).map (· + c)
  | [] => rfl
  | [a] => rfl
  | a :: b :: t => by
    have ih := doubled_shift c (b :: t)
    simp only [List.map_cons] at ih
    simp only [List.map_cons, doubled, ih, List.cons.injEq, true_and]
    constructor
    · ring
    · trivial

theorem everyOther_map {α β : Type} (f : α → β) : ∀ l : List α, everyOther (l.map f) = (everyOther l).map f
  | [] => rfl
  | [a] => rfl
  | a :: b :: t => by simp [everyOther, everyOther_map f t]

theorem variations_shift (c : Rat) (l : List Rat) :
    variations (l.map (· + c)) = (variations l).map (List.map (· + c)) := by
  simp only [variations, doubled_shift, ← List.map_drop, everyOther_map, List.map_cons, List.map_nil]

theorem minAbsDiff_shift (c b : Rat) : ∀ (es : List Rat) (e : Rat),
    minAbsDiff (b + c) (e + c) (es.map (· + c)) = minAbsDiff b e es := by
  intro es
  induction es with
  | nil => intro e; simp [minAbsDiff]
  | cons x t ih => intro e; simp only [List.map_cons, minAbsDiff, absR_shift, ih]

theorem cemgilAcc_shift {α : Type} (T : TOps α) (sigma c : Rat) (refv : List Rat) (e : Rat) (es : List Rat) :
    cemgilAcc T sigma (refv.map (· + c)) (e + c) (es.map (· + c)) = cemgilAcc T sigma refv e es := by
  unfold cemgilAcc
  rw [List.foldl_map]
  simp only [minAbsDiff_shift, List.length_map]

theorem cemgilCore_shift {α : Type} (T : TOps α) (sigma c : Rat) (ref est : List Rat) :
    cemgilCore T (ref.map (· + c)) (est.map (· + c)) sigma = cemgilCore T ref est sigma := by
  cases ref with
  | nil => simp [cemgilCore]
  | cons r rs =>
    cases est with
    | nil => simp [cemgilCore]
    | cons e es =>
      have hv := variations_shift c (r :: rs)
      simp only [List.map_cons] at hv
      simp only [List.map_cons, cemgilCore, hv, ← List.map_drop, List.map_map]
      have hf : ((fun v => cemgilAcc T sigma v (e + c) (List.map (fun x => x + c) es)) ∘ List.map fun x => x + c)
          = fun v => cemgilAcc T sigma v e es := by
        funext v; exact cemgilAcc_shift T sigma c v e es
      have h0 := cemgilAcc_shift T sigma c (r :: rs) e es
      simp only [List.map_cons] at h0
      rw [hf, h0]

theorem gotoErr_shift (k a b c : Rat) (est : List Rat) :
    gotoErr (a + k) (b + k) (c + k) (est.map (· + k)) = gotoErr a b c est := by
  unfold gotoErr
  simp only [List.filter_map]
  have hp : ((fun e => decide (b + k - 1 / 2 * (b + k - (a + k)) ≤ e) &&
        decide (e < b + k + 1 / 2 * (c + k - (b + k)))) ∘ fun x => x + k) =
      fun e => decide (b - 1 / 2 * (b - a) ≤ e) && decide (e < b + 1 / 2 * (c - b)) := by
    funext e
    simp only [Function.comp]
    congr 1
    · rw [decide_eq_decide]; constructor <;> intro h <;> linarith
    · rw [decide_eq_decide]; constructor <;> intro h <;> linarith
  rw [hp]
  rcases List.filter (fun e => decide (b - 1 / 2 * (b - a) ≤ e) && decide (e < b + 1 / 2 * (c - b))) est
    with _ | ⟨x, _ | ⟨y, t⟩⟩
  · rfl
  · simp only [List.map_cons, List.map_nil, add_sub_add_right_eq_sub]
  · rfl

theorem gotoInner_shift (k : Rat) (est : List Rat) : ∀ ref : List Rat,
    gotoInner (est.map (· + k)) (ref.map (· + k)) = gotoInner est ref
  | [] => rfl
  | [_] => rfl
  | [_, _] => rfl
  | a :: b :: c :: t => by
    have ih := gotoInner_shift k est (b :: c :: t)
    simp only [List.map_cons] at ih
    simp only [List.map_cons, gotoInner, ih, gotoErr_shift]

theorem gotoErrors_shift (k : Rat) (ref est : List Rat) :
    gotoErrors (ref.map (· + k)) (est.map (· + k)) = gotoErrors ref est := by
  rcases ref with _ | ⟨a, _ | ⟨b, t⟩⟩
  · rfl
  · rfl
  · have h := gotoInner_shift k est (a :: b :: t)
    simp only [List.map_cons] at h
    simp only [List.map_cons, gotoErrors, h]

theorem gotoCore_shift (k : Rat) (ref est : List Rat) (thr mu sigma : Rat) :
    gotoCore (ref.map (· + k)) (est.map (· + k)) thr mu sigma = gotoCore ref est thr mu sigma := by
  unfold gotoCore
  simp only [gotoErrors_shift, List.length_map, List.isEmpty_map]

theorem minList_shift (c : Rat) : ∀ (l : List Rat) (a : Rat),
    minList (a + c) (l.map (· + c)) = minList a l + c := by
  intro l
  induction l with
  | nil => intro a; rfl
  | cons x t ih =>
    intro a
    simp only [minList, List.map_cons, List.foldl_cons] at ih ⊢
    rw [min_add_add_right, ih]

theorem maxList_shift (c : Rat) : ∀ (l : List Rat) (a : Rat),
    maxList (a + c) (l.map (· + c)) = maxList a l + c := by
  intro l
  induction l with
  | nil => intro a; rfl
  | cons x t ih =>
    intro a
    simp only [maxList, List.map_cons, List.foldl_cons] at ih ⊢
    rw [max_add_add_right, ih]

theorem trainSupport_shift (c o : Rat) (beats : List Rat) :
    trainSupport (beats.map (· + c)) (o + c) = trainSupport beats o := by
  unfold trainSupport
  rw [List.map_map]
  congr 3
  funext b
  simp only [Function.comp, add_sub_add_right_eq_sub]

theorem pScoreParts_shift (c r e thr : Rat) (rs es : List Rat) :
    pScoreParts (r + c) (rs.map (· + c)) (e + c) (es.map (· + c)) thr = pScoreParts r rs e es thr := by
  have h1 := trainSupport_shift c (min (minList e es) (minList r rs)) (r :: rs)
  have h2 := trainSupport_shift c (min (minList e es) (minList r rs)) (e :: es)
  simp only [List.map_cons] at h1 h2
  unfold pScoreParts
  simp only [minList_shift, maxList_shift, min_add_add_right, add_sub_add_right_eq_sub, h1, h2]

theorem pScoreCore_shift (c : Rat) (ref est : List Rat) (thr : Rat) :
    pScoreCore (ref.map (· + c)) (est.map (· + c)) thr = pScoreCore ref est thr := by
  rcases ref with _ | ⟨r, _ | ⟨r', rs⟩⟩
  · rfl
  · rfl
  · rcases est with _ | ⟨e, _ | ⟨e', es⟩⟩
    · rfl
    · rfl
    · have h := pScoreParts_shift c r e thr (r' :: rs) (e' :: es)
      simp only [List.map_cons] at h
      simp only [List.map_cons, pScoreCore, h, List.length_map]

/-! shift: continuity and information gain -/

theorem pyGet_shift (c : Rat) (l : List Rat) (i : Int) :
    pyGet (l.map (· + c)) i = (pyGet l i).map (· + c) := by
  simp only [pyGet, List.length_map, List.getElem?_map]
  generalize (if i < 0 then i + (l.length : Int) else i) = j
  by_cases hj : j < 0
  · simp [hj, Except.map]
  · simp only [hj, if_false]
    cases l[j.toNat]? <;> simp [Except.map]

theorem diffAt_shift (c : Rat) (l : List Rat) (i j : Int) : diffAt (l.map (· + c)) i j = diffAt l i j := by
  unfold diffAt
  rw [pyGet_shift, pyGet_shift]
  cases pyGet l i with
  | error e => rfl
  | ok a =>
    cases pyGet l j with
    | error e => rfl
    | ok b => simp [Except.map, bind, Except.bind, pure, Except.pure]

theorem probe_shift (c : Rat) (l : List Rat) (i : Int) : probe (l.map (· + c)) i = probe l i := by
  unfold probe
  rw [pyGet_shift]
  cases pyGet l i <;> rfl

theorem mapPy_map {α β γ : Type} (f : β → Py γ) (g : α → β) : ∀ l : List α, mapPy f (l.map g) = mapPy (f ∘ g) l
  | [] => rfl
  | a :: t => by simp only [List.map_cons, mapPy, mapPy_map f g t, Function.comp]

theorem beatError_shift (c : Rat) (ref : List Rat) (e : Rat) :
    beatError (ref.map (· + c)) (e + c) = beatError ref e := by
  unfold beatError
  have hd : List.map (fun r => e + c - r) (ref.map (· + c)) = List.map (fun r => e - r) ref := by
    rw [List.map_map]; congr 1; funext r; simp only [Function.comp, add_sub_add_right_eq_sub]
  simp only [hd, diffAt_shift, probe_shift, List.length_map]

theorem beatErrors_shift (c : Rat) (ref est : List Rat) :
    beatErrors (ref.map (· + c)) (est.map (· + c)) = beatErrors ref est := by
  unfold beatErrors
  rw [mapPy_map]
  have hf : ((fun e => beatError (ref.map (· + c)) e) ∘ fun x => x + c) = fun e => beatError ref e := by
    funext e; exact beatError_shift c ref e
  rw [hf]

theorem getEntropy_shift {α : Type} (T : TOps α) (c : Rat) (ref est : List Rat) (bins : Nat) :
    getEntropy T (ref.map (· + c)) (est.map (· + c)) bins = getEntropy T ref est bins := by
  unfold getEntropy; rw [beatErrors_shift]

theorem informationGainCore_shift {α : Type} (T : TOps α) (c : Rat) (ref est : List Rat) (bins : Nat) :
    informationGainCore T (ref.map (· + c)) (est.map (· + c)) bins = informationGainCore T ref est bins := by
  unfold informationGainCore
  simp only [getEntropy_shift, List.length_map]

theorem estIntFirst_shift (c e : Rat) (next prev : Option Rat) :
    estIntFirst (e + c) (next.map (· + c)) (prev.map (· + c)) = estIntFirst e next prev := by
  cases next <;> cases prev <;> simp [estIntFirst, add_sub_add_right_eq_sub]

theorem estIntPrev_shift (c e : Rat) (prev : Option Rat) :
    estIntPrev (e + c) (prev.map (· + c)) = estIntPrev e prev := by
  cases prev <;> simp [estIntPrev, add_sub_add_right_eq_sub]

theorem contBeat_shift (c : Rat) (refv : List Rat) (p q : Rat) (m : Nat) (prev : Option Rat) (e : Rat)
    (next : Option Rat) (used : List Nat) :
    contBeat (refv.map (· + c)) p q m (prev.map (· + c)) (e + c) (next.map (· + c)) used =
      contBeat refv p q m prev e next used := by
  unfold contBeat
  have hd : List.map (fun r => absR (e + c - r)) (refv.map (· + c)) = List.map (fun r => absR (e - r)) refv := by
    rw [List.map_map]; congr 1; funext r; simp only [Function.comp, add_sub_add_right_eq_sub]
  simp only [hd, diffAt_shift, List.length_map, estIntFirst_shift, estIntPrev_shift]

theorem contLoop_shift (c : Rat) (refv : List Rat) (p q : Rat) : ∀ (est : List Rat) (m : Nat) (prev : Option Rat)
    (used : List Nat),
    contLoop (refv.map (· + c)) p q m (prev.map (· + c)) (est.map (· + c)) used = contLoop refv p q m prev est used := by
  intro est
  induction est with
  | nil => intro m prev used; rfl
  | cons e rest ih =>
    intro m prev used
    have hb := contBeat_shift c refv p q m prev e rest.head? used
    have ih' := fun u => ih (m + 1) (some e) u
    simp only [Option.map_some] at ih'
    simp only [List.map_cons, contLoop, List.head?_map, hb, ih']

theorem contVariation_shift (c : Rat) (refv est : List Rat) (p q : Rat) :
    contVariation (refv.map (· + c)) (est.map (· + c)) p q = contVariation refv est p q := by
  unfold contVariation
  have h := contLoop_shift c refv p q est 0 none []
  simp only [Option.map_none] at h
  simp only [h, List.length_map]

theorem continuityCore_shift (c : Rat) (ref est : List Rat) (p q : Rat) :
    continuityCore (ref.map (· + c)) (est.map (· + c)) p q = continuityCore ref est p q := by
  unfold continuityCore
  rw [variations_shift, mapPy_map]
  have hf : ((fun v => contVariation v (est.map (· + c)) p q) ∘ List.map fun x => x + c) =
      fun v => contVariation v est p q := by
    funext v; exact contVariation_shift c v est p q
  simp only [hf, List.length_map]

/-- the wrapped beat error lies in (-1/2, 1/2] -/
theorem wrapErr_range (raw : Rat) : -(1 / 2) < wrapErr raw ∧ wrapErr raw ≤ 1 / 2 := by
  unfold wrapErr
  simp only []
  have h1 := Rat.floor_le (-(raw + 1 / 2))
  have h2 := Rat.lt_floor_add_one (-(raw + 1 / 2))
  push_cast at h2
  constructor <;> linarith

/-- wrapping changes the error by an integer -/
theorem wrapErr_sub_int (raw : Rat) : ∃ k : Int, wrapErr raw = raw + (k : Rat) := by
  unfold wrapErr
  exact ⟨(-(raw + 1 / 2)).floor + 1, by push_cast; ring⟩

theorem beatError_range {ref : List Rat} {e v : Rat} (h : beatError ref e = .ok (some v)) :
    -(1 / 2) < v ∧ v ≤ 1 / 2 := by
  unfold beatError at h
  simp only [] at h
  split at h
  · simp at h
  · rw [bind_ok_iff] at h
    obtain ⟨absErr, _, h⟩ := h
    have key : ∀ d : Rat, (if 1 / 2 * d = 0 then (pure none : Py (Option Rat))
        else pure (some (wrapErr (1 / 2 * absErr / (1 / 2 * d))))) = Except.ok (some v) →
        -(1 / 2) < v ∧ v ≤ 1 / 2 := by
      intro d hd
      split at hd
      · simp [pure, Except.pure] at hd
      · simp only [pure, Except.pure, Except.ok.injEq, Option.some.injEq] at hd
        subst hd
        exact wrapErr_range _
    split at h
    · rw [bind_ok_iff] at h
      obtain ⟨_, _, h⟩ := h
      rw [bind_ok_iff] at h
      obtain ⟨d, _, h⟩ := h
      exact key d h
    · rw [bind_ok_iff] at h
      obtain ⟨d, _, h⟩ := h
      exact key d h

/-- Goto's normalised beat error always lies in [-1, 1] -/
theorem gotoErr_abs_le_one (a b c : Rat) (est : List Rat) : |gotoErr a b c est| ≤ 1 := by
  unfold gotoErr
  simp only []
  split
  · rename_i e heq
    have hm : e ∈ List.filter (fun e => decide (b - 1 / 2 * (b - a) ≤ e) && decide (e < b + 1 / 2 * (c - b))) est := by
      rw [heq]; simp
    rw [List.mem_filter] at hm
    obtain ⟨_, hp⟩ := hm
    simp only [Bool.and_eq_true, decide_eq_true_eq] at hp
    obtain ⟨h1, h2⟩ := hp
    split
    · rename_i hneg
      have hprev : 0 < 1 / 2 * (b - a) := by linarith
      rw [abs_le]
      constructor
      · rw [le_div_iff₀ hprev]; linarith
      · apply le_trans (div_nonpos_of_nonpos_of_nonneg hneg.le hprev.le); norm_num
    · rename_i hnn
      have hnext : 0 < 1 / 2 * (c - b) := by linarith
      rw [abs_le]
      constructor
      · apply le_trans _ (div_nonneg (not_lt.1 hnn) hnext.le); norm_num
      · rw [div_le_iff₀ hnext]; linarith
  · simp

end Beat
end Mir
