import MirProofs.Lemmas.Beat
/-!
  Continuity of a strictly increasing beat sequence against itself: every estimated beat's nearest annotation
  is the beat itself (distance 0, first and only minimum), it has not been used, the reference interval equals
  the estimated interval and is positive, so phase = 0 < p and period = 0 < q: every beat succeeds.
-/
namespace Mir
namespace Beat

theorem minIdx_mem : ∀ (l : List Rat) (m : Rat) (j : Nat), minIdx l = some (m, j) → m ∈ l := by
  intro l
  induction l with
  | nil => intro m j h; simp [minIdx] at h
  | cons a t ih =>
    intro m j h
    unfold minIdx at h
    cases ht : minIdx t with
    | none => simp [ht] at h; simp [h.1]
    | some r =>
      obtain ⟨m', j'⟩ := r
      simp only [ht] at h
      split at h
      · simp at h; simp [h.1]
      · simp at h
        have := ih m' j' ht
        simp [← h.1, this]

theorem minIdx_zero_at : ∀ (l1 l2 : List Rat), (∀ x ∈ l1, 0 < x) → (∀ x ∈ l2, 0 ≤ x) →
    minIdx (l1 ++ 0 :: l2) = some (0, l1.length) := by
  intro l1
  induction l1 with
  | nil =>
    intro l2 _ h2
    simp only [List.nil_append, List.length_nil]
    unfold minIdx
    cases ht : minIdx l2 with
    | none => rfl
    | some r =>
      obtain ⟨m', j'⟩ := r
      have := h2 m' (minIdx_mem l2 m' j' ht)
      simp [this]
  | cons a t ih =>
    intro l2 h1 h2
    have iht := ih l2 (fun x hx => h1 x (List.mem_cons_of_mem _ hx)) h2
    have ha : ¬ a ≤ 0 := not_le.2 (h1 a List.mem_cons_self)
    simp only [List.cons_append, List.length_cons]
    unfold minIdx
    simp only [iht, ha, if_false]

theorem pyGet_nat (l : List Rat) (n : Nat) (x : Rat) (h : l[n]? = some x) : pyGet l (n : Int) = .ok x := by
  unfold pyGet
  have h1 : ¬ ((n : Int) < 0) := by omega
  simp only [h1, if_false, Int.toNat_natCast, h]

theorem pyGet_nat_succ (l : List Rat) (n : Nat) (x : Rat) (h : l[n + 1]? = some x) :
    pyGet l ((n : Int) + 1) = .ok x := by
  have := pyGet_nat l (n + 1) x h
  push_cast at this; exact this

theorem pyGet_nat_pred (l : List Rat) (n : Nat) (x : Rat) (h : l[n]? = some x) :
    pyGet l (((n + 1 : Nat) : Int) - 1) = .ok x := by
  have := pyGet_nat l n x h
  have e : (((n + 1 : Nat) : Int) - 1) = (n : Int) := by push_cast; ring
  rw [e]; exact this

theorem absR_zero : absR 0 = 0 := by simp [absR]

theorem absR_pos {x : Rat} (h : x ≠ 0) : 0 < absR x := by rw [absR_eq_abs]; exact abs_pos.2 h

theorem contBeat_self (pre rest : List Rat) (e p q : Rat) (hp : 0 < p) (hq : 0 < q)
    (hx : (pre ++ e :: rest).Pairwise (· < ·)) (hlen : 2 ≤ (pre ++ e :: rest).length)
    (used : List Nat) (hu : ∀ u ∈ used, u < pre.length) :
    contBeat (pre ++ e :: rest) p q pre.length pre.getLast? e rest.head? used = .ok (true, pre.length) := by
  have hx' := hx
  rw [List.pairwise_append] at hx'
  obtain ⟨_, hx2, hx3⟩ := hx'
  rw [List.pairwise_cons] at hx2
  have hmin : minIdx (List.map (fun r => absR (e - r)) (pre ++ e :: rest)) = some (0, pre.length) := by
    have := minIdx_zero_at (pre.map fun r => absR (e - r)) (rest.map fun r => absR (e - r))
      (by
        intro y hy
        obtain ⟨a, ha, rfl⟩ := List.mem_map.1 hy
        have := hx3 a ha e (by simp)
        exact absR_pos (by linarith))
      (by
        intro y hy
        obtain ⟨a, _, rfl⟩ := List.mem_map.1 hy
        rw [absR_eq_abs]; exact abs_nonneg _)
    simpa [absR_zero] using this
  have hnot : used.contains pre.length = false := by
    rw [Bool.eq_false_iff]
    intro hc
    have := hu _ (List.contains_iff_mem.1 hc)
    omega
  unfold contBeat
  simp only [hmin, hnot, Bool.false_eq_true, if_false]
  rcases List.eq_nil_or_concat pre with rfl | ⟨pre', a, rfl⟩
  · -- the first estimated beat
    cases rest with
    | nil => simp at hlen
    | cons r1 rest' =>
      have hlt : e < r1 := hx2.1 r1 (by simp)
      have hne : r1 - e ≠ 0 := by linarith
      have hd : diffAt (e :: r1 :: rest') (((0 : Nat) : Int) + 1) ((0 : Nat) : Int) = .ok (r1 - e) := by
        unfold diffAt
        rw [pyGet_nat_succ _ 0 r1 (by simp), pyGet_nat _ 0 e (by simp)]
        rfl
      simp only [List.nil_append, List.length_nil, List.length_cons, true_or, if_true, hd,
        show 0 + 1 < rest'.length + 1 + 1 by omega, List.head?_cons, List.getLast?_nil, estIntFirst,
        bind, Except.bind, hne, if_false, zero_div, absR_zero, hp, div_self hne, sub_self, hq]
      simp
  · -- a later beat: the previous beat is the previous annotation
    simp only [List.concat_eq_append] at *
    have hlt : a < e := hx3 a (by simp) e (by simp)
    have hne : e - a ≠ 0 := by linarith
    have hd : diffAt (pre' ++ a :: e :: rest) ((pre'.length : Int) + 1) (pre'.length : Int) = .ok (e - a) := by
      unfold diffAt
      rw [pyGet_nat_succ _ pre'.length e (by simp), pyGet_nat _ pre'.length a (by simp)]
      rfl
    simp [hd, hne, estIntPrev, absR_zero, hp, hq, div_self hne, bind, Except.bind]

theorem contLoop_self (x : List Rat) (p q : Rat) (hp : 0 < p) (hq : 0 < q) (hx : x.Pairwise (· < ·))
    (hlen : 2 ≤ x.length) : ∀ (suffix pre : List Rat) (used : List Nat), x = pre ++ suffix →
    (∀ u ∈ used, u < pre.length) →
    contLoop x p q pre.length pre.getLast? suffix used = .ok (List.replicate suffix.length true) := by
  intro suffix
  induction suffix with
  | nil => intro pre used _ _; rfl
  | cons e rest ih =>
    intro pre used hxe hu
    subst hxe
    have hb := contBeat_self pre rest e p q hp hq hx hlen used hu
    have ih' := ih (pre ++ [e]) (pre.length :: used) (by simp) (by
      intro u hu'
      rcases List.mem_cons.1 hu' with rfl | hu'
      · simp
      · have := hu u hu'; simp; omega)
    simp only [List.length_append, List.length_cons, List.length_nil, List.getLast?_concat] at ih'
    simp only [contLoop, hb, bind, Except.bind, if_true, ih', pure, Except.pure, List.length_cons,
      List.replicate_succ]

theorem longestRun_trues : ∀ (n cur : Nat), longestRun (List.replicate n true) cur = cur + n := by
  intro n
  induction n with
  | zero => intro cur; rfl
  | succ n ih => intro cur; simp only [List.replicate_succ, longestRun, ih]; omega

theorem countTrue_trues (n : Nat) : countTrue (List.replicate n true) = n := by
  simp [countTrue]

theorem contVariation_self (x : List Rat) (p q : Rat) (hp : 0 < p) (hq : 0 < q) (hx : x.Pairwise (· < ·))
    (hlen : 2 ≤ x.length) : contVariation x x p q = .ok (1, 1) := by
  have h := contLoop_self x p q hp hq hx hlen x [] [] (by simp) (by simp)
  simp only [List.length_nil, List.getLast?_nil] at h
  unfold contVariation
  have hpos : ((x.length : Nat) : Rat) ≠ 0 := by
    have : 0 < x.length := by omega
    exact_mod_cast this.ne'
  simp only [h, bind, Except.bind, pure, Except.pure, longestRun_trues, countTrue_trues, Nat.zero_add,
    max_self, div_self hpos]

end Beat
end Mir
