import MirProofs.Lemmas.BeatPScore
import MirProofs.Lemmas.BeatDefHist
import MirProofs.Lemmas.BeatDefCont
import MirProofs.Lemmas.BeatDefGoto
import Mathlib.Algebra.BigOperators.Group.Finset.Basic
import Mathlib.Algebra.BigOperators.Group.Finset.Piecewise
import Mathlib.Algebra.BigOperators.Group.Finset.Sigma
import Mathlib.Algebra.BigOperators.Intervals
/-!
  "Algorithm = published definition" lemmas for the P-score (C04): the correlate-and-slice computation of the
  code (`pScoreLiteral`: impulse trains, `np.correlate(·, ·, "full")`, Python slice, sum) equals the pair count of
  the model (`pScoreCore`), for all inputs, and for `0 ≤ win < N` that count is McKinney's definition: the number
  of pairs of quantised reference / estimated beat samples at most `win` samples apart.
-/
namespace Mir
namespace Beat

/-! ### `sortInt` / `dedupAdj` = the strictly increasing list of the distinct members -/

theorem mem_insertInt (x y : Int) : ∀ l : List Int, y ∈ insertInt x l ↔ y = x ∨ y ∈ l := by
  intro l
  induction l with
  | nil => simp [insertInt]
  | cons a t ih =>
    simp only [insertInt]
    split
    · simp
    · simp only [List.mem_cons, ih]; tauto

theorem mem_sortInt (y : Int) : ∀ l : List Int, y ∈ sortInt l ↔ y ∈ l := by
  intro l
  induction l with
  | nil => simp [sortInt]
  | cons a t ih => simp only [sortInt, mem_insertInt, ih, List.mem_cons]

theorem insertInt_sorted (x : Int) : ∀ l : List Int, l.Pairwise (· ≤ ·) → (insertInt x l).Pairwise (· ≤ ·) := by
  intro l
  induction l with
  | nil => intro _; simp [insertInt]
  | cons a t ih =>
    intro h
    simp only [insertInt]
    rw [List.pairwise_cons] at h
    split
    · rename_i hxa
      rw [List.pairwise_cons]
      refine ⟨?_, List.pairwise_cons.2 h⟩
      intro y hy
      rcases List.mem_cons.1 hy with rfl | hy
      · exact hxa
      · exact le_trans hxa (h.1 y hy)
    · rename_i hxa
      rw [List.pairwise_cons]
      refine ⟨?_, ih h.2⟩
      intro y hy
      rcases (mem_insertInt x y t).1 hy with rfl | hy
      · omega
      · exact h.1 y hy

theorem sortInt_sorted : ∀ l : List Int, (sortInt l).Pairwise (· ≤ ·) := by
  intro l
  induction l with
  | nil => simp [sortInt]
  | cons a t ih => exact insertInt_sorted a _ ih

theorem mem_dedupAdj (y : Int) : ∀ l : List Int, y ∈ dedupAdj l ↔ y ∈ l
  | [] => by simp [dedupAdj]
  | [_] => by simp [dedupAdj]
  | a :: b :: t => by
    have ih := mem_dedupAdj y (b :: t)
    simp only [dedupAdj]
    split
    · rename_i hab
      subst hab
      rw [ih]; simp
    · simp only [List.mem_cons] at ih ⊢
      rw [ih]

theorem dedupAdj_strict : ∀ l : List Int, l.Pairwise (· ≤ ·) → (dedupAdj l).Pairwise (· < ·)
  | [] => fun _ => by simp [dedupAdj]
  | [_] => fun _ => by simp [dedupAdj]
  | a :: b :: t => fun h => by
    have h' := h
    rw [List.pairwise_cons] at h'
    have ih := dedupAdj_strict (b :: t) h'.2
    simp only [dedupAdj]
    split
    · exact ih
    · rename_i hab
      rw [List.pairwise_cons]
      refine ⟨?_, ih⟩
      intro y hy
      rw [mem_dedupAdj] at hy
      have hab' : a ≤ b := h'.1 b (by simp)
      have hlt : a < b := lt_of_le_of_ne hab' hab
      rcases List.mem_cons.1 hy with rfl | hy
      · exact hlt
      · have h2 := h'.2
        rw [List.pairwise_cons] at h2
        exact lt_of_lt_of_le hlt (h2.1 y hy)

/-- two strictly increasing lists with the same members are equal -/
theorem strictSorted_ext : ∀ (l1 l2 : List Int), l1.Pairwise (· < ·) → l2.Pairwise (· < ·) →
    (∀ x, x ∈ l1 ↔ x ∈ l2) → l1 = l2
  | [], [], _, _, _ => rfl
  | [], b :: _, _, _, h => by have := (h b).2 (by simp); simp at this
  | a :: _, [], _, _, h => by have := (h a).1 (by simp); simp at this
  | a :: t1, b :: t2, h1, h2, h => by
    rw [List.pairwise_cons] at h1 h2
    have hab : a = b := by
      have ha := (h a).1 (by simp)
      have hb := (h b).2 (by simp)
      rcases List.mem_cons.1 ha with e | ha
      · exact e
      · rcases List.mem_cons.1 hb with e | hb
        · exact e.symm
        · have := h1.1 b hb; have := h2.1 a ha; omega
    subst hab
    congr 1
    apply strictSorted_ext t1 t2 h1.2 h2.2
    intro x
    constructor
    · intro hx
      have := (h x).1 (List.mem_cons_of_mem _ hx)
      rcases List.mem_cons.1 this with e | hx2
      · have := h1.1 x hx; omega
      · exact hx2
    · intro hx
      have := (h x).2 (List.mem_cons_of_mem _ hx)
      rcases List.mem_cons.1 this with e | hx2
      · have := h2.1 x hx; omega
      · exact hx2

theorem mem_trainSupport (beats : List Rat) (o : Rat) (y : Int) :
    y ∈ trainSupport beats o ↔ ∃ b ∈ beats, y = ((b - o) * 100).ceil := by
  unfold trainSupport
  rw [mem_dedupAdj, mem_sortInt, List.mem_map]
  constructor
  · rintro ⟨b, hb, rfl⟩; exact ⟨b, hb, rfl⟩
  · rintro ⟨b, hb, rfl⟩; exact ⟨b, hb, rfl⟩

theorem trainSupport_strict (beats : List Rat) (o : Rat) : (trainSupport beats o).Pairwise (· < ·) :=
  dedupAdj_strict _ (sortInt_sorted _)

/-! ### the sliding dot product as a double sum -/

theorem dot_nil_left (v : List Nat) : dot [] v = 0 := by cases v <;> rfl
theorem dot_nil_right (a : List Nat) : dot a [] = 0 := by cases a <;> rfl

theorem dot_eq_sum : ∀ (a v : List Nat) (M : Nat), min a.length v.length ≤ M →
    dot a v = ∑ n ∈ Finset.range M, a.getD n 0 * v.getD n 0 := by
  intro a
  induction a with
  | nil => intro v M _; simp [dot_nil_left]
  | cons x xs ih =>
    intro v M h
    cases v with
    | nil => simp [dot_nil_right]
    | cons y ys =>
      cases M with
      | zero => simp at h
      | succ M =>
        simp only [List.length_cons] at h
        rw [Finset.sum_range_succ', dot, ih ys M (by omega)]
        simp only [List.getD_cons_succ, List.getD_cons_zero]
        omega

theorem getD_drop_nat (a : List Nat) (s n : Nat) : (a.drop s).getD n 0 = a.getD (s + n) 0 := by
  simp [List.getD_eq_getElem?_getD, List.getElem?_drop]

theorem getD_of_le (a : List Nat) (n : Nat) (h : a.length ≤ n) : a.getD n 0 = 0 := by
  simp [List.getD_eq_getElem?_getD, List.getElem?_eq_none h]

/-- lag `k` of the full cross-correlation of two arrays of the same length `N`: the sum of the products
    `a[i] * v[j]` over the index pairs with `i - j = k - (N - 1)` -/
theorem corrAt_eq_sum (a v : List Nat) (N k : Nat) (ha : a.length = N) (hv : v.length = N) (hN : 0 < N) :
    corrAt a v k = ∑ j ∈ Finset.range N, ∑ i ∈ Finset.range N,
      if i + (N - 1) = k + j then a.getD i 0 * v.getD j 0 else 0 := by
  unfold corrAt
  simp only [hv]
  by_cases hk : N - 1 ≤ k
  · have hs : (0 : Int) ≤ (k : Int) - ((N : Int) - 1) := by omega
    have hst : ((k : Int) - ((N : Int) - 1)).toNat = k - (N - 1) := by omega
    rw [if_pos hs, hst, dot_eq_sum _ _ N (by simp [hv])]
    apply Finset.sum_congr rfl
    intro j hj
    rw [Finset.mem_range] at hj
    have : ∀ i, (i + (N - 1) = k + j) ↔ (i = k - (N - 1) + j) := by intro i; omega
    simp only [this, Finset.sum_ite_eq', Finset.mem_range, getD_drop_nat]
    split
    · rfl
    · rw [getD_of_le a _ (by omega)]; simp
  · have hs : ¬ (0 : Int) ≤ (k : Int) - ((N : Int) - 1) := by omega
    have hst : (-((k : Int) - ((N : Int) - 1))).toNat = N - 1 - k := by omega
    rw [if_neg hs, hst, dot_eq_sum _ _ N (by simp [ha]), Finset.sum_comm]
    apply Finset.sum_congr rfl
    intro i hi
    rw [Finset.mem_range] at hi
    have : ∀ j, (i + (N - 1) = k + j) ↔ (j = N - 1 - k + i) := by intro j; omega
    simp only [this, Finset.sum_ite_eq', Finset.mem_range, getD_drop_nat]
    split
    · rfl
    · rw [getD_of_le v _ (by omega)]; simp

theorem sumNat_map_range' (f : Nat → Nat) : ∀ (n s : Nat),
    sumNat ((List.range' s n).map f) = ∑ k ∈ Finset.range n, f (s + k) := by
  intro n
  induction n with
  | zero => intro s; simp [sumNat]
  | succ n ih =>
    intro s
    rw [List.range'_succ, List.map_cons, sumNat, ih, Finset.sum_range_succ']
    have : ∀ k, s + 1 + k = s + (k + 1) := by intro k; omega
    simp only [this, Nat.add_zero]
    omega

theorem slice_range_map (f : Nat → Nat) (L b1 m : Nat) :
    (((List.range L).map f).drop b1).take m = (List.range' b1 (min m (L - b1))).map f := by
  rw [← List.map_drop, ← List.map_take, List.range_eq_range', List.drop_range']
  congr 1
  simp only [Nat.zero_add, Nat.mul_one]
  rcases Nat.le_total (L - b1) m with h | h
  · rw [List.take_range'_of_length_le h, Nat.min_eq_right h]
  · rw [List.take_range'_of_length_ge h, Nat.min_eq_left h]

/-- the sum of the slice `[b1, b2)` of the full cross-correlation: the sum of `a[i] * v[j]` over the pairs whose lag
    index `i - j + (N - 1)` lies in `[b1, b2)` -/
theorem corr_slice_sum (a v : List Nat) (N b1 b2 : Nat) (ha : a.length = N) (hv : v.length = N) (hN : 0 < N)
    (hb : b2 ≤ 2 * N - 1) :
    sumNat (((correlateFull a v).drop b1).take (b2 - b1)) =
      ∑ i ∈ Finset.range N, ∑ j ∈ Finset.range N,
        if b1 + j ≤ i + (N - 1) ∧ i + (N - 1) < b2 + j then a.getD i 0 * v.getD j 0 else 0 := by
  unfold correlateFull
  rw [slice_range_map, sumNat_map_range', ha, hv]
  have hmin : min (b2 - b1) (N + N - 1 - b1) = b2 - b1 := by omega
  rw [hmin]
  simp only [corrAt_eq_sum a v N _ ha hv hN]
  rw [Finset.sum_comm]
  conv_rhs => rw [Finset.sum_comm]
  apply Finset.sum_congr rfl
  intro j hj
  rw [Finset.sum_comm]
  apply Finset.sum_congr rfl
  intro i hi
  rw [Finset.mem_range] at hi hj
  have : ∀ k, (i + (N - 1) = b1 + k + j) ↔ (k = i + (N - 1) - j - b1 ∧ b1 + j ≤ i + (N - 1)) := by intro k; omega
  simp only [this]
  by_cases hc : b1 + j ≤ i + (N - 1)
  · simp only [hc, and_true, true_and, Finset.sum_ite_eq', Finset.mem_range]
    have : (i + (N - 1) - j - b1 < b2 - b1) ↔ (i + (N - 1) < b2 + j) := by omega
    simp only [this]
  · simp [hc]

/-! ### `np.flatnonzero` of a train, and the pair count over two of them as a double sum -/

theorem flatnonzeroNatFrom_eq : ∀ (l : List Nat) (k : Nat), flatnonzeroNatFrom k l =
    ((List.range l.length).filter (fun i => decide (l.getD i 0 ≠ 0))).map (fun i => ((k + i : Nat) : Int)) := by
  intro l
  induction l with
  | nil => intro k; simp [flatnonzeroNatFrom]
  | cons x t ih =>
    intro k
    have hmap : List.map (fun i => ((k + 1 + i : Nat) : Int)) (List.filter (fun i => decide (t.getD i 0 ≠ 0)) (List.range t.length)) =
        List.map (fun i => ((k + i : Nat) : Int)) (List.filter (fun i => decide ((x :: t).getD i 0 ≠ 0))
          (List.map Nat.succ (List.range t.length))) := by
      rw [List.filter_map, List.map_map]
      apply congr
      · apply congrArg
        funext i
        simp only [Function.comp]
        congr 1
        omega
      · apply congrArg (fun p => List.filter p (List.range t.length))
        funext i
        simp [Function.comp]
    simp only [flatnonzeroNatFrom, List.length_cons, List.range_succ_eq_map, List.filter_cons, List.getD_cons_zero, ih (k + 1), hmap]
    by_cases hx : x = 0
    · simp [hx]
    · simp [hx]

theorem list_sum_range (f : Nat → Nat) : ∀ n : Nat, ((List.range n).map f).sum = ∑ i ∈ Finset.range n, f i := by
  intro n
  induction n with
  | zero => simp
  | succ n ih => rw [List.range_succ, List.map_append, List.sum_append, ih, Finset.sum_range_succ]; simp

theorem list_sum_filter_map {α : Type} (p : α → Bool) (f : α → Nat) : ∀ l : List α,
    ((l.filter p).map f).sum = (l.map fun i => if p i then f i else 0).sum := by
  intro l
  induction l with
  | nil => simp
  | cons a t ih =>
    rw [List.filter_cons]
    by_cases h : p a
    · simp [h, ih]
    · simp [h, ih]

theorem length_filter_eq_sum {α : Type} (p : α → Bool) : ∀ l : List α,
    (l.filter p).length = (l.map fun i => if p i then 1 else 0).sum := by
  intro l
  induction l with
  | nil => simp
  | cons a t ih =>
    rw [List.filter_cons]
    by_cases h : p a
    · simp [h, ih]; omega
    · simp [h, ih]

/-- a sum over the non-zero positions of a train -/
theorem sum_flatnonzero (l : List Nat) (h : Int → Nat) :
    ((flatnonzeroNatFrom 0 l).map h).sum =
      ∑ i ∈ Finset.range l.length, if l.getD i 0 ≠ 0 then h (i : Int) else 0 := by
  rw [flatnonzeroNatFrom_eq, List.map_map, list_sum_filter_map, list_sum_range]
  apply Finset.sum_congr rfl
  intro i _
  simp [Function.comp]

theorem length_flatMap_eq_sum {α β : Type} (f : α → List β) : ∀ l : List α,
    (l.flatMap f).length = (l.map fun i => (f i).length).sum := by
  intro l
  induction l with
  | nil => simp
  | cons a t ih => simp [List.flatMap_cons, ih]

/-- the pair count over the supports of two 0/1 arrays of length `N` is the same double sum as the slice of their
    cross-correlation -/
theorem pairCount_flatnonzero (a v : List Nat) (N b1 b2 : Nat) (ha : a.length = N) (hv : v.length = N) (hN : 0 < N)
    (ha1 : ∀ n, a.getD n 0 ≤ 1) (hv1 : ∀ n, v.getD n 0 ≤ 1) :
    pairCount (flatnonzeroNatFrom 0 a) (flatnonzeroNatFrom 0 v) ((N : Int) - 1) b1 b2 =
      ∑ i ∈ Finset.range N, ∑ j ∈ Finset.range N,
        if b1 + j ≤ i + (N - 1) ∧ i + (N - 1) < b2 + j then a.getD i 0 * v.getD j 0 else 0 := by
  unfold pairCount
  rw [length_flatMap_eq_sum, sum_flatnonzero, ha]
  apply Finset.sum_congr rfl
  intro i _
  rw [length_filter_eq_sum, sum_flatnonzero, hv]
  have hai := ha1 i
  by_cases hi : a.getD i 0 = 0
  · simp only [hi]; simp
  · have hi1 : a.getD i 0 = 1 := by omega
    simp only [ne_eq, hi1, Nat.one_mul]
    rw [if_pos (by decide)]
    apply Finset.sum_congr rfl
    intro j _
    have hvj := hv1 j
    have hc : ((b1 : Int) ≤ (i : Int) - (j : Int) + ((N : Int) - 1) ∧ (i : Int) - (j : Int) + ((N : Int) - 1) < (b2 : Int)) ↔
        (b1 + j ≤ i + (N - 1) ∧ i + (N - 1) < b2 + j) := by omega
    by_cases hj : v.getD j 0 = 0
    · simp only [hj]; simp
    · have hj1 : v.getD j 0 = 1 := by omega
      simp only [hj1, Bool.and_eq_true, decide_eq_true_eq, hc]; simp

/-- **np.correlate + slice = pair count**, for two 0/1 arrays of the same length `N` and a slice `[b1, b2)` inside
    the `2N - 1` lags -/
theorem corr_slice_eq_pairCount (a v : List Nat) (N b1 b2 : Nat) (ha : a.length = N) (hv : v.length = N) (hN : 0 < N)
    (hb : b2 ≤ 2 * N - 1) (ha1 : ∀ n, a.getD n 0 ≤ 1) (hv1 : ∀ n, v.getD n 0 ≤ 1) :
    sumNat (((correlateFull a v).drop b1).take (b2 - b1)) =
      pairCount (flatnonzeroNatFrom 0 a) (flatnonzeroNatFrom 0 v) ((N : Int) - 1) b1 b2 := by
  rw [corr_slice_sum a v N b1 b2 ha hv hN hb, pairCount_flatnonzero a v N b1 b2 ha hv hN ha1 hv1]

/-! ### the impulse trains of `p_score` -/

/-- the train as a function of the index list, when no index is negative or too large -/
def trainOf (N : Nat) (idx : List Int) : List Nat :=
  (List.range N).map fun (k : Nat) => if idx.contains (Int.ofNat k) then 1 else 0

theorem impulseTrain_ok (N : Nat) (idx : List Int) (h : ∀ i ∈ idx, 0 ≤ i ∧ i < (N : Int)) :
    impulseTrain N idx = .ok (trainOf N idx) := by
  unfold impulseTrain trainOf
  have hany : idx.any (fun i => decide (i < -(N : Int)) || decide ((N : Int) ≤ i)) = false := by
    rw [List.any_eq_false]
    intro i hi
    have := h i hi
    simp only [Bool.or_eq_true, decide_eq_true_eq, not_or]
    omega
  have hpos : idx.map (fun i => if i < 0 then i + (N : Int) else i) = idx := by
    conv_rhs => rw [← List.map_id idx]
    apply List.map_congr_left
    intro i hi
    have := h i hi
    simp only [id]
    rw [if_neg (by omega)]
  simp only [hany, hpos]
  rfl

theorem trainOf_length (N : Nat) (idx : List Int) : (trainOf N idx).length = N := by simp [trainOf]

theorem trainOf_getD (N : Nat) (idx : List Int) (n : Nat) :
    (trainOf N idx).getD n 0 = if n < N ∧ (n : Int) ∈ idx then 1 else 0 := by
  unfold trainOf
  by_cases hn : n < N
  · simp [List.getD_eq_getElem?_getD, hn]
  · rw [getD_of_le _ _ (by simp; omega)]
    simp [hn]

theorem trainOf_le_one (N : Nat) (idx : List Int) (n : Nat) : (trainOf N idx).getD n 0 ≤ 1 := by
  rw [trainOf_getD]; split <;> omega

theorem mem_flatnonzero_trainOf (N : Nat) (idx : List Int) (h : ∀ i ∈ idx, 0 ≤ i ∧ i < (N : Int)) (y : Int) :
    y ∈ flatnonzeroNatFrom 0 (trainOf N idx) ↔ y ∈ idx := by
  rw [flatnonzeroNatFrom_eq, List.mem_map]
  simp only [List.mem_filter, List.mem_range, trainOf_length, trainOf_getD, Nat.zero_add, decide_eq_true_eq]
  constructor
  · rintro ⟨n, ⟨hn, hne⟩, rfl⟩
    by_contra hc
    exact hne (by rw [if_neg]; intro h'; exact hc h'.2)
  · intro hy
    have := h y hy
    refine ⟨y.toNat, ⟨by omega, ?_⟩, by omega⟩
    have e : ((y.toNat : Nat) : Int) = y := by omega
    rw [if_pos ⟨by omega, by rw [e]; exact hy⟩]
    decide

theorem flatnonzeroNatFrom_strict (l : List Nat) : (flatnonzeroNatFrom 0 l).Pairwise (· < ·) := by
  rw [flatnonzeroNatFrom_eq]
  apply List.Pairwise.map (R := (· < ·))
  · intro a b hab; simp only [Nat.zero_add]; exact_mod_cast hab
  · exact List.Pairwise.filter _ List.pairwise_lt_range

/-- `np.flatnonzero` of the train built from the quantised beats is the model's `trainSupport` -/
theorem flatnonzero_train_eq_support (N : Nat) (beats : List Rat) (o : Rat)
    (h : ∀ b ∈ beats, 0 ≤ ((b - o) * 100).ceil ∧ ((b - o) * 100).ceil < (N : Int)) :
    flatnonzeroNatFrom 0 (trainOf N (beats.map fun b => ((b - o) * 100).ceil)) = trainSupport beats o := by
  apply strictSorted_ext _ _ (flatnonzeroNatFrom_strict _) (trainSupport_strict _ _)
  intro x
  rw [mem_flatnonzero_trainOf, mem_trainSupport, List.mem_map]
  · constructor
    · rintro ⟨b, hb, rfl⟩; exact ⟨b, hb, rfl⟩
    · rintro ⟨b, hb, rfl⟩; exact ⟨b, hb, rfl⟩
  · intro i hi
    obtain ⟨b, hb, rfl⟩ := List.mem_map.1 hi
    exact h b hb

/-! ### the Python slice of the correlation -/

theorem pySliceBounds_le (len : Nat) (s e : Int) : (pySliceBounds len s e).2 ≤ len := by
  simp only [pySliceBounds]
  split_ifs <;> omega

theorem correlateFull_length (a v : List Nat) : (correlateFull a v).length = a.length + v.length - 1 := by
  simp [correlateFull]

/-- the code's windowed correlation sum (`np.correlate`, `middle = len // 2`, Python slice, `np.sum`) on two 0/1
    trains of length `N` is the model's pair count over their supports -/
theorem corrWindowSum_trainOf (N : Nat) (hN : 0 < N) (R E : List Int) (win : Int) :
    corrWindowSum (trainOf N R) (trainOf N E) win =
      pairCount (flatnonzeroNatFrom 0 (trainOf N R)) (flatnonzeroNatFrom 0 (trainOf N E)) ((N : Int) - 1)
        (pySliceBounds (2 * N - 1) ((((2 * N - 1) / 2 : Nat) : Int) - win) ((((2 * N - 1) / 2 : Nat) : Int) + win + 1)).1
        (pySliceBounds (2 * N - 1) ((((2 * N - 1) / 2 : Nat) : Int) - win) ((((2 * N - 1) / 2 : Nat) : Int) + win + 1)).2 := by
  unfold corrWindowSum pySlice
  have hL : (correlateFull (trainOf N R) (trainOf N E)).length = 2 * N - 1 := by
    rw [correlateFull_length, trainOf_length, trainOf_length]; omega
  simp only [hL]
  exact corr_slice_eq_pairCount _ _ N _ _ (trainOf_length _ _) (trainOf_length _ _) hN (pySliceBounds_le _ _ _)
    (trainOf_le_one _ _) (trainOf_le_one _ _)

/-! ### the quantised beats are valid train indices -/

theorem minList_le : ∀ (l : List Rat) (a : Rat), minList a l ≤ a ∧ ∀ x ∈ l, minList a l ≤ x := by
  intro l
  induction l with
  | nil => intro a; simp [minList]
  | cons y t ih =>
    intro a
    have h := ih (min a y)
    simp only [minList, List.foldl_cons] at h ⊢
    refine ⟨le_trans h.1 (min_le_left _ _), ?_⟩
    intro x hx
    rcases List.mem_cons.1 hx with rfl | hx
    · exact le_trans h.1 (min_le_right _ _)
    · exact h.2 x hx

theorem le_maxList : ∀ (l : List Rat) (a : Rat), a ≤ maxList a l ∧ ∀ x ∈ l, x ≤ maxList a l := by
  intro l
  induction l with
  | nil => intro a; simp [maxList]
  | cons y t ih =>
    intro a
    have h := ih (max a y)
    simp only [maxList, List.foldl_cons] at h ⊢
    refine ⟨le_trans (le_max_left _ _) h.1, ?_⟩
    intro x hx
    rcases List.mem_cons.1 hx with rfl | hx
    · exact le_trans (le_max_right _ _) h.1
    · exact h.2 x hx

theorem minList_le_mem (a : Rat) (l : List Rat) (x : Rat) (hx : x ∈ a :: l) : minList a l ≤ x := by
  rcases List.mem_cons.1 hx with rfl | hx
  · exact (minList_le l _).1
  · exact (minList_le l a).2 x hx

theorem mem_le_maxList (a : Rat) (l : List Rat) (x : Rat) (hx : x ∈ a :: l) : x ≤ maxList a l := by
  rcases List.mem_cons.1 hx with rfl | hx
  · exact (le_maxList l _).1
  · exact (le_maxList l a).2 x hx

/-- a beat that is at least `o` and at most `o + E` (E an integer number of seconds) is quantised to a sample index in
    `[0, 100·E]` -/
theorem quantised_in_range (b o : Rat) (E : Int) (h1 : o ≤ b) (h2 : b - o ≤ (E : Rat)) :
    0 ≤ ((b - o) * 100).ceil ∧ ((b - o) * 100).ceil < (((E * 100 + 1).toNat : Nat) : Int) := by
  have hE : 0 ≤ E := by
    have : (0 : Rat) ≤ (E : Rat) := le_trans (by linarith) h2
    exact_mod_cast this
  constructor
  · have : (-1 : Int) < ((b - o) * 100).ceil := by
      rw [Rat.lt_ceil_iff]
      have : (0 : Rat) ≤ (b - o) * 100 := by nlinarith
      push_cast; linarith
    omega
  · have : ((b - o) * 100).ceil ≤ E * 100 := by
      rw [Rat.ceil_le_iff]
      push_cast; nlinarith
    omega

/-- every beat of either sequence is quantised to a valid index of the trains `p_score` allocates -/
theorem pscore_indices_in_range (r : Rat) (rs : List Rat) (e : Rat) (es : List Rat) (b : Rat)
    (hb : b ∈ r :: rs ∨ b ∈ e :: es) :
    let offset := min (minList e es) (minList r rs)
    let endPoint : Int := (max (maxList e es - offset) (maxList r rs - offset)).ceil
    0 ≤ ((b - offset) * 100).ceil ∧ ((b - offset) * 100).ceil < (((endPoint * 100 + 1).toNat : Nat) : Int) := by
  intro offset endPoint
  apply quantised_in_range
  · rcases hb with hb | hb
    · exact le_trans (min_le_right _ _) (minList_le_mem r rs b hb)
    · exact le_trans (min_le_left _ _) (minList_le_mem e es b hb)
  · refine le_trans ?_ Rat.le_ceil
    rcases hb with hb | hb
    · exact le_trans (sub_le_sub_right (mem_le_maxList r rs b hb) _) (le_max_right _ _)
    · exact le_trans (sub_le_sub_right (mem_le_maxList e es b hb) _) (le_max_left _ _)

/-! ### `pScoreLiteral = pScoreCore` -/

/-- **The correlate-and-slice computation equals the pair count, for all inputs**: the step-by-step mirror of the
    code never raises and returns exactly what the pair-count model returns. -/
theorem pScoreLiteral_eq (ref est : List Rat) (thr : Rat) : pScoreLiteral ref est thr = .ok (pScoreCore ref est thr) := by
  rcases ref with _ | ⟨r, _ | ⟨r', rs⟩⟩
  · rfl
  · cases est <;> rfl
  · rcases est with _ | ⟨e, _ | ⟨e', es⟩⟩
    · rfl
    · rfl
    · have hR : ∀ b ∈ (r :: r' :: rs), _ := fun b hb => pscore_indices_in_range r (r' :: rs) e (e' :: es) b (Or.inl hb)
      have hE : ∀ b ∈ (e :: e' :: es), _ := fun b hb => pscore_indices_in_range r (r' :: rs) e (e' :: es) b (Or.inr hb)
      simp only at hR hE
      have hN : 0 < ((max (maxList e (e' :: es) - min (minList e (e' :: es)) (minList r (r' :: rs)))
          (maxList r (r' :: rs) - min (minList e (e' :: es)) (minList r (r' :: rs)))).ceil * 100 + 1).toNat := by
        have := hR r (by simp)
        omega
      have tR := impulseTrain_ok _ ((r :: r' :: rs).map fun b =>
        ((b - min (minList e (e' :: es)) (minList r (r' :: rs))) * 100).ceil) (by
          intro i hi
          obtain ⟨b, hb, rfl⟩ := List.mem_map.1 hi
          exact hR b hb)
      have tE := impulseTrain_ok _ ((e :: e' :: es).map fun b =>
        ((b - min (minList e (e' :: es)) (minList r (r' :: rs))) * 100).ceil) (by
          intro i hi
          obtain ⟨b, hb, rfl⟩ := List.mem_map.1 hi
          exact hE b hb)
      have sR := flatnonzero_train_eq_support _ (r :: r' :: rs) _ hR
      have sE := flatnonzero_train_eq_support _ (e :: e' :: es) _ hE
      simp only [pScoreLiteral, pScoreCore, pScoreParts, tR, tE, bind, Except.bind, sR]
      split
      · rename_i hmed
        simp only [hmed]; rfl
      · rename_i med hmed
        simp only [hmed, pure, Except.pure, corrWindowSum_trainOf _ hN, sR, sE]

/-! ### what the slice keeps: McKinney's window for `0 ≤ win < N`, a one-sided set of lags beyond -/

/-- McKinney's count: the number of pairs (reference sample, estimated sample) at most `win` samples apart -/
def windowPairs (R E : List Int) (win : Int) : Nat :=
  (R.flatMap fun i => E.filter fun j => decide (|i - j| ≤ win)).length

theorem pairCount_congr (R E : List Int) (shift : Int) (lo hi : Nat) (p : Int → Int → Bool)
    (h : ∀ i ∈ R, ∀ j ∈ E, (decide ((lo : Int) ≤ i - j + shift) && decide (i - j + shift < (hi : Int))) = p i j) :
    pairCount R E shift lo hi = (R.flatMap fun i => E.filter fun j => p i j).length := by
  unfold pairCount
  congr 1
  apply List.flatMap_congr
  intro i hi
  apply List.filter_congr
  intro j hj
  exact h i hi j hj

/-- for `0 ≤ win < N` the code's slice keeps exactly the lags `-win … win` -/
theorem pairCount_window (R E : List Int) (N : Nat) (win : Int) (hw : 0 ≤ win) (hwN : win < (N : Int)) :
    pairCount R E ((N : Int) - 1)
      (pySliceBounds (2 * N - 1) ((((2 * N - 1) / 2 : Nat) : Int) - win) ((((2 * N - 1) / 2 : Nat) : Int) + win + 1)).1
      (pySliceBounds (2 * N - 1) ((((2 * N - 1) / 2 : Nat) : Int) - win) ((((2 * N - 1) / 2 : Nat) : Int) + win + 1)).2
      = windowPairs R E win := by
  unfold windowPairs
  apply pairCount_congr
  intro i _ j _
  rw [Bool.eq_iff_iff]
  simp only [Bool.and_eq_true, decide_eq_true_eq, abs_le, pySliceBounds]
  split_ifs <;> simp only [decide_eq_true_eq] <;> omega

/-- for `win ≥ N` the negative slice start wraps around: only the pairs whose reference sample is LATER than the
    estimated sample by at least `2N - 1 - win` samples are counted (all pairs once `win ≥ 3N - 2`) -/
theorem pairCount_wrapped (R E : List Int) (N : Nat) (win : Int) (hwN : (N : Int) ≤ win)
    (hR : ∀ i ∈ R, 0 ≤ i ∧ i < (N : Int)) (hE : ∀ j ∈ E, 0 ≤ j ∧ j < (N : Int)) :
    pairCount R E ((N : Int) - 1)
      (pySliceBounds (2 * N - 1) ((((2 * N - 1) / 2 : Nat) : Int) - win) ((((2 * N - 1) / 2 : Nat) : Int) + win + 1)).1
      (pySliceBounds (2 * N - 1) ((((2 * N - 1) / 2 : Nat) : Int) - win) ((((2 * N - 1) / 2 : Nat) : Int) + win + 1)).2
      = (R.flatMap fun i => E.filter fun j => decide (2 * (N : Int) - 1 - win ≤ i - j)).length := by
  apply pairCount_congr
  intro i hi j hj
  have := hR i hi
  have := hE j hj
  rw [Bool.eq_iff_iff]
  simp only [Bool.and_eq_true, decide_eq_true_eq, pySliceBounds]
  split_ifs <;> simp only [decide_eq_true_eq] <;> omega

/-- a negative window gives an empty slice -/
theorem pairCount_negative (R E : List Int) (N : Nat) (win : Int) (hw : win < 0) :
    pairCount R E ((N : Int) - 1)
      (pySliceBounds (2 * N - 1) ((((2 * N - 1) / 2 : Nat) : Int) - win) ((((2 * N - 1) / 2 : Nat) : Int) + win + 1)).1
      (pySliceBounds (2 * N - 1) ((((2 * N - 1) / 2 : Nat) : Int) - win) ((((2 * N - 1) / 2 : Nat) : Int) + win + 1)).2
      = 0 := by
  have h := pairCount_congr R E ((N : Int) - 1)
    (pySliceBounds (2 * N - 1) ((((2 * N - 1) / 2 : Nat) : Int) - win) ((((2 * N - 1) / 2 : Nat) : Int) + win + 1)).1
    (pySliceBounds (2 * N - 1) ((((2 * N - 1) / 2 : Nat) : Int) - win) ((((2 * N - 1) / 2 : Nat) : Int) + win + 1)).2
    (fun _ _ => false) (by
      intro i _ j _
      rw [Bool.eq_false_iff]
      simp only [ne_eq, Bool.and_eq_true, decide_eq_true_eq, pySliceBounds]
      split_ifs <;> simp only [decide_eq_true_eq] <;> omega)
  rw [h]
  simp

/-- the supports the model uses are inside the train -/
theorem trainSupport_in_range (r : Rat) (rs : List Rat) (e : Rat) (es : List Rat) :
    let offset := min (minList e es) (minList r rs)
    let endPoint : Int := (max (maxList e es - offset) (maxList r rs - offset)).ceil
    (∀ i ∈ trainSupport (r :: rs) offset, 0 ≤ i ∧ i < (((endPoint * 100 + 1).toNat : Nat) : Int)) ∧
    (∀ j ∈ trainSupport (e :: es) offset, 0 ≤ j ∧ j < (((endPoint * 100 + 1).toNat : Nat) : Int)) := by
  intro offset endPoint
  constructor
  · intro i hi
    obtain ⟨b, hb, rfl⟩ := (mem_trainSupport _ _ _).1 hi
    exact pscore_indices_in_range r rs e es b (Or.inl hb)
  · intro j hj
    obtain ⟨b, hb, rfl⟩ := (mem_trainSupport _ _ _).1 hj
    exact pscore_indices_in_range r rs e es b (Or.inr hb)

/-! ### for thresholds in [0, 1] the window is always shorter than the train -/

theorem diffs_bounds (K : Int) : ∀ l : List Int, l.Pairwise (· < ·) → (∀ x ∈ l, 0 ≤ x ∧ x ≤ K) →
    ∀ d ∈ diffs l, 1 ≤ d ∧ d ≤ K
  | [], _, _ => by simp [diffs]
  | [_], _, _ => by simp [diffs]
  | a :: b :: t, hp, hb => by
    intro d hd
    simp only [diffs, List.mem_cons] at hd
    rw [List.pairwise_cons] at hp
    rcases hd with rfl | hd
    · have h1 := hp.1 b (by simp)
      have h2 := hb a (by simp)
      have h3 := hb b (by simp)
      omega
    · exact diffs_bounds K (b :: t) hp.2 (fun x hx => hb x (List.mem_cons_of_mem _ hx)) d hd

theorem medianInt_bounds (l : List Int) (m : Rat) (lo hi : Int) (h : medianInt l = some m)
    (hl : ∀ x ∈ l, lo ≤ x ∧ x ≤ hi) : (lo : Rat) ≤ m ∧ m ≤ (hi : Rat) := by
  have hmem : ∀ (i : Nat) (x : Int), (sortInt l)[i]? = some x → lo ≤ x ∧ x ≤ hi := by
    intro i x hx
    exact hl x ((mem_sortInt x l).1 (List.mem_of_getElem? hx))
  unfold medianInt at h
  simp only at h
  split_ifs at h with h0 h1
  · cases hx : (sortInt l)[(sortInt l).length / 2]? with
    | none => simp [hx] at h
    | some x =>
      simp [hx] at h
      subst h
      have := hmem _ _ hx
      exact ⟨by exact_mod_cast this.1, by exact_mod_cast this.2⟩
  · cases ha : (sortInt l)[(sortInt l).length / 2 - 1]? with
    | none => simp [ha] at h
    | some a =>
      cases hb : (sortInt l)[(sortInt l).length / 2]? with
      | none => simp [ha, hb] at h
      | some b =>
        simp [ha, hb] at h
        subst h
        have h1 := hmem _ _ ha
        have h2 := hmem _ _ hb
        have a1 : (lo : Rat) ≤ (a : Rat) := by exact_mod_cast h1.1
        have a2 : (a : Rat) ≤ (hi : Rat) := by exact_mod_cast h1.2
        have b1 : (lo : Rat) ≤ (b : Rat) := by exact_mod_cast h2.1
        have b2 : (b : Rat) ≤ (hi : Rat) := by exact_mod_cast h2.2
        constructor <;> linarith

theorem roundHalfEven_bounds (x : Rat) (K : Int) (h0 : 0 ≤ x) (hK : x ≤ (K : Rat)) :
    0 ≤ roundHalfEven x ∧ roundHalfEven x ≤ K := by
  have hf0 : 0 ≤ x.floor := by rw [Rat.le_floor_iff]; exact_mod_cast h0
  have hfl := Rat.floor_le x
  have hfK : x.floor ≤ K := by
    have : ((x.floor : Int) : Rat) ≤ (K : Rat) := le_trans hfl hK
    exact_mod_cast this
  unfold roundHalfEven
  simp only
  have hup : x - (x.floor : Rat) ≠ 0 → x.floor + 1 ≤ K := by
    intro hne
    by_contra hc
    have hfe : x.floor = K := by omega
    have : (x.floor : Rat) = (K : Rat) := by exact_mod_cast hfe
    apply hne
    linarith
  split_ifs with h1 h2 h3
  · exact ⟨hf0, hfK⟩
  · exact ⟨by omega, hup (by linarith)⟩
  · exact ⟨hf0, hfK⟩
  · refine ⟨by omega, hup ?_⟩
    have : x - (x.floor : Rat) = 1 / 2 := le_antisymm (not_lt.1 h2) (not_lt.1 h1)
    rw [this]; norm_num

/-- **for `0 ≤ thr ≤ 1` the side condition `0 ≤ win < N` of McKinney's definition always holds**: the window is at
    most the median inter-annotation interval, which is at most the distance between two samples of the train -/
theorem pScoreParts_window_lt (r : Rat) (rs : List Rat) (e : Rat) (es : List Rat) (thr : Rat) (win : Int) (N cnt : Nat)
    (h : pScoreParts r rs e es thr = some (win, N, cnt)) (h0 : 0 ≤ thr) (h1 : thr ≤ 1) :
    0 ≤ win ∧ win < (N : Int) := by
  have hrange := (trainSupport_in_range r rs e es).1
  have hstrict := trainSupport_strict (r :: rs) (min (minList e es) (minList r rs))
  simp only [pScoreParts] at h
  split at h
  · simp at h
  · rename_i med hmed
    simp only [Option.some.injEq, Prod.mk.injEq] at h
    obtain ⟨rfl, rfl, _⟩ := h
    have hd := diffs_bounds _ _ hstrict (fun x hx => ⟨(hrange x hx).1, Int.le_sub_one_of_lt (hrange x hx).2⟩)
    have hm := medianInt_bounds _ med 1 _ hmed hd
    have hmed0 : (0 : Rat) ≤ med := le_trans (by norm_num) hm.1
    have hb := roundHalfEven_bounds (thr * med) _ (mul_nonneg h0 hmed0)
      (le_trans (mul_le_of_le_one_left hmed0 h1) hm.2)
    omega

end Beat
end Mir
